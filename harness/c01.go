//go:build verif

package main

import (
	"bytes"
	"encoding/hex"
	"fmt"
	"strings"

	"github.com/google/pprof/profile"
)

func init() { register("C01", runC01) }

type c01Case struct {
	Profile  string         `json:"profile,omitempty"`   // canonical token form
	Bytes    string         `json:"bytes,omitempty"`     // hex, for the accepted-bytes stream
	EditSeed uint64         `json:"edit_seed,omitempty"` // history stream: serialize, edit in memory (seeded), serialize again
	Inproc   *c01InprocSpec `json:"inproc,omitempty"`    // driver stream, in-process (c01_inproc.go): Profile through driver.PProf
	Large    *c01LargeSpec  `json:"large,omitempty"`     // large/compressible stream (c01_large.go): Profile is the BASE, inflated by this spec
	Profile2 string         `json:"profile2,omitempty"`  // file-history stream: the second (small) input
	Hist     *c01HistSpec   `json:"hist,omitempty"`      // file-history stream (c01_hist.go): one target path written several times
	CLI      *c01CLISpec    `json:"cli,omitempty"`       // driver stream (c01_cli.go): Profile through the real pprof binary
}

// editProfile applies 1..4 validity-preserving in-memory edits to p (the kind of thing pprof
// itself does between two serializations of one *Profile: filters, pruning, aggregation,
// symbolization): drop a location's mapping, retarget or drop lines, drop/relabel samples,
// clear header fields, remove a mapping/function that became unused.
func editProfile(r *Rng, p *profile.Profile) {
	for k, n := 0, 1+r.Intn(4); k < n; k++ {
		switch r.Intn(9) {
		case 0:
			if len(p.Location) > 0 {
				p.Location[r.Intn(len(p.Location))].Mapping = nil
			}
		case 1:
			if len(p.Location) > 0 && len(p.Mapping) > 0 {
				p.Location[r.Intn(len(p.Location))].Mapping = p.Mapping[r.Intn(len(p.Mapping))]
			}
		case 2:
			if len(p.Location) > 0 {
				l := p.Location[r.Intn(len(p.Location))]
				if len(l.Line) > 0 {
					l.Line = l.Line[:len(l.Line)-1]
				}
			}
		case 3:
			if len(p.Location) > 0 && len(p.Function) > 0 {
				l := p.Location[r.Intn(len(p.Location))]
				if len(l.Line) > 0 {
					l.Line[r.Intn(len(l.Line))].Function = p.Function[r.Intn(len(p.Function))]
				}
			}
		case 4:
			if len(p.Sample) > 0 {
				i := r.Intn(len(p.Sample))
				p.Sample = append(p.Sample[:i:i], p.Sample[i+1:]...)
			}
		case 5:
			if len(p.Sample) > 0 {
				s := p.Sample[r.Intn(len(p.Sample))]
				s.Label, s.NumLabel, s.NumUnit = nil, nil, nil
				if len(s.Location) > 1 {
					s.Location = s.Location[1:]
				}
			}
		case 6:
			p.PeriodType = nil
			p.Comments = nil
			p.DropFrames, p.KeepFrames, p.DocURL, p.DefaultSampleType = "", "", "", ""
		case 7:
			p.TimeNanos, p.DurationNanos, p.Period = 0, 0, 0
		case 8:
			for _, f := range p.Function {
				f.Name, f.SystemName, f.Filename = "", "", ""
			}
			for _, m := range p.Mapping {
				m.File, m.BuildID = "", ""
			}
		}
	}
}

// c01History: the property must hold for every serialization of a *Profile, not only the
// first one: serialize p, edit it in memory, serialize it again; the second image must be what
// a freshly built identical profile serializes to (the model is a pure function of the
// exported fields, so any residue of the first serialization is a disagreement AND a violation).
func c01History(c *Ctx, canon1 string, editSeed uint64) {
	p, err := ParseCanon(canon1)
	if err != nil {
		c.Res.HarnessError = "ParseCanon: " + err.Error()
		return
	}
	cs := c01Case{Profile: canon1, EditSeed: editSeed}
	if _, pn := writeU(p); pn != "" {
		return // reported by c01Profile
	}
	var cp *profile.Profile
	if pn := safely(func() { cp = p.Copy() }); pn != "" || cp == nil {
		return
	}
	editProfile(NewRng(editSeed), p)
	if p.CheckValid() != nil {
		c.Res.Hit("history-edit-invalid")
		return
	}
	canon2 := Canon(p)
	expected := c.Drv.Ask("codec.normalize " + canon2)
	b2, pn := writeU(p)
	if pn != "" {
		c.Violation("C01/history/write-panic", "second serialization of an edited profile panics: "+pn, cs)
		return
	}
	q, err := profile.ParseUncompressed(b2)
	if err != nil {
		c.Violation("C01/history/parse-error", "parse(write(p)) fails on the second serialization: "+err.Error(), cs)
		return
	}
	if Canon(q) != expected {
		c.Violation("C01/history/"+diffField(Canon(q), expected), "second serialization of an edited in-memory profile does not round-trip to normalize(p)", cs)
	}
	fresh, _ := ParseCanon(canon2)
	bf, _ := writeU(fresh)
	if !bytes.Equal(bf, b2) {
		c.Violation("C01/history/bytes-differ-from-fresh", "an edited profile serializes differently from an identical freshly built one", cs)
	}
	var cp2 *profile.Profile
	if pn := safely(func() { cp2 = p.Copy() }); pn == "" && cp2 != nil && Canon(cp2) != expected {
		c.Violation("C01/history/copy-"+diffField(Canon(cp2), expected), "Copy of an edited profile differs from normalize(p)", cs)
	}
	c.Res.ModelCompared++
	if mp := c.Drv.Ask("codec.parse " + hexTok(b2)); mp != "ok "+expected {
		c.Disagree("C01/history/model-parse/"+firstWord(mp), "model parser on Go's second-serialization bytes does not give normalize(p)", "correspondence Codec.serialize ~ WriteUncompressed (purity: output depends on exported fields only)", cs)
	}
}

// safely runs f, converting a panic into an error string.
func safely(f func()) (panicked string) {
	defer func() {
		if e := recover(); e != nil {
			panicked = fmt.Sprint(e)
		}
	}()
	f()
	return ""
}

func writeU(p *profile.Profile) ([]byte, string) {
	var buf bytes.Buffer
	pn := safely(func() { p.WriteUncompressed(&buf) })
	return buf.Bytes(), pn
}

func c01Profile(c *Ctx, canonIn string) {
	p, err := ParseCanon(canonIn)
	if err != nil {
		c.Res.HarnessError = "ParseCanon: " + err.Error()
		return
	}
	cs := c01Case{Profile: canonIn}
	expected := c.Drv.Ask("codec.normalize " + canonIn)
	goBytes, pn := writeU(p)
	if pn != "" {
		c.Violation("C01/write/panic", "WriteUncompressed panics on a valid profile: "+pn, cs)
		return
	}
	if Canon(p) != canonIn {
		c.Violation("C01/write/mutates-input", "WriteUncompressed changed exported fields of its argument", cs)
	}
	q, err := profile.ParseUncompressed(goBytes)
	if err != nil {
		c.Violation("C01/roundtrip/parse-error", "parse(write(p)) fails: "+err.Error(), cs)
		return
	}
	canonQ := Canon(q)
	if canonQ != expected {
		c.Violation("C01/roundtrip/"+diffField(canonQ, expected), "parse(write(p)) differs from normalize(p)", cs)
	}
	// gzip path
	var zb bytes.Buffer
	if pn := safely(func() { p.Write(&zb) }); pn != "" {
		c.Violation("C01/writegz/panic", pn, cs)
	} else if qz, err := profile.Parse(&zb); err != nil {
		// Parse also runs CheckValid; generated profiles are valid
		c.Violation("C01/roundtrip-gz/parse-error", err.Error(), cs)
	} else if Canon(qz) != expected {
		c.Violation("C01/roundtrip-gz/"+diffField(Canon(qz), expected), "Parse(Write(p)) differs from normalize(p)", cs)
	}
	// fixpoint
	b2, _ := writeU(q)
	if q2, err := profile.ParseUncompressed(b2); err != nil {
		c.Violation("C01/fixpoint/parse-error", err.Error(), cs)
	} else {
		if Canon(q2) != canonQ {
			c.Violation("C01/fixpoint/profile", "write-then-parse of a parser result is not the identity", cs)
		}
		b3, _ := writeU(q2)
		if !bytes.Equal(b2, b3) {
			c.Violation("C01/fixpoint/bytes", "re-serialization is not byte-identical", cs)
		}
	}
	// Copy
	var cp *profile.Profile
	if pn := safely(func() { cp = p.Copy() }); pn != "" {
		c.Violation("C01/copy/panic", pn, cs)
	} else if Canon(cp) != expected {
		c.Violation("C01/copy/"+diffField(Canon(cp), expected), "Copy differs from normalize(p)", cs)
	}
	// correspondence, both directions
	c.Res.ModelCompared++
	ms := c.Drv.Ask("codec.serialize " + canonIn)
	if !strings.HasPrefix(ms, "ok x") {
		c.Disagree("C01/model-serialize/"+firstWord(ms), "model serialize does not return bytes: "+trunc(ms), "correspondence Codec.serialize ~ Profile.WriteUncompressed", cs)
	} else {
		mb, _ := hex.DecodeString(ms[4:])
		if bytes.Equal(mb, goBytes) {
			c.Res.Hit("bytes-identical")
		} else {
			c.Res.Hit("bytes-differ")
		}
		if qm, err := profile.ParseUncompressed(mb); err != nil || Canon(qm) != expected {
			c.Disagree("C01/go-parse-of-model-bytes", "Go parser on the model's bytes does not give normalize(p)", "correspondence Codec.serialize ~ Profile.WriteUncompressed", cs)
		}
	}
	mp := c.Drv.Ask("codec.parse " + hexTok(goBytes))
	if mp != "ok "+expected {
		c.Disagree("C01/model-parse-of-go-bytes/"+firstWord(mp), "model parser on Go's bytes does not give normalize(p): "+trunc(mp), "theorem decode_encode / correspondence Codec.parseUncompressed ~ ParseUncompressed", cs)
	}
}

// c01Bytes: reading (2) of the property, on a byte string the parser accepts.
func c01Bytes(c *Ctx, b []byte) bool {
	cs := c01Case{Bytes: hex.EncodeToString(b)}
	var p *profile.Profile
	var err error
	if pn := safely(func() { p, err = profile.ParseData(b) }); pn != "" {
		c.Violation("C01/parse/panic", pn, cs) // also C02's business
		return false
	}
	if err != nil {
		return false
	}
	canonP := Canon(p)
	// The parser can return a label with an EMPTY string value / a zero numeric value with an EMPTY
	// unit when the input's string table holds a second empty string at a non-zero index. Such a
	// label "cannot be represented and is dropped" by the next write — the normalisation the
	// property allows — so the reference is normalize(p), exactly as for in-memory profiles, and the
	// byte-identity fixpoint is demanded from the first re-parse on.
	expected := c.Drv.Ask("codec.normalize " + canonP)
	if c.Drv == nil {
		expected = canonP
	}
	if expected != canonP {
		c.Res.Hit("accepted-not-normal-form")
	}
	b1, pn := writeU(p)
	if pn != "" {
		c.Violation("C01/accepted/write-panic", pn, cs)
		return true
	}
	p2, err := profile.ParseUncompressed(b1)
	if err != nil {
		c.Violation("C01/accepted/reparse-error", err.Error(), cs)
		return true
	}
	if Canon(p2) != expected {
		c.Violation("C01/accepted/"+diffField(Canon(p2), expected), "a parser result does not survive write-then-parse unchanged (up to the allowed normalisation)", cs)
	}
	b2, _ := writeU(p2)
	if p3, err := profile.ParseUncompressed(b2); err != nil || Canon(p3) != Canon(p2) {
		c.Violation("C01/accepted/second-roundtrip", "the re-parsed profile does not survive a second write-then-parse unchanged", cs)
	} else if b3, _ := writeU(p3); !bytes.Equal(b2, b3) {
		c.Violation("C01/accepted/bytes", "a parser result does not re-serialize to identical bytes", cs)
	}
	if expected == canonP && !bytes.Equal(b1, b2) {
		c.Violation("C01/accepted/bytes", "a parser result (already in normal form) does not re-serialize to identical bytes", cs)
	}
	// model agrees on uncompressed protobuf input
	if len(b) > 0 && !(len(b) >= 2 && b[0] == 0x1f && b[1] == 0x8b) {
		if q, err := profile.ParseUncompressed(b); err == nil {
			c.Res.ModelCompared++
			mp := c.Drv.Ask("codec.parse " + hexTok(b))
			if mp != "ok "+Canon(q) {
				c.Disagree("C01/model-parse-bytes/"+firstWord(mp), "model and Go parser differ on accepted bytes", "correspondence Codec.parseUncompressed ~ ParseUncompressed", cs)
			}
		}
	}
	return true
}

func firstWord(s string) string {
	if i := strings.IndexByte(s, ' '); i >= 0 {
		return s[:i]
	}
	return s
}
func trunc(s string) string {
	if len(s) > 200 {
		return s[:200] + "…"
	}
	return s
}

// diffField names the section of the canonical form where two profiles first differ, to make
// signatures specific (sampleType / sample / mapping / location / function / header).
func diffField(a, b string) string {
	pa, ea := ParseCanon(a)
	pb, eb := ParseCanon(b)
	if ea != nil || eb != nil {
		return "unparsable"
	}
	sec := func(f func(*tw, *profile.Profile)) bool {
		var x, y tw
		f(&x, pa)
		f(&y, pb)
		return x.String() != y.String()
	}
	switch {
	case sec(func(w *tw, p *profile.Profile) {
		for _, s := range p.SampleType {
			w.valueType(s)
		}
		w.n(len(p.SampleType))
	}):
		return "sampleType"
	case len(pa.Sample) != len(pb.Sample):
		return "sample-count"
	case sec(func(w *tw, p *profile.Profile) {
		for _, s := range p.Sample {
			w.n(len(s.Value))
			for _, v := range s.Value {
				w.int(v)
			}
		}
	}):
		return "sample-values"
	case sec(func(w *tw, p *profile.Profile) {
		for _, s := range p.Sample {
			w.n(len(s.Location))
			for _, l := range s.Location {
				if l != nil {
					w.nat(l.ID)
				} else {
					w.nat(0)
				}
			}
		}
	}):
		return "sample-locations"
	case sec(func(w *tw, p *profile.Profile) {
		for _, s := range p.Sample {
			w.sample(s)
		}
	}):
		return "sample-labels"
	case sec(func(w *tw, p *profile.Profile) {
		q := *p
		q.Sample = nil
		q.Location = nil
		q.Function = nil
		w.profile(&profile.Profile{Mapping: q.Mapping})
	}):
		return "mapping"
	case sec(func(w *tw, p *profile.Profile) { w.profile(&profile.Profile{Location: p.Location}) }):
		return "location"
	case sec(func(w *tw, p *profile.Profile) { w.profile(&profile.Profile{Function: p.Function}) }):
		return "function"
	}
	return "header"
}

var c01Strategies = []struct {
	name string
	o    GenOpts
}{
	{"plain", GenOpts{Labels: true, Header: true}},
	{"sparse-ids", GenOpts{SparseIDs: true, Labels: true, Header: true, MaxLocs: 14, MaxFuncs: 10}},
	{"weird-strings", GenOpts{WeirdStrings: true, Labels: true, Header: true}},
	{"extreme", GenOpts{ExtremeValues: true, SparseIDs: true, Labels: true, Header: true, MaxSampleTypes: 5, AllowNoTypes: true}},
	{"shapes", GenOpts{EmptyStacks: true, MaxLines: 5, MaxDepth: 12, MaxSamples: 30, Labels: true, WeirdStrings: true}},
	{"defaults", GenOpts{Labels: true, Header: true, MaxSampleTypes: 4, AllDefault: true}},
}

func runC01(c *Ctx) {
	c.Res.Rule = "structured valid profiles from 6 strategies (plain, sparse/huge ids, weird strings, extreme ints, shapes, all-default elements), each also as a 2-step history (serialize, seeded in-memory edit, serialize again) + mutated accepted byte strings; + large/highly compressible profiles (a base profile of any strategy inflated by 10^3…10^5 repeated samples, comments or label values, or one long periodic string, to 64 KiB … 16 MiB uncompressed and 100:1 … >1000:1 under gzip, padded so that the uncompressed size lands exactly on / next to 64 KiB·k and 2^16…2^21; compressed and uncompressed round trip against the inflated normalize(base)) + driver level: the same 6 strategies through the real pprof binary (`-proto -output=f in`, plain / with options that must not change a saved profile / -divide_by=d, and interactive sessions with `proto >f` between other commands; one process per case) and through driver.PProf in-process (interactive sessions via the profile copier, web requests then GET /download), output re-read and compared by value with normalize(input); + write-to-file histories through the driver's default writer (one target path written several times across pprof runs, within an interactive session, and within an in-process driver.PProf session: -proto/-raw/-top/-traces, two inputs of different size, focus expressions; target absent, empty, short/longer garbage, longer valid profile, longer read-only file, directory; after every proto write the file is re-read and compared with a fresh write of the same command and with normalize(input)); non-trivial = has ≥1 sample with ≥1 location having ≥1 line (profile and driver streams) or accepted by the parser with ≥1 sample (byte stream) or a proto write over LONGER previous content was checked (file histories); distinct by canonical text (+ mode/flags/script for driver cases)"
	if c.Replay != "" {
		var cs c01Case
		if err := c.LoadReplay(&cs); err != nil {
			c.Res.HarnessError = err.Error()
			return
		}
		if cs.Profile != "" && cs.Large != nil {
			c01Large(c, cs.Profile, *cs.Large)
		} else if cs.Profile != "" && cs.Hist != nil {
			c01HistEval(c, cs, c01HistExec(c, cs, 0))
		} else if cs.Profile != "" && cs.Inproc != nil {
			c01InprocEval(c, cs.Profile, *cs.Inproc, c01InprocExec(cs.Profile, *cs.Inproc))
		} else if cs.Profile != "" && cs.CLI != nil {
			c01CLIEval(c, cs.Profile, *cs.CLI, c01CLIExec(c, cs.Profile, *cs.CLI, 0))
		} else if cs.Profile != "" && cs.EditSeed != 0 {
			c01History(c, cs.Profile, cs.EditSeed)
		} else if cs.Profile != "" {
			c01Profile(c, cs.Profile)
		} else {
			b, _ := hex.DecodeString(cs.Bytes)
			c01Bytes(c, b)
		}
		c.Res.Evaluations++
		return
	}
	r := NewRng(c.Seed)
	n := 400 * c.Scale
	for i := 0; i < n; i++ {
		st := c01Strategies[i%len(c01Strategies)]
		p := GenProfile(r, &st.o)
		canon := Canon(p)
		nt := false
		for _, s := range p.Sample {
			for _, l := range s.Location {
				if len(l.Line) > 0 {
					nt = true
				}
			}
		}
		c.Res.Count(canon, nt)
		c.Res.Hit("strategy:" + st.name)
		if i < 2 {
			c.Res.Sample(map[string]string{"strategy": st.name, "shape": describe(p), "profile": trunc(canon)})
		}
		c01Profile(c, canon)
		for k := 0; k < 2; k++ {
			es := r.U64() | 1
			c01History(c, canon, es)
			c.Res.Hit("history-cases")
		}
		// byte stream: mutate the valid encoding
		b, _ := writeU(p)
		for k := 0; k < 3; k++ {
			mb := mutateBytes(r, b)
			acc := c01Bytes(c, mb)
			if acc {
				c.Res.Hit("mutated-accepted")
			} else {
				c.Res.Hit("mutated-rejected")
			}
			c.Res.Count("b:"+hex.EncodeToString(mb), acc)
		}
	}
	// large, highly compressible profiles (Write and WriteUncompressed), sizes on 64 KiB·k / 2^k boundaries
	c01LargeStream(c, NewRng(c.Seed^0xC01B16), 12*c.Scale)
	// driver level: the same strategies through the real pprof binary (own PRNG stream, so that the
	// in-process streams above do not depend on it)
	c01CLIStream(c, NewRng(c.Seed^0xC01C11), 240*c.Scale)
	c01InprocStream(c, NewRng(c.Seed^0xC01D21), 180*c.Scale)
	c01HistStream(c, NewRng(c.Seed^0xC01F11E), 72*c.Scale, 48*c.Scale)
}
