//go:build verif

package main

// C13, observation point "weblist/disasm on a biased mapping": a real PIE built with gcc is listed
// through report.MakeWebList with the real Binutils at several load biases. Metamorphic oracle: the
// per-instruction listing of the sampled function is the same at every bias (same number of
// instructions, same addresses after subtracting the bias) and is not empty; an instruction
// that is looked up at the wrong (link-time vs runtime) address drops out of the listing.

import (
	"debug/elf"
	"fmt"
	"os"
	"os/exec"
	"path/filepath"
	"regexp"
	"sort"

	"github.com/google/pprof/internal/binutils"
	"github.com/google/pprof/internal/report"
	"github.com/google/pprof/profile"
)

// pad() keeps busy() well inside the text mapping: the listing widens its address range a little
// below the first sample, and an address below the mapping start is (rightly) refused.
const c13WeblistSrc = `volatile int sink;
#define P4 sink++; sink++; sink++; sink++;
#define P16 P4 P4 P4 P4
#define P64 P16 P16 P16 P16
__attribute__((noinline)) void pad(void) { P64 P64 P64 P64 }
__attribute__((noinline)) int busy(int n) {
  int s = 0;
  for (int i = 0; i < n; i++) { s += i * i; sink = s; }
  return s;
}
int main(void) { pad(); return busy(1000) & 1; }
`

type c13WeblistCase struct {
	Kind   string `json:"kind"` // "weblist"
	Biases []hx   `json:"biases"`
}

func (e *c13Env) runWeblist(cs *c13WeblistCase) {
	c := e.c
	for _, t := range []string{"gcc", "objdump"} {
		if _, err := exec.LookPath(t); err != nil {
			c.Res.Notes = append(c.Res.Notes, "weblist stream skipped: "+t+" not available")
			return
		}
	}
	dir := filepath.Join(e.dir, "weblist")
	os.MkdirAll(dir, 0o755)
	src, bin := filepath.Join(dir, "wl.c"), filepath.Join(dir, "wl.bin")
	os.WriteFile(src, []byte(c13WeblistSrc), 0o644)
	if out, err := exec.Command("gcc", "-g", "-O1", "-pie", "-fPIE", "-o", bin, src).CombinedOutput(); err != nil {
		c.Res.Notes = append(c.Res.Notes, "weblist stream skipped: gcc failed: "+trunc13(string(out)))
		return
	}
	ef, err := elf.Open(bin)
	if err != nil {
		c.Res.Notes = append(c.Res.Notes, "weblist stream skipped: "+err.Error())
		return
	}
	var busy elf.Symbol
	syms, _ := ef.Symbols()
	for _, s := range syms {
		if s.Name == "busy" {
			busy = s
		}
	}
	var seg *elf.Prog
	for _, p := range ef.Progs {
		if p.Type == elf.PT_LOAD && p.Flags&elf.PF_X != 0 && busy.Value >= p.Vaddr && busy.Value < p.Vaddr+p.Memsz {
			seg = p
		}
	}
	ef.Close()
	if seg == nil || busy.Size == 0 || ef.Type != elf.ET_DYN {
		c.Res.Notes = append(c.Res.Notes, "weblist stream skipped: no ET_DYN text segment with symbol busy")
		return
	}
	listing := func(bias uint64) (addrs []uint64, msg string) {
		m := &profile.Mapping{ID: 1, Start: bias + pageStart(seg.Vaddr, 4096), Limit: bias + pageAlign(seg.Vaddr+seg.Filesz, 4096),
			Offset: seg.Off - seg.Vaddr%4096, File: bin, HasFunctions: true, HasFilenames: true, HasLineNumbers: true}
		fn := &profile.Function{ID: 1, Name: "busy", SystemName: "busy", Filename: src, StartLine: 6}
		p := &profile.Profile{SampleType: []*profile.ValueType{{Type: "samples", Unit: "count"}}, Mapping: []*profile.Mapping{m}, Function: []*profile.Function{fn}}
		for i, k := 0, uint64(0); k < busy.Size; i, k = i+1, k+7 {
			l := &profile.Location{ID: uint64(i + 1), Mapping: m, Address: bias + busy.Value + k, Line: []profile.Line{{Function: fn, Line: 8}}}
			p.Location = append(p.Location, l)
			p.Sample = append(p.Sample, &profile.Sample{Location: []*profile.Location{l}, Value: []int64{1}})
		}
		rpt := report.New(p, &report.Options{OutputFormat: report.WebList, Symbol: regexp.MustCompile("^busy$"),
			SampleValue: func(v []int64) int64 { return v[0] }, SampleUnit: "count", SourcePath: dir})
		var res report.WebListData
		var err error
		if pn := c13Safely(func() { res, err = report.MakeWebList(rpt, &binutils.Binutils{}, -1) }); pn != "" || err != nil {
			return nil, fmt.Sprintf("MakeWebList: %v %v", pn, err)
		}
		if os.Getenv("C13_WL_DEBUG") != "" {
			fmt.Fprintf(os.Stderr, "WL bias %#x: %+v\n", bias, res)
		}
		for _, f := range res.Files {
			for _, fu := range f.Funcs {
				for _, ln := range fu.Lines {
					for _, in := range ln.Instructions {
						if !in.Synthetic {
							a := in.Address
							if a >= bias+busy.Value && a-bias < busy.Value+busy.Size {
								a -= bias // runtime convention
							}
							addrs = append(addrs, a)
						}
					}
				}
			}
		}
		sort.Slice(addrs, func(i, j int) bool { return addrs[i] < addrs[j] })
		return addrs, ""
	}
	ref, msg := listing(0)
	if msg != "" || len(ref) == 0 {
		c.Res.Notes = append(c.Res.Notes, fmt.Sprintf("weblist stream skipped: no listing at bias 0 (%s, %d instructions)", msg, len(ref)))
		return
	}
	c.Res.Hit(fmt.Sprintf("weblist:instructions-at-bias-0=%d", min(len(ref), 50)))
	for _, b := range cs.Biases {
		got, msg := listing(uint64(b))
		c.Res.Hit("weblist:biased-listings")
		if msg != "" {
			c.Violation("C13/weblist/error-on-biased-mapping", fmt.Sprintf("bias %#x: %s (bias 0 lists %d instructions)", uint64(b), msg, len(ref)), cs)
			return
		}
		if fmt.Sprint(got) != fmt.Sprint(ref) {
			c.Violation("C13/weblist/biased-mapping-loses-instructions", fmt.Sprintf("weblist of busy() in a gcc -pie binary mapped at bias %#x lists %d instructions, at bias 0 it lists %d: instructions are looked up at the wrong address (link-time vs runtime)", uint64(b), len(got), len(ref)), cs)
			return
		}
	}
}
