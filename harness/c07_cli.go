//go:build verif

package main

import (
	"bytes"
	"context"
	"fmt"
	"os"
	"os/exec"
	"path/filepath"
	"regexp"
	"sort"
	"strconv"
	"strings"
	"time"
)

type c07Proc struct {
	Stdout []byte
	Stderr string
	RC     int
}

type c07CLIOut struct {
	Files    []string // sources then bases
	ProtoAll *c07Proc
	TopAll   *c07Proc
	TrAll    *c07Proc
	TopX     []*c07Proc // per input profile (sources then bases)
	TrX      []*c07Proc
	TopBases *c07Proc // all bases together (diff_base with several bases)
	TopRe    *c07Proc // report of the reopened -proto output
	TrRe     *c07Proc
	Err      string
}

func (run *c07Run) pprof(dir string, sem chan struct{}, args ...string) *c07Proc {
	sem <- struct{}{}
	defer func() { <-sem }()
	ctx, cancel := context.WithTimeout(context.Background(), 120*time.Second)
	defer cancel()
	cmd := exec.CommandContext(ctx, run.c.Pprof, args...)
	cmd.Dir = dir
	cmd.Env = []string{"HOME=" + dir, "PPROF_TMPDIR=" + filepath.Join(dir, "tmp"), "PATH=/usr/bin:/bin"}
	var so, se bytes.Buffer
	cmd.Stdout, cmd.Stderr = &so, &se
	err := cmd.Run()
	p := &c07Proc{Stdout: so.Bytes(), Stderr: se.String()}
	if err != nil {
		p.RC = 1
		if ee, ok := err.(*exec.ExitError); ok {
			p.RC = ee.ExitCode()
		} else {
			p.RC = -1
			p.Stderr += " " + err.Error()
		}
	}
	return p
}

func c07ReportFlags(cs *c07Case) []string {
	f := []string{"-symbolize=none", "-nodecount=1000000", "-nodefraction=0", "-edgefraction=0",
		"-sample_index=" + cs.Index, "-unit=" + c07DisplayUnit(c07TypeFam(cs.Index))}
	switch cs.Gran {
	case "lines", "files", "addresses", "filefunctions":
		f = append(f, "-"+cs.Gran)
	}
	return f
}

func (run *c07Run) runCLI(i int, cs *c07Case, sem chan struct{}) *c07CLIOut {
	o := &c07CLIOut{}
	if run.c.Pprof == "" {
		o.Err = "no pprof binary"
		return o
	}
	dir := run.caseDir(i)
	var srcF, baseF []string
	all := append(append([]c07Prof(nil), cs.Sources...), cs.Bases...)
	for k := range all {
		name := fmt.Sprintf("src%d.pb.gz", k)
		if k >= len(cs.Sources) {
			name = fmt.Sprintf("base%d.pb.gz", k-len(cs.Sources))
		}
		f, err := os.Create(filepath.Join(dir, name))
		if err == nil {
			err = c07Build(&all[k], k+1).Write(f)
			f.Close()
		}
		if err != nil {
			o.Err = err.Error()
			return o
		}
		if k < len(cs.Sources) {
			srcF = append(srcF, name)
		} else {
			baseF = append(baseF, name)
		}
	}
	o.Files = append(append([]string(nil), srcF...), baseF...)
	var inputs []string
	flag := "-base"
	if cs.Mode == "diff_base" {
		flag = "-diff_base"
	}
	if cs.Mode != "plain" {
		for _, b := range baseF {
			inputs = append(inputs, flag+"="+b)
		}
	}
	if cs.Normalize {
		inputs = append(inputs, "-normalize")
	}
	inputs = append(inputs, srcF...)
	rf := c07ReportFlags(cs)
	cat := func(xs ...[]string) []string {
		var out []string
		for _, x := range xs {
			out = append(out, x...)
		}
		return out
	}
	o.ProtoAll = run.pprof(dir, sem, cat([]string{"-symbolize=none", "-proto"}, inputs)...)
	if o.ProtoAll.RC != 0 {
		return o
	}
	o.TopAll = run.pprof(dir, sem, cat(rf, []string{"-top"}, inputs)...)
	o.TrAll = run.pprof(dir, sem, cat(rf, []string{"-traces"}, inputs)...)
	if err := os.WriteFile(filepath.Join(dir, "out.pb.gz"), o.ProtoAll.Stdout, 0o644); err != nil {
		o.Err = err.Error()
		return o
	}
	o.TopRe = run.pprof(dir, sem, cat(rf, []string{"-top", "out.pb.gz"})...)
	o.TrRe = run.pprof(dir, sem, cat(rf, []string{"-traces", "out.pb.gz"})...)
	for _, f := range o.Files {
		o.TopX = append(o.TopX, run.pprof(dir, sem, cat(rf, []string{"-top", f})...))
		o.TrX = append(o.TrX, run.pprof(dir, sem, cat(rf, []string{"-traces", f})...))
	}
	if cs.Mode == "diff_base" && len(baseF) > 1 {
		o.TopBases = run.pprof(dir, sem, cat(rf, []string{"-top"}, baseF)...)
	}
	return o
}

// ---- parsers of the text reports ------------------------------------------------------------

var c07NumRe = regexp.MustCompile(`^(-?[0-9]+)(\.[0-9]+)?([^0-9.]*)$`)

// c07Num parses a displayed value ("123B", "-5ns", "0", "17"); ok=false when it is not an integer.
func c07Num(s string) (int64, bool) {
	m := c07NumRe.FindStringSubmatch(s)
	if m == nil || m[2] != "" {
		return 0, false
	}
	v, err := strconv.ParseInt(m[1], 10, 64)
	return v, err == nil
}

type c07TopRow struct {
	Flat, Cum       int64
	FlatPct, CumPct string
}

type c07Top struct {
	Total int64
	Rows  map[string]c07TopRow
	Lines []string // from "Showing nodes" on, sorted
	Bad   string
	Dup   string // an entry name listed more than once (rows summed when sumDup)
}

var c07TotalRe = regexp.MustCompile(`of (\S+) total`)

func c07ParseTop(out []byte, sumDup ...bool) *c07Top {
	t := &c07Top{Rows: map[string]c07TopRow{}}
	lines := strings.Split(string(out), "\n")
	start := -1
	for i, l := range lines {
		if strings.HasPrefix(l, "Showing nodes accounting for") {
			start = i
			break
		}
	}
	if start < 0 {
		t.Bad = "no 'Showing nodes' line"
		return t
	}
	m := c07TotalRe.FindStringSubmatch(lines[start])
	if m == nil {
		t.Bad = "no total"
		return t
	}
	var ok bool
	if t.Total, ok = c07Num(m[1]); !ok {
		t.Bad = "total not an integer: " + m[1]
		return t
	}
	inRows := false
	for _, l := range lines[start:] {
		if strings.TrimSpace(l) != "" {
			t.Lines = append(t.Lines, l)
		}
		if !inRows {
			if strings.Contains(l, "flat%") {
				inRows = true
			}
			continue
		}
		f := strings.Fields(l)
		if len(f) < 6 {
			continue
		}
		flat, ok1 := c07Num(f[0])
		cum, ok2 := c07Num(f[3])
		if !ok1 || !ok2 {
			t.Bad = "row value not an integer: " + l
			return t
		}
		name := strings.TrimSuffix(strings.TrimSuffix(strings.Join(f[5:], " "), " (inline)"), " (partial-inline)")
		if old, dup := t.Rows[name]; dup {
			if len(sumDup) == 0 || !sumDup[0] {
				t.Bad = "entry listed twice: " + name
				return t
			}
			// rows with the same name are taken together (their sum is again a figure of the report)
			t.Dup = name
			flat, cum = flat+old.Flat, cum+old.Cum
		}
		t.Rows[name] = c07TopRow{flat, cum, f[1], f[4]}
	}
	sort.Strings(t.Lines)
	return t
}

// c07ParseTraces: printed stack (labels other than pprof::base + frame names) -> summed value
func c07ParseTraces(out []byte) (map[string]int64, string) {
	res := map[string]int64{}
	blocks := strings.Split(string(out), "-----------+-------------------------------------------------------")
	if len(blocks) < 2 {
		return res, "no separator"
	}
	for _, b := range blocks[1:] {
		var key []string
		var val int64
		seenVal := false
		for _, l := range strings.Split(b, "\n") {
			if strings.TrimSpace(l) == "" {
				continue
			}
			f := strings.Fields(l)
			if !seenVal && len(f) >= 2 && strings.HasSuffix(f[0], ":") {
				if f[0] != "pprof::base:" {
					key = append(key, strings.Join(f, " "))
				}
				continue
			}
			if !seenVal {
				v, ok := c07Num(f[0])
				if !ok || len(f) < 2 {
					return res, "value not an integer: " + l
				}
				val, seenVal = v, true
				key = append(key, strings.Join(f[1:], " "))
				continue
			}
			key = append(key, strings.Join(f, " "))
		}
		if seenVal {
			res[strings.Join(key, " < ")] += val
		}
	}
	return res, ""
}
