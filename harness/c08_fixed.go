//go:build verif

package main

// Which of C08's former `known` findings are repaired in the tree under test.  While a flag is
// false the corresponding mechanism — verified on the real code, see c08IsKnownCallTree and the
// "spaces" stream in c08Judge — is reported under its known signature; once the fix is committed the
// flag is set to true (harness/c08_fixed.go.after-fix) and the same observation is an ordinary
// VIOLATION again.
const (
	c08CallTreeFixed      = true // fixes/C08-calltree-deterministic.patch
	c08SprintCollisionFix = true // fixes/C08-comparenodes-fieldwise-tiebreak.patch
)
