//go:build verif

package main

// The web path of C17: driver.PProf with -http and the HTTPServer plug-in hook (as
// internal/driver/webui_test.go does with serveWebInterface), then the /flamegraph handler is
// called directly with a recorded request; the JSON is the first argument of stackViewer(…) in
// the served page.

import (
	"bytes"
	"encoding/json"
	"fmt"
	"net/http"
	"net/http/httptest"
	"net/url"
	"time"

	"github.com/google/pprof/internal/driver"
	"github.com/google/pprof/internal/plugin"
	"github.com/google/pprof/profile"
)

type c17Flags struct {
	bools   map[string]bool
	strings map[string]string
	args    []string
}

func (c17Flags) ExtraUsage() string      { return "" }
func (c17Flags) AddExtraUsage(eu string) {}
func (f c17Flags) Bool(s string, d bool, c string) *bool {
	if b, ok := f.bools[s]; ok {
		return &b
	}
	return &d
}
func (f c17Flags) Int(s string, d int, c string) *int             { return &d }
func (f c17Flags) Float64(s string, d float64, c string) *float64 { return &d }
func (f c17Flags) String(s, d, c string) *string {
	if t, ok := f.strings[s]; ok {
		return &t
	}
	return &d
}
func (f c17Flags) StringList(s, d, c string) *[]*string { return &[]*string{} }
func (f c17Flags) Parse(func()) []string                { return f.args }

type c17Fetcher struct{ p *profile.Profile }

func (f c17Fetcher) Fetch(src string, duration, timeout time.Duration) (*profile.Profile, string, error) {
	return f.p.Copy(), "", nil
}

type c17Sym struct{}

func (c17Sym) Symbolize(mode string, srcs plugin.MappingSources, prof *profile.Profile) error {
	return nil
}

type c17Obj struct{}

func (c17Obj) Open(file string, start, limit, offset uint64, relocationSymbol string) (plugin.ObjFile, error) {
	return nil, fmt.Errorf("no object files in this harness")
}
func (c17Obj) Disasm(file string, start, end uint64, intelSyntax bool) ([]plugin.Inst, error) {
	return nil, fmt.Errorf("no disassembler in this harness")
}

type c17UI struct{ errs []string }

func (u *c17UI) ReadLine(prompt string) (string, error)       { return "", fmt.Errorf("no input") }
func (u *c17UI) Print(args ...interface{})                    {}
func (u *c17UI) PrintErr(args ...interface{})                 { u.errs = append(u.errs, fmt.Sprint(args...)) }
func (u *c17UI) IsTerminal() bool                             { return false }
func (u *c17UI) WantBrowser() bool                            { return false }
func (u *c17UI) SetAutoComplete(complete func(string) string) {}

func (rq c17Req) query() string {
	q := url.Values{}
	if si := rq.siText(); si != "" {
		q.Set("si", si)
	}
	if rq.Gran != "" {
		q.Set("g", rq.Gran)
	}
	if rq.NoInlines {
		q.Set("noinlines", "true")
	}
	if rq.ShowColumns {
		q.Set("showcolumns", "true")
	}
	for k, v := range rq.Filters {
		q.Set(k, v)
	}
	return q.Encode()
}

// c17WebSession starts ONE web UI (driver.PProf -http with the HTTPServer hook) and issues the
// requests in order on its /flamegraph handler; it returns the JSON text embedded in each page,
// or a short error word + detail.
func c17WebSession(p *profile.Profile, reqs []c17Req, trimPath, sourcePath string) (out [][]byte, werr string) {
	hooked := false
	ui := &c17UI{}
	server := func(a *plugin.HTTPServerArgs) error {
		hooked = true
		h := a.Handlers["/flamegraph"]
		if h == nil {
			return fmt.Errorf("no /flamegraph handler")
		}
		for n, rq := range reqs {
			rec := httptest.NewRecorder()
			req := httptest.NewRequest(http.MethodGet, "http://localhost:1234/flamegraph?"+rq.query(), nil)
			h.ServeHTTP(rec, req)
			page := rec.Body.Bytes()
			if rec.Code != http.StatusOK {
				return fmt.Errorf("status %d at request %d: %s", rec.Code, n, c17Trunc(string(page)))
			}
			marker := []byte("stackViewer(")
			i := bytes.LastIndex(page, marker)
			if i < 0 {
				return fmt.Errorf("nomarker page %d has no stackViewer( call", n)
			}
			dec := json.NewDecoder(bytes.NewReader(page[i+len(marker):]))
			var raw json.RawMessage
			if err := dec.Decode(&raw); err != nil {
				return fmt.Errorf("badjson %v", err)
			}
			out = append(out, raw)
		}
		return nil
	}
	var err error
	pn := c17Safely(func() {
		err = driver.PProf(&plugin.Options{
			Flagset: c17Flags{
				bools: map[string]bool{"no_browser": true},
				// the driver's configuration is process-wide and flag defaults are its current values:
				// trim_path and source_path are always given explicitly
				strings: map[string]string{"http": "localhost:1234", "trim_path": trimPath, "source_path": sourcePath},
				args:    []string{"c17-profile"},
			},
			Fetch:      c17Fetcher{p},
			Sym:        c17Sym{},
			Obj:        c17Obj{},
			UI:         ui,
			HTTPServer: server,
		})
	})
	switch {
	case pn != "":
		return nil, "panic " + pn
	case err != nil && hooked:
		return nil, err.Error()
	case err != nil:
		return nil, "error " + err.Error()
	case !hooked:
		return nil, "nohook the HTTPServer hook was not called"
	}
	return out, ""
}
