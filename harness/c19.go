//go:build verif

package main

// C19 — saved view configurations are durable and faithfully restored.
//
//	(i)   sequences of save / delete / menu / apply requests through the real handlers: direct
//	      oracle (saved options intact, URL round trip, other names untouched, failed request
//	      leaves the file alone) + correspondence with the Lean model (settings.handle, settings.menu);
//	(ii)  syscall-trace refinement of one save (c19_trace.go): strace → model ops → fs.accepts;
//	(iii) fault enumeration (c19_trace.go): write errors and kills at every write / byte position / rename;
//	(iv)  concurrent save/delete requests against one server (c19_conc.go): some serial order.
//
// The harness binary re-executes itself as the "save helper" (one request, then exit) when
// PVH_C19_HELPER is set — see c19_trace.go.

import (
	"bytes"
	"fmt"
	"net/url"
	"os"
	"os/signal"
	"path/filepath"
	"sort"
	"strings"
	"syscall"
)

func init() {
	c19HelperMain() // no-op unless PVH_C19_HELPER is set (then it never returns)
	register("C19", runC19)
}

func c19Safely(f func()) (panicked string) {
	defer func() {
		if e := recover(); e != nil {
			panicked = fmt.Sprint(e)
		}
	}()
	f()
	return ""
}

func c19Trunc(s string) string {
	if len(s) > 300 {
		return s[:300] + "…"
	}
	return s
}

// c19Intent: what the generator meant a parameter text to be.
type c19Intent struct {
	Kind string `json:"k"` // val | unset | err | encfail (parses, but JSON cannot carry it)
	Val  c19Val `json:"v"`
}

type c19Step struct {
	Op     string               `json:"op"` // seed | extern-rm | extern-drop | save | delete | menu | apply
	Name   string               `json:"name,omitempty"`
	Params map[string]string    `json:"params,omitempty"` // URL parameters (without "config")
	Intent map[string]c19Intent `json:"intent,omitempty"` // per URL parameter of a config field
	Page   map[string]string    `json:"page,omitempty"`   // query of the page whose menu is read
	Raw    string               `json:"raw,omitempty"`    // seed: contents written to settings.json
	Enc    string               `json:"enc,omitempty"`    // "" = form encoding (space "+"), "raw" = %20
	FailAt string               `json:"fail_at,omitempty"` // the file system accepts only this many bytes during the request: "0" "1" "mid" "last-1" or a number
}

type c19Case struct {
	Kind  string    `json:"kind"` // seq | trace | fault | conc
	Steps []c19Step `json:"steps,omitempty"`
	// trace / fault
	Old    []c19Step `json:"old,omitempty"` // requests that build the previous file contents
	Save   *c19Step  `json:"save,omitempty"`
	Fault  string    `json:"fault,omitempty"` // e.g. write-error:1, kill-at-write:1, fsize:17, fsize-kill:17, kill-at-rename:1
	WritesBefore int `json:"writes_before,omitempty"` // write(2) calls of the helper's main thread before the request
	OpsTok string    `json:"model_ops,omitempty"`
	Point  string    `json:"crash_point,omitempty"`
	// conc
	Init   []c19Step `json:"init,omitempty"`
	Reqs   []c19Step `json:"reqs,omitempty"`
	Rounds int       `json:"rounds,omitempty"`
	// session
	Field string `json:"field,omitempty"` // a saved option without URL parameter
	// restart: leftover temp files (name suffix after "settings.json", length of the prefix of the new
	// contents they hold; -1 = garbage) next to the old settings file
	Leftovers []c19Leftover `json:"leftovers,omitempty"`
	Note   string    `json:"note,omitempty"`
}

func c19Values(m map[string]string) url.Values {
	q := url.Values{}
	for k, v := range m {
		q.Set(k, v)
	}
	return q
}

func (s c19Step) saveQuery() url.Values {
	q := c19Values(s.Params)
	q.Set("config", s.Name)
	return q
}

// c19Encode renders a query the way the web UI's common.js does (URL.searchParams.set: form encoding,
// space as "+") or, with enc "raw", as a percent-encoded raw query (encodeURIComponent: space as
// "%20").  Both decode, ONCE, to the same values.
func c19Encode(q url.Values, enc string) string {
	out := q.Encode() // a literal "+" in a value is %2B here, so every "+" is a space
	if enc == "raw" {
		out = strings.ReplaceAll(out, "+", "%20")
	}
	return out
}

func (s c19Step) request() string {
	switch s.Op {
	case "save":
		return "/saveconfig?" + c19Encode(s.saveQuery(), s.Enc)
	case "delete":
		return "/deleteconfig?" + c19Encode(url.Values{"config": {s.Name}}, s.Enc)
	}
	return ""
}

func (s c19Step) reqTok() string {
	if s.Op == "delete" {
		return "delete " + hexTok([]byte(s.Name))
	}
	return "save " + c19QueryTok(s.saveQuery())
}

// ---------------- generators ----------------

var c19Strings = []string{"main", "foo|bar", "a b", `"q"`, `back\slash`, "<&>", "ü€😀", "%41", "a+b", "x;y", "k=v", "#frag", "tab\there", "nl\nhere", "^(runtime|sync)\\.", ".*", "minimum", "flat", "true", "0", " lead", "ms",
	"%20", "%2B", "%25", "100%", "a%20b", "cpu+hot", "?x=1", "/usr/lib", "a&b=c", "%", "+", "%zz", strings.Repeat("long+%25 ", 200)}

func c19GenParam(r *Rng, f c19Field) (string, c19Intent) {
	val := func(v c19Val) c19Intent { return c19Intent{Kind: "val", Val: v} }
	if r.Chance(6) {
		return "", c19Intent{Kind: "unset"}
	}
	switch f.Kind {
	case "bool":
		if r.Chance(5) {
			return r.Pick([]string{"maybe", "2", "tr", "nope"}), c19Intent{Kind: "err"}
		}
		if r.Bool() {
			return r.Pick([]string{"true", "t", "T", "TRUE", "yes", "y", "1", "Yes"}), val(c19Val{K: 'b', B: true})
		}
		return r.Pick([]string{"false", "f", "F", "no", "n", "0", "False"}), val(c19Val{K: 'b', B: false})
	case "int":
		if r.Chance(8) {
			return r.Pick([]string{"9223372036854775808", "-9223372036854775809", "1.5", "abc", "--1", "+", "1_000", " 1"}), c19Intent{Kind: "err"}
		}
		type iv struct {
			s string
			v int64
		}
		ch := []iv{{"0", 0}, {"-1", -1}, {"20", 20}, {"+5", 5}, {"007", 7}, {"-0", 0}, {"1000000", 1000000},
			{"9223372036854775807", 9223372036854775807}, {"-9223372036854775808", -9223372036854775808}, {"80", 80}, {"1", 1}}
		if r.Chance(30) {
			n := int64(r.Intn(500)) - 50
			return fmt.Sprint(n), val(c19Val{K: 'i', I: n})
		}
		p := ch[r.Intn(len(ch))]
		return p.s, val(c19Val{K: 'i', I: p.v})
	case "float":
		if r.Chance(6) {
			return r.Pick([]string{"abc", "1.2.3", "--1", " 1", "1e"}), c19Intent{Kind: "err"}
		}
		if r.Chance(5) {
			return r.Pick([]string{"NaN", "Inf", "-Inf", "+Inf", "infinity", "nan"}), c19Intent{Kind: "encfail"}
		}
		s := r.Pick([]string{"0", "0.005", "1e-3", "0.5", "1", "-0.25", "1e21", "1e-7", "0x1p-2", ".5", "5.", "1E2", "0.001", "0.1", "123456789.125", "1e300", "5e-324", "0.30000000000000004"})
		if r.Chance(25) {
			s = fmt.Sprintf("0.%03d", r.Intn(1000))
		}
		ct, _ := c19CanonFloat(s)
		return s, val(c19Val{K: 'f', S: ct})
	case "choice":
		if r.Chance(8) {
			return r.Pick([]string{"bogus", "Cum", "FLAT", " lines"}), c19Intent{Kind: "err"}
		}
		s := f.Choices[r.Intn(len(f.Choices))]
		return s, val(c19Val{K: 's', S: s})
	}
	s := c19Strings[r.Intn(len(c19Strings))]
	if r.Chance(20) {
		s = s + c19Strings[r.Intn(len(c19Strings))]
	}
	return s, val(c19Val{K: 's', S: s})
}

var c19Names = []string{"a", "b", "c", "x y", "ü", "A&b=c", "cfg-1", "<i>"}

func c19GenSave(r *Rng, t *c19Table, name string, valid bool) c19Step {
	st := c19Step{Op: "save", Name: name, Params: map[string]string{}, Intent: map[string]c19Intent{}}
	dens := 8 + r.Intn(40)
	for _, f := range t.Fields {
		if f.URLParam == "" || !r.Chance(dens) {
			continue
		}
		for try := 0; try < 20; try++ {
			s, in := c19GenParam(r, f)
			if valid && (in.Kind == "err" || in.Kind == "encfail") {
				continue
			}
			st.Params[f.URLParam] = s
			st.Intent[f.URLParam] = in
			break
		}
	}
	if r.Chance(15) {
		st.Params["unknownparam"] = "1" // not a config parameter: ignored
	}
	return st
}

func c19GenPage(r *Rng) map[string]string {
	p := map[string]string{}
	if r.Chance(50) {
		p["f"] = r.Pick([]string{"main", "foo", "ba."})
	}
	if r.Chance(40) {
		p["n"] = r.Pick([]string{"10", "3", "100"})
	}
	if r.Chance(30) {
		p["trim"] = r.Pick([]string{"false", "true"})
	}
	if r.Chance(30) {
		p["sort"] = r.Pick([]string{"cum", "flat"})
	}
	if r.Chance(20) {
		p["si"] = r.Pick([]string{"0", "1", "cpu"})
	}
	if r.Chance(20) {
		p["other"] = "keepme"
	}
	if r.Chance(20) {
		p["nf"] = "0.01"
	}
	return p
}

var c19Seeds = []string{
	`{"configs":[{"name":"legacy","focus":"main"}]}`,
	`{"configs":[{"name":"a","unit":"ms","trim":true,"nodecount":5},{"name":"legacy","sort":"cum","futurefield":3}]}`,
	`{"configs":[]}`,
	`{}`,
	"{\n  \"configs\": [\n    {\n      \"name\": \"b\",\n      \"nodefraction\": 0.25,\n      \"granularity\": \"lines\",\n      \"trim\": true\n    }\n  ]\n}",
}

// c19FullSeed: a hand-written settings document in which EVERY saved option holds a value that is
// neither its default nor equal to another option's value, followed by menu + apply: shows at once
// an option the URL table forgot, two options sharing a parameter, a lossy shortening.
func c19FullSeed(t *c19Table) c19Case {
	var b strings.Builder
	b.WriteString(`{"configs":[{"name":"full"`)
	n := 0
	for _, f := range t.Fields {
		if !f.Saved {
			continue
		}
		n++
		switch f.Kind {
		case "bool":
			fmt.Fprintf(&b, ",%q:%v", f.Name, !f.Default.B)
		case "int":
			fmt.Fprintf(&b, ",%q:%d", f.Name, 100+n)
		case "float":
			fmt.Fprintf(&b, ",%q:0.%d25", f.Name, n)
		case "choice":
			v := f.Choices[0]
			if v == f.Default.S && len(f.Choices) > 1 {
				v = f.Choices[1]
			}
			fmt.Fprintf(&b, ",%q:%q", f.Name, v)
		default:
			fmt.Fprintf(&b, ",%q:%q", f.Name, fmt.Sprintf("v%d-%s", n, f.Name))
		}
	}
	b.WriteString(`},{"name":"other","focus":"keep"}]}`)
	return c19Case{Kind: "seq", Steps: []c19Step{
		{Op: "seed", Raw: b.String()},
		{Op: "menu", Page: map[string]string{"f": "main"}},
		{Op: "apply", Name: "full", Page: map[string]string{"n": "10", "s": "stale", "h": "stale"}},
		{Op: "save", Name: "full", Params: map[string]string{}, Intent: map[string]c19Intent{}},
		{Op: "apply", Name: "other", Page: map[string]string{}},
		{Op: "delete", Name: "full"},
	}}
}

func c19GenSeq(r *Rng, t *c19Table) c19Case {
	cs := c19Case{Kind: "seq"}
	if r.Chance(25) {
		cs.Steps = append(cs.Steps, c19Step{Op: "seed", Raw: r.Pick(c19Seeds)})
	}
	n := 4 + r.Intn(9)
	var live []string // names probably present (generation does not know which saves fail)
	if len(cs.Steps) > 0 {
		for _, nm := range []string{"legacy", "a", "b"} {
			if strings.Contains(cs.Steps[0].Raw, `"`+nm+`"`) {
				live = append(live, nm)
			}
		}
	}
	for i := 0; i < n; i++ {
		switch k := r.Intn(100); {
		case k < 45 || len(live) == 0:
			name := c19Names[r.Intn(len(c19Names))]
			if r.Chance(3) {
				name = ""
			}
			valid := r.Chance(85)
			cs.Steps = append(cs.Steps, c19GenSave(r, t, name, valid))
			if valid && name != "" {
				live = append(live, name)
			}
		case k < 60:
			j := r.Intn(len(live))
			name := live[j]
			if r.Chance(20) {
				name = "nosuch"
			} else {
				live = append(live[:j:j], live[j+1:]...)
			}
			cs.Steps = append(cs.Steps, c19Step{Op: "delete", Name: name})
		case k < 75:
			cs.Steps = append(cs.Steps, c19Step{Op: "menu", Page: c19GenPage(r)})
		default:
			cs.Steps = append(cs.Steps, c19Step{Op: "apply", Name: live[r.Intn(len(live))], Page: c19GenPage(r)})
		}
	}
	return cs
}

// ---------------- sequence executor: oracle + correspondence ----------------

type c19Env struct {
	c       *Ctx
	t       *c19Table
	scratch string
	n       int
}

func (e *c19Env) dir() string {
	e.n++
	return filepath.Join(e.scratch, fmt.Sprintf("d%d", e.n))
}

func c19SameEntry(a, b c19Entry) bool {
	if a.Name != b.Name || len(a.Obj) != len(b.Obj) {
		return false
	}
	for k, v := range a.Obj {
		if w, ok := b.Obj[k]; !ok || w != v {
			return false
		}
	}
	return true
}

// c19Others: the entries whose name differs from name, in file order.
func c19Others(es []c19Entry, name string) []c19Entry {
	var out []c19Entry
	for _, e := range es {
		if e.Name != name {
			out = append(out, e)
		}
	}
	return out
}

func c19Find(es []c19Entry, name string) (c19Entry, int) {
	n, first := 0, c19Entry{}
	for _, e := range es {
		if e.Name == name {
			if n == 0 {
				first = e
			}
			n++
		}
	}
	return first, n
}

// c19Frame: the part of the property that says a request on `name` leaves the others alone.
func (e *c19Env) frame(before, after c19Doc, name, what string, cs c19Case) bool {
	a, b := c19Others(before.Entries, name), c19Others(after.Entries, name)
	ok := len(a) == len(b)
	for i := 0; ok && i < len(a); i++ {
		// stored objects of other names must keep their MEANING (a hand-written entry may be re-serialised)
		for _, f := range e.t.Fields {
			if f.Saved && f.in(a[i].Obj) != f.in(b[i].Obj) {
				ok = false
			}
		}
		ok = ok && a[i].Name == b[i].Name
	}
	if !ok {
		e.c.Violation("C19/frame/"+what+"-changed-other-config", fmt.Sprintf("%s of %q altered another saved configuration", what, name), cs)
	}
	return ok
}

func (e *c19Env) modelHandle(before, after c19Doc, st c19Step, q url.Values, okGo bool, cs c19Case) {
	t := e.t
	e.c.Res.ModelCompared++
	req := st.reqTok()
	if st.Op != "delete" {
		req = "save " + c19QueryTok(q)
	}
	rep := e.c.Drv.Ask("settings.handle " + t.floatsTok(q, before) + " " + t.defaultsTok() + " " + t.fileTok(before) + " " + req)
	wantOK := "0"
	if okGo {
		wantOK = "1"
	}
	want := wantOK + " " + t.fileTok(after)
	if rep != want {
		sig := "file"
		if !strings.HasPrefix(rep, wantOK+" ") {
			sig = "status"
		}
		e.c.Disagree("C19/model/"+st.Op+"/"+sig, "model and handler disagree on the "+sig+" after a "+st.Op+" request: model "+c19Trunc(rep)+" | real "+c19Trunc(want),
			"correspondence Settings.handleObj ~ setConfig/removeConfig/editSettings (theorems json_roundtrip_saved_fields, edit_frame rest on it)", cs)
	}
}

func (e *c19Env) runSeq(cs c19Case) (nontrivial bool) {
	c, t := e.c, e.t
	srv, err := c19NewServer(e.dir())
	if err != nil {
		c.Disagree("C19/server", "cannot obtain the web handlers: "+err.Error(), "access to /saveconfig, /deleteconfig through the HTTPServer hook", cs)
		return false
	}
	richSave, later := false, false
	for _, st := range cs.Steps {
		before := c19ReadDoc(srv.file, t)
		if before.Err != "" && st.Op != "seed" {
			c.Violation("C19/seq/file-unparsable", "settings file no longer parses after a sequential request: "+before.Err, cs)
			return
		}
		switch st.Op {
		case "seed":
			os.MkdirAll(filepath.Dir(srv.file), 0o700)
			os.WriteFile(srv.file, []byte(st.Raw), 0o644)
			c.Res.Hit("seq-op:seed")
		case "extern-rm", "extern-drop":
			// another process changed the settings file between two requests
			c19Extern(srv.file, st)
			c.Res.Hit("seq-op:" + st.Op)
		case "save", "delete":
			var q url.Values
			if st.Op == "save" {
				q = st.saveQuery()
			} else {
				q = url.Values{"config": {st.Name}}
			}
			var status int
			var body, pn string
			faulted := false
			if st.FailAt != "" {
				k := e.failPosition(srv, st)
				status, body, pn = c19WithFsize(k, func() (int, string, string) { return srv.get(st.request()) })
				faulted = status != 200
				c.Res.Hit(fmt.Sprintf("failed-write:%s:%s:failed=%v", st.Op, st.FailAt, faulted))
			} else {
				status, body, pn = srv.get(st.request())
			}
			if pn != "" {
				c.Violation("C19/"+st.Op+"/panic", "handler panics: "+pn, cs)
				return
			}
			after := c19ReadDoc(srv.file, t)
			okGo := status == 200
			c.Res.Hit(fmt.Sprintf("seq-op:%s:%v", st.Op, okGo))
			if after.Err != "" {
				c.Violation("C19/"+st.Op+"/file-unparsable", "settings file does not parse after the request: "+after.Err, cs)
				return
			}
			if !okGo {
				if after.Exists != before.Exists || !bytes.Equal(after.Raw, before.Raw) {
					c.Violation("C19/"+st.Op+"/failed-request-changed-file", "request failed ("+c19Trunc(body)+") but the settings file changed", cs)
				}
				if faulted {
					continue // the write failed: "state unchanged" is all the model says, checked above
				}
				if _, nb := c19Find(before.Entries, st.Name); st.Op == "delete" && nb > 0 {
					c.Violation("C19/delete/existing-config-rejected", fmt.Sprintf("configuration %q is in settings.json but deleting it is refused: %s", st.Name, c19Trunc(body)), cs)
				}
				if st.Op == "save" && st.Name != "" && c19AllValid(st) {
					c.Violation("C19/save/valid-request-rejected", fmt.Sprintf("saving %q with valid options is refused: %s", st.Name, c19Trunc(body)), cs)
				}
			} else {
				e.frame(before, after, st.Name, st.Op, cs)
				_, nb := c19Find(before.Entries, st.Name)
				ent, na := c19Find(after.Entries, st.Name)
				if st.Op == "save" {
					if nb == 0 && na == 0 {
						c.Violation("C19/save/reported-success-but-not-saved", fmt.Sprintf("saving %q was answered 200 OK but settings.json holds no configuration of that name afterwards", st.Name), cs)
					} else if (nb == 0 && na != 1) || (nb > 0 && na != nb) {
						c.Violation("C19/save/entry-count", fmt.Sprintf("saving %q: %d entries of that name before, %d after", st.Name, nb, na), cs)
					}
					allValid := true
					for _, in := range st.Intent {
						if in.Kind == "err" || in.Kind == "encfail" {
							allValid = false
						}
					}
					if allValid && na > 0 {
						for _, f := range t.Fields {
							if !f.Saved {
								continue
							}
							want := f.Default
							if in, ok := st.Intent[f.URLParam]; ok && f.URLParam != "" && in.Kind == "val" {
								want = in.Val
								if want != f.Default {
									richSave = true
								}
							}
							if got := f.in(ent.Obj); got != want {
								c.Violation("C19/save/option-not-intact/"+f.Name, fmt.Sprintf("saved %s=%q (%v) but the file holds %v", f.URLParam, st.Params[f.URLParam], want, got), cs)
							}
						}
					}
				} else {
					if na != nb-1 {
						c.Violation("C19/delete/entry-count", fmt.Sprintf("deleting %q: %d entries before, %d after", st.Name, nb, na), cs)
					}
					later = later || richSave
				}
			}
			e.modelHandle(before, after, st, q, okGo, cs)
		case "menu", "apply":
			pq := c19Values(st.Page)
			status, body, pn := srv.get("/top?" + pq.Encode())
			if pn != "" || status != 200 {
				c.Disagree("C19/menu/page", fmt.Sprintf("report page not served (status %d %s %s)", status, pn, c19Trunc(body)), "observation of configMenu through a report page", cs)
				return
			}
			menu, err := c19Menu(body)
			if err != nil {
				c.Disagree("C19/menu/parse", err.Error(), "observation of configMenu through a report page", cs)
				return
			}
			c.Res.Hit("seq-op:" + st.Op)
			// direct: Default + the stored names, in order
			names := []string{"Default"}
			for _, en := range before.Entries {
				names = append(names, en.Name)
			}
			var got []string
			for _, m := range menu {
				got = append(got, m.Name)
			}
			if strings.Join(got, "\x00") != strings.Join(names, "\x00") {
				c.Violation("C19/menu/entries", fmt.Sprintf("menu shows %q, settings file holds %q", got, names), cs)
				return
			}
			// model: every entry's URL
			c.Res.ModelCompared++
			rep := c.Drv.Ask("settings.menu " + t.defaultsTok() + " " + t.fileTok(before) + " " + c19QueryTok(pq))
			var wb strings.Builder
			fmt.Fprint(&wb, len(menu))
			for _, m := range menu {
				wb.WriteString(" " + hexTok([]byte(m.Name)) + " " + c19QueryTok(m.Query))
			}
			if mm := c19NormMenu(rep); mm != wb.String() {
				c.Disagree("C19/model/menu", "model and configMenu disagree on the menu URLs: model "+c19Trunc(mm)+" | real "+c19Trunc(wb.String()),
					"correspondence Settings.makeURL ~ config.makeURL (theorem url_roundtrip rests on it)", cs)
			}
			if st.Op == "menu" {
				continue
			}
			// apply: follow the entry's URL and save what it shows under a new name
			idx := -1
			for i, m := range menu {
				if m.User && m.Name == st.Name {
					idx = i
					break
				}
			}
			if idx < 0 {
				c.Res.Hit("apply:no-such-entry")
				continue
			}
			orig := before.Entries[idx-1]
			q := url.Values{}
			for k, v := range menu[idx].Query {
				q[k] = v
			}
			copyName := st.Name + "~"
			q.Set("config", copyName)
			status, body, pn = srv.get("/saveconfig?" + q.Encode())
			after := c19ReadDoc(srv.file, t)
			if pn != "" || status != 200 || after.Err != "" {
				c.Violation("C19/url-roundtrip/apply-fails", fmt.Sprintf("the URL the menu offers for %q cannot be applied and saved: status %d %s %s %s", st.Name, status, pn, c19Trunc(body), after.Err), cs)
				return
			}
			e.frame(before, after, copyName, "apply", cs)
			cp, n := c19Find(after.Entries, copyName)
			if n == 0 {
				c.Violation("C19/url-roundtrip/copy-missing", "saved copy not in the file", cs)
				return
			}
			for _, f := range t.Fields {
				if !f.Saved {
					continue
				}
				want := f.in(orig.Obj)
				if want.K == 's' && want.S == "" {
					want = f.Default // an option cleared to "" counts as unset
				}
				if f.URLParam == "" {
					want = f.Default // not carried by URLs: stays as currently configured
					if f.in(orig.Obj) != f.Default {
						continue // outside what a URL can express
					}
				}
				if got := f.in(cp.Obj); got != want {
					c.Violation("C19/url-roundtrip/"+f.Name, fmt.Sprintf("config %q has %s=%v; after config→URL→config it is %v", st.Name, f.Name, want, got), cs)
				}
			}
			later = later || richSave
			e.modelHandle(before, after, c19Step{Op: "save", Name: copyName}, q, true, cs)
		}
	}
	return richSave && later
}

// c19NormMenu re-renders the model's menu reply with sorted queries and without the changed flag.
func c19NormMenu(rep string) string {
	r := &c19Rd{t: strings.Fields(rep)}
	n := r.nat()
	var b strings.Builder
	fmt.Fprint(&b, n)
	for i := 0; i < n && !r.bad; i++ {
		name := r.str()
		q := url.Values{}
		for k := r.nat(); k > 0 && !r.bad; k-- {
			key := r.str()
			val := r.str()
			if _, dup := q[key]; !dup {
				q.Set(key, val)
			}
		}
		r.nat() // changed flag
		b.WriteString(" " + hexTok([]byte(name)) + " " + c19QueryTok(q))
	}
	if r.bad {
		return "unparsable: " + rep
	}
	return b.String()
}

func c19AllValid(st c19Step) bool {
	for _, in := range st.Intent {
		if in.Kind == "err" || in.Kind == "encfail" {
			return false
		}
	}
	return true
}

func c19SeqKey(cs c19Case) string {
	var b strings.Builder
	for _, s := range cs.Steps {
		keys := make([]string, 0, len(s.Params))
		for k := range s.Params {
			keys = append(keys, k+"="+s.Params[k])
		}
		sort.Strings(keys)
		fmt.Fprintf(&b, "%s/%s/%s/%v/%s/%s;", s.Op, s.Name, strings.Join(keys, "&"), s.Page, s.Enc, s.FailAt)
	}
	return b.String()
}

func runC19(c *Ctx) {
	c.Res.Rule = "(i) random sequences (4-12 steps, optional hand-written seed file) of /saveconfig (random subset of URL-carried options; per kind canonical, alternative, invalid and unset spellings), /deleteconfig, menu reads and apply (follow a menu URL, save under a new name) against the real handlers; non-trivial = a save with >=1 non-default option followed by a delete or apply; (i'') a fixed grid of 36 histories on one server: {save existing, save new, delete} whose write fails after {0, 1, half, all-but-one} bytes (RLIMIT_FSIZE in-process) followed by {save other, delete other, menu+apply}; (i') 120 histories of 7-20 steps on ONE server over 2-3 names (30% plain; 50% a URL-encoded-looking name together with its one- and two-fold URL decodings; 20% awkward: %, +, &, =, #, ?, /, quotes, unicode, 2.8 kB) x 2-3 fixed option sets, requests form-encoded as common.js does or raw with %20 with exactly repeated requests (30% of requests repeat an earlier one), deletes, menu reads and external edits of settings.json between requests (entry dropped, file removed), each step judged against the model and the direct oracle; non-trivial = some request occurs twice; " +
		"(ii) one strace'd save per protocol scenario mapped to model ops and judged by fs.accepts; (iii) write error / kill at every write syscall, every byte position (RLIMIT_FSIZE sweep) and at rename; after EVERY injected fault and on a grid of synthetic directories (old file + leftover settings.json.tmp* holding a prefix of the new contents of length {0,1,half,all-but-one,all} or garbage) the web UI is RESTARTED (fresh instance through the HTTPServer hook) and the file must still be old or new, the menu must list it and a further save must work; one restart runs under strace and must not modify the settings file (fs.accepts with old = new); (iv) rounds of 16 concurrent save/delete requests, final file judged per name against all serial orders by the model; distinct by canonical case text"
	scratch := filepath.Join(c.Dir, fmt.Sprintf("scratch-%d", os.Getpid()))
	os.RemoveAll(scratch)
	if err := os.MkdirAll(scratch, 0o755); err != nil {
		c.Res.HarnessError = err.Error()
		return
	}
	defer os.RemoveAll(scratch)
	oldXDG, hadXDG := os.LookupEnv("XDG_CONFIG_HOME")
	defer func() {
		if hadXDG {
			os.Setenv("XDG_CONFIG_HOME", oldXDG)
		} else {
			os.Unsetenv("XDG_CONFIG_HOME")
		}
	}()
	signal.Ignore(syscall.SIGXFSZ) // in-process failed writes (RLIMIT_FSIZE) must return EFBIG, not kill the harness
	t, terr := c19LoadTable(c)
	if terr != nil {
		c.Disagree("C19/table-unavailable", terr.Error(), "regenerated field table Gen/ConfigFields.lean (translator) / model driver", c19Case{Kind: "seq"})
		t = c19FallbackTable()
	}
	e := &c19Env{c: c, t: t, scratch: scratch}

	if c.Replay != "" {
		var cs c19Case
		if err := c.LoadReplay(&cs); err != nil {
			c.Res.HarnessError = err.Error()
			return
		}
		c.Res.Evaluations++
		switch cs.Kind {
		case "seq":
			e.runSeq(cs)
		case "trace":
			e.runTrace(cs)
		case "fault":
			e.runFault(cs)
		case "conc":
			e.runConc(cs)
		case "session":
			e.runSession(cs)
		case "restart":
			e.runRestart(cs)
		}
		return
	}

	r := NewRng(c.Seed)
	// (ii) + (iii): protocol of one save, traced and fault-injected
	e.traceAndFaults(r)
	// (iii'): restart on directories with leftover temp files
	e.restarts(r)
	// (iv): concurrent requests
	e.concurrent(r)
	// saved options the URL cannot carry (separate stream)
	if terr == nil {
		e.sessions(r)
	}
	// (i''): fixed grid: a request whose write fails, followed by a request about another name
	if terr == nil {
		for _, cs := range c19Grid() {
			e.runSeq(cs)
			c.Res.Count("grid:"+c19SeqKey(cs), true)
			c.Res.Hit("grid-cases")
		}
	}
	// (i'): histories over a small alphabet with repeated identical requests and external edits
	if terr == nil {
		n := 120 * c.Scale
		for i := 0; i < n; i++ {
			cs := c19GenHist(r, t)
			nt := e.runSeq(cs)
			c.Res.Count("hist:"+c19SeqKey(cs), nt || c19HistRepeats(cs))
			c.Res.Hit("hist-cases")
		}
	}
	// (i): sequences
	if terr == nil {
		full := c19FullSeed(t)
		c.Res.Count("seq:"+c19SeqKey(full), e.runSeq(full) || true)
		n := 150 * c.Scale
		for i := 0; i < n; i++ {
			cs := c19GenSeq(r, t)
			nt := e.runSeq(cs)
			c.Res.Count("seq:"+c19SeqKey(cs), nt)
			c.Res.Hit(fmt.Sprintf("seq-len:%d", len(cs.Steps)/4*4))
			if i < 2 {
				c.Res.Sample(cs)
			}
		}
	}
}

// c19FallbackTable: used only when the model driver is unavailable, so that parts (ii)-(iv),
// which need just a few option names, still run.
func c19FallbackTable() *c19Table {
	t := &c19Table{byName: map[string]int{}}
	for _, f := range []c19Field{
		{GoName: "Focus", Name: "focus", URLParam: "f", Kind: "string", Saved: true, Omit: true, Default: c19Val{K: 's'}},
		{GoName: "NodeCount", Name: "nodecount", URLParam: "n", Kind: "int", Saved: true, Omit: true, Default: c19Val{K: 'i', I: -1}},
		{GoName: "Trim", Name: "trim", URLParam: "trim", Kind: "bool", Saved: true, Omit: true, Default: c19Val{K: 'b', B: true}},
	} {
		t.byName[f.Name] = len(t.Fields)
		t.Fields = append(t.Fields, f)
	}
	return t
}
