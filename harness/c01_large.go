//go:build verif

package main

import (
	"bytes"
	"encoding/hex"
	"fmt"
	"strings"

	"github.com/google/pprof/profile"
)

// C01, LARGE / HIGHLY COMPRESSIBLE profiles (profile stream, both Write and WriteUncompressed):
// a small generated base profile (any of the 6 strategies) is inflated to a serialization of
// 64 KiB … a few MiB whose gzip image is 100 … 1000 times smaller:
//
//	repeat-samples      a block of 1..k samples of the base appended N times (N = 10^4 … 10^5)
//	many-comments       one comment appended N times
//	many-label-values   one string label / one numeric label (with or without unit) with N identical values
//	long-string         one string (doc_url, comment, function name, mapping file, label value,
//	                    sample-type unit) replaced by a long periodic string
//
// and padded (a periodic comment) so that the UNCOMPRESSED size lands exactly on, one below or one
// above 64 KiB·k and powers of two (2^16 … 2^21), or on a random size in between.
//
// The Lean model does not run on the inflated profile (a multi-megabyte request line per case):
// it normalises the BASE (`codec.normalize`), and the expected result for the large profile is that
// normal form inflated by the same operation — inflation commutes with normalisation because it only
// repeats samples/comments/label values that normalisation treats element by element and substitutes
// one non-empty string for another. The oracle is then the property's own statement, evaluated in Go
// on canonical forms: ParseUncompressed(WriteUncompressed p) = Parse(Write p) = ParseData(Write p) =
// normalize p, and both parser results re-serialize to the same bytes.

type c01LargeSpec struct {
	Mode   string `json:"mode"`
	N      int    `json:"n"`               // repetitions / length of the long string in periods
	Index  int    `json:"index,omitempty"` // sample the operation applies to / first sample of the block
	Block  int    `json:"block,omitempty"` // repeat-samples: block length
	Where  string `json:"where,omitempty"` // long-string: which field; many-label-values: "str" | "num" | "num-unit"
	Period string `json:"period,omitempty"`
	Pad    int    `json:"pad,omitempty"`    // length of the padding comment
	Target int    `json:"target,omitempty"` // uncompressed size aimed at (informational)
}

const c01LongMark = "@@C01LONG@@"
const c01LabelKey = "@@c01k"

// c01LargeBase prepares the base profile for the mode (placeholders), in place.
func c01LargeBase(r *Rng, p *profile.Profile, spec *c01LargeSpec) {
	if len(p.SampleType) == 0 {
		p.SampleType = []*profile.ValueType{{Type: "samples", Unit: "count"}}
	}
	if len(p.Sample) == 0 {
		s := &profile.Sample{Location: []*profile.Location{p.Location[0]}}
		for range p.SampleType {
			s.Value = append(s.Value, r.Int64())
		}
		p.Sample = append(p.Sample, s)
	}
	spec.Index = r.Intn(len(p.Sample))
	s := p.Sample[spec.Index]
	switch spec.Mode {
	case "repeat-samples":
		spec.Block = 1
		if r.Chance(50) {
			spec.Block = 1 + r.Intn(len(p.Sample)-spec.Index)
		}
	case "many-label-values":
		switch spec.Where {
		case "str":
			if s.Label == nil {
				s.Label = map[string][]string{}
			}
			s.Label[c01LabelKey] = []string{r.Pick([]string{"v", "a b", "\xff", "日本"})}
		default:
			if s.NumLabel == nil {
				s.NumLabel = map[string][]int64{}
			}
			v := r.Int64()
			if v == 0 {
				v = 7
			}
			s.NumLabel[c01LabelKey] = []int64{v}
			if s.NumUnit == nil {
				s.NumUnit = map[string][]string{}
			}
			delete(s.NumUnit, c01LabelKey)
			if spec.Where == "num-unit" {
				s.NumUnit[c01LabelKey] = []string{"bytes"}
			}
		}
	case "long-string":
		switch spec.Where {
		case "doc_url":
			p.DocURL = c01LongMark
		case "comment":
			p.Comments = append(p.Comments, c01LongMark)
		case "function":
			f := p.Function[r.Intn(len(p.Function))]
			f.Name = c01LongMark
		case "mapping":
			if len(p.Mapping) > 0 {
				p.Mapping[r.Intn(len(p.Mapping))].File = c01LongMark
			} else {
				p.DocURL = c01LongMark
			}
		case "label":
			if s.Label == nil {
				s.Label = map[string][]string{}
			}
			s.Label[c01LabelKey] = []string{"x", c01LongMark}
		case "unit":
			p.SampleType[r.Intn(len(p.SampleType))].Unit = c01LongMark
		}
	}
}

// c01Inflate builds the large profile from the canonical text of a (base or normalised base) profile.
func c01Inflate(canon string, spec c01LargeSpec) (*profile.Profile, error) {
	if spec.Mode == "long-string" {
		long := strings.Repeat(spec.Period, spec.N)
		canon = strings.ReplaceAll(canon, "x"+hex.EncodeToString([]byte(c01LongMark)), "x"+hex.EncodeToString([]byte(long)))
	}
	p, err := ParseCanon(canon)
	if err != nil {
		return nil, err
	}
	if spec.Index >= len(p.Sample) {
		return nil, fmt.Errorf("sample %d missing", spec.Index)
	}
	s := p.Sample[spec.Index]
	switch spec.Mode {
	case "repeat-samples":
		if spec.Block < 1 || spec.Index+spec.Block > len(p.Sample) {
			return nil, fmt.Errorf("block out of range")
		}
		block := append([]*profile.Sample{}, p.Sample[spec.Index:spec.Index+spec.Block]...)
		out := make([]*profile.Sample, 0, len(p.Sample)+spec.N*len(block))
		out = append(out, p.Sample...)
		for k := 0; k < spec.N; k++ {
			for _, b := range block {
				cp := *b // shares stack, values and label maps: nothing writes to them
				out = append(out, &cp)
			}
		}
		p.Sample = out
	case "many-comments":
		for k := 0; k < spec.N; k++ {
			p.Comments = append(p.Comments, "c01")
		}
	case "many-label-values":
		if vs := s.Label[c01LabelKey]; len(vs) > 0 {
			nv := make([]string, spec.N)
			for i := range nv {
				nv[i] = vs[0]
			}
			s.Label[c01LabelKey] = nv
		}
		if vs := s.NumLabel[c01LabelKey]; len(vs) > 0 {
			nv := make([]int64, spec.N)
			for i := range nv {
				nv[i] = vs[0]
			}
			s.NumLabel[c01LabelKey] = nv
		}
		if us := s.NumUnit[c01LabelKey]; len(us) > 0 {
			nu := make([]string, spec.N)
			for i := range nu {
				nu[i] = us[0]
			}
			s.NumUnit[c01LabelKey] = nu
		}
	case "long-string":
	default:
		return nil, fmt.Errorf("unknown mode %q", spec.Mode)
	}
	if spec.Pad > 0 {
		p.Comments = append(p.Comments, strings.Repeat("pad.", spec.Pad/4+1)[:spec.Pad])
	}
	return p, nil
}

func c01RawLen(canon string, spec c01LargeSpec) int {
	p, err := c01Inflate(canon, spec)
	if err != nil {
		return -1
	}
	b, pn := writeU(p)
	if pn != "" {
		return -1
	}
	return len(b)
}

// c01LargeTune chooses N and Pad so that the uncompressed size is (as nearly as it can be made) target.
func c01LargeTune(canon string, spec *c01LargeSpec, target int, minN, maxN int) {
	spec.Pad = 0
	spec.N = 1000
	a := c01RawLen(canon, *spec)
	spec.N = 2000
	b := c01RawLen(canon, *spec)
	if a < 0 || b <= a {
		spec.N = minN
		return
	}
	unit := float64(b-a) / 1000
	n := int(float64(target-a)/unit) + 1000 - 2
	if n < minN {
		n = minN
	}
	if n > maxN {
		n = maxN
	}
	spec.N = n
	for k := 0; k < 6; k++ {
		l := c01RawLen(canon, *spec)
		if l < 0 || l == target {
			return
		}
		d := target - l
		if spec.Pad == 0 {
			d -= 3 // tag + length prefix of the new comment and its string-table entry, roughly
		}
		if spec.Pad+d < 1 {
			if spec.Pad == 0 && d < 0 && spec.N > minN { // too long even without padding: fewer repetitions
				spec.N -= int(float64(-d)/unit) + 2
				if spec.N < minN {
					spec.N = minN
				}
				continue
			}
			return
		}
		spec.Pad += d
	}
}

func c01Large(c *Ctx, canonBase string, spec c01LargeSpec) (nontrivial bool) {
	cs := c01Case{Profile: canonBase, Large: &spec}
	p, err := c01Inflate(canonBase, spec)
	if err != nil {
		c.Res.HarnessError = "c01Inflate: " + err.Error()
		return false
	}
	normBase := c.Drv.Ask("codec.normalize " + canonBase)
	if _, err := ParseCanon(normBase); err != nil {
		// no model driver: Go's own round trip of the (small) base; the in-process stream reports differences
		bp, _ := ParseCanon(canonBase)
		b, _ := writeU(bp)
		q, err := profile.ParseUncompressed(b)
		if err != nil {
			return false
		}
		normBase = Canon(q)
		c.Res.Hit("large-expected-from-go-roundtrip-of-base")
	}
	ep, err := c01Inflate(normBase, spec)
	if err != nil {
		c.Res.HarnessError = "c01Inflate(normalize base): " + err.Error()
		return false
	}
	expected := Canon(ep)
	what := fmt.Sprintf("large profile (%s, n=%d): ", spec.Mode, spec.N)

	raw, pn := writeU(p)
	if pn != "" {
		c.Violation("C01/large/write/panic", what+"WriteUncompressed panics: "+pn, cs)
		return false
	}
	var zb bytes.Buffer
	if pn := safely(func() { p.Write(&zb) }); pn != "" {
		c.Violation("C01/large/writegz/panic", what+"Write panics: "+pn, cs)
		return false
	}
	gz := zb.Bytes()
	ratio := 0
	if len(gz) > 0 {
		ratio = len(raw) / len(gz)
	}
	what += fmt.Sprintf("%d bytes uncompressed, %d gzipped: ", len(raw), len(gz))
	switch {
	case ratio >= 1000:
		c.Res.Hit("large-ratio:>=1000")
	case ratio >= 100:
		c.Res.Hit("large-ratio:100..999")
	default:
		c.Res.Hit("large-ratio:<100")
	}
	switch {
	case len(raw) > 1<<20:
		c.Res.Hit("large-size:>1MiB")
	case len(raw) > 64<<10:
		c.Res.Hit("large-size:64KiB..1MiB")
	default:
		c.Res.Hit("large-size:<=64KiB")
	}
	if spec.Target > 0 {
		switch d := len(raw) - spec.Target; {
		case d == 0:
			c.Res.Hit("large-target:hit-exactly")
		case d >= -16 && d <= 16:
			c.Res.Hit("large-target:within-16-bytes")
		default:
			c.Res.Hit("large-target:missed")
		}
	}
	nontrivial = len(raw) > 64<<10 && ratio >= 100

	var q1, q2, q3 *profile.Profile
	var e1, e2, e3 error
	if pn := safely(func() { q1, e1 = profile.ParseUncompressed(raw) }); pn != "" {
		c.Violation("C01/large/parse/panic", what+pn, cs)
		return
	}
	if pn := safely(func() { q2, e2 = profile.Parse(bytes.NewReader(gz)) }); pn != "" {
		c.Violation("C01/large/parse-gz/panic", what+pn, cs)
		return
	}
	if pn := safely(func() { q3, e3 = profile.ParseData(gz) }); pn != "" {
		c.Violation("C01/large/parsedata-gz/panic", what+pn, cs)
		return
	}
	check := func(name string, q *profile.Profile, err error) string {
		if err != nil {
			c.Violation("C01/large/"+name+"/parse-error", what+"parse(write(p)) fails: "+err.Error(), cs)
			return ""
		}
		cq := Canon(q)
		if cq != expected {
			c.Violation("C01/large/"+name+"/"+diffField(cq, expected), what+"parse(write(p)) differs from normalize(p)", cs)
		}
		return cq
	}
	c1 := check("roundtrip", q1, e1)
	c2 := check("roundtrip-gz", q2, e2)
	check("parsedata-gz", q3, e3)
	if c1 != "" && c2 != "" {
		b1, _ := writeU(q1)
		b2, _ := writeU(q2)
		if !bytes.Equal(b1, b2) {
			c.Violation("C01/large/fixpoint/bytes", what+"the results of the compressed and the uncompressed path re-serialize differently", cs)
		}
	}
	return nontrivial
}

var c01LargeTargets = []int{1 << 16, 2 << 16, 3 << 16, 4 << 16, 5 << 16, 6 << 16, 1 << 17, 1 << 18, 1 << 19, 1 << 20, 1 << 21, 100 * 1024, 1000 * 1000}

func c01LargeGen(r *Rng, i int) (string, c01LargeSpec, string) {
	st := c01Strategies[i%len(c01Strategies)]
	p := GenProfile(r, &st.o)
	huge := i%12 == 11 // one huge case per dozen on a minimal base: the gzip image reaches deflate's limit (> 1000:1)
	if huge {
		p = GenProfile(r, &GenOpts{MaxSampleTypes: 1, MaxFuncs: 1, MaxMappings: 1, MaxLocs: 1, MaxSamples: 1, MaxLines: 1, MaxDepth: 1})
	}
	var spec c01LargeSpec
	minN, maxN := 1000, 100000
	switch (i / 2) % 6 { // i/2: consecutive cases differ in strategy AND every mode meets every strategy over time
	case 0, 1:
		spec.Mode = "repeat-samples"
	case 2:
		spec.Mode = "many-comments"
	case 3:
		spec.Mode, spec.Where = "many-label-values", r.Pick([]string{"str", "num", "num-unit"})
	default:
		spec.Mode, spec.Where = "long-string", r.Pick([]string{"doc_url", "comment", "function", "mapping", "label", "unit"})
		spec.Period = r.Pick([]string{"a", "ab", "\x00", "日本", "/very/long/path", "\xff\xfe"})
		minN, maxN = 1, 4<<20
	}
	if huge {
		spec.Period = r.Pick([]string{"a", "\x00", "z"})
	}
	c01LargeBase(r, p, &spec)
	canon := Canon(p)
	target := c01LargeTargets[r.Intn(len(c01LargeTargets))] + []int{-1, 0, 1, 1, 2, 17}[r.Intn(6)]
	if r.Chance(25) {
		target = 64<<10 + r.Intn(3<<20)
	}
	if huge {
		target = 12<<20 + r.Intn(4<<20)
		maxN *= 16
	}
	spec.Target = target
	c01LargeTune(canon, &spec, target, minN, maxN)
	return canon, spec, st.name
}

func c01LargeStream(c *Ctx, r *Rng, n int) {
	for i := 0; i < n; i++ {
		canon, spec, strat := c01LargeGen(r, i)
		nt := c01Large(c, canon, spec)
		c.Res.Count(fmt.Sprintf("large|%+v|%s", spec, canon), nt)
		c.Res.Hit("large-mode:" + spec.Mode)
		c.Res.Hit("large-strategy:" + strat)
	}
}
