//go:build verif

package main

import (
	"github.com/google/pprof/profile"
)

// Generator of profiles for C04/C05: few functions and locations so that entries merge, with
// explicit stack-shape strategies (direct/mutual recursion, a multi-line location repeated in
// one stack, shared locations, empty stacks, unsymbolized locations, negative and cancelling
// values, several sample types; values[0] doubles as the mean divisor).

type c04GenOpts struct {
	Strategy  string
	BigValues bool // values up to 2^49 (display must still be exact)
	Labels    bool // string labels (tagroot/tagleaf, pprof::base)
}

var c04Strategies = []string{"random", "direct-recursion", "mutual-recursion", "inline-repeat", "shared-locs", "unsymbolized", "cancel", "deep", "empty"}

var c04Names = []string{"main", "foo", "bar", "baz", "qux", "lib.(*T).run", "ns::cls::method", "a/b.c", "f"}
var c04Files = []string{"main.go", "a/b.go", "/usr/lib/x.c", "a//b.go", "./main.go", "", "dir/../a/b.go"}

func c04Value(r *Rng, o *c04GenOpts) int64 {
	switch r.Intn(12) {
	case 0:
		return 0
	case 1, 2:
		return -int64(1 + r.Intn(40))
	case 3:
		if o.BigValues {
			return int64(r.U64()%(1<<49)) - (1 << 48)
		}
		return int64(r.Intn(1000))
	default:
		return int64(1 + r.Intn(60))
	}
}

func genC04Profile(r *Rng, o *c04GenOpts) *profile.Profile {
	p := &profile.Profile{}
	nst := 1 + r.Intn(3)
	types := []string{"samples", "cpu", "alloc_space", "objects", "space", "delay"}
	for i := 0; i < nst; i++ {
		p.SampleType = append(p.SampleType, &profile.ValueType{Type: types[(i*2+r.Intn(2))%len(types)], Unit: "count"})
	}
	if r.Chance(30) {
		p.DefaultSampleType = p.SampleType[r.Intn(nst)].Type
	}
	nm := r.Intn(3)
	for i := 0; i < nm; i++ {
		start := uint64(0x400000 + i*0x100000)
		p.Mapping = append(p.Mapping, &profile.Mapping{ID: uint64(i + 1), Start: start, Limit: start + 0x80000,
			File: r.Pick([]string{"/bin/prog", "/lib/libc.so.6", "", "/other/prog"}), HasFunctions: true})
	}
	nf := 1 + r.Intn(5)
	for i := 0; i < nf; i++ {
		n := r.Pick(c04Names)
		f := &profile.Function{ID: uint64(i + 1), Name: n, SystemName: n, Filename: r.Pick(c04Files), StartLine: int64(r.Intn(3) * 10)}
		if r.Chance(25) {
			f.SystemName = "_Z" + n
		}
		if r.Chance(8) {
			f.Name, f.SystemName = "", "" // nameless: objfile/startline become part of the identity
		}
		p.Function = append(p.Function, f)
	}
	nl := 1 + r.Intn(7)
	unsym := o.Strategy == "unsymbolized"
	for i := 0; i < nl; i++ {
		l := &profile.Location{ID: uint64(i + 1), IsFolded: r.Chance(5)}
		if len(p.Mapping) > 0 && r.Chance(80) {
			l.Mapping = p.Mapping[r.Intn(len(p.Mapping))]
			l.Address = l.Mapping.Start + uint64(r.Intn(4))*0x10
		} else if r.Chance(70) {
			l.Address = uint64(r.Intn(4)) * 0x10
		}
		nln := 1 + r.Intn(3)
		if o.Strategy == "inline-repeat" {
			nln = 2 + r.Intn(2)
		}
		if r.Chance(10) || (unsym && r.Chance(60)) {
			nln = 0
		}
		for j := 0; j < nln; j++ {
			l.Line = append(l.Line, profile.Line{Function: p.Function[r.Intn(len(p.Function))], Line: int64(r.Intn(3)), Column: int64(r.Intn(2))})
		}
		p.Location = append(p.Location, l)
	}
	loc := func() *profile.Location { return p.Location[r.Intn(len(p.Location))] }
	ns := 1 + r.Intn(7)
	if o.Strategy == "empty" && r.Chance(30) {
		ns = 0
	}
	for i := 0; i < ns; i++ {
		s := &profile.Sample{}
		switch o.Strategy {
		case "direct-recursion":
			a := loc()
			for j, d := 0, 1+r.Intn(3); j < d; j++ {
				s.Location = append(s.Location, a)
			}
			for j, d := 0, r.Intn(3); j < d; j++ {
				s.Location = append(s.Location, loc())
			}
			if r.Bool() {
				s.Location = append(s.Location, a)
			}
		case "mutual-recursion":
			a, b := loc(), loc()
			for j, d := 0, 1+r.Intn(3); j < d; j++ {
				s.Location = append(s.Location, a, b)
			}
			if r.Bool() {
				s.Location = append(s.Location, loc())
			}
			if r.Bool() {
				s.Location = append(s.Location, a)
			}
		case "inline-repeat":
			a := loc()
			s.Location = append(s.Location, a)
			for j, d := 0, r.Intn(3); j < d; j++ {
				s.Location = append(s.Location, loc())
			}
			s.Location = append(s.Location, a)
		case "deep":
			for j, d := 0, 4+r.Intn(8); j < d; j++ {
				s.Location = append(s.Location, loc())
			}
		case "empty":
			if !r.Chance(40) {
				for j, d := 0, r.Intn(3); j < d; j++ {
					s.Location = append(s.Location, loc())
				}
			}
		default:
			for j, d := 0, 1+r.Intn(5); j < d; j++ {
				s.Location = append(s.Location, loc())
			}
			if r.Chance(8) {
				s.Location = nil
			}
		}
		for j := 0; j < nst; j++ {
			s.Value = append(s.Value, c04Value(r, o))
		}
		if o.Labels {
			if r.Chance(60) {
				s.Label = map[string][]string{}
				if r.Chance(70) {
					s.Label["k"] = []string{r.Pick([]string{"v1", "v2", "v3"})}
				}
				if r.Chance(40) {
					s.Label["req"] = []string{r.Pick([]string{"a", "b"}), "z"}[:1+r.Intn(2)]
				}
				if r.Chance(15) {
					s.Label["pprof::base"] = []string{"true"}
				}
			}
		}
		p.Sample = append(p.Sample, s)
	}
	if o.Strategy == "cancel" && len(p.Sample) > 0 {
		// duplicate samples with negated values: nodes and edges whose figures sum to zero
		for i, n := 0, 1+r.Intn(len(p.Sample)); i < n; i++ {
			src := p.Sample[r.Intn(len(p.Sample))]
			s := &profile.Sample{Location: append([]*profile.Location(nil), src.Location...)}
			if r.Chance(30) && len(s.Location) > 1 {
				s.Location = s.Location[:len(s.Location)-1]
			}
			for _, v := range src.Value {
				s.Value = append(s.Value, -v)
			}
			p.Sample = append(p.Sample, s)
		}
	}
	return p
}

// c04Shape classifies a profile for the measured distribution and the non-triviality rule.
type c04Shape struct {
	recursion   bool // some location occurs twice in one stack
	multiLine   bool // some sample touches a location with ≥ 2 lines
	noLine      bool // some sample touches a location without lines
	emptyStack  bool
	negative    bool
	sharedLoc   bool // a location used by ≥ 2 samples
	samples     int
	maxDepth    int
	sampleTypes int
}

func c04Classify(p *profile.Profile) c04Shape {
	var sh c04Shape
	sh.samples = len(p.Sample)
	sh.sampleTypes = len(p.SampleType)
	used := map[uint64]int{}
	for _, s := range p.Sample {
		if len(s.Location) == 0 {
			sh.emptyStack = true
		}
		if len(s.Location) > sh.maxDepth {
			sh.maxDepth = len(s.Location)
		}
		seen := map[uint64]bool{}
		for _, l := range s.Location {
			if seen[l.ID] {
				sh.recursion = true
			} else {
				used[l.ID]++
			}
			seen[l.ID] = true
			if len(l.Line) >= 2 {
				sh.multiLine = true
			}
			if len(l.Line) == 0 {
				sh.noLine = true
			}
		}
		for _, v := range s.Value {
			if v < 0 {
				sh.negative = true
			}
		}
	}
	for _, n := range used {
		if n >= 2 {
			sh.sharedLoc = true
		}
	}
	return sh
}
