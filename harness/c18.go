//go:build verif

package main

// C18 — graph outputs are syntactically valid for any names.
//
// Every case runs the REAL code (pprof -dot / -callgrind as a process, report.Generate and
// graph.ComposeDot in-process, the web UI handlers) on a profile whose string positions carry
// DOT / callgrind / HTML metacharacters, and hands the ACTUAL output to the Lean-verified DOT
// parser / callgrind checker through pvdrv-C18.  The verdict is Lean's; Go only names the site.

import (
	"context"
	"encoding/json"
	"fmt"
	"os"
	"os/exec"
	"strings"
	"sync"
	"time"

	"github.com/google/pprof/internal/graph"
	"github.com/google/pprof/internal/report"
)

func init() { register("C18", runC18) }

type c18Out struct {
	out []byte
	g   *graph.Graph
	err string
}

// c18Exec runs the real code for one case.
func c18Exec(c *Ctx, tmp string, idx int, cs *c18Case) c18Out {
	switch cs.Kind {
	case "dot-cli":
		o, e := c18CLI(c.Pprof, tmp, idx, "dot", cs)
		return c18Out{out: o, err: e}
	case "callgrind-cli":
		o, e := c18CLI(c.Pprof, tmp, idx, "callgrind", cs)
		return c18Out{out: o, err: e}
	case "dot-report":
		o, _, e := c18Report(cs, report.Dot)
		return c18Out{out: o, err: e}
	case "callgrind-report":
		o, g, e := c18Report(cs, report.Callgrind)
		return c18Out{out: o, g: g, err: e}
	case "compose":
		o, e := c18Compose(cs.Compose)
		return c18Out{out: o, err: e}
	case "escape":
		g := &c18Graph{Total: 100, Nodes: []c18Node{{Name: cs.Str, Flat: 7, Cum: 7}}}
		o, e := c18Compose(g)
		return c18Out{out: o, err: e}
	}
	return c18Out{err: "unknown kind " + cs.Kind}
}

func c18Canon(cs *c18Case) string {
	b, _ := json.Marshal(cs)
	return string(b)
}

// c18Eval applies the oracle to the real output of one case.
func c18Eval(c *Ctx, cs *c18Case, o c18Out) {
	canon := c18Canon(cs)
	reached := cs.Marker != "" && strings.Contains(strings.ToLower(string(o.out)), strings.ToLower(cs.Marker)) // units are lower-cased by the formatter
	c.Res.Hit("kind/" + cs.Kind)
	if cs.Look > 0 {
		c.Res.Hit(fmt.Sprintf("lookalike-%d%%/%s", cs.Look, cs.Kind))
	} else if cs.Look < 0 {
		c.Res.Hit(fmt.Sprintf("whitespace-%d%%/%s", -cs.Look, cs.Kind))
	}
	if cs.Known {
		c.Res.Hit("stream/known-findings/" + cs.Kind)
	}
	if cs.Vals != "" && cs.Vals != "pos" {
		c.Res.Hit("values-" + cs.Vals + "/" + cs.Kind)
	}
	if cs.Opts.Unit != "" {
		c.Res.Hit("output-unit/" + cs.Opts.Unit)
	}
	if o.err != "" {
		c.Res.Hit("run-error/" + cs.Kind + "/" + firstWord(o.err))
		if len(c.Res.Notes) < 12 {
			c.Res.Notes = append(c.Res.Notes, cs.Kind+" hot="+cs.Hot+": "+trunc(o.err))
		}
		if strings.HasPrefix(o.err, "panic") {
			c.Violation("C18/"+cs.Kind+"/panic", "the emitter panicked: "+trunc(o.err), cs)
		}
		c.Res.Count(canon, false)
		return
	}
	switch cs.Kind {
	case "dot-cli", "dot-report", "compose":
		res := c18AskDot(c, o.out)
		c.Res.ModelCompared++
		switch {
		case strings.HasPrefix(res.Stage, "driver"):
			c.Disagree("C18/dot/driver", "the Lean DOT parser could not be asked: "+res.Stage, "pvdrv-C18 dot.check", cs)
		case !res.OK:
			site := c18DotSite(c, o.out)
			c.Res.Hit("dot-invalid/" + site)
			c.Violation("C18/dot/site="+site, fmt.Sprintf("DOT output does not %s under the Graphviz grammar (site %s, hot position %s): %s", res.Stage, site, cs.Hot, trunc(c18Excerpt(o.out, cs.Marker))), cs)
		case len(res.Undeclared) > 0:
			sig, why := "C18/dot/edge-endpoint-undeclared", ""
			if res.Undeclared[0] == "N0" {
				// nodeIDMap lookup of a node that is not in Graph.Nodes
				if cs.Kind == "compose" {
					sig += "/edge-to-unlisted-node"
					why = " (an edge of the graph ends at a node that is not in Graph.Nodes)"
				} else {
					sig += "/zero-node-dropped"
					why = " (graph construction dropped a node whose flat and cum are 0, or a negative one, but kept the edges to it)"
				}
			}
			c.Res.Hit("dot-invalid/" + strings.TrimPrefix(sig, "C18/dot/"))
			c.Violation(sig, fmt.Sprintf("edge endpoint %q is not a declared node%s", res.Undeclared[0], why), cs)
		default:
			c.Res.Hit(fmt.Sprintf("dot-ok/nodes<=%d", c18Bucket(len(res.Nodes))))
			if len(res.Edges) > 0 {
				c.Res.Hit("dot-ok/with-edges")
			}
		}
		if reached {
			c.Res.Hit("reached/" + cs.Kind + "/" + cs.Hot)
		}
		c.Res.Count(canon, reached)
	case "escape":
		res := c18AskDot(c, o.out)
		c.Res.ModelCompared++
		want := c.Drv.Ask("dot.escape " + hexTok([]byte(cs.Str)))
		got := ""
		if res.OK {
			for _, n := range res.Nodes {
				if n.ID == "N1" {
					for _, a := range n.Attrs {
						if a[0] == "tooltip" {
							got = hexTok([]byte(strings.TrimSuffix(a[1], " (7)")))
						}
					}
				}
			}
		}
		name := string(cs.Str)
		if name == "" {
			want = hexTok([]byte("<unknown>"))
		}
		switch {
		case strings.HasPrefix(res.Stage, "driver"):
			c.Disagree("C18/dot/driver", "the Lean DOT parser could not be asked: "+res.Stage, "pvdrv-C18 dot.check", cs)
		case !res.OK:
			c.Violation("C18/dot/site="+c18DotSite(c, o.out), "single-node graph is not valid DOT: "+trunc(string(o.out)), cs)
		case got != want:
			// escapeForDot promises (doc comment) to escape quotes and backslashes and to turn
			// newlines into \l; Dot.escape is that promise.  A concrete input on which the real
			// function differs is a violation, named after the first input byte it treats differently.
			c.Violation("C18/dot/escapeForDot/"+c18EscDiff(c, name), fmt.Sprintf("escapeForDot(%q): node tooltip carries %s, the specified escaping (Dot.escape) is %s", name, got, want), cs)
		}
		c.Res.Count(canon, strings.ContainsAny(name, "\"\\\n"))
	case "callgrind-cli", "callgrind-report":
		res := c18AskCallgrind(c, o.out)
		c.Res.ModelCompared++
		switch {
		case strings.HasPrefix(res.ErrKind, "driver"):
			c.Disagree("C18/callgrind/driver", "the Lean callgrind checker could not be asked: "+res.ErrKind, "pvdrv-C18 callgrind.check", cs)
		case !res.OK:
			site := c18CgSite(o.out, res)
			c.Res.Hit("callgrind-invalid/" + site)
			c.Violation("C18/callgrind/"+site, fmt.Sprintf("callgrind output line %d violates the format (%s): %s", res.ErrLine, res.ErrKind, trunc(c18LineAt(o.out, res.ErrLine))), cs)
		default:
			stream := "/main-stream"
			if cs.Known {
				stream = "/known-stream"
			}
			for _, f := range c18UndeclaredSigs(res) {
				c.Res.Hit("callgrind-invalid/" + f.sig + stream)
				c.Violation("C18/callgrind/"+f.sig, f.what, cs)
			}
			if o.g != nil {
				c.Res.Hit("callgrind/graph-compared")
				for _, f := range c18CompareGraph(res, o.g) {
					c.Res.Hit("callgrind-invalid/" + f.sig + stream)
					c.Violation("C18/callgrind/"+f.sig, f.what, cs)
				}
			}
			c.Res.Hit(fmt.Sprintf("callgrind-ok/calls<=%d", c18Bucket(len(res.Calls))))
			rel := false
			for _, l := range strings.Split(string(o.out), "\n") {
				if strings.HasPrefix(l, "+") || strings.HasPrefix(l, "-") || (strings.HasPrefix(l, "calls=0 ") && (strings.Contains(l, " +") || strings.Contains(l, " -"))) {
					rel = true
				}
			}
			if rel {
				c.Res.Hit("callgrind-ok/relative-positions")
			}
			if strings.Contains(string(o.out), "fn=(1)\n") || strings.Contains(string(o.out), "cfn=(1)\n") || strings.Contains(string(o.out), "cfn=(2)\n") {
				c.Res.Hit("callgrind-ok/back-references")
			}
		}
		if reached {
			c.Res.Hit("reached/" + cs.Kind + "/" + cs.Hot)
		}
		if c.Tier == "thorough" && cs.Kind == "callgrind-cli" && res.OK {
			c18Annotate(c, o.out)
		}
		c.Res.Count(canon, reached || len(res.Calls) > 0)
	}
}

// c18EscDiff names the first byte of name that the real escapeForDot (as seen in the tooltip of
// a one-node graph) treats differently from the model.
func c18EscDiff(c *Ctx, name string) string {
	for i := 0; i < len(name); i++ {
		one := &c18Case{Kind: "escape", Str: c18s("x" + name[i:i+1] + "y")}
		o := c18Exec(c, "", 0, one)
		res := c18AskDot(c, o.out)
		want := c.Drv.Ask("dot.escape " + hexTok([]byte(one.Str)))
		got := ""
		if res.OK {
			for _, n := range res.Nodes {
				for _, a := range n.Attrs {
					if n.ID == "N1" && a[0] == "tooltip" {
						got = hexTok([]byte(strings.TrimSuffix(a[1], " (7)")))
					}
				}
			}
		}
		if got != want {
			return fmt.Sprintf("byte=0x%02x", name[i])
		}
	}
	return "context-dependent"
}

func c18Bucket(n int) int {
	for _, b := range []int{0, 1, 2, 4, 8, 16, 64} {
		if n <= b {
			return b
		}
	}
	return 1 << 20
}

func c18LineAt(out []byte, n int) string {
	ls := strings.Split(string(out), "\n")
	if n >= 1 && n <= len(ls) {
		return fmt.Sprintf("%q", ls[n-1])
	}
	return ""
}

func c18Excerpt(out []byte, marker string) string {
	s := string(out)
	if marker != "" {
		if i := strings.Index(s, marker); i >= 0 {
			lo, hi := i-80, i+80
			if lo < 0 {
				lo = 0
			}
			if hi > len(s) {
				hi = len(s)
			}
			return fmt.Sprintf("%q", s[lo:hi])
		}
	}
	return fmt.Sprintf("%q", trunc(s))
}

func c18EvalHTML(c *Ctx, cs *c18Case) {
	canon := c18Canon(cs)
	c.Res.Hit("kind/html")
	pages, e := c18WebPages(cs.Prof.build())
	if e != "" {
		c.Res.Hit("run-error/html/" + firstWord(e))
		if len(c.Res.Notes) < 12 {
			c.Res.Notes = append(c.Res.Notes, "html hot="+cs.Hot+": "+trunc(e))
		}
		c.Res.Count(canon, false)
		return
	}
	sig, what, nhtml, hits := c18HTMLCheck(pages, cs.Marker)
	for _, pg := range pages {
		base := pg.Path
		if i := strings.IndexByte(base, '?'); i >= 0 {
			base = base[:i]
		}
		c.Res.Hit(fmt.Sprintf("html-page%s/%d", base, pg.Status))
	}
	if sig != "" {
		c.Violation("C18/html/"+sig+"/pos="+cs.Hot, what, cs)
	}
	if hits > 0 {
		c.Res.Hit("reached/html/" + cs.Hot)
	}
	c.Res.Count(canon, nhtml > 0 && hits > 0)
}

func runC18(c *Ctx) {
	c.Res.Rule = "every white-space-only string over {space, tab, LF, CR, CRLF, VT, FF, U+00A0, U+2028} of length 1..3 is used as function name, file name and mapping file of a callgrind report in every run, a sixth of the cases draws 35% of its strings from that set (alone or around a normal name); about half of the cases additionally draw 15% / 60% of ALL their strings from a small pool of short format look-alikes (callgrind `(9)` `+3` `*` `fn=x` `calls=1 2`, DOT `N1` `]` `\\l`, HTML `</script>` `{{.}}`), repeated across nodes; profiles (and graphs handed to graph.ComposeDot) with DOT/callgrind/HTML metacharacters (\" \\ newline < > & { } [ ] | ; ( ) non-ASCII, non-UTF-8, escape look-alikes, strings ending in a backslash) in one chosen string position or in all of them (function, system name, file, mapping file, build id, comment, label key/value, numeric label key/unit, sample type/unit; graph title, legend line, tag, numeric tag, value unit) × call_tree × granularity × nodecount; the real output of pprof -dot/-callgrind (one process each), report.Generate, graph.ComposeDot and the web UI pages is checked by the Lean DOT parser / callgrind checker (pvdrv-C18). Non-trivial = the marker embedded in the hot string reached the output (DOT, HTML) or the callgrind output has calls= entries."
	tmp, err := os.MkdirTemp("", "c18-")
	if err != nil {
		c.Res.HarnessError = err.Error()
		return
	}
	defer os.RemoveAll(tmp)
	os.Setenv("XDG_CONFIG_HOME", tmp)
	os.Setenv("HOME", tmp)
	os.Setenv("PPROF_TMPDIR", tmp)

	if c.Replay != "" {
		var cs c18Case
		if err := c.LoadReplay(&cs); err != nil {
			c.Res.HarnessError = "replay: " + err.Error()
			return
		}
		if cs.Kind == "html" {
			savedStderr, savedStdout := os.Stderr, os.Stdout
			if dn, err := os.OpenFile(os.DevNull, os.O_WRONLY, 0); err == nil {
				os.Stderr, os.Stdout = dn, dn
			}
			c18EvalHTML(c, &cs)
			os.Stderr, os.Stdout = savedStderr, savedStdout
		} else {
			c18Eval(c, &cs, c18Exec(c, tmp, 0, &cs))
		}
		return
	}

	r := NewRng(c.Seed)
	marker := func(i int) string { return fmt.Sprintf("Zq%dz", i) }
	n := 0

	// --- stream 1: the pprof binary, started now, evaluated at the end ---
	var cli []*c18Case
	nDot, nCg := 400*c.Scale, 200*c.Scale
	if c.Pprof == "" {
		nDot, nCg = 0, 0
		c.Res.Notes = append(c.Res.Notes, "no pprof binary: CLI stream skipped")
	}
	for i := 0; i < nDot+nCg; i++ {
		n++
		hot := c18Positions[i%len(c18Positions)]
		cs := &c18Case{Kind: "dot-cli", Hot: hot, Marker: marker(n)}
		if i >= nDot {
			cs.Kind = "callgrind-cli"
		}
		rr := r.Fork()
		cs.Look = c18SetLook(rr)
		cs.Vals = c18SetVals(rr, cs.Kind == "callgrind-cli")
		cs.Prof = c18GenProf(rr, hot, cs.Marker, true, false)
		cs.Opts = c18GenOpts(rr, cs.Prof, hot)
		if cs.Kind == "dot-cli" && rr.Chance(25) && len(cs.Prof.Samples) > 0 && len(cs.Prof.Samples[0].Labels) > 0 {
			// pseudo frames named after label values
			if rr.Bool() {
				cs.Opts.TagLeaf = "."
			} else {
				cs.Opts.TagRoot = "."
			}
		}
		if cs.Kind == "callgrind-cli" {
			// the driver forces granularity "addresses" for -callgrind: every CLI case is on the
			// known-findings stream
			c18CgStream(rr, cs, true)
		}
		cli = append(cli, cs)
	}
	cliOut := make([]c18Out, len(cli))
	var wg sync.WaitGroup
	sem := make(chan struct{}, 16)
	for i := range cli {
		wg.Add(1)
		go func(i int) {
			defer wg.Done()
			sem <- struct{}{}
			defer func() { <-sem }()
			cliOut[i] = c18Exec(c, tmp, i, cli[i])
		}(i)
	}

	// --- stream 2: graph.ComposeDot on hand-built graphs ---
	for i := 0; i < 3600*c.Scale; i++ {
		n++
		hot := c18GraphPositions[i%len(c18GraphPositions)]
		cs := &c18Case{Kind: "compose", Hot: hot, Marker: marker(n)}
		rr := r.Fork()
		cs.Look = c18SetLook(rr)
		cs.Compose = c18GenGraph(rr, hot, cs.Marker)
		c18Eval(c, cs, c18Exec(c, tmp, 0, cs))
	}
	// --- stream 3: escapeForDot against its model ---
	// every run pushes EVERY byte value through the real function: alone, doubled, after a
	// backslash, before a quote, and all 256 in one string — so the byte map is pinned by this
	// stream alone, whatever form the source of escapeForDot has
	var esc []string
	all := make([]byte, 256)
	for b := 0; b < 256; b++ {
		all[b] = byte(b)
		c1 := string([]byte{byte(b)})
		esc = append(esc, "x"+c1+"y", c1+c1, "\\"+c1, c1+"\"", c1)
	}
	esc = append(esc, string(all), string(all)+string(all))
	for i := 0; i < 1000*c.Scale; i++ {
		rr := r.Fork()
		var s string
		switch rr.Intn(4) {
		case 0:
			s = c18Whole[rr.Intn(len(c18Whole))]
		case 1:
			b := make([]byte, rr.Intn(12))
			for j := range b {
				const alpha = "\"\\\nlnab \xff"
				b[j] = alpha[rr.Intn(len(alpha))]
			}
			s = string(b)
		default:
			s = c18Insert(rr, "name", 1+rr.Intn(5))
		}
		esc = append(esc, s)
	}
	for _, s := range esc {
		// the node label splits names at "." and "::" and ShortenFunctionName rewrites them; the
		// tooltip carries the escaped name verbatim
		cs := &c18Case{Kind: "escape", Str: c18s(s)}
		c18Eval(c, cs, c18Exec(c, tmp, 0, cs))
	}
	// --- stream 4: report.Generate in-process ---
	for i := 0; i < 2400*c.Scale; i++ {
		n++
		hot := c18Positions[i%len(c18Positions)]
		cs := &c18Case{Kind: "dot-report", Hot: hot, Marker: marker(n)}
		if i%2 == 1 {
			cs.Kind = "callgrind-report"
		}
		rr := r.Fork()
		known := cs.Kind == "callgrind-report" && i%4 == 3
		cs.Look = c18SetLook(rr)
		cs.Vals = c18SetVals(rr, cs.Kind == "callgrind-report")
		cs.Prof = c18GenProf(rr, hot, cs.Marker, cs.Kind == "dot-report", cs.Kind == "callgrind-report" && !known)
		cs.Opts = c18GenOpts(rr, cs.Prof, hot)
		if cs.Kind == "callgrind-report" {
			c18CgStream(rr, cs, known)
		}
		c18Eval(c, cs, c18Exec(c, tmp, 0, cs))
	}
	// --- stream 4b: every white-space-only string (cross product of c18WhiteAtoms, lengths 1..3) as
	// function name, file name and mapping file of a callgrind report: names that a trimming /
	// line-break step may or may not collapse to the empty name
	c18LookPct, c18WhitePct = 0, 0
	for _, field := range []string{"func", "file", "mapfile"} {
		per := 3
		if field == "mapfile" {
			per = 1
		}
		for k := 0; k < len(c18WhiteAll); k += per {
			n++
			cs := &c18Case{Kind: "callgrind-report", Hot: field, Marker: marker(n), Vals: "pos", Look: -100}
			rr := r.Fork()
			c18ValMode = "pos"
			cs.Prof = c18GenProf(rr, "", cs.Marker, false, true)
			for j := 0; j < per && k+j < len(c18WhiteAll); j++ {
				w := c18s(c18WhiteAll[k+j])
				switch field {
				case "func":
					cs.Prof.Funcs[j].Name = w
				case "file":
					cs.Prof.Funcs[j].File = w
				default:
					cs.Prof.Maps[0].File = w
				}
			}
			cs.Opts = c18Opts{Gran: []string{"functions", "lines", "files", "filefunctions"}[rr.Intn(4)], KeepAll: true}
			if field == "file" {
				cs.Opts.Gran = []string{"lines", "files", "filefunctions"}[rr.Intn(3)]
			}
			c18Eval(c, cs, c18Exec(c, tmp, 0, cs))
		}
	}
	// --- stream 5: web UI pages ---
	// (the disasm handler prints "stat <mapping file>: no such file" to the process's
	// stdout (report.go symbolsFromBinaries), with the raw bytes of the name; keep our own stderr clean)
	savedStderr, savedStdout := os.Stderr, os.Stdout
	if dn, err := os.OpenFile(os.DevNull, os.O_WRONLY, 0); err == nil {
		os.Stderr, os.Stdout = dn, dn
		defer func() { os.Stderr, os.Stdout = savedStderr, savedStdout; dn.Close() }()
	}
	for i := 0; i < 78*c.Scale; i++ {
		n++
		hot := c18Positions[i%len(c18Positions)]
		cs := &c18Case{Kind: "html", Hot: hot, Marker: marker(n)}
		rr := r.Fork()
		cs.Look = c18SetLook(rr)
		cs.Vals = c18SetVals(rr, false)
		cs.Prof = c18GenHTMLProf(rr, hot, cs.Marker)
		c18EvalHTML(c, cs)
	}
	os.Stderr, os.Stdout = savedStderr, savedStdout

	wg.Wait()
	nerr := 0
	for i := range cli {
		if cliOut[i].err != "" {
			nerr++
		}
		c18Eval(c, cli[i], cliOut[i])
	}
	if len(cli) > 0 && nerr*3 > len(cli) {
		c.Disagree("C18/cli-unusable", fmt.Sprintf("%d of %d pprof invocations failed, e.g. %s", nerr, len(cli), c18FirstErr(cliOut)), "CLI-level observation of pprof -dot/-callgrind", cli[0])
	}
	c.Res.Sample(map[string]any{"streams": "dot-cli, callgrind-cli, compose, escape, dot-report, callgrind-report, html", "cases": c.Res.Evaluations})
}

// c18CgStream puts a callgrind case on one of two streams.  The known findings
// C18/callgrind/calls-target-position (needs non-zero addresses: granularity "addresses") and
// C18/callgrind/cfn-differs-from-fn (needs "name [i/n]" disambiguation: call_tree) live on the
// known stream only, so that they cannot mask other violations on the main stream.
func c18CgStream(r *Rng, cs *c18Case, known bool) {
	cs.Known = known
	if known {
		if r.Chance(70) {
			cs.Opts.Gran = "addresses"
		} else {
			cs.Opts.CallTree = true
		}
		return
	}
	cs.Opts.CallTree = false
	if cs.Opts.Gran == "addresses" {
		cs.Opts.Gran = "lines"
	}
}

// c18Annotate: thorough tier only — callgrind_annotate as a second, independent reader of output
// the Lean checker accepted.  Recorded in the distribution, never a verdict.
func c18Annotate(c *Ctx, out []byte) {
	tool, err := exec.LookPath("callgrind_annotate")
	if err != nil {
		return
	}
	f, err := os.CreateTemp("", "c18-cg-*.out")
	if err != nil {
		return
	}
	defer os.Remove(f.Name())
	f.Write(out)
	f.Close()
	ctx, cancel := context.WithTimeout(context.Background(), 20*time.Second)
	defer cancel()
	if b, err := exec.CommandContext(ctx, tool, f.Name()).CombinedOutput(); err != nil {
		c.Res.Hit("callgrind_annotate/rejects")
		if len(c.Res.Notes) < 12 {
			c.Res.Notes = append(c.Res.Notes, "callgrind_annotate: "+trunc(string(b)))
		}
	} else {
		c.Res.Hit("callgrind_annotate/accepts")
	}
}

func c18FirstErr(o []c18Out) string {
	for _, x := range o {
		if x.err != "" {
			return trunc(x.err)
		}
	}
	return ""
}
