//go:build verif

package main

// C19: options that are SAVED in the settings file but have no URL parameter.  The web UI restores a
// saved configuration only through the URL the Config menu offers (configMenu → makeURL), so such
// an option is written to settings.json and never comes back: session 1 is started with the option
// on the command line and saves a configuration; session 2 (option back at its default) picks
// that configuration from the menu.  Direct oracle: the option must have the saved value again.
// The regenerated field table says which options these are (saved ∧ urlparam = "").
// These inputs are a stream of their own (they are a known finding of the pinned tree).

import (
	"fmt"
	"net/url"
)

func (f c19Field) flagValue() (text string, v c19Val) {
	switch f.Kind {
	case "bool":
		b := !f.Default.B
		return fmt.Sprint(b), c19Val{K: 'b', B: b}
	case "int":
		n := f.Default.I + 7
		return fmt.Sprint(n), c19Val{K: 'i', I: n}
	case "float":
		return "0.25", c19Val{K: 'f', S: "0.25"}
	case "choice":
		for _, ch := range f.Choices {
			if ch != f.Default.S {
				return ch, c19Val{K: 's', S: ch}
			}
		}
	}
	return "c19label", c19Val{K: 's', S: "c19label"}
}

func (f c19Field) flagDefault() string {
	if f.Default.K == 's' || f.Default.K == 'f' {
		return f.Default.S
	}
	return f.Default.String()
}

func (e *c19Env) runSession(cs c19Case) {
	c, t := e.c, e.t
	i, ok := t.byName[cs.Field]
	if !ok {
		c.Res.Hit("session:field-gone")
		return
	}
	f := t.Fields[i]
	text, want := f.flagValue()
	dir := e.dir()
	reset := map[string]string{f.Name: f.flagDefault()}
	defer c19NewServerFlags(e.dir(), reset) // leave the process-wide configuration at its defaults
	a, err := c19NewServerFlags(dir, map[string]string{f.Name: text})
	if err != nil {
		// pprof rejects some options on a plain command line (-normalize needs a base profile):
		// such an option cannot enter a configuration this way
		c.Res.Hit("session:" + f.Name + ":flag-rejected")
		return
	}
	if status, body, pn := a.get("/saveconfig?config=kept"); status != 200 || pn != "" {
		c.Disagree("C19/session/save", fmt.Sprintf("%d %s %s", status, body, pn), "session scenario", cs)
		return
	}
	doc := c19ReadDoc(a.file, t)
	ent, n := c19Find(doc.Entries, "kept")
	if doc.Err != "" || n != 1 || f.in(ent.Obj) != want {
		c.Res.Hit("session:option-not-saved")
		return // the option did not reach the file: nothing to restore
	}
	b, err := c19NewServerFlags(dir, reset)
	if err != nil {
		c.Disagree("C19/session/server", err.Error(), "access to the web handlers with option flags", cs)
		return
	}
	status, body, pn := b.get("/top")
	if status != 200 || pn != "" {
		c.Disagree("C19/session/page", fmt.Sprintf("%d %s %s", status, c19Trunc(body), pn), "session scenario", cs)
		return
	}
	menu, err := c19Menu(body)
	if err != nil {
		c.Disagree("C19/menu/parse", err.Error(), "observation of configMenu through a report page", cs)
		return
	}
	for _, m := range menu {
		if !m.User || m.Name != "kept" {
			continue
		}
		q := url.Values{}
		for k, v := range m.Query {
			q[k] = v
		}
		q.Set("config", "kept~")
		if status, body, pn := b.get("/saveconfig?" + q.Encode()); status != 200 || pn != "" {
			c.Violation("C19/url-roundtrip/apply-fails", fmt.Sprintf("menu URL of a saved configuration cannot be applied: %d %s %s", status, body, pn), cs)
			return
		}
		after := c19ReadDoc(b.file, t)
		cp, _ := c19Find(after.Entries, "kept~")
		got := f.in(cp.Obj)
		c.Res.Hit(fmt.Sprintf("session:%s:restored=%v", f.Name, got == want))
		if got != want {
			c.Violation("C19/url-roundtrip/saved-option-not-in-url/"+f.Name,
				fmt.Sprintf("option %s=%v is written to settings.json with configuration \"kept\" but selecting that configuration from the Config menu in a later session gives %s=%v: the menu URL cannot carry it (no URL parameter)", f.Name, want, f.Name, got), cs)
		}
		return
	}
	c.Violation("C19/menu/entries", "saved configuration missing from the menu of a later session", cs)
}

// sessions: every saved option without URL parameter, plus a few that have one (they must come back).
func (e *c19Env) sessions(r *Rng) {
	var with []c19Field
	for _, f := range e.t.Fields {
		if f.Saved && f.URLParam == "" {
			cs := c19Case{Kind: "session", Field: f.Name}
			e.runSession(cs)
			e.c.Res.Count("session:"+f.Name, true)
		} else if f.Saved {
			with = append(with, f)
		}
	}
	for i := 0; i < 3*e.c.Scale && len(with) > 0; i++ {
		f := with[r.Intn(len(with))]
		e.runSession(c19Case{Kind: "session", Field: f.Name})
		e.c.Res.Count("session:"+f.Name, true)
	}
}
