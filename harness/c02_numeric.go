//go:build verif

package main

// Numeric-behaviour dimension of the C02 report stage: every report kind × the options that
// change arithmetic (-mean, -divide_by, -sample_index, -drop_negative, -unit, and with a base
// -normalize / -diff_base), on accepted inputs whose value columns are degenerate.

import (
	"fmt"
	"hash/fnv"
	"math"
	"strings"

	"github.com/google/pprof/profile"
)

// c02ROpt is one assignment of the numeric options (zero value = the driver's defaults).
type c02ROpt struct {
	name         string
	mean         bool
	divideBy     float64 // 0 = default 1
	sampleIndex  string  // "", "#0", "#last", "#mid", "@0" (name of type 0), "@last", or a literal
	dropNegative bool
	unit         string // "" = "minimum"
}

var c02ROpts = []c02ROpt{
	{name: "mean", mean: true},
	{name: "mean+si0", mean: true, sampleIndex: "#0"},
	{name: "mean+silast", mean: true, sampleIndex: "#last"},
	{name: "mean+simid", mean: true, sampleIndex: "#mid"},
	{name: "mean+dropneg", mean: true, dropNegative: true},
	{name: "mean+div", mean: true, divideBy: 3},
	{name: "mean+unit", mean: true, unit: "auto"},
	{name: "si0", sampleIndex: "#0"},
	{name: "silast", sampleIndex: "#last"},
	{name: "sinamed0", sampleIndex: "@0"},
	{name: "sinamedlast", sampleIndex: "@last"},
	{name: "siunknown", sampleIndex: "nosuchtype"},
	{name: "sibig", sampleIndex: "99999999999999999999"},
	{name: "dropneg", dropNegative: true},
	{name: "div-tiny", divideBy: 1e-300},
	{name: "div-small", divideBy: 1e-9},
	{name: "div-half", divideBy: 0.5},
	{name: "div-3", divideBy: 3},
	{name: "div-huge", divideBy: 1e18},
	{name: "div-max", divideBy: math.MaxFloat64},
	{name: "div-neg", divideBy: -2},
	{name: "unit-auto", unit: "auto"},
	{name: "unit-ms", unit: "ms"},
	{name: "unit-kb", unit: "kb"},
	{name: "unit-unknown", unit: "nosuchunit"},
	{name: "mean+dropneg+div+unit", mean: true, dropNegative: true, divideBy: 1e-9, unit: "bytes", sampleIndex: "#0"},
}

const c02NMeanOpts = 7 // the first entries of c02ROpts all set mean

// c02ResolveIndex turns the symbolic sample index into the string the user would type.
func c02ResolveIndex(p *profile.Profile, si string) string {
	if p == nil || len(p.SampleType) == 0 {
		return si
	}
	n := len(p.SampleType)
	switch si {
	case "#0":
		return "0"
	case "#last":
		return fmt.Sprint(n - 1)
	case "#mid":
		return fmt.Sprint(n / 2)
	case "@0":
		return p.SampleType[0].Type
	case "@last":
		return p.SampleType[n-1].Type
	}
	return si
}

// c02CLIFlags renders the option assignment as command-line flags ("" entries dropped); ok is
// false when a value cannot travel in argv (NUL bytes, empty type name).
func c02CLIFlags(p *profile.Profile, o c02ROpt) (flags []string, ok bool) {
	if o.mean {
		flags = append(flags, "-mean")
	}
	if o.divideBy != 0 {
		flags = append(flags, fmt.Sprintf("-divide_by=%g", o.divideBy))
	}
	if o.sampleIndex != "" {
		si := c02ResolveIndex(p, o.sampleIndex)
		if si == "" || strings.ContainsRune(si, 0) {
			return nil, false
		}
		flags = append(flags, "-sample_index="+si)
	}
	if o.dropNegative {
		flags = append(flags, "-drop_negative")
	}
	if o.unit != "" {
		flags = append(flags, "-unit="+o.unit)
	}
	return flags, true
}

type c02Pick struct {
	f c02Format
	o c02ROpt
}

// c02ReportPicks chooses which (report kind, option assignment) pairs run on one accepted
// input: the full cross for the degenerate-value stream, otherwise one pair from the -mean
// family and two more, chosen by a hash of the serialized profile (so a replay repeats them).
func c02ReportPicks(pb []byte, full bool) []c02Pick {
	var out []c02Pick
	if full {
		for _, f := range c02Formats {
			for _, o := range c02ROpts {
				out = append(out, c02Pick{f, o})
			}
		}
		return out
	}
	h := fnv.New64a()
	h.Write(pb)
	x := h.Sum64()
	next := func(n int) int {
		x = x*6364136223846793005 + 1442695040888963407
		return int((x >> 33) % uint64(n))
	}
	out = append(out, c02Pick{c02Formats[next(len(c02Formats))], c02ROpts[next(c02NMeanOpts)]})
	for i := 0; i < 2; i++ {
		out = append(out, c02Pick{c02Formats[next(len(c02Formats))], c02ROpts[next(len(c02ROpts))]})
	}
	return out
}

// ---- degenerate value columns ----

var c02ValuePatterns = []string{"all-zero", "cancel-per-column", "zero-first-column", "zero-last-column", "min-max", "all-min", "all-max",
	"single-sample", "single-zero-sample", "first-column-minus-one", "negative-only", "cancel-first-column-only", "diff-base-zero", "overflowing-sum"}

// c02ValueProfile builds a valid symbolized profile whose value columns follow the pattern.
func c02ValueProfile(r *Rng, pattern string) *profile.Profile {
	o := GenOpts{MaxSamples: 5, MaxSampleTypes: 3, Labels: r.Chance(30)}
	var p *profile.Profile
	for {
		p = GenProfile(r, &o)
		if len(p.Sample) >= 2 && len(p.SampleType) > 0 {
			break
		}
	}
	if len(p.Sample)%2 == 1 { // even number of samples: pairs can cancel
		p.Sample = p.Sample[:len(p.Sample)-1]
	}
	nst := len(p.SampleType)
	nz := func() int64 { return int64(1 + r.Intn(1000)) }
	for i, s := range p.Sample {
		for j := range s.Value {
			s.Value[j] = nz()
			switch pattern {
			case "all-zero", "single-zero-sample":
				s.Value[j] = 0
			case "cancel-per-column":
				if i%2 == 1 {
					s.Value[j] = -p.Sample[i-1].Value[j]
				}
			case "zero-first-column":
				if j == 0 {
					s.Value[j] = 0
				}
			case "zero-last-column":
				if j == nst-1 {
					s.Value[j] = 0
				}
			case "min-max":
				s.Value[j] = []int64{math.MinInt64, math.MaxInt64}[(i+j)%2]
			case "all-min":
				s.Value[j] = math.MinInt64
			case "all-max", "overflowing-sum":
				s.Value[j] = math.MaxInt64
			case "first-column-minus-one":
				if j == 0 {
					s.Value[j] = 0
					if i == 0 {
						s.Value[j] = -1
					}
				} else if i == 0 {
					s.Value[j] = math.MinInt64
				}
			case "negative-only":
				s.Value[j] = -nz()
			case "cancel-first-column-only":
				if j == 0 && i%2 == 1 {
					s.Value[j] = -p.Sample[i-1].Value[j]
				}
			case "diff-base-zero":
				if j == 0 {
					s.Value[j] = 0
				}
			}
		}
		if pattern == "diff-base-zero" && i%2 == 0 {
			if s.Label == nil {
				s.Label = map[string][]string{}
			}
			s.Label["pprof::base"] = []string{"true"}
		}
	}
	if pattern == "single-sample" || pattern == "single-zero-sample" {
		p.Sample = p.Sample[:1]
	}
	if r.Chance(30) {
		p.DefaultSampleType = p.SampleType[r.Intn(nst)].Type
	}
	return p
}
