//go:build verif

package main

import (
	"fmt"
	"sort"
	"strconv"
	"strings"
)

// line protocol of Driver/Ops/C07.lean:
//   key = frames:list(nat) tag:nat base:bool;  sample = key vals:list(int);  prof = list(sample)
//   col = typ:nat unitname:nat fam:nat factor:nat;  tprof = list(col) prof

type c07MSample struct {
	Key  c07Key
	Vals []int64
}

type c07MCol struct {
	Typ, Unit, Fam int
	Factor         int64
}

type c07MProf struct {
	Cols    []c07MCol
	Samples []c07MSample
}

// build: samples of different builds never merge in pprof (distinct mappings/addresses); the model's
// opaque tag carries the build so that its Merge behaves the same.
func c07TokProf(sb *strings.Builder, ss []c07Sample, base []bool, build ...int) {
	bld := 0
	if len(build) > 0 {
		bld = build[0]
	}
	fmt.Fprintf(sb, " %d", len(ss))
	for i, s := range ss {
		fmt.Fprintf(sb, " %d", len(s.Stack))
		for _, x := range s.Stack {
			fmt.Fprintf(sb, " %d", x)
		}
		b := 0
		if base != nil && base[i] {
			b = 1
		}
		fmt.Fprintf(sb, " %d %d %d", c07TagID(s.Tag)+16*bld, b, len(s.Values))
		for _, v := range s.Values {
			fmt.Fprintf(sb, " %d", v)
		}
	}
}

func c07TokTProf(sb *strings.Builder, p *c07Prof) {
	fmt.Fprintf(sb, " %d", len(p.Types))
	for _, t := range p.Types {
		u := c07Units[t.Unit]
		fmt.Fprintf(sb, " %d %d %d %d", c07TypeID(t.Type), c07UnitID(t.Unit), u.fam, u.factor)
	}
	c07TokProf(sb, p.Samples, nil, p.Build)
}

func c07TokTProfs(sb *strings.Builder, ps []c07Prof) {
	fmt.Fprintf(sb, " %d", len(ps))
	for i := range ps {
		c07TokTProf(sb, &ps[i])
	}
}

type c07TR struct {
	toks []string
	i    int
	bad  bool
}

func (r *c07TR) int() int64 {
	if r.i >= len(r.toks) {
		r.bad = true
		return 0
	}
	v, err := strconv.ParseInt(r.toks[r.i], 10, 64)
	if err != nil {
		r.bad = true
	}
	r.i++
	return v
}
func (r *c07TR) n() int {
	v := r.int()
	if v < 0 || v > 1<<20 {
		r.bad = true
		return 0
	}
	return int(v)
}

func (r *c07TR) prof() []c07MSample {
	var out []c07MSample
	for i, n := 0, r.n(); i < n && !r.bad; i++ {
		var st []int
		for j, m := 0, r.n(); j < m && !r.bad; j++ {
			st = append(st, r.n())
		}
		tag := r.n() % 16
		b := r.n() != 0
		s := c07MSample{Key: c07Key{Stack: c07StackStr(st), Base: b}}
		if tag < len(c07Tags) {
			s.Key.Tag = c07Tags[tag]
		} else {
			s.Key.Tag = fmt.Sprint("?", tag)
		}
		for j, m := 0, r.n(); j < m && !r.bad; j++ {
			s.Vals = append(s.Vals, r.int())
		}
		out = append(out, s)
	}
	return out
}

func (r *c07TR) tprof() c07MProf {
	var p c07MProf
	for i, n := 0, r.n(); i < n && !r.bad; i++ {
		p.Cols = append(p.Cols, c07MCol{Typ: r.n(), Unit: r.n(), Fam: r.n(), Factor: r.int()})
	}
	p.Samples = r.prof()
	return p
}

// c07Reply splits "ok tok tok…" / "err" / "panic"
func c07Reply(s string) (cls string, r *c07TR) {
	f := strings.Fields(s)
	if len(f) == 0 {
		return "empty", &c07TR{bad: true}
	}
	return f[0], &c07TR{toks: f[1:]}
}

// canonical text of a sample multiset (order is not promised by Merge / ScaleN keeps order but we
// compare as multisets everywhere except where noted)
func c07CanonSamples(ss []c07MSample, dropZero bool) string {
	// as a weight function: values summed per key (Merge may or may not have combined equal stacks)
	w := map[c07Key][]int64{}
	for _, s := range ss {
		if w[s.Key] == nil {
			w[s.Key] = make([]int64, len(s.Vals))
		}
		for j, v := range s.Vals {
			if j < len(w[s.Key]) {
				w[s.Key][j] += v
			}
		}
	}
	var ls []string
	for k, v := range w {
		z := true
		for _, x := range v {
			z = z && x == 0
		}
		if dropZero && z {
			continue
		}
		ls = append(ls, fmt.Sprintf("%s|%s|%v|%v", k.Stack, k.Tag, k.Base, v))
	}
	sort.Strings(ls)
	return strings.Join(ls, ";")
}

func c07MSamples(ss []c07Sample, base []bool) []c07MSample {
	var out []c07MSample
	for i, s := range ss {
		b := base != nil && base[i]
		out = append(out, c07MSample{Key: c07Key{Stack: c07StackStr(s.Stack), Tag: s.Tag, Base: b}, Vals: s.Values})
	}
	return out
}

func c07ModeID(m string) int {
	switch m {
	case "base":
		return 1
	case "diff_base":
		return 2
	}
	return 0
}

func c07AskFetch(c *Ctx, cs *c07Case, pinned bool) string {
	var sb strings.Builder
	nz := 0
	if cs.Normalize {
		nz = 1
	}
	op := "c07.fetch"
	if pinned {
		op = "c07.fetch-pinned"
	}
	fmt.Fprintf(&sb, "%s %d %d", op, c07ModeID(cs.Mode), nz)
	c07TokTProfs(&sb, cs.Sources)
	c07TokTProfs(&sb, cs.Bases)
	return c.Drv.Ask(sb.String())
}
