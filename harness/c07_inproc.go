//go:build verif

package main

import (
	"fmt"
	"math"
	"strings"

	"github.com/google/pprof/internal/measurement"
	"github.com/google/pprof/profile"
)

// in-process correspondence: profile.ScaleN / Scale(-1) / Normalize / CompatibilizeSampleTypes /
// measurement.ScaleProfiles against the Lean model, plus the direct oracle of each.

func c07Plain(a *c07Prof) *profile.Profile {
	p := &profile.Profile{PeriodType: &profile.ValueType{Type: "cpu", Unit: "nanoseconds"}, Period: 1}
	for _, t := range a.Types {
		p.SampleType = append(p.SampleType, &profile.ValueType{Type: t.Type, Unit: t.Unit})
	}
	for i, s := range a.Samples {
		// identity travels in a label, so that an implementation that rebuilds the sample list stays comparable
		p.Sample = append(p.Sample, &profile.Sample{Value: append([]int64(nil), s.Values...), Label: map[string][]string{"i": {fmt.Sprint(i)}}})
	}
	return p
}

func c07SampleID(s *profile.Sample, n int) int {
	if s == nil || len(s.Label["i"]) != 1 {
		return -1
	}
	var i int
	if _, err := fmt.Sscan(s.Label["i"][0], &i); err != nil || i < 0 || i >= n {
		return -1
	}
	return i
}

// read the result back: samples are identified by their label
func c07Back(p *profile.Profile, orig []*profile.Sample, a *c07Prof) []c07MSample {
	var out []c07MSample
	for _, s := range p.Sample {
		i := c07SampleID(s, len(a.Samples))
		ok := i >= 0
		k := c07Key{Stack: "?"}
		if ok {
			k = c07Key{Stack: c07StackStr(a.Samples[i].Stack), Tag: a.Samples[i].Tag}
		}
		out = append(out, c07MSample{Key: k, Vals: append([]int64(nil), s.Value...)})
	}
	return out
}

// samples in order, all-zero samples left out: whether ScaleN itself or only the later Merge removes
// them is not part of the property
func c07Seq(ss []c07MSample) string {
	var ls []string
	for _, s := range ss {
		z := true
		for _, v := range s.Vals {
			z = z && v == 0
		}
		if z {
			continue
		}
		ls = append(ls, fmt.Sprintf("%s|%v", s.Key.Stack, s.Vals))
	}
	return strings.Join(ls, ";")
}

func (run *c07Run) checkInproc(cs *c07Case) bool {
	c := run.c
	c.Res.Hit("inproc:" + cs.Kind)
	if len(cs.Sources) == 0 {
		return false
	}
	switch cs.Kind {
	case "scalen":
		return run.inScaleN(cs)
	case "scaleneg":
		return run.inScaleNeg(cs)
	case "normalize":
		return run.inNormalize(cs)
	case "compat":
		return run.inCompat(cs)
	case "scaleprofiles":
		return run.inScaleProfiles(cs)
	}
	c.Res.HarnessError = "C07: unknown case kind " + cs.Kind
	return false
}

func (run *c07Run) inScaleN(cs *c07Case) bool {
	c := run.c
	a := &cs.Sources[0]
	p := c07Plain(a)
	orig := append([]*profile.Sample(nil), p.Sample...)
	ratios := make([]float64, len(cs.Ratios))
	nt := false
	var sb strings.Builder
	fmt.Fprintf(&sb, "c07.scalen %d %d", len(a.Types), len(cs.Ratios))
	for i, r := range cs.Ratios {
		if r[1] <= 0 {
			c.Res.HarnessError = "C07: ratio with non-positive denominator"
			return false
		}
		ratios[i] = float64(r[0]) / float64(r[1])
		fmt.Fprintf(&sb, " %d %d", r[0], r[1])
		nt = nt || r[0] != r[1]
	}
	c07TokProf(&sb, a.Samples, nil)
	var err error
	if pn := c07Safely(func() { err = p.ScaleN(ratios) }); pn != "" {
		c.Violation("C07/scaleN/panic", pn, cs)
		return nt
	}
	c.Res.ModelCompared++
	reply := c.Drv.Ask(sb.String())
	cls, rr := c07Reply(reply)
	if err != nil {
		if cls != "err" {
			c.Disagree("C07/model/scaleN-error-class", "ScaleN returns an error, model "+cls, "correspondence Combine.scaleN ~ Profile.ScaleN", cs)
		}
		return false
	}
	got := c07Back(p, orig, a)
	pinnedReply := c.Drv.Ask(strings.Replace(sb.String(), "c07.scalen ", "c07.scalen-pinned ", 1))
	pcls, pr := c07Reply(pinnedReply)
	var want []c07MSample
	if cls == "ok" {
		want = rr.prof()
	}
	pinnedExplains := cls == "ok" && pcls == "ok" && c07Seq(want) != c07Seq(got) && c07Seq(pr.prof()) == c07Seq(got)
	if cls == "ok" && pcls == "ok" && c07Seq(want) != c07Seq(c07ReparseSeq(pinnedReply)) {
		c.Res.Hit("stream:scalen-drop(inproc)")
	}
	// direct oracle: a sample with a non-zero value in a column whose ratio is 1 keeps that value, so it must survive
	kept := map[int]bool{}
	for _, s := range p.Sample {
		kept[c07SampleID(s, len(a.Samples))] = true
	}
	okDirect := true
	for i, s := range a.Samples {
		must := false
		for j, v := range s.Values {
			must = must || (v != 0 && j < len(cs.Ratios) && cs.Ratios[j][0] == cs.Ratios[j][1])
		}
		if must && !kept[i] {
			okDirect = false
			sig := "C07/scaleN/drops-nonzero-sample"
			if pinnedExplains {
				sig = c07SigScaleNDrop
			}
			c.Violation(sig, fmt.Sprintf("ScaleN%v dropped sample %v, whose value in a column with ratio 1 is non-zero", cs.Ratios, s.Values), cs)
			break
		}
	}
	if cls != "ok" {
		if okDirect {
			c.Disagree("C07/model/scaleN-"+cls, "model: "+c07Trunc(reply), "correspondence Combine.scaleN ~ Profile.ScaleN", cs)
		}
		return nt
	}
	if c07Seq(want) != c07Seq(got) && okDirect {
		c.Disagree("C07/model/scaleN", "ScaleN result {"+c07Trunc(c07Seq(got))+"} model {"+c07Trunc(c07Seq(want))+"}", "theorems scaleN_keeps_nonzero_samples, scale_by_integer_exact / correspondence Combine.scaleN ~ Profile.ScaleN", cs)
	}
	return nt && len(a.Samples) > 0
}

func c07ReparseSeq(reply string) []c07MSample {
	_, r := c07Reply(reply)
	return r.prof()
}

func (run *c07Run) inScaleNeg(cs *c07Case) bool {
	c := run.c
	a := &cs.Sources[0]
	p := c07Plain(a)
	orig := append([]*profile.Sample(nil), p.Sample...)
	if pn := c07Safely(func() { p.Scale(-1) }); pn != "" {
		c.Violation("C07/scale/panic", pn, cs)
		return false
	}
	got := c07Back(p, orig, a)
	// direct oracle: Scale(-1) negates
	exact := true
	for _, s := range p.Sample {
		i := c07SampleID(s, len(a.Samples))
		for j, v := range s.Value {
			if i < 0 || v != -a.Samples[i].Values[j] {
				exact = false
			}
		}
	}
	if !exact {
		if c07HasLarge(cs) {
			c.Violation("C07/scale/|v|>2^53", "Scale(-1) goes through float64: values beyond 2^53 are not negated exactly", cs)
		} else {
			c.Violation("C07/scale/negation-inexact", "Scale(-1) does not negate values within ±2^53", cs)
			return true
		}
	}
	var sb strings.Builder
	sb.WriteString("c07.scaleneg")
	c07TokProf(&sb, a.Samples, nil)
	c.Res.ModelCompared++
	reply := c.Drv.Ask(sb.String())
	cls, rr := c07Reply(reply)
	if want := rr.prof(); cls != "ok" || c07Seq(want) != c07Seq(got) {
		c.Disagree("C07/model/scaleNeg1", "Scale(-1) {"+c07Trunc(c07Seq(got))+"} float model {"+c07Trunc(c07Seq(want))+"}", "theorems *_f64_partial / correspondence Combine.scaleNeg1 (rne53) ~ Profile.Scale(-1)", cs)
	}
	return len(a.Samples) > 0
}

func (run *c07Run) inNormalize(cs *c07Case) bool {
	c := run.c
	if len(cs.Bases) == 0 {
		return false
	}
	a, b := &cs.Sources[0], &cs.Bases[0]
	p, pb := c07Plain(a), c07Plain(b)
	orig := append([]*profile.Sample(nil), p.Sample...)
	var err error
	if pn := c07Safely(func() { err = p.Normalize(pb) }); pn != "" {
		c.Violation("C07/normalize/panic", pn, cs)
		return false
	}
	if err != nil {
		c.Violation("C07/normalize/error", "Normalize refuses profiles with identical sample types: "+err.Error(), cs)
		return false
	}
	var sb strings.Builder
	fmt.Fprintf(&sb, "c07.normalize %d", len(a.Types))
	c07TokProf(&sb, a.Samples, nil)
	c07TokProf(&sb, b.Samples, nil)
	c.Res.ModelCompared++
	reply := c.Drv.Ask(sb.String())
	cls, rr := c07Reply(reply)
	if cls != "ok" {
		c.Disagree("C07/model/normalize-"+cls, c07Trunc(reply), "correspondence Combine.normalize ~ Profile.Normalize", cs)
		return true
	}
	want := rr.prof()
	tie := rr.n() != 0
	got := c07Back(p, orig, a)
	pinned := c07ReparseSeq(c.Drv.Ask(strings.Replace(sb.String(), "c07.normalize ", "c07.normalize-pinned ", 1)))
	if c07Seq(pinned) != c07Seq(want) {
		c.Res.Hit("stream:scalen-drop(inproc)")
	}
	pinnedExplains := c07Seq(pinned) == c07Seq(got) && c07Seq(want) != c07Seq(got)
	okDirect := true
	n := len(a.Samples)
	for j := range a.Types {
		var srcSum, absSum, baseSum, gotSum int64
		for _, s := range a.Samples {
			srcSum += s.Values[j]
			absSum += int64(math.Abs(float64(s.Values[j])))
		}
		for _, s := range b.Samples {
			baseSum += s.Values[j]
		}
		for _, s := range p.Sample {
			gotSum += s.Value[j]
		}
		if srcSum == 0 {
			continue
		}
		slack := float64(absSum) * math.Abs(float64(baseSum)/float64(srcSum)) * math.Pow(2, -50)
		if slack >= 0.5 {
			c.Res.Hit("normalize-slack-too-large-skipped")
			continue
		}
		if 2*math.Abs(float64(gotSum-baseSum)) > float64(n)+2*slack {
			okDirect = false
			sig := "C07/normalize/total-off"
			if pinnedExplains {
				sig = c07SigScaleNDrop
			}
			c.Violation(sig, fmt.Sprintf("Normalize, column %d: scaled total %d, base total %d, %d samples", j, gotSum, baseSum, n), cs)
			break
		}
	}
	if c07Seq(want) != c07Seq(got) {
		switch {
		case pinnedExplains:
			c.Violation(c07SigScaleNDrop, "Normalize lost a sample that keeps a non-zero value in a column whose ratio is exactly 1: {"+c07Trunc(c07Seq(got))+"} instead of {"+c07Trunc(c07Seq(want))+"}", cs)
		case tie:
			c.Res.Hit("normalize-near-tie-skipped")
		case okDirect:
			c.Disagree("C07/model/normalize", "Normalize {"+c07Trunc(c07Seq(got))+"} model {"+c07Trunc(c07Seq(want))+"}", "theorem normalize_total_bound / correspondence Combine.normalize ~ Profile.Normalize", cs)
		}
	}
	return n > 0
}

func c07TProfsBack(ps []*profile.Profile, as []c07Prof) string {
	var ls []string
	for k, p := range ps {
		var ts []string
		for _, t := range p.SampleType {
			u := c07Units[t.Unit]
			ts = append(ts, fmt.Sprintf("%d/%d/%d", c07TypeID(t.Type), u.fam, u.factor))
		}
		var ms []c07MSample
		for i, s := range p.Sample {
			ms = append(ms, c07MSample{Key: c07Key{Stack: c07StackStr(as[k].Samples[min(i, len(as[k].Samples)-1)].Stack)}, Vals: s.Value})
		}
		ls = append(ls, strings.Join(ts, ",")+"{"+c07Seq(ms)+"}")
	}
	return strings.Join(ls, " ")
}

func c07TProfsModel(r *c07TR) string {
	var ls []string
	for i, n := 0, r.n(); i < n && !r.bad; i++ {
		p := r.tprof()
		var ts []string
		for _, cl := range p.Cols {
			ts = append(ts, fmt.Sprintf("%d/%d/%d", cl.Typ, cl.Fam, cl.Factor))
		}
		ls = append(ls, strings.Join(ts, ",")+"{"+c07Seq(p.Samples)+"}")
	}
	return strings.Join(ls, " ")
}

func (run *c07Run) inCompat(cs *c07Case) bool {
	c := run.c
	ps := make([]*profile.Profile, len(cs.Sources))
	for i := range cs.Sources {
		ps[i] = c07Plain(&cs.Sources[i])
	}
	var err error
	if pn := c07Safely(func() { err = profile.CompatibilizeSampleTypes(ps) }); pn != "" {
		c.Violation("C07/compat/panic", pn, cs)
		return false
	}
	var sb strings.Builder
	sb.WriteString("c07.compat")
	c07TokTProfs(&sb, cs.Sources)
	c.Res.ModelCompared++
	reply := c.Drv.Ask(sb.String())
	cls, rr := c07Reply(reply)
	want := c07CommonTypes(&c07Case{Sources: cs.Sources})
	if err != nil {
		if len(want) != 0 {
			c.Violation("C07/compat/refuses-common-types", "CompatibilizeSampleTypes fails although the profiles share sample types: "+err.Error(), cs)
		} else if cls != "err" {
			c.Disagree("C07/model/compat-error-class", "Go error, model "+cls, "correspondence Combine.compatibilize ~ CompatibilizeSampleTypes", cs)
		}
		return false
	}
	// direct oracle: columns = common types in the first profile's order, values carried from the
	// column of that name, no sample dropped
	okDirect := true
	for k, p := range ps {
		a := &cs.Sources[k]
		bad := len(p.SampleType) != len(want) || len(p.Sample) != len(a.Samples)
		for j := 0; j < len(want) && !bad; j++ {
			src := -1
			for x, t := range a.Types {
				if t.Type == want[j] && src < 0 {
					src = x
				}
			}
			bad = bad || src < 0 || p.SampleType[j].Type != want[j] || p.SampleType[j].Unit != a.Types[src].Unit
			for i := 0; i < len(p.Sample) && !bad; i++ {
				bad = len(p.Sample[i].Value) != len(want) || p.Sample[i].Value[j] != a.Samples[i].Values[src]
			}
		}
		if bad {
			okDirect = false
			c.Violation("C07/compat/wrong-column", fmt.Sprintf("profile %d after CompatibilizeSampleTypes does not carry the common types %v with the values of the columns of those names", k, want), cs)
			break
		}
	}
	if got, w := c07TProfsBack(ps, cs.Sources), c07TProfsModel(rr); (cls != "ok" || got != w) && okDirect {
		c.Disagree("C07/model/compat", "Go {"+c07Trunc(got)+"} model {"+c07Trunc(cls+" "+w)+"}", "theorem compatibilize_spec / correspondence Combine.compatibilize ~ CompatibilizeSampleTypes", cs)
	}
	return len(cs.Sources) > 1
}

func (run *c07Run) inScaleProfiles(cs *c07Case) bool {
	c := run.c
	ps := make([]*profile.Profile, len(cs.Sources))
	origs := make([][]*profile.Sample, len(cs.Sources))
	for i := range cs.Sources {
		ps[i] = c07Plain(&cs.Sources[i])
		origs[i] = append([]*profile.Sample(nil), ps[i].Sample...)
	}
	var err error
	if pn := c07Safely(func() { err = measurement.ScaleProfiles(ps) }); pn != "" {
		c.Violation("C07/scaleProfiles/panic", pn, cs)
		return false
	}
	var sb strings.Builder
	sb.WriteString("c07.scaleprofiles")
	c07TokTProfs(&sb, cs.Sources)
	c.Res.ModelCompared++
	reply := c.Drv.Ask(sb.String())
	cls, rr := c07Reply(reply)
	if err != nil {
		if cls != "err" {
			c.Disagree("C07/model/scaleProfiles-error-class", "Go error ("+err.Error()+"), model "+cls, "correspondence Combine.scaleProfiles ~ ScaleProfiles", cs)
		}
		return false
	}
	// direct oracle: physical quantity of every value preserved, no sample with a non-zero value lost
	okDirect := true
	nt := false
	lost := ""
	for k, p := range ps {
		a := &cs.Sources[k]
		kept := map[int]bool{}
		for _, s := range p.Sample {
			i := c07SampleID(s, len(a.Samples))
			kept[i] = true
			for j, v := range s.Value {
				if okDirect && (i < 0 || v*c07Factor(p.SampleType[j].Unit) != a.Samples[i].Values[j]*c07Factor(a.Types[j].Unit)) {
					okDirect = false
					c.Violation("C07/scaleProfiles/quantity-changed", fmt.Sprintf("profile %d sample %d column %d: now %d %s", k, i, j, v, p.SampleType[j].Unit), cs)
				}
			}
		}
		for j := range a.Types {
			nt = nt || p.SampleType[j].Unit != a.Types[j].Unit
		}
		for i, s := range a.Samples {
			nz := false
			for _, v := range s.Values {
				nz = nz || v != 0 // a non-zero value stays non-zero when multiplied by a unit factor >= 1
			}
			if okDirect && nz && !kept[i] {
				okDirect = false
				lost = fmt.Sprintf("ScaleProfiles lost sample %d of profile %d (values %v)", i, k, s.Values)
			}
		}
	}
	var got []string
	for k, p := range ps {
		var ts []string
		for _, t := range p.SampleType {
			u := c07Units[t.Unit]
			ts = append(ts, fmt.Sprintf("%d/%d/%d", c07TypeID(t.Type), u.fam, u.factor))
		}
		got = append(got, strings.Join(ts, ",")+"{"+c07Seq(c07Back(p, origs[k], &cs.Sources[k]))+"}")
	}
	if lost != "" {
		sig := "C07/scaleProfiles/drops-nonzero-sample"
		_, pr := c07Reply(c.Drv.Ask(strings.Replace(sb.String(), "c07.scaleprofiles", "c07.scaleprofiles-pinned", 1)))
		if c07TProfsModel(pr) == strings.Join(got, " ") {
			sig = c07SigScaleNDrop
		}
		c.Violation(sig, lost, cs)
	}
	if g, w := strings.Join(got, " "), c07TProfsModel(rr); (cls != "ok" || g != w) && okDirect {
		c.Disagree("C07/model/scaleProfiles", "Go {"+c07Trunc(g)+"} model {"+c07Trunc(cls+" "+w)+"}", "theorem commonUnit_finest, scale_by_integer_exact / correspondence Combine.scaleProfiles ~ ScaleProfiles", cs)
	}
	return nt
}
