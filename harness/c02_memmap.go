//go:build verif

package main

// The memory-map dimension of the legacy stream of C02: every text legacy format (and the
// C++ binary CPU format) ends in a memory map that ParseMemoryMap turns into mappings
// (parseMappingEntry, attribute substitution, massageMappings: merging of adjacent ranges and
// the main-binary heuristic on the mapping NAME, remapMappingIDs: /anon_hugepage removal, start
// adjustment, address matching, fake mapping). Generated maps cross line FORM × NAME pattern ×
// permissions × offsets × range layout × attribute/log-prefix lines; the same value pools
// drive a mutator for the map lines of existing documents.

import (
	"bytes"
	"fmt"
	"regexp"
	"strings"
)

var c02MapNames = []string{
	"", "(deleted)", "(deleted)(deleted)", "/bin/prog (deleted)", "/bin/prog(deleted)", "(deleted)/bin/prog", " ", "   \t ",
	"[vdso]", "[", "[]", "[heap]", "[stack]", "[anon:x]", "[vdso] (deleted)", "[x", "]",
	"/lib/libc.so.6", "/lib/libc-2.15.so", "libfoo.so", "x.so.1", "x.so_2", ".so", "so", "/a/b.so (deleted)", "/lib/x.so.", "/usr/lib/.so.1.2.3",
	"/anon_hugepage", "/anon_hugepage (deleted)", "/anon_hugepage_x",
	"/bin/prog", "/home/u/prog", "prog", "/", ".", "-", "0", "00400000-00500000", "abc123", "ffff",
	"$build/prog", "$", "$$", "a=b", "=", "(@0)", "(@ffff)", "@",
	"\xff\xfe", "\xc3", "caf\xc3\xa9", "\x00", "a\x00b",
	"%s", "%!d(string=x)", "\\", "\"q\"", "<b>", "日本語",
}

var c02MapPerms = []string{"r-xp", "r-xp", "r-xp", "r--p", "rw-p", "---p", "rwxp", "r-x", "x", "-", "p", "xxxx", "", "rwxs", "r-xp-"}

// the name patterns the mapping heuristics branch on (empty, only "(deleted)", brackets, .so)
var c02MapKeyNames = []string{"", "(deleted)", "(deleted)", "[", "[vdso]", "[x", ".so", "x.so.1", "/bin/prog (deleted)", "/anon_hugepage", " ", "\xff"}

func c02MapName(r *Rng) string {
	if r.Chance(30) {
		return c02MapKeyNames[r.Intn(len(c02MapKeyNames))]
	}
	switch r.Intn(12) {
	case 0: // very long
		return "/" + strings.Repeat("x", 200+r.Intn(5000))
	case 1: // very long and bracketed / deleted
		return "[" + strings.Repeat("y", 300+r.Intn(3000)) + " (deleted)"
	case 2: // composed
		return c02MapNames[r.Intn(len(c02MapNames))] + c02MapNames[r.Intn(len(c02MapNames))]
	}
	return c02MapNames[r.Intn(len(c02MapNames))]
}

type c02MapRange struct{ start, limit, offset uint64 }

// c02MapLayout draws n ranges: disjoint, adjacent (limit == next start, with consistent or
// inconsistent offsets), overlapping, empty, inverted, extreme; usually the first ranges cover
// the addresses the sample printers use (0x400000…0x402000).
func c02MapLayout(r *Rng, n int) []c02MapRange {
	var out []c02MapRange
	cur := uint64(0x400000)
	if r.Chance(20) {
		cur = []uint64{0, 0x1000, 0x400000 + 0x2000, 0x7f0000000000, 1 << 63, ^uint64(0) - 0x2000}[r.Intn(6)]
	}
	off := uint64(0)
	if r.Chance(30) {
		off = []uint64{0x1000, 0x2000, 0x400000, ^uint64(0), 1 << 63}[r.Intn(5)]
	}
	for i := 0; i < n; i++ {
		size := []uint64{0x1000, 0x2000, 0x100000, 1, 0, 0xfcb000}[r.Intn(6)]
		m := c02MapRange{cur, cur + size, off}
		switch r.Intn(12) {
		case 0: // inverted
			m.limit = m.start - 0x1000
		case 1: // to the end of the address space
			m.limit = ^uint64(0)
		case 2: // recognisable main-binary start after subtracting the offset
			m.offset = m.start - 0x400000
		}
		out = append(out, m)
		switch r.Intn(6) {
		case 0, 1, 2: // adjacent, offsets continue
			off = m.offset + (m.limit - m.start)
			cur = m.limit
		case 3: // adjacent, offset unrelated or zero
			off = []uint64{0, 0x5000, m.offset}[r.Intn(3)]
			cur = m.limit
		case 4: // overlapping
			cur = m.start + size/2
		default: // gap
			cur = m.limit + []uint64{0x1000, 0x100000, 1 << 40}[r.Intn(3)]
			off = 0
		}
	}
	return out
}

func c02Hex(r *Rng, v uint64) string {
	switch r.Intn(10) {
	case 0:
		return fmt.Sprintf("0x%x", v)
	case 1:
		return fmt.Sprintf("%016x", v)
	case 2:
		return fmt.Sprintf("%X", v)
	}
	return fmt.Sprintf("%08x", v)
}

// c02MapLine prints one mapping entry in /proc/<pid>/maps form, brief form, or one of the
// looser shapes the regular expressions accept.
func c02MapLine(r *Rng, m c02MapRange, name string) string {
	perm := c02MapPerms[r.Intn(len(c02MapPerms))]
	start, limit := c02Hex(r, m.start), c02Hex(r, m.limit)
	if r.Chance(4) {
		start = []string{"", "zz", "10000000000000000", "-1"}[r.Intn(4)]
	}
	if r.Chance(4) {
		limit = []string{"", "zz", "10000000000000000", "ffffffffffffffffff"}[r.Intn(4)]
	}
	offs := fmt.Sprintf("%08x", m.offset)
	if r.Chance(5) {
		offs = []string{"", "zz", "10000000000000000", "0"}[r.Intn(4)]
	}
	switch r.Intn(9) {
	case 0, 1, 2, 3: // /proc/maps: start-end perm offset dev inode name
		dev := []string{"00:00", "fd:01", "0:0", "ff:ffff", "zz:zz", ""}[r.Intn(6)]
		inode := []string{"0", "12345", "18446744073709551616", "", "x"}[r.Intn(5)]
		return fmt.Sprintf("%s-%s %s %s %s %s %s", start, limit, perm, offs, dev, inode, name)
	case 4, 5: // brief: start-end: name
		return fmt.Sprintf("  %s-%s: %s", start, limit, name)
	case 6: // recommended: start-end name (@offset) buildid
		return fmt.Sprintf("%s-%s %s (@%s) %s", start, limit, name, offs, []string{"abc123456", "", "a", "zz", "ffffffffffffffffffffffffffffffffffffffff"}[r.Intn(5)])
	case 7: // blank separated range, perm, name
		return fmt.Sprintf("%s %s %s %s", start, limit, perm, name)
	default: // brief with perm and offset
		return fmt.Sprintf("%s-%s: %s %s (@%s)", start, limit, perm, name, offs)
	}
}

var c02MapSentinels = []string{"--- Memory map: ---", "MAPPED_LIBRARIES:", "--- Memory map: ---", "MAPPED_LIBRARIES:", "\n--- Memory map: ---", "x MAPPED_LIBRARIES: y", "--- memory map: ---", ""}

// c02GenMemMap prints a whole trailing memory-map section.
func c02GenMemMap(r *Rng) string {
	var sb strings.Builder
	sb.WriteString(c02MapSentinels[r.Intn(len(c02MapSentinels))])
	sb.WriteString("\n")
	n := r.Intn(6)
	if r.Chance(25) {
		n = 1 // a single mapping: it is the main binary candidate whatever its name
	}
	layout := c02MapLayout(r, n)
	// name plan: usually one "interesting" name among ordinary libraries, at a random position
	names := make([]string, n)
	for i := range names {
		names[i] = []string{"/lib/libc.so.6", "/bin/prog", "/lib/libm-2.15.so", "[vdso]", ""}[r.Intn(5)]
	}
	for k, m := 0, 1+r.Intn(2); k < m && n > 0; k++ {
		names[r.Intn(n)] = c02MapName(r)
	}
	if n > 0 && r.Chance(15) { // every mapping the same special name
		nm := c02MapName(r)
		for i := range names {
			names[i] = nm
		}
	}
	for i := 0; i < n; i++ {
		if r.Chance(12) { // attribute / log-prefix / junk lines between entries
			sb.WriteString([]string{"build=/build/dir", "$build=x", "=", "a=", "=b", "build = $build$build", "b=(deleted)", "b=[", "b=",
				"I0101 12:00:00.000000 1 file.cc:12] ", "file.cc:12] 00400000-00500000 r-xp 00000000 00:00 0 (deleted)", "# comment", "", "garbage line"}[r.Intn(14)] + "\n")
		}
		line := c02MapLine(r, layout[i], names[i])
		if r.Chance(8) {
			line = "W0102 file.cc:99] " + line
		}
		sb.WriteString(line + "\n")
	}
	if r.Chance(10) {
		sb.WriteString("--- another section ---\n00400000-00401000 r-xp 00000000 00:00 0 /late\n")
	}
	return sb.String()
}

var c02MapLineRE = regexp.MustCompile(`(?m)^\s*(?:0x)?[0-9a-fA-F]+[\s-]\s*(?:0x)?[0-9a-fA-F]+:?\s.*$`)

// c02MutateMapLines edits the memory-map part of an existing document: the NAME, permission or
// offset token of an entry, a replaced/inserted/duplicated entry, attribute lines, or the whole
// section replaced by a generated one.
func c02MutateMapLines(r *Rng, doc []byte) []byte {
	cut := -1
	for _, s := range []string{"--- Memory map: ---", "MAPPED_LIBRARIES:"} {
		if i := bytes.Index(doc, []byte(s)); i >= 0 && (cut < 0 || i < cut) {
			cut = i
		}
	}
	if cut < 0 || r.Chance(15) { // no map (or anyway): append a generated section
		head := doc
		if cut >= 0 {
			head = doc[:cut]
		}
		out := append([]byte(nil), head...)
		if len(out) > 0 && out[len(out)-1] != '\n' {
			out = append(out, '\n')
		}
		return append(out, c02GenMemMap(r)...)
	}
	head, tail := doc[:cut], append([]byte(nil), doc[cut:]...)
	for k, n := 0, 1+r.Intn(3); k < n; k++ {
		locs := c02MapLineRE.FindAllIndex(tail, -1)
		if len(locs) == 0 {
			tail = append(tail, c02MapLine(r, c02MapLayout(r, 1)[0], c02MapName(r))+"\n"...)
			continue
		}
		// the first entries matter most (main binary, /anon_hugepage, adjacency)
		li := r.Intn(len(locs))
		if r.Chance(50) {
			li = r.Intn(min(len(locs), 3))
		}
		l := locs[li]
		line := string(tail[l[0]:l[1]])
		fields := strings.Fields(line)
		var repl string
		switch r.Intn(8) {
		case 0, 1, 2: // the name token (last field), or a name added / removed
			name := c02MapName(r)
			if len(fields) >= 2 && r.Chance(80) {
				last := fields[len(fields)-1]
				if i := strings.LastIndex(line, last); i >= 0 {
					repl = line[:i] + name
				}
			} else {
				repl = line + " " + name
			}
		case 3: // permission token
			repl = line
			for _, f := range fields {
				if strings.Trim(f, "-rwxp") == "" && f != "" && f != "-" {
					repl = strings.Replace(line, f, c02MapPerms[r.Intn(len(c02MapPerms))], 1)
					break
				}
			}
			if repl == line {
				repl = line + " (deleted)"
			}
		case 4: // a fresh entry instead
			repl = c02MapLine(r, c02MapLayout(r, 1)[0], c02MapName(r))
		case 5: // a fresh entry inserted before (becomes adjacent / overlapping / first)
			repl = c02MapLine(r, c02MapLayout(r, 1)[0], c02MapName(r)) + "\n" + line
		case 6: // duplicated with another name: adjacent-range merging with differing names
			repl = line + "\n" + line + " " + c02MapName(r)
		default: // attribute line in front, entry uses it
			repl = "v=" + c02MapName(r) + "\n" + line + "$v"
		}
		tail = append(append(append([]byte(nil), tail[:l[0]]...), repl...), tail[l[1]:]...)
	}
	return append(append([]byte(nil), head...), tail...)
}
