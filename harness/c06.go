//go:build verif

package main

// C06 — sample filters keep exactly the documented samples, values untouched.
//
// Per case: (1) the real code (profile.FilterSamplesByName / ShowFrom / FilterTagsByName /
// FilterSamplesByTag in process, `pprof -proto` with the filter options as a child process),
// (2) the direct oracle: the frame-level rule of lean/PprofVerif/Spec/Filter.lean evaluated by
// the driver on the same input (regular expressions are evaluated here with Go's regexp and
// sent as tables of matching strings) compared with the real code's result as a list of
// "views" (values, labels, frames), plus Go-side checks of the partition focus=R / ignore=R,
// (3) the correspondence real code vs Lean model (id-for-id canonical profile + flags).

import (
	"bytes"
	"fmt"
	"math"
	"math/big"
	"os"
	"os/exec"
	"path/filepath"
	"regexp"
	"sort"
	"strings"
	"sync"

	"github.com/google/pprof/internal/measurement"
	"github.com/google/pprof/profile"
)

func init() { register("C06", runC06) }

type c06Case struct {
	Kind    string            `json:"kind"`             // name | showfrom | tags | bytag | cli | scale | partition
	Stream  string            `json:"stream,omitempty"` // main | known-show_from
	Profile string            `json:"profile,omitempty"`
	Opts    map[string]string `json:"opts,omitempty"`
	Pred    []string          `json:"pred,omitempty"` // bytag: focus predicate, ignore predicate ("" = nil)
	V       int64             `json:"v,omitempty"`
	From    string            `json:"from,omitempty"`
	To      string            `json:"to,omitempty"`
	Rel     bool              `json:"relative_percentages,omitempty"`
	Out     string            `json:"out,omitempty"`   // agg: top | traces
	Flags   []string          `json:"flags,omitempty"` // agg: granularity / -noinlines
	TagRoot string            `json:"tagroot,omitempty"` // tagrl / agg: -tagroot=k1,k2
	TagLeaf string            `json:"tagleaf,omitempty"`
}

// ---------- small helpers (own copies: this runner must not depend on another property's files) ----------

// c06safely runs f, converting a panic into an error string.
func c06safely(f func()) (panicked string) {
	defer func() {
		if e := recover(); e != nil {
			panicked = fmt.Sprint(e)
		}
	}()
	f()
	return ""
}

func c06firstWord(s string) string {
	if i := strings.IndexByte(s, ' '); i >= 0 {
		return s[:i]
	}
	return s
}

func c06trunc(s string) string {
	if len(s) > 200 {
		return s[:200] + "…"
	}
	return s
}

// ---------- token helpers ----------

// rxTok: "0" for nil, otherwise the list of the candidate strings the expression matches.
func rxTok(re *regexp.Regexp, cands []string) string {
	if re == nil {
		return "0"
	}
	var w tw
	var ms []string
	for _, s := range cands {
		if re.MatchString(s) {
			ms = append(ms, s)
		}
	}
	w.n(1)
	w.n(len(ms))
	for _, s := range ms {
		w.str(s)
	}
	return w.String()
}

func uniq(ss []string) []string {
	seen := map[string]bool{}
	var out []string
	for _, s := range ss {
		if !seen[s] {
			seen[s] = true
			out = append(out, s)
		}
	}
	sort.Strings(out)
	return out
}

// nameCands: every string a name filter can be asked about.
func nameCands(p *profile.Profile) []string {
	var ss []string
	for _, f := range p.Function {
		ss = append(ss, f.Name, f.Filename)
	}
	for _, m := range p.Mapping {
		ss = append(ss, m.File)
	}
	return uniq(ss)
}

func keyCands(p *profile.Profile) []string {
	var ss []string
	for _, s := range p.Sample {
		for k := range s.Label {
			ss = append(ss, k)
		}
		for k := range s.NumLabel {
			ss = append(ss, k)
		}
	}
	return uniq(ss)
}

func tagValCands(p *profile.Profile) []string {
	var ss []string
	for _, s := range p.Sample {
		for k, vs := range s.Label {
			for _, v := range vs {
				ss = append(ss, v, k+":"+v)
			}
		}
	}
	return uniq(ss)
}

func compileOpt(v string) (*regexp.Regexp, error) {
	if v == "" {
		return nil, nil
	}
	return regexp.Compile(v)
}

// viewTok prints one kept sample the way Driver.C06.wrView does.
func (w *tw) view(s *profile.Sample) {
	w.n(len(s.Value))
	for _, v := range s.Value {
		w.int(v)
	}
	w.n(len(s.Label))
	for _, k := range sortedKeys(s.Label) {
		w.str(k)
		w.n(len(s.Label[k]))
		for _, v := range s.Label[k] {
			w.str(v)
		}
	}
	w.n(len(s.NumLabel))
	for _, k := range sortedKeys(s.NumLabel) {
		w.str(k)
		w.n(len(s.NumLabel[k]))
		for _, v := range s.NumLabel[k] {
			w.int(v)
		}
	}
	w.n(len(s.NumUnit))
	for _, k := range sortedKeys(s.NumUnit) {
		w.str(k)
		w.n(len(s.NumUnit[k]))
		for _, v := range s.NumUnit[k] {
			w.str(v)
		}
	}
	nf := 0
	for _, l := range s.Location {
		if len(l.Line) == 0 {
			nf++
		} else {
			nf += len(l.Line)
		}
	}
	w.n(nf)
	for _, l := range s.Location {
		mid := uint64(0)
		if l.Mapping != nil {
			mid = l.Mapping.ID
		}
		if len(l.Line) == 0 {
			w.nat(l.ID)
			w.nat(mid)
			w.n(0)
			continue
		}
		for _, ln := range l.Line {
			w.nat(l.ID)
			w.nat(mid)
			w.n(1)
			if ln.Function == nil {
				w.nat(0)
			} else {
				w.nat(ln.Function.ID)
			}
			w.int(ln.Line)
			w.int(ln.Column)
		}
	}
}

func viewList(p *profile.Profile) []string {
	out := make([]string, len(p.Sample))
	for i, s := range p.Sample {
		var w tw
		w.view(s)
		out[i] = w.String()
	}
	return out
}

func joinViews(vs []string) string {
	if len(vs) == 0 {
		return "0"
	}
	return fmt.Sprintf("%d %s", len(vs), strings.Join(vs, " "))
}

// splitViews cuts the driver's `views` reply back into one string per view.
func splitViews(s string) ([]string, bool) {
	r := newTR(s)
	n := r.n()
	var out []string
	for i := 0; i < n && r.err == nil; i++ {
		start := r.pos
		for j, m := 0, r.n(); j < m; j++ {
			r.tok()
		}
		for sec := 0; sec < 3; sec++ {
			for j, m := 0, r.n(); j < m && r.err == nil; j++ {
				r.tok()
				for a, b := 0, r.n(); a < b; a++ {
					r.tok()
				}
			}
		}
		for j, m := 0, r.n(); j < m && r.err == nil; j++ {
			r.tok()
			r.tok()
			if r.n() != 0 {
				r.tok()
				r.tok()
				r.tok()
			}
		}
		if r.err != nil {
			return nil, false
		}
		out = append(out, strings.Join(r.toks[start:r.pos], " "))
	}
	if r.err != nil || r.pos != len(r.toks) {
		return nil, false
	}
	return out, true
}

// viewFrames returns the frame part of a view string as one string per frame, and the rest.
func viewFrames(v string) (head string, frames []string) {
	r := newTR(v)
	for j, m := 0, r.n(); j < m; j++ {
		r.tok()
	}
	for sec := 0; sec < 3; sec++ {
		for j, m := 0, r.n(); j < m && r.err == nil; j++ {
			r.tok()
			for a, b := 0, r.n(); a < b; a++ {
				r.tok()
			}
		}
	}
	head = strings.Join(r.toks[:r.pos], " ")
	for j, m := 0, r.n(); j < m && r.err == nil; j++ {
		st := r.pos
		r.tok()
		r.tok()
		if r.n() != 0 {
			r.tok()
			r.tok()
			r.tok()
		}
		frames = append(frames, strings.Join(r.toks[st:r.pos], " "))
	}
	return
}

// dropOrphanUnits removes from a view the NumUnit entries without a NumLabel entry: that is what
// survives Write/Parse, so views of `pprof -proto` output are compared modulo it.
func dropOrphanUnits(v string) string {
	r := newTR(v)
	var out []string
	emit := func(from int) { out = append(out, r.toks[from:r.pos]...) }
	st := r.pos
	for j, m := 0, r.n(); j < m; j++ {
		r.tok()
	}
	for j, m := 0, r.n(); j < m && r.err == nil; j++ { // label
		r.tok()
		for a, b := 0, r.n(); a < b; a++ {
			r.tok()
		}
	}
	keys := map[string]bool{}
	for j, m := 0, r.n(); j < m && r.err == nil; j++ { // numLabel
		keys[r.tok()] = true
		for a, b := 0, r.n(); a < b; a++ {
			r.tok()
		}
	}
	emit(st)
	var kept [][]string
	for j, m := 0, r.n(); j < m && r.err == nil; j++ { // numUnit
		st := r.pos
		k := r.tok()
		for a, b := 0, r.n(); a < b; a++ {
			r.tok()
		}
		if keys[k] {
			kept = append(kept, r.toks[st:r.pos])
		}
	}
	out = append(out, fmt.Sprint(len(kept)))
	for _, k := range kept {
		out = append(out, k...)
	}
	out = append(out, r.toks[r.pos:]...)
	return strings.Join(out, " ")
}

func isSubseq(a, b []string) bool { // a is a subsequence of b
	i := 0
	for _, x := range b {
		if i < len(a) && a[i] == x {
			i++
		}
	}
	return i == len(a)
}

// diffViews classifies how the real result differs from the specification.
// kind: "" (equal) | sample-missing | sample-extra | values-labels | frames-lost | frames-extra | frames-differ
// detail carries the spec view / real view at the first difference.
func diffViews(real, spec []string) (kind string, realV, specV string) {
	i := 0
	for ; i < len(real) && i < len(spec); i++ {
		if real[i] != spec[i] {
			break
		}
	}
	if i == len(real) && i == len(spec) {
		return "", "", ""
	}
	if i == len(real) {
		return "sample-missing", "", spec[i]
	}
	if i == len(spec) {
		return "sample-extra", real[i], ""
	}
	hr, fr := viewFrames(real[i])
	hs, fs := viewFrames(spec[i])
	if hr == hs {
		switch {
		case len(fr) < len(fs) && isSubseq(fr, fs):
			return "frames-lost", real[i], spec[i]
		case len(fr) > len(fs) && isSubseq(fs, fr):
			return "frames-extra", real[i], spec[i]
		}
		if len(real) == len(spec) {
			return "frames-differ", real[i], spec[i]
		}
	}
	if len(real) < len(spec) {
		return "sample-missing", real[i], spec[i]
	}
	if len(real) > len(spec) {
		return "sample-extra", real[i], spec[i]
	}
	return "values-labels", real[i], spec[i]
}

func optSet(o map[string]string) string {
	var ks []string
	for k, v := range o {
		if v != "" {
			ks = append(ks, k)
		}
	}
	sort.Strings(ks)
	if len(ks) == 0 {
		return "none"
	}
	return strings.Join(ks, "+")
}

func hasEmptyStack(p *profile.Profile) bool {
	for _, s := range p.Sample {
		if len(s.Location) == 0 {
			return true
		}
	}
	return false
}

// ---------- name filters (in process) ----------

func c06Name(c *Ctx, cs c06Case) {
	p, err := ParseCanon(cs.Profile)
	if err != nil {
		c.Res.HarnessError = "ParseCanon: " + err.Error()
		return
	}
	var res [4]*regexp.Regexp
	for i, k := range []string{"focus", "ignore", "hide", "show"} {
		re, err := compileOpt(cs.Opts[k])
		if err != nil {
			return // not a case: the generator only emits compilable expressions
		}
		res[i] = re
	}
	cands := nameCands(p)
	args := rxTok(res[0], cands) + " " + rxTok(res[1], cands) + " " + rxTok(res[2], cands) + " " + rxTok(res[3], cands) + " " + cs.Profile
	specS := c.Drv.Ask("name.spec " + args)
	model := c.Drv.Ask("name.model " + args)
	inViews := viewList(p)
	var fm, im, hm, hnm bool
	if pn := c06safely(func() { fm, im, hm, hnm = p.FilterSamplesByName(res[0], res[1], res[2], res[3]) }); pn != "" {
		c.Violation("C06/name/panic", "FilterSamplesByName panics: "+pn, cs)
		return
	}
	real := viewList(p)
	oracleFailed := false
	if spec, ok := splitViews(specS); !ok {
		c.Disagree("C06/name/spec-unreadable", "driver reply for name.spec unreadable: "+c06trunc(specS), "Spec nameSpec (driver)", cs)
	} else if kind, rv, sv := diffViews(real, spec); kind != "" {
		oracleFailed = true
		sig := "C06/name/" + optSet(cs.Opts) + "/" + kind
		what := fmt.Sprintf("FilterSamplesByName(%v) differs from the frame-level rule (%s): real %q, rule %q", cs.Opts, kind, c06trunc(rv), c06trunc(sv))
		_, sf := viewFrames(sv)
		switch {
		case kind == "sample-missing" && sv != "" && len(sf) == 0 && cs.Opts["focus"] == "":
			sig = "C06/focus-ignore/empty-stack-sample-dropped"
			what = "a sample without locations is dropped by a name filter that has no focus expression (focus=R and ignore=R do not partition): " + what
		case cs.Opts["show"] != "" && (kind == "frames-lost" || kind == "sample-missing") && strings.Contains(" "+sv+" ", " 0 ") && specHasPseudoFrameMissing(rv, sv):
			sig = "C06/show/unsymbolized-location-hidden-despite-mapping-match"
			what = "show hides a location without line information although its binary matches: " + what
		}
		c.Violation(sig, what, cs)
	}
	// property, Go side only: every kept sample is an input sample with the same values/labels,
	// in the same relative order, and its frames are a subsequence of that sample's frames.
	if !oracleFailed {
		j := 0
		for _, rv := range real {
			hr, fr := viewFrames(rv)
			found := false
			for ; j < len(inViews); j++ {
				hi, fi := viewFrames(inViews[j])
				if hi == hr && isSubseq(fr, fi) {
					found = true
					j++
					break
				}
			}
			if !found {
				c.Violation("C06/name/"+optSet(cs.Opts)+"/not-a-subsequence", "a kept sample is not an input sample with untouched values/labels and a sub-list of its frames", cs)
				oracleFailed = true
				break
			}
		}
	}
	c.Res.ModelCompared++
	got := Canon(p) + " " + b01(fm) + " " + b01(im) + " " + b01(hm) + " " + b01(hnm)
	if got != model && !oracleFailed {
		c.Disagree("C06/name-model/"+optSet(cs.Opts)+"/"+modelDiff(got, model), "FilterSamplesByName and the Lean model differ: "+optSet(cs.Opts), "correspondence Filter.filterSamplesByName ~ (*Profile).FilterSamplesByName (theorems focus_keeps_exactly … filters_preserve_values_labels_order)", cs)
	}
}

// specHasPseudoFrameMissing: the rule's view contains a frame without line (… locID mapID 0) that the real one lacks.
func specHasPseudoFrameMissing(rv, sv string) bool {
	_, fs := viewFrames(sv)
	var fr []string
	if rv != "" {
		_, fr = viewFrames(rv)
	}
	have := map[string]bool{}
	for _, f := range fr {
		have[f] = true
	}
	for _, f := range fs {
		if strings.HasSuffix(f, " 0") && len(strings.Fields(f)) == 3 && !have[f] {
			return true
		}
	}
	return false
}

func b01(b bool) string {
	if b {
		return "1"
	}
	return "0"
}

// modelDiff names where "canon flags…" strings differ.
func modelDiff(got, model string) string {
	gf, mf := strings.Fields(got), strings.Fields(model)
	if len(mf) < 5 || len(gf) < 5 {
		return c06firstWord(model)
	}
	return "profile-or-flags"
}

// ---------- partition focus=R / ignore=R ----------

func c06Partition(c *Ctx, cs c06Case) {
	re, err := compileOpt(cs.Opts["R"])
	if err != nil || re == nil {
		return
	}
	p0, err := ParseCanon(cs.Profile)
	if err != nil {
		c.Res.HarnessError = "ParseCanon: " + err.Error()
		return
	}
	all := viewList(p0)
	pf, _ := ParseCanon(cs.Profile)
	pi, _ := ParseCanon(cs.Profile)
	if pn := c06safely(func() { pf.FilterSamplesByName(re, nil, nil, nil); pi.FilterSamplesByName(nil, re, nil, nil) }); pn != "" {
		c.Violation("C06/name/panic", pn, cs)
		return
	}
	vf, vi := viewList(pf), viewList(pi)
	cnt := map[string]int{}
	for _, v := range all {
		cnt[v]++
	}
	for _, v := range vf {
		cnt[v]--
	}
	for _, v := range vi {
		cnt[v]--
	}
	bad := ""
	for v, n := range cnt {
		if n != 0 {
			bad = v
		}
	}
	if bad != "" {
		_, fr := viewFrames(bad)
		sig := "C06/partition/not-a-partition"
		if len(fr) == 0 && cnt[bad] > 0 {
			sig = "C06/focus-ignore/empty-stack-sample-dropped"
		}
		c.Violation(sig, fmt.Sprintf("focus=%q and ignore=%q do not partition the samples: %d + %d of %d (unaccounted %q)", cs.Opts["R"], cs.Opts["R"], len(vf), len(vi), len(all), c06trunc(bad)), cs)
		return
	}
	// totals add up, per column, in unbounded integers
	for col := range p0.SampleType {
		sum := func(p *profile.Profile) *big.Int {
			t := new(big.Int)
			for _, s := range p.Sample {
				t.Add(t, big.NewInt(s.Value[col]))
			}
			return t
		}
		lhs := new(big.Int).Add(sum(pf), sum(pi))
		if lhs.Cmp(sum(p0)) != 0 {
			c.Violation("C06/partition/totals", "totals of focus=R and ignore=R do not add up to the unfiltered total", cs)
		}
		// the Spec's total agrees with that sum
		if col == 0 {
			if t := c.Drv.Ask(fmt.Sprintf("total %d %s", col, cs.Profile)); t != sum(p0).String() {
				c.Disagree("C06/total-spec", "Spec.total differs from the Go sum: "+c06trunc(t), "Spec total (driver)", cs)
			}
		}
	}
}

// ---------- ShowFrom ----------

// h20 reports whether every location that show_from trims is trimmed to nothing less than itself:
// mapping matches, or no line matches, or the root-most (last) line matches.
func h20(p *profile.Profile, re *regexp.Regexp) bool {
	lm := func(ln profile.Line) bool {
		return ln.Function != nil && (re.MatchString(ln.Function.Name) || re.MatchString(ln.Function.Filename))
	}
	for _, l := range p.Location {
		if l.Mapping != nil && re.MatchString(l.Mapping.File) {
			continue
		}
		any := false
		for _, ln := range l.Line {
			any = any || lm(ln)
		}
		if any && !lm(l.Line[len(l.Line)-1]) {
			return false
		}
	}
	return true
}

func c06ShowFrom(c *Ctx, cs c06Case) {
	p, err := ParseCanon(cs.Profile)
	if err != nil {
		c.Res.HarnessError = "ParseCanon: " + err.Error()
		return
	}
	re, err := compileOpt(cs.Opts["show_from"])
	if err != nil {
		return
	}
	known := re != nil && !h20(p, re)
	args := rxTok(re, nameCands(p)) + " " + cs.Profile
	specS := c.Drv.Ask("showfrom.spec " + args)
	model := c.Drv.Ask("showfrom.model " + args)
	var m bool
	if pn := c06safely(func() { m = p.ShowFrom(re) }); pn != "" {
		c.Violation("C06/show_from/panic", pn, cs)
		return
	}
	real := viewList(p)
	oracleFailed := false
	if spec, ok := splitViews(specS); !ok {
		c.Disagree("C06/show_from/spec-unreadable", c06trunc(specS), "Spec showFromSpec (driver)", cs)
	} else if kind, rv, sv := diffViews(real, spec); kind != "" {
		oracleFailed = true
		sig := "C06/show_from/" + kind
		if known && kind == "frames-lost" {
			sig = "C06/show_from/inlined-location-below-highest-match"
		}
		c.Violation(sig, fmt.Sprintf("ShowFrom(%q) differs from the frame-level rule (%s): real %q, rule %q", cs.Opts["show_from"], kind, c06trunc(rv), c06trunc(sv)), cs)
	}
	// theorem showFrom_removes_only_root_side on the real code (unconditional: also inside the
	// known finding): samples, location lists and line lists only lose root-side elements
	if re != nil { // also when the frame rule failed: inside the known finding this still has to hold
		if in, e := ParseCanon(cs.Profile); e == nil {
			// theorem showFrom_frames_only_removed: kept samples embed in order, frames as a subsequence
			inV := viewList(in)
			j := 0
			for i, v := range real {
				hd, fa := viewFrames(v)
				found := false
				for ; j < len(inV) && !found; j++ {
					hb, fb := viewFrames(inV[j])
					if hb != hd {
						continue
					}
					k := 0
					for _, f := range fb {
						if k < len(fa) && fa[k] == f {
							k++
						}
					}
					found = k == len(fa)
				}
				if !found {
					oracleFailed = true
					c.Violation("C06/show_from/frames-not-a-subsequence", fmt.Sprintf("ShowFrom(%q): kept sample %d (%s) is not, in order, an original sample with frames removed", cs.Opts["show_from"], i, c06trunc(v)), cs)
					break
				}
			}
			if msg := c06ShowFromRemovesOnly(in, p); msg != "" {
				oracleFailed = true
				c.Violation("C06/show_from/not-a-leaf-side-prefix", fmt.Sprintf("ShowFrom(%q) did more than remove root-side frames or whole samples: %s", cs.Opts["show_from"], msg), cs)
			}
		}
	}
	c.Res.ModelCompared++
	if got := Canon(p) + " " + b01(m); got != model && (!oracleFailed || known) {
		c.Disagree("C06/show_from-model", "ShowFrom and the Lean model differ", "correspondence Filter.showFrom ~ (*Profile).ShowFrom (theorem showFrom_spec_partial)", cs)
	}
}

func c06IsPrefix(a, b []string) bool {
	if len(a) > len(b) {
		return false
	}
	for i := range a {
		if a[i] != b[i] {
			return false
		}
	}
	return true
}

// c06ShowFromRemovesOnly: the samples of `after` embed in order into those of `before` with equal
// values/labels and a non-empty leaf-side prefix of the location ids; every location's lines are a
// leaf-side prefix of its lines before. "" when so.
func c06ShowFromRemovesOnly(before, after *profile.Profile) string {
	ids := func(s *profile.Sample) []string {
		var out []string
		for _, l := range s.Location {
			out = append(out, fmt.Sprint(l.ID))
		}
		return out
	}
	data := func(s *profile.Sample) string { return fmt.Sprint(s.Value, s.Label, s.NumLabel, s.NumUnit) }
	j := 0
	for i, s := range after.Sample {
		a := ids(s)
		if len(a) == 0 {
			return fmt.Sprintf("kept sample %d has no location", i)
		}
		found := false
		for ; j < len(before.Sample) && !found; j++ {
			b := before.Sample[j]
			found = data(b) == data(s) && c06IsPrefix(a, ids(b))
		}
		if !found {
			return fmt.Sprintf("kept sample %d (%s, locations %v) is not an original sample cut on the root side, in order", i, data(s), a)
		}
	}
	lines := func(l *profile.Location) []string {
		var out []string
		for _, ln := range l.Line {
			var fid uint64
			if ln.Function != nil {
				fid = ln.Function.ID
			}
			out = append(out, fmt.Sprintf("%d:%d:%d", fid, ln.Line, ln.Column))
		}
		return out
	}
	bl := map[uint64][]string{}
	for _, l := range before.Location {
		bl[l.ID] = lines(l)
	}
	if len(before.Location) != len(after.Location) {
		return "location table size"
	}
	for _, l := range after.Location {
		b, ok := bl[l.ID]
		if !ok {
			return fmt.Sprintf("new location id %d", l.ID)
		}
		if a := lines(l); !c06IsPrefix(a, b) {
			return fmt.Sprintf("location %d lines %v -> %v", l.ID, b, a)
		}
	}
	return ""
}

// ---------- FilterTagsByName ----------

func c06Tags(c *Ctx, cs c06Case) {
	p, err := ParseCanon(cs.Profile)
	if err != nil {
		c.Res.HarnessError = "ParseCanon: " + err.Error()
		return
	}
	sh, e1 := compileOpt(cs.Opts["tagshow"])
	hi, e2 := compileOpt(cs.Opts["taghide"])
	if e1 != nil || e2 != nil {
		return
	}
	ks := keyCands(p)
	args := rxTok(sh, ks) + " " + rxTok(hi, ks) + " " + cs.Profile
	specS := c.Drv.Ask("tags.spec " + args)
	model := c.Drv.Ask("tags.model " + args)
	var sm, hm bool
	if pn := c06safely(func() { sm, hm = p.FilterTagsByName(sh, hi) }); pn != "" {
		c.Violation("C06/tags/panic", pn, cs)
		return
	}
	oracleFailed := false
	if spec, ok := splitViews(specS); !ok {
		c.Disagree("C06/tags/spec-unreadable", c06trunc(specS), "Spec tagsSpecView (driver)", cs)
	} else if kind, rv, sv := diffViews(viewList(p), spec); kind != "" {
		oracleFailed = true
		c.Violation("C06/tags/"+optSet(cs.Opts)+"/"+kind, fmt.Sprintf("FilterTagsByName differs from the rule: real %q, rule %q", c06trunc(rv), c06trunc(sv)), cs)
	}
	c.Res.ModelCompared++
	if got := Canon(p) + " " + b01(sm) + " " + b01(hm); got != model && !oracleFailed {
		c.Disagree("C06/tags-model", "FilterTagsByName and the Lean model differ", "correspondence Filter.filterTagsByName ~ (*Profile).FilterTagsByName (theorem hide_removes_only / tag part)", cs)
	}
}

// ---------- FilterSamplesByTag with harness-made predicates ----------

// predicates: "" nil; "key:K" has string or numeric label K; "num:K:lo:hi" some numeric value of K in [lo,hi];
// "val:K:V" string label K has value V.
// Further forms: "!P" negation (absence-style predicates such as "has no key k"), "true", "false",
// "alllt:K:x" every numeric value of K is < x (true for a sample without K), "nkeys:n" the sample has
// exactly n label keys (n = 0: completely unlabelled), "hash:n" an arbitrary boolean function of the
// label sets (parity of a hash of the labels, salted with n).
func mkPred(spec string) profile.TagMatch {
	if spec == "" {
		return nil
	}
	if strings.HasPrefix(spec, "!") {
		inner := mkPred(spec[1:])
		return func(s *profile.Sample) bool { return !inner(s) }
	}
	f := strings.Split(spec, ":")
	switch f[0] {
	case "true":
		return func(*profile.Sample) bool { return true }
	case "false":
		return func(*profile.Sample) bool { return false }
	case "alllt":
		var x int64
		fmt.Sscan(f[2], &x)
		return func(s *profile.Sample) bool {
			for _, v := range s.NumLabel[f[1]] {
				if v >= x {
					return false
				}
			}
			return true
		}
	case "nkeys":
		var n int
		fmt.Sscan(f[1], &n)
		return func(s *profile.Sample) bool { return len(s.Label)+len(s.NumLabel) == n }
	case "hash":
		return func(s *profile.Sample) bool {
			var w tw
			w.view(&profile.Sample{Label: s.Label, NumLabel: s.NumLabel})
			h := uint32(2166136261)
			for _, b := range []byte(w.String() + f[1]) {
				h = (h ^ uint32(b)) * 16777619
			}
			return h&1 == 1
		}
	case "key":
		return func(s *profile.Sample) bool {
			_, a := s.Label[f[1]]
			_, b := s.NumLabel[f[1]]
			return a || b
		}
	case "num":
		var lo, hi int64
		fmt.Sscan(f[2], &lo)
		fmt.Sscan(f[3], &hi)
		return func(s *profile.Sample) bool {
			for _, v := range s.NumLabel[f[1]] {
				if v >= lo && v <= hi {
					return true
				}
			}
			return false
		}
	case "val":
		return func(s *profile.Sample) bool {
			for _, v := range s.Label[f[1]] {
				if v == f[2] {
					return true
				}
			}
			return false
		}
	}
	return func(*profile.Sample) bool { return false }
}

func predTok(m profile.TagMatch, p *profile.Profile) string {
	if m == nil {
		return "0"
	}
	var w tw
	var ms []*profile.Sample
	for _, s := range p.Sample {
		if m(s) {
			ms = append(ms, s)
		}
	}
	w.n(1)
	w.n(len(ms))
	for _, s := range ms {
		w.sample(s)
	}
	return w.String()
}

func c06ByTag(c *Ctx, cs c06Case) {
	p, err := ParseCanon(cs.Profile)
	if err != nil || len(cs.Pred) != 2 {
		c.Res.HarnessError = "bad bytag case"
		return
	}
	fo, ig := mkPred(cs.Pred[0]), mkPred(cs.Pred[1])
	args := predTok(fo, p) + " " + predTok(ig, p) + " " + cs.Profile
	specS := c.Drv.Ask("bytag.spec " + args)
	model := c.Drv.Ask("bytag.model " + args)
	// the rule, Go side: the kept samples are exactly those with focus ∧ ¬ignore, in order, untouched
	var want []string
	for i, s := range p.Sample {
		if (fo == nil || fo(s)) && !(ig != nil && ig(s)) {
			want = append(want, viewList(p)[i])
		}
	}
	var fm, im bool
	if pn := c06safely(func() { fm, im = p.FilterSamplesByTag(fo, ig) }); pn != "" {
		c.Violation("C06/bytag/panic", pn, cs)
		return
	}
	real := viewList(p)
	oracleFailed := false
	// documented results: "true if the corresponding expression matched at least one sample"
	// (a nil focus counts as matching every sample, a nil ignore as matching none)
	pin, _ := ParseCanon(cs.Profile)
	wfm, wim := false, false
	for _, sm := range pin.Sample {
		wfm = wfm || fo == nil || fo(sm)
		wim = wim || (ig != nil && ig(sm))
	}
	if fm != wfm || im != wim {
		oracleFailed = true
		c.Violation("C06/bytag/match-flags", fmt.Sprintf("FilterSamplesByTag(%q, %q) returns fm=%v im=%v; some sample matches focus: %v, ignore: %v", cs.Pred[0], cs.Pred[1], fm, im, wfm, wim), cs)
	}
	if spec, ok := splitViews(specS); !ok {
		c.Disagree("C06/bytag/spec-unreadable", c06trunc(specS), "Spec tagSpec (driver)", cs)
	} else if kind, rv, sv := diffViews(real, spec); kind != "" {
		oracleFailed = true
		c.Violation("C06/bytag/"+kind, fmt.Sprintf("FilterSamplesByTag differs from the rule: real %q, rule %q", c06trunc(rv), c06trunc(sv)), cs)
	} else if kind, _, _ := diffViews(real, want); kind != "" {
		oracleFailed = true
		c.Violation("C06/bytag/go-rule/"+kind, "FilterSamplesByTag does not keep exactly the samples with focus ∧ ¬ignore", cs)
	}
	c.Res.ModelCompared++
	if got := Canon(p) + " " + b01(fm) + " " + b01(im); got != model && !oracleFailed {
		c.Disagree("C06/bytag-model", "FilterSamplesByTag and the Lean model differ", "correspondence Filter.filterSamplesByTag ~ (*Profile).FilterSamplesByTag (theorem tagfilter_spec)", cs)
	}
}

// ---------- measurement.Scale vs the rational model ----------

func c06Scale(c *Ctx, cs c06Case) {
	var w tw
	w.int(cs.V)
	w.str(cs.From)
	w.str(cs.To)
	rep := c.Drv.Ask("scale " + w.String())
	gv, gu := measurement.Scale(cs.V, cs.From, cs.To)
	c.Res.ModelCompared++
	f := strings.Fields(rep)
	if len(f) != 4 || f[0] != "ok" {
		if rep == "auto" {
			return
		}
		c.Disagree("C06/scale-model/"+c06firstWord(rep), "model of measurement.Scale gives no value", "correspondence TagFilter.scale ~ measurement.Scale", cs)
		return
	}
	num, _ := new(big.Int).SetString(f[1], 10)
	den, _ := new(big.Int).SetString(f[2], 10)
	if num == nil || den == nil || den.Sign() == 0 {
		c.Disagree("C06/scale-model/unreadable", rep, "correspondence TagFilter.scale ~ measurement.Scale", cs)
		return
	}
	exact, _ := new(big.Rat).SetFrac(num, den).Float64()
	if "x"+fmt.Sprintf("%x", gu) != f[3] {
		c.Disagree("C06/scale-model/unit", fmt.Sprintf("Scale(%d,%q,%q) unit %q, model %s", cs.V, cs.From, cs.To, gu, f[3]), "correspondence TagFilter.scale ~ measurement.Scale", cs)
		return
	}
	if d := math.Abs(gv - exact); d > math.Abs(exact)*1e-12 {
		c.Disagree("C06/scale-model/value", fmt.Sprintf("Scale(%d,%q,%q) = %v, model %v", cs.V, cs.From, cs.To, gv, exact), "correspondence TagFilter.scale ~ measurement.Scale", cs)
	}
}

// ---------- pprof command line ----------

var c06CliOpts = []string{"focus", "ignore", "hide", "show", "show_from", "tagfocus", "tagignore", "tagshow", "taghide"}

type cliOut struct {
	prof  *profile.Profile // the parsed -proto output
	views []string
	err   string // "" | exit | parse
	msg   string
}

// runPprofProto runs `pprof -proto <options> file` and returns the views of the result.
func runPprofProto(pprofBin, dir string, idx int, p *profile.Profile, opts map[string]string, extra ...string) cliOut {
	in := filepath.Join(dir, fmt.Sprintf("in-%d.pb.gz", idx))
	out := filepath.Join(dir, fmt.Sprintf("out-%d.pb.gz", idx))
	f, err := os.Create(in)
	if err != nil {
		return cliOut{err: "harness", msg: err.Error()}
	}
	if err := p.Write(f); err != nil {
		f.Close()
		return cliOut{err: "harness", msg: err.Error()}
	}
	f.Close()
	args := []string{"-proto", "-symbolize=none", "-output=" + out}
	for _, k := range c06CliOpts {
		if v := opts[k]; v != "" {
			args = append(args, "-"+k+"="+v)
		}
	}
	args = append(args, extra...)
	args = append(args, in)
	cmd := exec.Command(pprofBin, args...)
	cmd.Env = append(os.Environ(), "PPROF_BINARY_PATH="+filepath.Join(dir, "nobin"), "PPROF_TMPDIR="+dir, "HOME="+dir)
	var stderr bytes.Buffer
	cmd.Stderr = &stderr
	if err := cmd.Run(); err != nil {
		return cliOut{err: "exit", msg: c06trunc(stderr.String())}
	}
	b, err := os.ReadFile(out)
	if err != nil {
		return cliOut{err: "exit", msg: "no output: " + c06trunc(stderr.String())}
	}
	q, err := profile.ParseData(b)
	if err != nil {
		return cliOut{err: "parse", msg: err.Error()}
	}
	os.Remove(in)
	os.Remove(out)
	return cliOut{views: viewList(q), prof: q}
}

// tagfTok builds the `tagf` token form of one tagfocus/tagignore option.
func tagfTok(value string, p *profile.Profile) string {
	var w tw
	w.str(value)
	v := value
	if kv := strings.SplitN(value, "=", 2); len(kv) == 2 {
		v = kv[1]
	}
	cands := tagValCands(p)
	pieces := uniq(strings.Split(v, ","))
	w.n(len(pieces))
	for _, pc := range pieces {
		w.str(pc)
		re, err := regexp.Compile(pc)
		if err != nil {
			w.n(0)
		} else {
			w.tok(rxTok(re, cands))
		}
	}
	units, _ := p.NumLabelUnits()
	w.n(len(units))
	for _, k := range sortedKeys(units) {
		w.str(k)
		w.str(units[k])
	}
	return w.String()
}

func optsTok(o map[string]string, p *profile.Profile) (string, bool) {
	cands := nameCands(p)
	var parts []string
	for _, k := range []string{"focus", "ignore", "hide", "show", "show_from"} {
		re, err := compileOpt(o[k])
		if err != nil {
			return "", false
		}
		parts = append(parts, rxTok(re, cands))
	}
	parts = append(parts, tagfTok(o["tagfocus"], p), tagfTok(o["tagignore"], p))
	ks := keyCands(p)
	for _, k := range []string{"tagshow", "taghide"} {
		re, err := compileOpt(o[k])
		if err != nil {
			return "", false
		}
		parts = append(parts, rxTok(re, ks))
	}
	return strings.Join(parts, " "), true
}

func c06CliEval(c *Ctx, cs c06Case, res cliOut) {
	p, err := ParseCanon(cs.Profile)
	if err != nil {
		c.Res.HarnessError = "ParseCanon: " + err.Error()
		return
	}
	ot, ok := optsTok(cs.Opts, p)
	if !ok {
		return
	}
	rep := c.Drv.Ask("apply.model " + ot + " " + cs.Profile)
	c.Res.ModelCompared++
	broken := "correspondence applyFocus order + Filter/TagFilter models ~ pprof -proto with filter options"
	if res.err == "harness" {
		c.Res.HarnessError = res.msg
		return
	}
	switch {
	case rep == "err" || rep == "panic":
		c.Res.Hit("cli:model-" + rep)
		if res.err == "" {
			c.Disagree("C06/cli-model/"+optSet(cs.Opts)+"/model-"+rep+"-cli-ok", "model rejects the options, pprof accepts them", broken, cs)
		}
		return
	case !strings.HasPrefix(rep, "ok "):
		c.Disagree("C06/cli-model/"+c06firstWord(rep), "driver: "+c06trunc(rep), broken, cs)
		return
	}
	if res.err != "" {
		c.Violation("C06/cli/"+optSet(cs.Opts)+"/"+res.err, "pprof -proto with filter options fails on a valid profile: "+res.msg, cs)
		return
	}
	i := strings.Index(rep, " | ")
	mviews, ok := splitViews(rep[i+3:])
	if !ok {
		c.Disagree("C06/cli-model/unreadable", c06trunc(rep), broken, cs)
		return
	}
	// single option: the frame-level rule itself is the oracle
	n := 0
	only := ""
	for _, k := range c06CliOpts {
		if cs.Opts[k] != "" {
			n++
			only = k
		}
	}
	oracleFailed := false
	known := false
	if n == 1 {
		var specS string
		cands := nameCands(p)
		re, _ := compileOpt(cs.Opts[only])
		switch only {
		case "focus":
			specS = c.Drv.Ask("name.spec " + rxTok(re, cands) + " 0 0 0 " + cs.Profile)
		case "ignore":
			specS = c.Drv.Ask("name.spec 0 " + rxTok(re, cands) + " 0 0 " + cs.Profile)
		case "hide":
			specS = c.Drv.Ask("name.spec 0 0 " + rxTok(re, cands) + " 0 " + cs.Profile)
		case "show":
			specS = c.Drv.Ask("name.spec 0 0 0 " + rxTok(re, cands) + " " + cs.Profile)
		case "show_from":
			specS = c.Drv.Ask("showfrom.spec " + rxTok(re, cands) + " " + cs.Profile)
			known = re != nil && !h20(p, re)
		case "tagshow":
			specS = c.Drv.Ask("tags.spec " + rxTok(re, keyCands(p)) + " 0 " + cs.Profile)
		case "taghide":
			specS = c.Drv.Ask("tags.spec 0 " + rxTok(re, keyCands(p)) + " " + cs.Profile)
		case "tagfocus":
			specS = strings.TrimPrefix(c.Drv.Ask("tagfilter.spec "+tagfTok(cs.Opts[only], p)+" "+tagfTok("", p)+" "+cs.Profile), "ok ")
		case "tagignore":
			specS = strings.TrimPrefix(c.Drv.Ask("tagfilter.spec "+tagfTok("", p)+" "+tagfTok(cs.Opts[only], p)+" "+cs.Profile), "ok ")
		}
		if spec, ok := splitViews(specS); ok {
			for i := range spec {
				spec[i] = dropOrphanUnits(spec[i])
			}
			if kind, rv, sv := diffViews(res.views, spec); kind != "" {
				oracleFailed = true
				sig := "C06/cli/" + only + "/" + kind
				_, sf := viewFrames(sv)
				switch {
				case known && kind == "frames-lost":
					sig = "C06/show_from/inlined-location-below-highest-match"
				case only == "ignore" || only == "hide" || only == "show":
					if kind == "sample-missing" && sv != "" && len(sf) == 0 {
						sig = "C06/focus-ignore/empty-stack-sample-dropped"
					} else if only == "show" && specHasPseudoFrameMissing(rv, sv) {
						sig = "C06/show/unsymbolized-location-hidden-despite-mapping-match"
					}
				}
				c.Violation(sig, fmt.Sprintf("pprof -proto -%s=%q differs from the rule (%s): real %q, rule %q", only, cs.Opts[only], kind, c06trunc(rv), c06trunc(sv)), cs)
			}
		} else {
			c.Disagree("C06/cli/spec-unreadable", c06trunc(specS), "Spec (driver)", cs)
		}
	}
	if kind, rv, mv := diffViews(res.views, mviews); kind != "" && (!oracleFailed || known) {
		c.Disagree("C06/cli-model/"+optSet(cs.Opts)+"/"+kind, fmt.Sprintf("pprof -proto %v and the Lean model of applyFocus differ: real %q, model %q", cs.Opts, c06trunc(rv), c06trunc(mv)), broken, cs)
	}
}

// ---------- pprof -top: which total the percentages refer to ----------

var topTotalRx = regexp.MustCompile(`of (\S+) total`)

// runPprofTop runs `pprof -top` with the filter options and returns the "of N total" figure.
func runPprofTop(pprofBin, dir string, idx int, p *profile.Profile, opts map[string]string, rel bool) (string, string) {
	in := filepath.Join(dir, fmt.Sprintf("top-%d.pb.gz", idx))
	f, err := os.Create(in)
	if err != nil {
		return "", "harness: " + err.Error()
	}
	if err := p.Write(f); err != nil {
		f.Close()
		return "", "harness: " + err.Error()
	}
	f.Close()
	defer os.Remove(in)
	args := []string{"-top", "-symbolize=none"}
	if rel {
		args = append(args, "-relative_percentages")
	}
	for _, k := range c06CliOpts {
		if v := opts[k]; v != "" {
			args = append(args, "-"+k+"="+v)
		}
	}
	args = append(args, in)
	cmd := exec.Command(pprofBin, args...)
	cmd.Env = append(os.Environ(), "PPROF_BINARY_PATH="+filepath.Join(dir, "nobin"), "PPROF_TMPDIR="+dir, "HOME="+dir)
	var stdout, stderr bytes.Buffer
	cmd.Stdout, cmd.Stderr = &stdout, &stderr
	if err := cmd.Run(); err != nil {
		return "", "exit: " + c06trunc(stderr.String())
	}
	m := topTotalRx.FindStringSubmatch(stdout.String())
	if m == nil {
		return "", "no total line: " + c06trunc(stdout.String())
	}
	return m[1], ""
}

// c06TopEval: without relative_percentages the total shown is the unfiltered total, with it the
// total of the samples the filters keep (both taken from the Spec's `total`, last sample type).
func c06TopEval(c *Ctx, cs c06Case, got, errs string) {
	p, err := ParseCanon(cs.Profile)
	if err != nil {
		c.Res.HarnessError = "ParseCanon: " + err.Error()
		return
	}
	if strings.HasPrefix(errs, "harness") {
		c.Res.HarnessError = errs
		return
	}
	ot, ok := optsTok(cs.Opts, p)
	if !ok {
		return
	}
	col := len(p.SampleType) - 1
	want := c.Drv.Ask(fmt.Sprintf("total %d %s", col, cs.Profile))
	rep := c.Drv.Ask("apply.model " + ot + " " + cs.Profile)
	if rep == "err" || rep == "panic" {
		// the options do not compile (e.g. a malformed range read as a regexp): pprof must refuse them
		c.Res.Hit("top:model-" + rep)
		if errs == "" {
			c.Disagree("C06/top-model/model-"+rep+"-cli-ok", "model rejects the options, pprof -top accepts them", "correspondence compileTagFilter model ~ pprof", cs)
		}
		return
	}
	if !strings.HasPrefix(rep, "ok ") {
		c.Disagree("C06/top-model/"+c06firstWord(rep), c06trunc(rep), "correspondence applyFocus model ~ pprof", cs)
		return
	}
	if cs.Rel {
		want = c.Drv.Ask(fmt.Sprintf("total %d %s", col, rep[3:strings.Index(rep, " | ")]))
	}
	c.Res.ModelCompared++
	if errs != "" {
		c.Violation("C06/top/"+c06firstWord(errs), "pprof -top with filter options fails: "+errs, cs)
		return
	}
	if got != want {
		which := "unfiltered"
		if cs.Rel {
			which = "filtered"
		}
		c.Violation("C06/top/total-"+which, fmt.Sprintf("pprof -top %v relative_percentages=%v reports 'of %s total', the %s total is %s", cs.Opts, cs.Rel, got, which, want), cs)
	}
}

// ---------- aggregating outputs: -top / -traces with every granularity and -noinlines ----------
//
// aggregate() erases file names (default granularity), function names (-files), inlined lines
// (-noinlines) … AFTER the filters have run. The kept samples must therefore be those the rule
// selects on the un-aggregated profile, whatever the output format does to the names afterwards.

var topLineRx = regexp.MustCompile(`Showing nodes accounting for (\S+), .* of (\S+) total`)

const tracesSep = "-----------+-------------------------------------------------------"

func runPprofAgg(pprofBin, dir string, idx int, p *profile.Profile, cs c06Case) (string, string) {
	in := filepath.Join(dir, fmt.Sprintf("agg-%d.pb.gz", idx))
	f, err := os.Create(in)
	if err != nil {
		return "", "harness: " + err.Error()
	}
	if err := p.Write(f); err != nil {
		f.Close()
		return "", "harness: " + err.Error()
	}
	f.Close()
	defer os.Remove(in)
	args := []string{"-" + cs.Out, "-symbolize=none", "-nodefraction=0", "-edgefraction=0", "-nodecount=0"}
	if cs.Rel {
		args = append(args, "-relative_percentages")
	}
	args = append(args, cs.Flags...)
	args = append(args, tagFlags(cs)...)
	for _, k := range c06CliOpts {
		if v := cs.Opts[k]; v != "" {
			args = append(args, "-"+k+"="+v)
		}
	}
	args = append(args, in)
	cmd := exec.Command(pprofBin, args...)
	cmd.Env = append(os.Environ(), "PPROF_BINARY_PATH="+filepath.Join(dir, "nobin"), "PPROF_TMPDIR="+dir, "HOME="+dir)
	var stdout, stderr bytes.Buffer
	cmd.Stdout, cmd.Stderr = &stdout, &stderr
	if err := cmd.Run(); err != nil {
		return "", "exit: " + c06trunc(stderr.String())
	}
	return stdout.String(), ""
}

// parseTraces: one entry "value/frames" per printed sample.
func parseTraces(out string) []string {
	var res []string
	blocks := strings.Split(out, tracesSep+"\n")
	for _, b := range blocks[1:] {
		val, n := "", 0
		for _, ln := range strings.Split(b, "\n") {
			if len(ln) < 13 || ln[10] != ' ' { // label lines have ':' in column 10
				continue
			}
			if n == 0 {
				val = strings.TrimSpace(ln[:10])
			}
			n++
		}
		if n > 0 { // the output ends with a separator: the last block is empty
			res = append(res, fmt.Sprintf("%s/%d", val, n))
		}
	}
	return res
}

// tagWeights: what -tags must report for the kept samples q: per key its total, per key and value
// the summed sample value (numeric values formatted with the key's unit as identified on the
// unfiltered profile p0), as sorted lines.
func tagWeights(q, p0 *profile.Profile, col int) []string {
	units, _ := p0.NumLabelUnits()
	tot := map[string]int64{}
	w := map[string]int64{}
	for _, sm := range q.Sample {
		v := sm.Value[col]
		for k, vals := range sm.Label {
			for _, x := range vals {
				w[k+"\x00"+x] += v
				tot[k] += v
			}
		}
		for k, vals := range sm.NumLabel {
			for _, x := range vals {
				w[k+"\x00"+measurement.ScaledLabel(x, units[k], "minimum")] += v
				tot[k] += v
			}
		}
	}
	var out []string
	for k, v := range tot {
		out = append(out, fmt.Sprintf("%s: total %d", k, v))
	}
	for kv, v := range w {
		i := strings.IndexByte(kv, 0)
		out = append(out, fmt.Sprintf("%s: %q = %d", kv[:i], kv[i+1:], v))
	}
	sort.Strings(out)
	return out
}

var tagsKeyRx = regexp.MustCompile(`^\s*(.*):\s+Total (\S+) of (\S+)`)
var tagsValRx = regexp.MustCompile(`^\s*(\S+)(?: \([^)]*\))?:\s(.*)$`)

// parseTags reads the output of `pprof -tags` into the same sorted lines.
func parseTags(out string) ([]string, bool) {
	var res []string
	key := ""
	for _, ln := range strings.Split(out, "\n") {
		if strings.TrimSpace(ln) == "" {
			continue
		}
		if m := tagsKeyRx.FindStringSubmatch(ln); m != nil {
			key = m[1]
			res = append(res, fmt.Sprintf("%s: total %s", key, m[2]))
			continue
		}
		if m := tagsValRx.FindStringSubmatch(ln); m != nil && key != "" {
			res = append(res, fmt.Sprintf("%s: %q = %s", key, m[2], m[1]))
			continue
		}
		if key != "" {
			return res, false
		}
	}
	sort.Strings(res)
	return res, true
}

// samplesSection: the "Samples:" part of Profile.String() / `pprof -raw`.
func samplesSection(s string) string {
	i := strings.Index(s, "Samples:\n")
	j := strings.Index(s, "\nLocations\n")
	if i < 0 || j < i {
		return "?" + c06trunc(s)
	}
	return s[i:j]
}

func hasFlag(fs []string, f string) bool {
	for _, x := range fs {
		if x == f {
			return true
		}
	}
	return false
}

func c06AggEval(c *Ctx, cs c06Case, out, errs string) {
	p, err := ParseCanon(cs.Profile)
	if err != nil {
		c.Res.HarnessError = "ParseCanon: " + err.Error()
		return
	}
	if strings.HasPrefix(errs, "harness") {
		c.Res.HarnessError = errs
		return
	}
	baseCanon := cs.Profile
	if cs.TagRoot != "" || cs.TagLeaf != "" {
		// -tagroot/-tagleaf rewrite the stacks BEFORE the filters run: the rule applies to the
		// frame lists extended by the label pseudo frames
		p = extendWithTags(p, cs.TagRoot, cs.TagLeaf)
		baseCanon = Canon(p)
	}
	ot, ok := optsTok(cs.Opts, p)
	if !ok {
		return
	}
	rep := c.Drv.Ask("apply.model " + ot + " " + baseCanon)
	if rep == "err" || rep == "panic" {
		if errs == "" {
			c.Disagree("C06/agg-model/model-"+rep+"-cli-ok", "model rejects the options, pprof accepts them", "correspondence compileTagFilter model ~ pprof", cs)
		}
		return
	}
	i := strings.Index(rep, " | ")
	if !strings.HasPrefix(rep, "ok ") || i < 0 {
		c.Disagree("C06/agg-model/"+c06firstWord(rep), c06trunc(rep), "correspondence applyFocus model ~ pprof", cs)
		return
	}
	// the rule's result on the UN-aggregated profile (model = rule: theorem name_filter_rule)
	q, err := ParseCanon(rep[3:i])
	if err != nil {
		c.Disagree("C06/agg-model/unreadable", c06trunc(rep), "driver", cs)
		return
	}
	c.Res.ModelCompared++
	tag := cs.Out + strings.Join(cs.Flags, "")
	if cs.Rel {
		tag += "-relative_percentages"
	}
	if errs != "" {
		c.Violation("C06/agg/"+cs.Out+"/"+c06firstWord(errs), "pprof -"+cs.Out+" with filter options fails: "+errs, cs)
		return
	}
	col := len(p.SampleType) - 1
	noinl := hasFlag(cs.Flags, "-noinlines")
	var want []string
	var acc, totAll, totKept int64
	for _, sm := range p.Sample {
		totAll += sm.Value[col]
	}
	for _, sm := range q.Sample {
		totKept += sm.Value[col]
		if len(sm.Location) == 0 {
			continue
		}
		acc += sm.Value[col]
		n := 0
		for _, l := range sm.Location {
			if noinl || len(l.Line) == 0 {
				n++
			} else {
				n += len(l.Line)
			}
		}
		want = append(want, fmt.Sprintf("%d/%d", sm.Value[col], n))
	}
	switch cs.Out {
	case "tags":
		want := tagWeights(q, p, col)
		got, ok := parseTags(out)
		if !ok || strings.Join(got, "\n") != strings.Join(want, "\n") {
			c.Violation("C06/agg/tags/label-weights", fmt.Sprintf("pprof -tags %v %v relative_percentages=%v reports label weights %q; the samples the rule keeps give %q", cs.Flags, cs.Opts, cs.Rel, c06trunc(strings.Join(got, "; ")), c06trunc(strings.Join(want, "; "))), cs)
		}
	case "raw":
		want := samplesSection(q.String())
		got := samplesSection(out)
		if got != want {
			c.Violation("C06/agg/raw/kept-samples", fmt.Sprintf("pprof -raw %v relative_percentages=%v prints samples %q; the rule keeps %q", cs.Opts, cs.Rel, c06trunc(got), c06trunc(want)), cs)
		}
	case "traces":
		got := parseTraces(out)
		if strings.Join(got, " ") != strings.Join(want, " ") {
			c.Violation("C06/agg/traces/kept-samples", fmt.Sprintf("pprof -traces %v %v relative_percentages=%v prints samples (value/frames) %v, the rule on the un-aggregated profile keeps %v", cs.Flags, cs.Opts, cs.Rel, got, want), cs)
		}
	case "top":
		m := topLineRx.FindStringSubmatch(out)
		if m == nil {
			c.Violation("C06/agg/top/no-total-line", c06trunc(out), cs)
			return
		}
		wantTot := totAll
		if cs.Rel {
			wantTot = totKept
		}
		if m[1] != fmt.Sprint(acc) || m[2] != fmt.Sprint(wantTot) {
			c.Violation("C06/agg/top/totals", fmt.Sprintf("pprof -top %v %v relative_percentages=%v reports 'accounting for %s … of %s total'; the rule on the un-aggregated profile gives %d of %d", cs.Flags, cs.Opts, cs.Rel, m[1], m[2], acc, wantTot), cs)
		}
	}
	_ = tag
}

// ---------- -tagroot / -tagleaf: label pseudo frames are added before the filters run ----------

func tagFlags(cs c06Case) []string {
	var fs []string
	if cs.TagRoot != "" {
		fs = append(fs, "-tagroot="+cs.TagRoot)
	}
	if cs.TagLeaf != "" {
		fs = append(fs, "-tagleaf="+cs.TagLeaf)
	}
	return fs
}

func splitKeys(s string) []string {
	var out []string
	for _, k := range strings.Split(s, ",") {
		if k != "" {
			out = append(out, k)
		}
	}
	return out
}

// labelFrameName: the documented name of a label pseudo frame — the sample's string values of the
// key, then its numeric values formatted with their units (measurement.ScaledLabel, exported),
// joined by commas.
func labelFrameName(s *profile.Sample, k string) string {
	vals := append([]string(nil), s.Label[k]...)
	nl, nu := s.NumLabel[k], s.NumUnit[k]
	if len(nl) == len(nu) || len(nu) == 0 {
		for i, v := range nl {
			if len(nu) != 0 {
				vals = append(vals, measurement.ScaledLabel(v, nu[i], "minimum"))
			} else {
				vals = append(vals, measurement.ScaledLabel(v, "", ""))
			}
		}
	}
	return strings.Join(vals, ",")
}

// extendWithTags is the harness's own statement of what -tagroot/-tagleaf mean: every sample gets,
// per root key, a frame at the root side (first key outermost) and, per leaf key, a frame at the
// leaf side (last key innermost); the frame's function is named after the label values, its file
// name is the key. Ids are fresh (above every existing id); they do not enter the comparison.
func extendWithTags(p0 *profile.Profile, root, leaf string) *profile.Profile {
	p, _ := ParseCanon(Canon(p0))
	var maxL, maxF uint64
	for _, l := range p.Location {
		if l.ID > maxL {
			maxL = l.ID
		}
	}
	for _, f := range p.Function {
		if f.ID > maxF {
			maxF = f.ID
		}
	}
	type key struct{ name, file string }
	seen := map[key]*profile.Location{}
	mk := func(name, file string) *profile.Location {
		if l, ok := seen[key{name, file}]; ok {
			return l
		}
		maxF++
		maxL++
		f := &profile.Function{ID: maxF, Name: name, Filename: file}
		l := &profile.Location{ID: maxL, Line: []profile.Line{{Function: f}}}
		p.Function = append(p.Function, f)
		p.Location = append(p.Location, l)
		seen[key{name, file}] = l
		return l
	}
	rk, lk := splitKeys(root), splitKeys(leaf)
	for _, s := range p.Sample {
		var locs []*profile.Location
		for i := len(lk) - 1; i >= 0; i-- { // last leaf key is the new leaf
			locs = append(locs, mk(labelFrameName(s, lk[i]), lk[i]))
		}
		locs = append(locs, s.Location...)
		for i := len(rk) - 1; i >= 0; i-- { // first root key is the new root
			locs = append(locs, mk(labelFrameName(s, rk[i]), rk[i]))
		}
		if len(rk)+len(lk) > 0 {
			s.Location = locs
		}
	}
	return p
}

// semViews: the views of a profile with ids erased (function name, file, line, column, binary).
func semViews(p *profile.Profile) []string {
	vs := viewList(p)
	out := make([]string, len(vs))
	for i, s := range p.Sample {
		head, _ := viewFrames(vs[i])
		var fr []string
		for _, l := range s.Location {
			mf := "-"
			if l.Mapping != nil {
				mf = l.Mapping.File
			}
			if len(l.Line) == 0 {
				fr = append(fr, fmt.Sprintf("<unsymbolized>@%q", mf))
			}
			for _, ln := range l.Line {
				fr = append(fr, fmt.Sprintf("%q %q %d %d @%q", ln.Function.Name, ln.Function.Filename, ln.Line, ln.Column, mf))
			}
		}
		out[i] = head + " [" + strings.Join(fr, " | ") + "]"
	}
	return out
}

// c06TagRLEval: `pprof -proto -tagroot/-tagleaf <filters>` against the rule on the extended stacks.
func c06TagRLEval(c *Ctx, cs c06Case, res cliOut) {
	p0, err := ParseCanon(cs.Profile)
	if err != nil {
		c.Res.HarnessError = "ParseCanon: " + err.Error()
		return
	}
	if res.err == "harness" {
		c.Res.HarnessError = res.msg
		return
	}
	p := extendWithTags(p0, cs.TagRoot, cs.TagLeaf)
	ot, ok := optsTok(cs.Opts, p)
	if !ok {
		return
	}
	rep := c.Drv.Ask("apply.model " + ot + " " + Canon(p))
	if rep == "err" || rep == "panic" {
		if res.err == "" {
			c.Disagree("C06/tagrl-model/model-"+rep+"-cli-ok", "model rejects the options, pprof accepts them", "correspondence compileTagFilter model ~ pprof", cs)
		}
		return
	}
	i := strings.Index(rep, " | ")
	if !strings.HasPrefix(rep, "ok ") || i < 0 {
		c.Disagree("C06/tagrl-model/"+c06firstWord(rep), c06trunc(rep), "correspondence applyFocus model ~ pprof", cs)
		return
	}
	q, err := ParseCanon(rep[3:i])
	if err != nil {
		c.Disagree("C06/tagrl-model/unreadable", c06trunc(rep), "driver", cs)
		return
	}
	c.Res.ModelCompared++
	if res.err != "" {
		c.Violation("C06/tagrl/"+optSet(cs.Opts)+"/"+res.err, fmt.Sprintf("pprof -proto -tagroot=%q -tagleaf=%q with filter options fails on a valid profile: %s", cs.TagRoot, cs.TagLeaf, res.msg), cs)
		return
	}
	want, got := semViews(q), semViews(res.prof)
	if kind, rv, sv := diffSem(got, want); kind != "" {
		c.Violation("C06/tagrl/"+optSet(cs.Opts)+"/"+kind, fmt.Sprintf("pprof -proto -tagroot=%q -tagleaf=%q %v differs from the rule on the stacks extended by the label frames (%s): real %q, rule %q", cs.TagRoot, cs.TagLeaf, cs.Opts, kind, c06trunc(rv), c06trunc(sv)), cs)
	}
}

func diffSem(real, spec []string) (string, string, string) {
	for i := 0; i < len(real) && i < len(spec); i++ {
		if real[i] != spec[i] {
			if len(real) < len(spec) {
				return "sample-missing", real[i], spec[i]
			}
			if len(real) > len(spec) {
				return "sample-extra", real[i], spec[i]
			}
			return "sample-differs", real[i], spec[i]
		}
	}
	switch {
	case len(real) < len(spec):
		return "sample-missing", "", spec[len(real)]
	case len(real) > len(spec):
		return "sample-extra", real[len(spec)], ""
	}
	return "", "", ""
}

// sparsifyIDs rewrites function and location ids to a sparse, non-dense (sometimes huge) id space,
// half of the time with tables that are NOT sorted by id.
func sparsifyIDs(r *Rng, p *profile.Profile) {
	base := uint64(0)
	if r.Chance(25) {
		base = 1 << uint(33+r.Intn(28))
	}
	id := base
	for _, f := range p.Function {
		id += 1 + uint64(r.Intn(3))
		f.ID = id
	}
	id = base
	if r.Chance(50) {
		id = uint64(r.Intn(5))
	}
	for _, l := range p.Location {
		id += 1 + uint64(r.Intn(3))
		l.ID = id
	}
	// tables need not be sorted by id: permute the ids among the entries (the largest id is then
	// usually not the last entry's)
	if r.Chance(50) {
		for i := len(p.Location) - 1; i > 0; i-- {
			j := r.Intn(i + 1)
			p.Location[i].ID, p.Location[j].ID = p.Location[j].ID, p.Location[i].ID
		}
	}
	if r.Chance(50) {
		for i := len(p.Function) - 1; i > 0; i-- {
			j := r.Intn(i + 1)
			p.Function[i].ID, p.Function[j].ID = p.Function[j].ID, p.Function[i].ID
		}
	}
}

// weirdKeyPool: label keys with regexp metacharacters and other punctuation (no '=' and no ',': the
// option syntax reserves them).
var weirdKeyPool = []string{"grpc.method", "http.status", "alloc.size", "a-b", "a_b", "x/y", "k:v", "a+b", "a*", "(k)", "[k]", "$k", "^k", "a|b", "k?", "sp ace", "ключ", "k.", ".", "a\\b", "{k}"}

// weirdKeys renames every label key of the profile (string and numeric, consistently over the
// samples) to a key drawn from weirdKeyPool.
func weirdKeys(r *Rng, p *profile.Profile) {
	ren := map[string]string{}
	used := map[string]bool{}
	name := func(k string) string {
		if n, ok := ren[k]; ok {
			return n
		}
		for {
			n := weirdKeyPool[r.Intn(len(weirdKeyPool))]
			if !used[n] {
				used[n] = true
				ren[k] = n
				return n
			}
		}
	}
	for _, s := range p.Sample {
		if len(s.Label) > 0 {
			m := map[string][]string{}
			for _, k := range sortedKeys(s.Label) {
				m[name(k)] = s.Label[k]
			}
			s.Label = m
		}
		if len(s.NumLabel) > 0 {
			m, u := map[string][]int64{}, map[string][]string{}
			for _, k := range sortedKeys(s.NumLabel) {
				m[name(k)] = s.NumLabel[k]
				if us, ok := s.NumUnit[k]; ok {
					u[name(k)] = us
				}
			}
			s.NumLabel, s.NumUnit = m, u
		}
	}
}

// genRxTargeted: an expression that matches ONLY a source file name, only a mapping (binary)
// name, or only the name of a function that occurs as an inlined (non-outermost) frame.
func genRxTargeted(r *Rng, p *profile.Profile) (string, string) {
	var files, maps, inl []string
	for _, f := range p.Function {
		if f.Filename != "" {
			files = append(files, f.Filename)
		}
	}
	for _, m := range p.Mapping {
		maps = append(maps, m.File)
	}
	outer := map[string]bool{}
	for _, l := range p.Location {
		if n := len(l.Line); n > 0 {
			outer[l.Line[n-1].Function.Name] = true
		}
	}
	for _, l := range p.Location {
		for i := 0; i+1 < len(l.Line); i++ {
			if n := l.Line[i].Function.Name; !outer[n] {
				inl = append(inl, n)
			}
		}
	}
	if len(inl) == 0 {
		for _, l := range p.Location {
			for i := 0; i+1 < len(l.Line); i++ {
				inl = append(inl, l.Line[i].Function.Name)
			}
		}
	}
	pick := func(ss []string) string {
		ss = uniq(ss)
		e := "^" + regexp.QuoteMeta(ss[r.Intn(len(ss))]) + "$"
		if r.Chance(30) {
			e = "^(" + regexp.QuoteMeta(ss[r.Intn(len(ss))]) + "|" + regexp.QuoteMeta(ss[r.Intn(len(ss))]) + ")$"
		}
		return e
	}
	for k := 0; k < 6; k++ {
		switch r.Intn(5) {
		case 0, 1:
			if len(files) > 0 {
				return pick(files), "file-name-only"
			}
		case 2:
			if len(maps) > 0 {
				return pick(maps), "mapping-name-only"
			}
		default:
			if len(inl) > 0 {
				return pick(inl), "inlined-frame-name"
			}
		}
	}
	return genRx(r, fnNames(p)), "grammar"
}

// ---------- generators ----------

var c06Names = []string{"sa", "sb", "fa", "fb", "ha", "hb", "main", "m.run", "lib.foo", "lib.bar(int)", "std::v<int>::p", "x", "operator new", "sa b", "fa "}
var c06Files = []string{"a.go", "b.go", "lib/c.c", "s.go", ""}
var c06Maps = []string{"/nonexistent/bin/prog", "/nonexistent/lib/libsa.so", "/nonexistent/lib/libm.so.6"}

// genC06Profile: small profile with inlined (multi-line) locations, shared locations, empty
// stacks, unsymbolized locations, labels with consistent units per key.
func genC06Profile(r *Rng, forCLI bool) *profile.Profile {
	p := &profile.Profile{}
	nst := 1 + r.Intn(2)
	for i := 0; i < nst; i++ {
		p.SampleType = append(p.SampleType, &profile.ValueType{Type: []string{"samples", "cpu", "alloc"}[r.Intn(3)] + fmt.Sprint(i), Unit: "count"})
	}
	nm := r.Intn(3)
	if (forCLI || r.Chance(60)) && nm == 0 {
		nm = 1 // the command line front end adds a mapping to profiles without one
	}
	for i := 0; i < nm; i++ {
		st := uint64(0x400000 + i*0x100000)
		p.Mapping = append(p.Mapping, &profile.Mapping{ID: uint64(i + 1), Start: st, Limit: st + 0x80000, File: c06Maps[r.Intn(len(c06Maps))], BuildID: []string{"", "abc123"}[r.Intn(2)]})
	}
	nf := 2 + r.Intn(7)
	names, files := c06Names, c06Files
	if r.Chance(30) {
		// names and files that CONTAIN each other: an anchored expression (^run$, ^run, run$) must not
		// behave like a substring search
		names = []string{"run", "runner.start", "prerun", "run.x", "xrun", "main", "sa"}
		files = []string{"run", "run.go", "prerun.go", "a.go", ""}
	}
	for i := 0; i < nf; i++ {
		n := names[r.Intn(len(names))]
		p.Function = append(p.Function, &profile.Function{ID: uint64(i + 1), Name: n, SystemName: n, Filename: files[r.Intn(len(files))], StartLine: int64(r.Intn(9))})
	}
	nl := 1 + r.Intn(8)
	for i := 0; i < nl; i++ {
		l := &profile.Location{ID: uint64(i + 1)}
		if len(p.Mapping) > 0 && (forCLI || r.Chance(75)) {
			l.Mapping = p.Mapping[r.Intn(len(p.Mapping))]
			l.Address = l.Mapping.Start + uint64(r.Intn(0x1000))
		} else {
			l.Address = uint64(0x1000 + r.Intn(0x1000))
		}
		nln := 1
		switch {
		case r.Chance(12):
			nln = 0 // unsymbolized
		case r.Chance(45):
			nln = 2 + r.Intn(3) // inlined
		}
		for j := 0; j < nln; j++ {
			l.Line = append(l.Line, profile.Line{Function: p.Function[r.Intn(len(p.Function))], Line: int64(1 + r.Intn(90)), Column: int64(r.Intn(3))})
		}
		p.Location = append(p.Location, l)
	}
	ns := 1 + r.Intn(7)
	strKeys := []string{"k", "req", "thread"}
	strVals := []string{"v", "w", "a b", "x1"}
	numKeys := []string{"bytes", "lat", "n", "request"}
	numUnits := map[string]string{"bytes": []string{"bytes", "kb", ""}[r.Intn(3)], "lat": []string{"ms", "ns", "s"}[r.Intn(3)], "n": "", "request": ""}
	for i := 0; i < ns; i++ {
		s := &profile.Sample{}
		d := 1 + r.Intn(5)
		if r.Chance(12) {
			d = 0
		}
		for j := 0; j < d; j++ {
			s.Location = append(s.Location, p.Location[r.Intn(len(p.Location))])
		}
		for j := 0; j < nst; j++ {
			if forCLI || r.Chance(80) {
				s.Value = append(s.Value, int64(r.Intn(1000)))
			} else {
				s.Value = append(s.Value, r.Int64())
			}
		}
		if r.Chance(70) {
			for k, n := 0, r.Intn(3); k < n; k++ {
				key := strKeys[r.Intn(len(strKeys))]
				if s.Label == nil {
					s.Label = map[string][]string{}
				}
				var vs []string
				for a, b := 0, 1+r.Intn(2); a < b; a++ {
					vs = append(vs, strVals[r.Intn(len(strVals))])
				}
				s.Label[key] = vs
			}
			for k, n := 0, r.Intn(3); k < n; k++ {
				key := numKeys[r.Intn(len(numKeys))]
				if s.NumLabel == nil {
					s.NumLabel = map[string][]int64{}
					s.NumUnit = map[string][]string{}
				}
				var vs []int64
				var us []string
				for a, b := 0, 1+r.Intn(2); a < b; a++ {
					switch r.Intn(4) {
					case 0:
						vs = append(vs, int64(r.Intn(5))*1024)
					case 1:
						vs = append(vs, -int64(r.Intn(2000)))
					default:
						vs = append(vs, int64(r.Intn(3000)))
					}
					us = append(us, numUnits[key])
				}
				s.NumLabel[key] = vs
				if numUnits[key] != "" {
					s.NumUnit[key] = us
				}
			}
		}
		p.Sample = append(p.Sample, s)
	}
	return p
}

// genRx draws a filter expression from the grammar over the given names.
func genRx(r *Rng, names []string) string {
	if len(names) == 0 {
		names = []string{"x"}
	}
	nm := func() string { return names[r.Intn(len(names))] }
	q := regexp.QuoteMeta
	if r.Chance(22) { // anchored literals: exact name, prefix, suffix
		n := q(nm())
		return []string{"^" + n + "$", "^" + n + "$", "^" + n, n + "$"}[r.Intn(4)]
	}
	if r.Chance(12) {
		// the value must be compiled exactly as given: significant leading / trailing blanks, empty
		// alternatives (an empty alternative matches everything)
		n := q(nm())
		return []string{n + "|", "|" + n, n + "||" + q(nm()), " " + n, n + " ", "\t" + n, "operator ", " b", "a |"}[r.Intn(9)]
	}
	switch r.Intn(12) {
	case 0:
		return q(nm())
	case 1:
		return "^" + q(nm()) + "$"
	case 2:
		return q(nm()) + "|" + q(nm())
	case 3:
		return "^" + []string{"[a-g]", "[h-r]", "[s-z]", "[fs]", "[^s]"}[r.Intn(5)]
	case 4:
		n := nm()
		if len(n) > 1 {
			a := r.Intn(len(n))
			b := a + 1 + r.Intn(len(n)-a)
			return q(n[a:b])
		}
		return q(n)
	case 5:
		return []string{".", ".*", "^", "$"}[r.Intn(4)]
	case 6:
		return []string{"zzz", "^$", "nomatch\\d"}[r.Intn(3)]
	case 7:
		return "(?i)" + strings.ToUpper(q(nm()))
	case 8:
		return "^(" + q(nm()) + "|" + q(nm()) + ")"
	case 9:
		return []string{"a$", "b$", "\\.go$", "^lib", "^/nonexistent/lib", "prog$", "s.\\b", "\\(int\\)"}[r.Intn(8)]
	case 10:
		n := nm()
		if len(n) > 0 {
			return q(n[:1]) + "." // first letter, any second character
		}
		return "."
	default:
		return q(nm()) + "$"
	}
}

// genRange draws a numeric range expression a / a: / :b / a:b with signs and units. Half of the
// bounds are taken from the numeric label values of the profile (exact boundary, ±1, and the same
// quantity expressed in another unit of the family) so that >= / > and <= / < differ.
func genRange(r *Rng, p *profile.Profile, exact bool) string {
	type nv struct {
		v int64
		u string
	}
	var pool []nv
	units, _ := p.NumLabelUnits()
	for _, s := range p.Sample {
		for k, vs := range s.NumLabel {
			for _, v := range vs {
				pool = append(pool, nv{v, units[k]})
			}
		}
	}
	bound := func() (string, string) { // number, unit
		if len(pool) > 0 && (exact || r.Chance(60)) {
			x := pool[r.Intn(len(pool))]
			v, u := x.v, x.u
			switch u { // the unit the key was given by NumLabelUnits; keys without unit get the key name
			case "bytes", "kb", "ms", "ns", "s":
			default:
				u = ""
			}
			switch {
			case u == "bytes" && r.Chance(15):
				u = "ms" // same number, unit of another family: must not match
			case u == "s" && r.Chance(15):
				u = "b"
			case u == "bytes" && v%1024 == 0 && r.Chance(40):
				v, u = v/1024, "kb"
			case u == "kb" && r.Chance(30):
				v, u = v*1024, "b"
			case u == "ms" && r.Chance(30):
				v, u = v*1000, "us"
			case u == "s" && r.Chance(30):
				v, u = v*1000, "ms"
			case u == "ns" && v%1000 == 0 && r.Chance(40):
				v, u = v/1000, "us"
			}
			if !exact || r.Chance(25) {
				v += int64(r.Intn(3)) - 1
			}
			return fmt.Sprint(v), u
		}
		v := []int{0, 1, 2, 3, 1000, 1024, 2048, 2999, 500, 4096}[r.Intn(10)]
		s := fmt.Sprint(v)
		switch r.Intn(6) {
		case 0:
			s = "-" + s
		case 1:
			s = "+" + s
		}
		return s, []string{"", "", "b", "kb", "KB", "bytes", "mb", "ms", "ns", "s", "us", "n", "foo"}[r.Intn(13)]
	}
	a, ua := bound()
	b, ub := bound()
	form := r.Intn(5)
	if exact {
		form = r.Intn(4)
	}
	switch form {
	case 0:
		return a + ua
	case 1:
		return a + ua + ":"
	case 2:
		return ":" + a + ua
	case 3:
		if r.Chance(60) {
			return a + ua + ":" + b + ua
		}
		return a + ua + ":" + b + ub
	default:
		return a + ua + []string{":x", "::", " ", ":1:2"}[r.Intn(4)] // malformed: falls back to regexp
	}
}

// ---- unit grid: every range form × unit pair, label values around multiples of the coarser unit

type unitDef struct {
	label  string // unit string carried by the label (what NumLabelUnits reports)
	filter string // spelling used in the filter expression
	factor int64  // in units of the family's finest unit
	family int    // 0 memory, 1 time, 2 none/unknown
}

var gridUnits = []unitDef{
	{"bytes", "b", 1, 0}, {"kb", "kb", 1 << 10, 0}, {"mb", "MB", 1 << 20, 0}, {"gb", "GB", 1 << 30, 0},
	{"ns", "ns", 1, 1}, {"us", "us", 1000, 1}, {"ms", "ms", 1000000, 1}, {"s", "s", 1000000000, 1}, {"hr", "hr", 3600000000000, 1},
	{"", "", 1, 2}, {"foo", "foo", 1, 2},
}

const gridRealUnits = 9 // the entries of gridUnits before the unit-less / unknown ones

// genUnitGrid builds a profile whose samples carry one numeric label each (key "q", unit of the
// chosen label unit; a second key "z" without unit on some samples) with values AT, just BELOW,
// just ABOVE and HALFWAY between multiples of the coarser of (label unit, filter unit), and a
// tagfocus/tagignore range expression in one of the forms a, a:, :a, a:b whose bounds are such
// multiples (or neighbours) written in the filter unit. Unit pairs: same, filter finer, filter
// coarser, unknown / none, cross-family.
func genUnitGrid(r *Rng, forceExact bool) (*profile.Profile, string, string) {
	lu := gridUnits[r.Intn(gridRealUnits)]
	if r.Chance(15) {
		lu = gridUnits[gridRealUnits+r.Intn(2)] // label without unit / with an unknown unit
	}
	var fu unitDef
	pair := ""
	sel := r.Intn(8)
	if forceExact {
		// label in a finer unit of the time (mostly) or memory family, filter in a coarser one
		fam := 1
		if r.Chance(25) {
			fam = 0
		}
		var us []unitDef
		for _, u := range gridUnits[:gridRealUnits] {
			if u.family == fam {
				us = append(us, u)
			}
		}
		i := r.Intn(len(us) - 1)
		lu = us[i]
		fu = us[i+1+r.Intn(len(us)-1-i)]
		pair = "filter-coarser"
		sel = -1
	}
	switch sel {
	case -1:
	case 0:
		fu, pair = lu, "same"
	case 1, 2, 3: // same family, different unit (coarser twice as often: that is where fractions arise)
		var cands []unitDef
		for _, u := range gridUnits {
			if u.family == lu.family && u.label != lu.label && lu.family != 2 {
				cands = append(cands, u)
			}
		}
		if len(cands) == 0 {
			fu, pair = lu, "same"
		} else {
			fu = cands[r.Intn(len(cands))]
			for k := 0; k < 2 && fu.factor < lu.factor; k++ { // bias towards a coarser filter unit
				fu = cands[r.Intn(len(cands))]
			}
			pair = "filter-finer"
			if fu.factor > lu.factor {
				pair = "filter-coarser"
			}
		}
	case 4:
		fu, pair = gridUnits[gridRealUnits+r.Intn(2)], "filter-unit-none-or-unknown"
	default:
		fu = gridUnits[r.Intn(gridRealUnits)]
		pair = "cross-family-or-random"
		if fu.family == lu.family {
			pair = "same-family-random"
		}
	}
	// k: how many label units make one filter unit (>=1) or the reverse
	num, den := fu.factor, lu.factor // filter value f corresponds to f*num/den label units
	if fu.family != lu.family || fu.family == 2 {
		num, den = 1, 1
	}
	toLabel := func(f int64) int64 { // filter-unit quantity in label units (rounded down)
		return f * num / den
	}
	step := num / den // label units per filter unit when the filter unit is coarser
	if step < 1 {
		step = 1
	}
	fstep := den / num // filter units per label unit when the filter unit is finer
	if fstep < 1 {
		fstep = 1
	}
	m := int64(r.Intn(6)) - 2 // base multiple, also negative and zero
	var vals []int64
	exact := num > den && (forceExact || r.Chance(30))
	if exact {
		// EXACT multiples k·unit of the coarser filter unit, k = 1..64: converting them must give the
		// exact number k (the filter compares with ==, >=, <=), whatever the size of the unit ratio
		m = 1 + int64(r.Intn(64))
		sign := int64(1)
		if r.Chance(30) {
			sign, m = -1, -m
		}
		pair += "-exact-multiples"
		vals = []int64{m * step, (m - 1) * step, (m + 1) * step, (m + 2) * step}
		for k := 0; k < 4; k++ {
			vals = append(vals, sign*(1+int64(r.Intn(64)))*step)
		}
		// and the non-multiples next to the bound: just below, just above, halfway on both sides
		vals = append(vals, m*step+1, m*step-1, m*step+step/2, m*step-step/2)
	} else if num >= den { // filter coarser or equal: label values around multiples of `step`
		b := toLabel(m)
		vals = []int64{b, b - 1, b + 1, b + step/2, b + step - 1, b + step, b - step, b + 2*step, b - step/2}
	} else { // filter finer: label values m, m±1; the filter bounds get the fractions
		vals = []int64{m, m - 1, m + 1, m + 2, 0, -m}
	}
	qk, zk := "q", "z"
	if r.Chance(35) { // keys with regexp metacharacters / punctuation
		qk = weirdKeyPool[r.Intn(len(weirdKeyPool))]
		zk = weirdKeyPool[r.Intn(len(weirdKeyPool))]
		if zk == qk {
			zk = "z"
		}
		pair += ":weird-key"
	}
	p := &profile.Profile{SampleType: []*profile.ValueType{{Type: "samples", Unit: "count"}}}
	mp := &profile.Mapping{ID: 1, Start: 0x400000, Limit: 0x480000, File: "/nonexistent/bin/prog"}
	fn := &profile.Function{ID: 1, Name: "main", SystemName: "main", Filename: "m.go"}
	loc := &profile.Location{ID: 1, Mapping: mp, Address: 0x400010, Line: []profile.Line{{Function: fn, Line: 1}}}
	p.Mapping, p.Function, p.Location = []*profile.Mapping{mp}, []*profile.Function{fn}, []*profile.Location{loc}
	for i, v := range vals {
		sm := &profile.Sample{Location: []*profile.Location{loc}, Value: []int64{int64(i + 1)},
			NumLabel: map[string][]int64{qk: {v}}}
		if lu.label != "" {
			sm.NumUnit = map[string][]string{qk: {lu.label}}
		}
		if r.Chance(25) {
			sm.NumLabel[zk] = []int64{toLabel(m)}
		}
		if r.Chance(15) { // a second value under the same key
			sm.NumLabel[qk] = append(sm.NumLabel[qk], vals[r.Intn(len(vals))])
			if lu.label != "" {
				sm.NumUnit[qk] = append(sm.NumUnit[qk], lu.label)
			}
		}
		p.Sample = append(p.Sample, sm)
	}
	p.Sample = append(p.Sample, &profile.Sample{Location: []*profile.Location{loc}, Value: []int64{100}})
	// bounds in filter units
	fb := func() int64 {
		if num >= den {
			return m + int64(r.Intn(3)) - 1 + int64(r.Intn(2))*int64(r.Intn(2)) // m-1 .. m+2, mostly m-1..m+1
		}
		x := m*fstep + []int64{0, 0, 1, -1, fstep / 2, fstep, -fstep}[r.Intn(7)]
		return x
	}
	a, b := fb(), fb()
	if exact { // bounds exactly on label values
		a, b = m, m+int64(r.Intn(3))
		if r.Chance(30) {
			a, b = m-1, m
		}
	} else if r.Chance(50) {
		a = m
		if num < den {
			a = m * fstep
		}
	}
	if b < a && r.Chance(80) {
		a, b = b, a
	}
	lit := func(v int64, u string) string {
		s := fmt.Sprint(v)
		if v >= 0 && r.Chance(15) {
			s = "+" + s
		}
		return s + u
	}
	var expr, form string
	switch r.Intn(5) {
	case 0, 1:
		expr, form = lit(a, fu.filter), "a"
	case 2:
		expr, form = lit(a, fu.filter)+":", "a:"
	case 3:
		expr, form = ":"+lit(a, fu.filter), ":a"
	default:
		u2 := fu.filter
		if r.Chance(30) && fu.family != 2 { // second bound in another unit of the family
			for _, u := range gridUnits {
				if u.family == fu.family && u.factor <= fu.factor && r.Chance(40) {
					b = b * fu.factor / u.factor
					u2 = u.filter
					break
				}
			}
		}
		expr, form = lit(a, fu.filter)+":"+lit(b, u2), "a:b"
	}
	switch r.Intn(4) {
	case 0, 3:
		if qk != "q" || r.Bool() {
			expr = qk + "=" + expr
		}
	case 1:
		if r.Chance(30) {
			expr = zk + "=" + expr
		}
	}
	return p, expr, "grid:" + pair + ":" + form
}

func genTagFilter(r *Rng, p *profile.Profile, boundary bool) string {
	keys := keyCands(p)
	key := ""
	if r.Chance(40) && len(keys) > 0 {
		key = keys[r.Intn(len(keys))] + "="
	}
	if boundary {
		return key + genRange(r, p, true)
	}
	if r.Chance(50) {
		return key + genRange(r, p, false)
	}
	cands := tagValCands(p)
	n := 1 + r.Intn(2)
	var parts []string
	for i := 0; i < n; i++ {
		parts = append(parts, genRx(r, cands))
	}
	return key + strings.Join(parts, ",")
}

func fnNames(p *profile.Profile) []string {
	var ss []string
	for _, f := range p.Function {
		ss = append(ss, f.Name)
		if r := f.Filename; r != "" {
			ss = append(ss, r)
		}
	}
	for _, m := range p.Mapping {
		ss = append(ss, m.File)
	}
	return uniq(ss)
}

// c06Stats records what a name case reaches.
func c06Stats(c *Ctx, p *profile.Profile, opts map[string]string) (nontrivial bool) {
	uses := map[uint64]int{}
	for _, s := range p.Sample {
		seen := map[uint64]bool{}
		for _, l := range s.Location {
			if !seen[l.ID] {
				seen[l.ID] = true
				uses[l.ID]++
			}
		}
	}
	for k, v := range opts {
		re, err := compileOpt(v)
		if err != nil || re == nil {
			continue
		}
		some, all := false, true
		for _, l := range p.Location {
			if uses[l.ID] == 0 {
				continue
			}
			n := 0
			for _, ln := range l.Line {
				if re.MatchString(ln.Function.Name) || re.MatchString(ln.Function.Filename) {
					n++
				}
			}
			mm := l.Mapping != nil && re.MatchString(l.Mapping.File)
			if n > 0 || mm {
				some = true
			} else {
				all = false
			}
			if n > 0 && n < len(l.Line) && !mm {
				c.Res.Hit(k + ":partial-match-in-inlined-location")
				if uses[l.ID] > 1 {
					c.Res.Hit(k + ":partial-match-in-shared-inlined-location")
				}
			}
			if mm {
				c.Res.Hit(k + ":mapping-match")
			}
			if len(l.Line) == 0 {
				c.Res.Hit(k + ":unsymbolized-location-in-use")
			}
		}
		if some && !all {
			nontrivial = true
			c.Res.Hit(k + ":matches-some-not-all")
		} else if some {
			c.Res.Hit(k + ":matches-all")
		} else {
			c.Res.Hit(k + ":matches-none")
		}
	}
	if hasEmptyStack(p) {
		c.Res.Hit("profile:has-empty-stack")
	}
	return nontrivial && len(p.Sample) > 0
}

func caseKey(cs c06Case) string {
	return fmt.Sprintf("%s|%v|%v|%s", cs.Kind, cs.Opts, cs.Pred, cs.Profile)
}

func runC06Case(c *Ctx, cs c06Case) {
	switch cs.Kind {
	case "name":
		c06Name(c, cs)
	case "partition":
		c06Partition(c, cs)
	case "showfrom":
		c06ShowFrom(c, cs)
	case "tags":
		c06Tags(c, cs)
	case "bytag":
		c06ByTag(c, cs)
	case "scale":
		c06Scale(c, cs)
	case "cli":
		p, err := ParseCanon(cs.Profile)
		if err != nil {
			c.Res.HarnessError = err.Error()
			return
		}
		dir, err := os.MkdirTemp("", "pv-c06-")
		if err != nil {
			c.Res.HarnessError = err.Error()
			return
		}
		defer os.RemoveAll(dir)
		c06CliEval(c, cs, runPprofProto(c.Pprof, dir, 0, p, cs.Opts))
	case "tagrl":
		p, err := ParseCanon(cs.Profile)
		if err != nil {
			c.Res.HarnessError = err.Error()
			return
		}
		dir, err := os.MkdirTemp("", "pv-c06-")
		if err != nil {
			c.Res.HarnessError = err.Error()
			return
		}
		defer os.RemoveAll(dir)
		c06TagRLEval(c, cs, runPprofProto(c.Pprof, dir, 0, p, cs.Opts, tagFlags(cs)...))
	case "agg":
		p, err := ParseCanon(cs.Profile)
		if err != nil {
			c.Res.HarnessError = err.Error()
			return
		}
		dir, err := os.MkdirTemp("", "pv-c06-")
		if err != nil {
			c.Res.HarnessError = err.Error()
			return
		}
		defer os.RemoveAll(dir)
		out, errs := runPprofAgg(c.Pprof, dir, 0, p, cs)
		c06AggEval(c, cs, out, errs)
	case "top":
		p, err := ParseCanon(cs.Profile)
		if err != nil {
			c.Res.HarnessError = err.Error()
			return
		}
		dir, err := os.MkdirTemp("", "pv-c06-")
		if err != nil {
			c.Res.HarnessError = err.Error()
			return
		}
		defer os.RemoveAll(dir)
		got, errs := runPprofTop(c.Pprof, dir, 0, p, cs.Opts, cs.Rel)
		c06TopEval(c, cs, got, errs)
	default:
		c.Res.HarnessError = "unknown case kind " + cs.Kind
	}
}

func runC06(c *Ctx) {
	c.Res.Rule = "profiles with inlined multi-line locations, shared locations, unsymbolized locations, empty stacks, mapping files and labels with units; expressions from a grammar (literal, anchored literals ^n$ / ^n / n$ over names and files that contain each other such as run / runner.start / prerun, alternation, class, substring, match-all, match-none, case-insensitive; numeric ranges a, a:, :b, a:b with signs and units, key=…); streams: name filters (all 16 on/off combinations of focus/ignore/hide/show), focus=R/ignore=R partition, show_from (main stream = inputs satisfying the hypothesis of showFrom_spec_partial, the rest on the known-finding stream), tagshow/taghide, FilterSamplesByTag called directly with arbitrary predicates on the label sets (presence, value, range, negations / absence-style, all-values-below, number of keys, constant true/false, hash parity, nil) on profiles mixing labelled and completely unlabelled samples (kept set and the fm/im results against the documented rule), measurement.Scale, `pprof -proto` with 1–4 of the 9 filter options (plus a unit grid for tagfocus/tagignore: range forms a, a:, :a, a:b × unit pairs same/finer/coarser/none/unknown/cross-family × label values at, just below, just above and halfway between multiples of the coarser unit), `pprof -top` with and without -relative_percentages (which total the header reports), and `pprof -top`/`-traces`/`-tags` (label weights)/`-raw` through every granularity (default, functions, filefunctions, files, lines, addresses) and -noinlines with focus/ignore/hide/show expressions that match only a source file name, only a mapping name or only an inlined frame (kept samples and totals must be the rule's on the un-aggregated profile), and `pprof -proto`/-traces/-top with -tagroot/-tagleaf (one or several keys, string and numeric labels, absent keys) × every filter on profiles with sparse / huge location and function ids (the rule is evaluated on the stacks extended by the label pseudo frames; an error exit is a violation). non-trivial = some expression of the case matches at least one but not all locations in use (name/show_from/cli), some but not all label keys (tags), or the predicate selects some but not all samples (bytag); distinct by options + canonical profile"
	if c.Replay != "" {
		var cs c06Case
		if err := c.LoadReplay(&cs); err != nil {
			c.Res.HarnessError = err.Error()
			return
		}
		runC06Case(c, cs)
		c.Res.Evaluations++
		return
	}
	r := NewRng(c.Seed).Fork() // Fork: consecutive seeds of the shared splitmix64 give shifted copies of one stream
	// ---- name filters, in process
	nName := 900 * c.Scale
	for i := 0; i < nName; i++ {
		p := genC06Profile(r, false)
		names := fnNames(p)
		opts := map[string]string{}
		mask := i % 16
		if mask == 0 && i%64 != 0 { // i%64 == 0: all four expressions nil (the profile must stay untouched)
			mask = 1 + r.Intn(15)
		}
		for bi, k := range []string{"focus", "ignore", "hide", "show"} {
			if mask&(1<<bi) != 0 {
				opts[k] = genRx(r, names)
			}
		}
		cs := c06Case{Kind: "name", Stream: "main", Profile: Canon(p), Opts: opts}
		nt := c06Stats(c, p, opts)
		c.Res.Count(caseKey(cs), nt)
		c.Res.Hit("name:" + optSet(opts))
		if i < 2 {
			c.Res.Sample(map[string]any{"kind": "name", "opts": opts, "shape": describe(p), "profile": c06trunc(cs.Profile)})
		}
		c06Name(c, cs)
		if i%3 == 0 {
			pc := c06Case{Kind: "partition", Stream: "main", Profile: cs.Profile, Opts: map[string]string{"R": genRx(r, names)}}
			c.Res.Count(caseKey(pc), c06Stats(c, p, map[string]string{"focus": pc.Opts["R"]}))
			c.Res.Hit("partition")
			c06Partition(c, pc)
		}
	}
	// ---- show_from, in process; known-finding inputs on their own stream
	for i := 0; i < 500*c.Scale; i++ {
		p := genC06Profile(r, false)
		opts := map[string]string{"show_from": genRx(r, fnNames(p))}
		if i%25 == 24 {
			opts = map[string]string{} // ShowFrom(nil): no change, returns false
		}
		cs := c06Case{Kind: "showfrom", Stream: "main", Profile: Canon(p), Opts: opts}
		if re, err := compileOpt(opts["show_from"]); err == nil && re != nil && !h20(p, re) {
			cs.Stream = "known-show_from"
		}
		c.Res.Hit("showfrom:stream:" + cs.Stream)
		c.Res.Count(caseKey(cs), c06Stats(c, p, opts))
		c06ShowFrom(c, cs)
	}
	// ---- tagshow / taghide
	for i := 0; i < 300*c.Scale; i++ {
		p := genC06Profile(r, false)
		ks := keyCands(p)
		opts := map[string]string{}
		if i%3 != 1 {
			opts["tagshow"] = genRx(r, ks)
		}
		if i%3 != 0 {
			opts["taghide"] = genRx(r, ks)
		}
		if i%30 == 29 {
			opts = map[string]string{} // FilterTagsByName(nil, nil)
		}
		cs := c06Case{Kind: "tags", Stream: "main", Profile: Canon(p), Opts: opts}
		nt := false
		for _, v := range opts {
			if re, err := compileOpt(v); err == nil && re != nil {
				n := 0
				for _, k := range ks {
					if re.MatchString(k) {
						n++
					}
				}
				nt = nt || (n > 0 && n < len(ks))
			}
		}
		c.Res.Hit("tags:" + optSet(opts))
		c.Res.Count(caseKey(cs), nt)
		c06Tags(c, cs)
	}
	// ---- FilterSamplesByTag with predicates
	for i := 0; i < 300*c.Scale; i++ {
		p := genC06Profile(r, false)
		var mk func() string
		mk = func() string {
			switch r.Intn(9) {
			case 0:
				return ""
			case 4:
				return []string{"true", "false"}[r.Intn(2)]
			case 5: // absence-style: true on samples WITHOUT the label, in particular unlabelled ones
				return "!key:" + []string{"k", "req", "bytes", "lat", "n", "thread"}[r.Intn(6)]
			case 6:
				return fmt.Sprintf("alllt:%s:%d", []string{"bytes", "lat", "n"}[r.Intn(3)], r.Intn(2500)-300)
			case 7:
				return fmt.Sprintf("nkeys:%d", r.Intn(3))
			case 8:
				if r.Bool() {
					return fmt.Sprintf("hash:%d", r.Intn(50))
				}
				if in := mk(); in != "" {
					return "!" + in
				}
				return "true"
			case 1:
				return "key:" + []string{"k", "req", "bytes", "lat", "n"}[r.Intn(5)]
			case 2:
				lo := r.Intn(2000) - 500
				return fmt.Sprintf("num:%s:%d:%d", []string{"bytes", "lat", "n"}[r.Intn(3)], lo, lo+r.Intn(2000))
			default:
				return "val:" + []string{"k", "req", "thread"}[r.Intn(3)] + ":" + []string{"v", "w", "x1"}[r.Intn(3)]
			}
		}
		cs := c06Case{Kind: "bytag", Stream: "main", Profile: Canon(p), Pred: []string{mk(), mk()}}
		nsel := 0
		fo, ig := mkPred(cs.Pred[0]), mkPred(cs.Pred[1])
		for _, s := range p.Sample {
			if (fo == nil || fo(s)) && !(ig != nil && ig(s)) {
				nsel++
			}
		}
		c.Res.Hit("bytag")
		for _, sm := range p.Sample {
			if len(sm.Label)+len(sm.NumLabel) == 0 {
				c.Res.Hit("bytag:unlabelled-sample")
				if fo != nil && fo(sm) {
					c.Res.Hit("bytag:focus-true-on-unlabelled-sample")
				}
				if ig != nil && ig(sm) {
					c.Res.Hit("bytag:ignore-true-on-unlabelled-sample")
				}
			}
		}
		c.Res.Count(caseKey(cs), nsel > 0 && nsel < len(p.Sample))
		c06ByTag(c, cs)
	}
	// ---- measurement.Scale
	units := []string{"", "b", "B", "byte", "bytes", "kb", "KB", "kbytes", "mb", "gb", "MB", "ns", "us", "ms", "s", "sec", "seconds", "hr", "hours", "hrs", "count", "sample", "unit", "foo", "n", "Ms", "kB", "GCU"}
	for i := 0; i < 400*c.Scale; i++ {
		v := int64(r.Intn(1<<20)) - 1<<18
		if r.Chance(20) {
			v = int64(r.Intn(1 << 30))
		}
		cs := c06Case{Kind: "scale", V: v, From: units[r.Intn(len(units))], To: units[r.Intn(len(units))]}
		if cs.From == "GCU" || cs.To == "GCU" {
			cs.From, cs.To = "GCU", "GCU"
		}
		c.Res.Hit("scale")
		c.Res.Count(caseKey(cs)+fmt.Sprint(cs.V, cs.From, cs.To), cs.From != cs.To)
		c06Scale(c, cs)
	}
	// ---- pprof command line
	if c.Pprof == "" {
		c.Res.Notes = append(c.Res.Notes, "no pprof binary: command-line stream skipped")
		return
	}
	dir, err := os.MkdirTemp("", "pv-c06-")
	if err != nil {
		c.Res.HarnessError = err.Error()
		return
	}
	defer os.RemoveAll(dir)
	nGrid := 240 * c.Scale
	nCli := 420*c.Scale + nGrid
	cases := make([]c06Case, nCli)
	profs := make([]*profile.Profile, nCli)
	for i := range cases {
		if i >= nCli-nGrid { // unit grid: range form × unit pair × values around unit multiples
			p, expr, tag := genUnitGrid(r, i%2 == 0)
			var buf bytes.Buffer
			p.Write(&buf)
			p, err = profile.ParseData(buf.Bytes())
			if err != nil {
				c.Res.HarnessError = "generated profile does not round-trip: " + err.Error()
				return
			}
			opt := []string{"tagfocus", "tagignore"}[i%2]
			cases[i] = c06Case{Kind: "cli", Stream: "main", Profile: Canon(p), Opts: map[string]string{opt: expr}}
			profs[i] = p
			c.Res.Hit("cli:" + tag)
			continue
		}
		p := genC06Profile(r, true)
		boundary := i%3 == 2 // tag range with bounds equal to label values of the profile
		for k := 0; boundary && k < 20 && len(keyCands(p)) == 0; k++ {
			p = genC06Profile(r, true)
		}
		if r.Chance(35) {
			weirdKeys(r, p) // keyed tag filters on keys with metacharacters / punctuation
			c.Res.Hit("cli:label-keys-with-metacharacters")
		}
		// what pprof reads back is what the case is about
		var buf bytes.Buffer
		p.Write(&buf)
		p, err = profile.ParseData(buf.Bytes())
		if err != nil {
			c.Res.HarnessError = "generated profile does not round-trip: " + err.Error()
			return
		}
		names := fnNames(p)
		opts := map[string]string{}
		pick := func(k string) {
			switch k {
			case "tagfocus", "tagignore":
				opts[k] = genTagFilter(r, p, boundary)
			case "tagshow", "taghide":
				opts[k] = genRx(r, keyCands(p))
			default:
				opts[k] = genRx(r, names)
			}
		}
		if boundary {
			pick([]string{"tagfocus", "tagignore"}[r.Intn(2)])
			c.Res.Hit("cli:tag-range-boundary-case")
		} else if i%2 == 0 {
			pick(c06CliOpts[(i/2)%len(c06CliOpts)]) // single option: frame-level oracle applies
		} else {
			for k, n := 0, 2+r.Intn(3); k < n; k++ {
				pick(c06CliOpts[r.Intn(len(c06CliOpts))])
			}
		}
		cases[i] = c06Case{Kind: "cli", Stream: "main", Profile: Canon(p), Opts: opts}
		profs[i] = p
	}
	outs := make([]cliOut, nCli)
	var wg sync.WaitGroup
	sem := make(chan struct{}, 16)
	for i := range cases {
		wg.Add(1)
		sem <- struct{}{}
		go func(i int) {
			defer wg.Done()
			defer func() { <-sem }()
			outs[i] = runPprofProto(c.Pprof, dir, i, profs[i], cases[i].Opts)
		}(i)
	}
	wg.Wait()
	for i, cs := range cases {
		p, _ := ParseCanon(cs.Profile)
		nameOpts := map[string]string{}
		for _, k := range []string{"focus", "ignore", "hide", "show", "show_from"} {
			if cs.Opts[k] != "" {
				nameOpts[k] = cs.Opts[k]
			}
		}
		nt := c06Stats(c, p, nameOpts)
		if cs.Opts["tagfocus"] != "" || cs.Opts["tagignore"] != "" || cs.Opts["tagshow"] != "" || cs.Opts["taghide"] != "" {
			nt = nt || len(outs[i].views) > 0 && len(outs[i].views) <= len(p.Sample)
		}
		for _, k := range []string{"tagfocus", "tagignore"} {
			if v := cs.Opts[k]; v != "" {
				if i := strings.Index(v, "="); i >= 0 {
					c.Res.Hit("cli:" + k + ":with-key")
					v = v[i+1:]
				}
				if rep := c.Drv.Ask("tagrange " + hexTok([]byte(v)) + " 0"); strings.HasPrefix(rep, "range") {
					c.Res.Hit("cli:" + k + ":numeric-range")
				} else {
					c.Res.Hit("cli:" + k + ":regexp")
				}
			}
		}
		if len(outs[i].views) < len(p.Sample) {
			c.Res.Hit("cli:drops-samples")
		}
		c.Res.Hit("cli:" + fmt.Sprint(len(cs.Opts)) + "-options")
		c.Res.Count(caseKey(cs), nt)
		if i < 1 {
			c.Res.Sample(map[string]any{"kind": "cli", "opts": cs.Opts, "shape": describe(p)})
		}
		c06CliEval(c, cs, outs[i])
	}
	// ---- pprof -top with and without relative_percentages
	nTop := 80 * c.Scale
	tcases := make([]c06Case, nTop)
	tprofs := make([]*profile.Profile, nTop)
	for i := range tcases {
		p := genC06Profile(r, true)
		var buf bytes.Buffer
		p.Write(&buf)
		p, err = profile.ParseData(buf.Bytes())
		if err != nil {
			c.Res.HarnessError = "generated profile does not round-trip: " + err.Error()
			return
		}
		opts := map[string]string{}
		k := []string{"focus", "ignore", "tagfocus", "tagignore", "hide", "show_from"}[i%6]
		switch k {
		case "tagfocus", "tagignore":
			opts[k] = genTagFilter(r, p, false)
		default:
			opts[k] = genRx(r, fnNames(p))
		}
		tcases[i] = c06Case{Kind: "top", Stream: "main", Profile: Canon(p), Opts: opts, Rel: i%2 == 1}
		tprofs[i] = p
	}
	tgot := make([][2]string, nTop)
	for i := range tcases {
		wg.Add(1)
		sem <- struct{}{}
		go func(i int) {
			defer wg.Done()
			defer func() { <-sem }()
			g, e := runPprofTop(c.Pprof, dir, i, tprofs[i], tcases[i].Opts, tcases[i].Rel)
			tgot[i] = [2]string{g, e}
		}(i)
	}
	wg.Wait()
	for i, cs := range tcases {
		c.Res.Hit(fmt.Sprintf("top:relative_percentages=%v", cs.Rel))
		full := c.Drv.Ask(fmt.Sprintf("total %d %s", len(tprofs[i].SampleType)-1, cs.Profile))
		c.Res.Count(caseKey(cs)+fmt.Sprint(cs.Rel), tgot[i][0] != full || !cs.Rel)
		if cs.Rel && tgot[i][0] != full {
			c.Res.Hit("top:filtered-total-differs-from-unfiltered")
		}
		c06TopEval(c, cs, tgot[i][0], tgot[i][1])
	}
	// ---- aggregating outputs (-top / -traces, every granularity, -noinlines), both percentage modes
	nAgg := 330 * c.Scale
	acases := make([]c06Case, nAgg)
	aprofs := make([]*profile.Profile, nAgg)
	grans := [][]string{nil, nil, {"-functions"}, {"-filefunctions"}, {"-files"}, {"-lines"}, {"-addresses"}}
	for i := range acases {
		p := genC06Profile(r, true)
		if r.Chance(50) {
			sparsifyIDs(r, p)
			c.Res.Hit("agg:sparse-ids")
		}
		var buf bytes.Buffer
		p.Write(&buf)
		p, err = profile.ParseData(buf.Bytes())
		if err != nil {
			c.Res.HarnessError = "generated profile does not round-trip: " + err.Error()
			return
		}
		opts := map[string]string{}
		k := []string{"focus", "ignore", "hide", "show", "focus", "ignore"}[i%6]
		if i%6 == 2 || i%6 == 5 { // -tags / -raw: the options that only remove frames must still remove samples
			k = []string{"hide", "show", "show_from", "show", "focus", "ignore"}[(i/6)%6]
		}
		e, kind := genRxTargeted(r, p)
		opts[k] = e
		if r.Chance(25) {
			k2 := []string{"focus", "ignore", "hide", "show"}[r.Intn(4)]
			if opts[k2] == "" {
				opts[k2], _ = genRxTargeted(r, p)
			}
		}
		flags := append([]string(nil), grans[r.Intn(len(grans))]...)
		if r.Chance(40) {
			flags = append(flags, "-noinlines")
		}
		acases[i] = c06Case{Kind: "agg", Stream: "main", Profile: Canon(p), Opts: opts, Rel: i%4 >= 2, Out: []string{"traces", "top", "tags", "top", "traces", "raw"}[i%6], Flags: flags}
		if i%3 == 0 { // label pseudo frames added before the filters, seen through an aggregating output
			ks := keyCands(p)
			if len(ks) > 0 {
				if r.Bool() {
					acases[i].TagRoot = ks[r.Intn(len(ks))]
				} else {
					acases[i].TagLeaf = ks[r.Intn(len(ks))]
				}
				if r.Chance(50) { // a filter on the label frame itself (value or key)
					cands := append(tagValCands(p), ks...)
					acases[i].Opts = map[string]string{k: "^" + regexp.QuoteMeta(cands[r.Intn(len(cands))]) + "$"}
				}
				c.Res.Hit("agg:with-tagroot-or-tagleaf")
			}
		}
		aprofs[i] = p
		c.Res.Hit("agg:expr:" + kind)
		c.Res.Hit("agg:" + acases[i].Out + ":" + strings.Join(flags, "") + fmt.Sprintf(":rel=%v", acases[i].Rel))
	}
	aout := make([][2]string, nAgg)
	for i := range acases {
		wg.Add(1)
		sem <- struct{}{}
		go func(i int) {
			defer wg.Done()
			defer func() { <-sem }()
			o, e := runPprofAgg(c.Pprof, dir, i, aprofs[i], acases[i])
			aout[i] = [2]string{o, e}
		}(i)
	}
	wg.Wait()
	for i, cs := range acases {
		nameOpts := map[string]string{}
		for k, v := range cs.Opts {
			nameOpts[k] = v
		}
		c.Res.Count(caseKey(cs)+fmt.Sprint(cs.Rel, cs.Out, cs.Flags), c06Stats(c, aprofs[i], nameOpts))
		c06AggEval(c, cs, aout[i][0], aout[i][1])
	}
	// ---- -tagroot / -tagleaf (stacks rewritten before filtering) × every filter, sparse ids
	nTR := 220 * c.Scale
	tcs := make([]c06Case, nTR)
	tps := make([]*profile.Profile, nTR)
	for i := range tcs {
		p := genC06Profile(r, true)
		for k := 0; k < 20 && len(keyCands(p)) == 0; k++ {
			p = genC06Profile(r, true)
		}
		if i%5 != 0 {
			sparsifyIDs(r, p)
			c.Res.Hit("tagrl:sparse-ids")
		}
		var buf bytes.Buffer
		p.Write(&buf)
		p, err = profile.ParseData(buf.Bytes())
		if err != nil {
			c.Res.HarnessError = "generated profile does not round-trip: " + err.Error()
			return
		}
		ks := append(keyCands(p), "nokey")
		pickKeys := func() string {
			n := 1 + r.Intn(2)
			var out []string
			for j := 0; j < n; j++ {
				out = append(out, ks[r.Intn(len(ks))])
			}
			return strings.Join(out, ",")
		}
		cs := c06Case{Kind: "tagrl", Stream: "main"}
		switch i % 3 {
		case 0:
			cs.TagRoot = pickKeys()
		case 1:
			cs.TagLeaf = pickKeys()
		default:
			cs.TagRoot, cs.TagLeaf = pickKeys(), pickKeys()
		}
		ext := extendWithTags(p, cs.TagRoot, cs.TagLeaf)
		names := fnNames(ext) // includes the label frames' names (values) and file names (keys)
		opts := map[string]string{}
		k := []string{"focus", "ignore", "hide", "show", "show_from", "tagfocus", "tagignore"}[i%7]
		switch k {
		case "tagfocus", "tagignore":
			opts[k] = genTagFilter(r, p, false)
		default:
			if r.Chance(50) { // aim at a label frame: its value or its key
				cands := append(tagValCands(p), keyCands(p)...)
				if len(cands) > 0 {
					opts[k] = "^" + regexp.QuoteMeta(cands[r.Intn(len(cands))]) + "$"
				}
			}
			if opts[k] == "" {
				opts[k] = genRx(r, names)
			}
		}
		if r.Chance(30) {
			k2 := []string{"focus", "ignore", "hide", "show"}[r.Intn(4)]
			if opts[k2] == "" {
				opts[k2] = genRx(r, names)
			}
		}
		cs.Profile, cs.Opts = Canon(p), opts
		tcs[i], tps[i] = cs, p
		c.Res.Hit("tagrl:" + optSet(opts))
	}
	touts := make([]cliOut, nTR)
	for i := range tcs {
		wg.Add(1)
		sem <- struct{}{}
		go func(i int) {
			defer wg.Done()
			defer func() { <-sem }()
			touts[i] = runPprofProto(c.Pprof, dir, 100000+i, tps[i], tcs[i].Opts, tagFlags(tcs[i])...)
		}(i)
	}
	wg.Wait()
	for i, cs := range tcs {
		ext := extendWithTags(tps[i], cs.TagRoot, cs.TagLeaf)
		nameOpts := map[string]string{}
		for _, k := range []string{"focus", "ignore", "hide", "show", "show_from"} {
			if cs.Opts[k] != "" {
				nameOpts[k] = cs.Opts[k]
			}
		}
		c.Res.Count(caseKey(cs)+cs.TagRoot+"/"+cs.TagLeaf, c06Stats(c, ext, nameOpts) || len(nameOpts) == 0)
		c06TagRLEval(c, cs, touts[i])
	}
}
