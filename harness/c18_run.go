//go:build verif

package main

// C18 — running the REAL code: the pprof binary (one process per invocation), report.Generate
// and graph.ComposeDot in-process.

import (
	"bytes"
	"context"
	"fmt"
	"os"
	"os/exec"
	"path/filepath"
	"strconv"
	"time"

	"github.com/google/pprof/internal/graph"
	"github.com/google/pprof/internal/report"
	"github.com/google/pprof/profile"
)

// c18CLI runs `pprof <-dot|-callgrind> opts… file` and returns stdout.
func c18CLI(pprof, tmp string, idx int, format string, cs *c18Case) (out []byte, errText string) {
	p := cs.Prof.build()
	f := filepath.Join(tmp, fmt.Sprintf("p%d.pb.gz", idx))
	fh, err := os.Create(f)
	if err != nil {
		return nil, "harness: " + err.Error()
	}
	if err := p.Write(fh); err != nil {
		fh.Close()
		return nil, "write: " + err.Error()
	}
	fh.Close()
	defer os.Remove(f)
	args := append([]string{"-" + format, "-symbolize=none"}, cs.Opts.args()...)
	args = append(args, f)
	ctx, cancel := context.WithTimeout(context.Background(), 60*time.Second)
	defer cancel()
	cmd := exec.CommandContext(ctx, pprof, args...)
	cmd.Env = []string{"HOME=" + tmp, "PPROF_TMPDIR=" + tmp, "PPROF_BINARY_PATH=" + tmp, "PATH=/nonexistent"}
	var so, se bytes.Buffer
	cmd.Stdout, cmd.Stderr = &so, &se
	if err := cmd.Run(); err != nil {
		return so.Bytes(), "exit: " + err.Error() + ": " + trunc(se.String())
	}
	return so.Bytes(), ""
}

func c18Aggregate(p *profile.Profile, gran string) error {
	var function, filename, linenumber, address bool
	switch gran {
	case "", "functions":
		function = true
	case "addresses":
		return nil
	case "lines":
		function, filename, linenumber = true, true, true
	case "files":
		filename = true
	case "filefunctions":
		function, filename = true, true
	}
	return p.Aggregate(true, function, filename, linenumber, false, address)
}

func c18ReportOptions(p *profile.Profile, o c18Opts, format int) *report.Options {
	idx := o.SampleIndex
	if idx < 0 || idx >= len(p.SampleType) {
		idx = len(p.SampleType) - 1
	}
	units, _ := p.NumLabelUnits()
	ro := &report.Options{
		OutputFormat:  format,
		CallTree:      o.CallTree,
		CompactLabels: o.Compact,
		Ratio:         1,
		NodeCount:     o.NodeCount,
		NodeFraction:  0.005,
		EdgeFraction:  0.001,
		NumLabelUnits: units,
		SampleValue:   func(v []int64) int64 { return v[idx] },
		SampleType:    p.SampleType[idx].Type,
		SampleUnit:    p.SampleType[idx].Unit,
		OutputUnit:    "minimum",
		DropNegative:  o.DropNeg,
	}
	if o.Unit != "" {
		ro.OutputUnit = o.Unit
	}
	if o.KeepAll {
		ro.NodeFraction, ro.EdgeFraction = 0, 0
	}
	if format == report.Callgrind {
		ro.NodeCount, ro.NodeFraction, ro.EdgeFraction = 0, 0, 0
	}
	if len(p.Mapping) > 0 && p.Mapping[0].File != "" {
		ro.Title = filepath.Base(p.Mapping[0].File)
	}
	return ro
}

// c18Report runs report.Generate in-process; for callgrind it also returns the graph the report
// is generated from (report.GetDOT on an identically configured second report), the ground
// truth for "positions decode to the entries' addresses".
func c18Report(cs *c18Case, format int) (out []byte, g *graph.Graph, errText string) {
	mk := func() (*report.Report, string) {
		p := cs.Prof.build()
		if err := p.CheckValid(); err != nil {
			return nil, "invalid: " + err.Error()
		}
		if err := c18Aggregate(p, cs.Opts.Gran); err != nil {
			return nil, "aggregate: " + err.Error()
		}
		return report.New(p, c18ReportOptions(p, cs.Opts, format)), ""
	}
	rpt, e := mk()
	if rpt == nil {
		return nil, nil, e
	}
	var buf bytes.Buffer
	var gerr error
	if pn := safely(func() { gerr = report.Generate(&buf, rpt, nil) }); pn != "" {
		return nil, nil, "panic: " + pn
	}
	if gerr != nil {
		return nil, nil, "error: " + gerr.Error()
	}
	if format == report.Callgrind {
		rpt2, _ := mk()
		if rpt2 != nil {
			if pn := safely(func() { g, _ = report.GetDOT(rpt2) }); pn != "" {
				g = nil
			}
		}
	}
	return buf.Bytes(), g, ""
}

// c18Compose runs graph.ComposeDot on the described graph.
func c18Compose(d *c18Graph) (out []byte, errText string) {
	g := &graph.Graph{}
	var all []*graph.Node
	for i := range d.Nodes {
		n := &d.Nodes[i]
		gn := &graph.Node{
			Info: graph.NodeInfo{Name: string(n.Name), OrigName: string(n.Orig), Address: n.Addr, File: string(n.File),
				Lineno: n.Line, Columnno: n.Col, Objfile: string(n.Objfile)},
			Flat: n.Flat, Cum: n.Cum, In: graph.EdgeMap{}, Out: graph.EdgeMap{},
			LabelTags: graph.TagMap{}, NumericTags: map[string]graph.TagMap{},
		}
		for _, t := range n.Tags {
			gn.LabelTags[string(t.Name)] = &graph.Tag{Name: string(t.Name), Flat: t.Flat, Cum: t.Cum}
		}
		for _, nt := range n.Nums {
			tm := graph.TagMap{}
			for _, t := range nt.Tags {
				tm[string(t.Name)] = &graph.Tag{Name: string(t.Name), Unit: string(t.Unit), Value: t.Value, Flat: t.Flat, Cum: t.Cum}
			}
			gn.NumericTags[string(nt.Key)] = tm
		}
		all = append(all, gn)
		if i < len(d.Nodes)-d.Unlisted {
			g.Nodes = append(g.Nodes, gn)
		}
	}
	for _, e := range d.Edges {
		if e.Src < 0 || e.Src >= len(all) || e.Dst < 0 || e.Dst >= len(all) {
			continue
		}
		s, t := all[e.Src], all[e.Dst]
		if s.Out[t] != nil {
			continue
		}
		ed := &graph.Edge{Src: s, Dest: t, Weight: e.Weight, Residual: e.Residual, Inline: e.Inline}
		s.Out[t] = ed
		t.In[s] = ed
	}
	var labels []string
	for _, l := range d.Labels {
		labels = append(labels, string(l))
	}
	unit := string(d.Unit)
	cfg := &graph.DotConfig{Title: string(d.Title), Labels: labels, Total: d.Total,
		FormatValue: func(v int64) string { return strconv.FormatInt(v, 10) + unit }}
	var buf bytes.Buffer
	if pn := safely(func() { graph.ComposeDot(&buf, g, &graph.DotAttributes{}, cfg) }); pn != "" {
		return buf.Bytes(), "panic: " + pn
	}
	return buf.Bytes(), ""
}
