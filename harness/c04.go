//go:build verif

package main

import (
	"bytes"
	"fmt"
	"os"
	"os/exec"
	"path/filepath"
	"strconv"
	"strings"
	"sync"

	"github.com/google/pprof/internal/graph"
	"github.com/google/pprof/internal/measurement"
	"github.com/google/pprof/internal/report"
	"github.com/google/pprof/profile"
)

func init() { register("C04", runC04) }

// c04Case is a self-contained replay case.
type c04Case struct {
	Level   string `json:"level"` // graph | report | cli
	Profile string `json:"profile"`
	Req     gReq   `json:"req"`
	Format  string `json:"format,omitempty"` // text tree peek dot callgrind topproto traces
	// cli level: the options as given on the command line (Req.Agg/VI are derived through the model)
	Gran        string `json:"granularity,omitempty"`
	NoInlines   bool   `json:"noinlines,omitempty"`
	ShowColumns bool   `json:"showcolumns,omitempty"`
	SampleIndex string `json:"sample_index,omitempty"`
	TagRoot     string `json:"tagroot,omitempty"`
	TagLeaf     string `json:"tagleaf,omitempty"`
}

func valueAt(ix int) func([]int64) int64 { return func(v []int64) int64 { return v[ix] } }

func aggregateReal(p *profile.Profile, agg *[6]bool) error {
	if agg == nil {
		return nil
	}
	return p.Aggregate(agg[0], agg[1], agg[2], agg[3], agg[4], agg[5])
}

// askTables asks the Lean driver for the figures of the SPEC or of the MODEL.
// c04PathFn is the external file-name function handed to the Lean model as a table: what
// graph.nodeInfo's File is for a Function.Filename. filepath.Clean, unless a report option rewrites
// the names first (C05: source_path / trim_path, see c05_trimpath.go).
var c04PathFn = filepath.Clean

func askTables(c *Ctx, op string, q *gReq, kept []graph.NodeInfo, hasKept bool, p0 *profile.Profile, canon string) (*gTable, string) {
	reply := c.Drv.Ask(op + " " + q.tokens(kept, hasKept, cleanTable(p0, c04PathFn), canon))
	t, err := parseLeanTables(reply)
	if err != nil {
		return nil, err.Error()
	}
	return t, ""
}

// ---------- level 1: graph.New ----------

func c04Graph(c *Ctx, cs *c04Case) {
	p, err := ParseCanon(cs.Profile)
	if err != nil {
		c.Res.HarnessError = "ParseCanon: " + err.Error()
		return
	}
	p0, _ := ParseCanon(cs.Profile)
	q := &cs.Req
	var g *graph.Graph
	var aggErr error
	pn := safely(func() {
		if aggErr = aggregateReal(p, q.Agg); aggErr != nil {
			return
		}
		o := &graph.Options{SampleValue: valueAt(q.VI), CallTree: q.CallTree, ObjNames: q.ObjNames, OrigFnNames: q.OrigFnNames}
		if q.Mean {
			o.SampleMeanDivisor = valueAt(0)
		}
		g = graph.New(p, o)
	})
	mode := "graph"
	if q.CallTree {
		mode = "tree"
	}
	if pn != "" {
		c.Violation("C04/graph.New/"+mode+"/panic", "graph.New panics on a valid profile: "+pn, cs)
		return
	}
	if aggErr != nil {
		c.Violation("C04/aggregate/error", "Aggregate fails on a valid profile: "+aggErr.Error(), cs)
		return
	}
	got, problem := realTables(g, q.CallTree)
	if problem != "" {
		c.Violation("C04/graph.New/"+mode+"/structure", problem, cs)
		return
	}
	spec, perr := askTables(c, "graph.spec", q, nil, false, p0, cs.Profile)
	if perr != "" {
		c.Disagree("C04/spec-unavailable", "the Lean specification gives no figures: "+perr, "driver op graph.spec (Spec/Graph.lean on samplesOf)", cs)
		return
	}
	failed := false
	if kind, what := diffTables(got, spec, true); kind != "" {
		c.Violation("C04/graph.New/"+mode+"/"+kind, what+" ["+q.String()+"]", cs)
		failed = true
	}
	c.Res.ModelCompared++
	model, perr := askTables(c, "graph.model", q, nil, false, p0, cs.Profile)
	if perr != "" {
		c.Disagree("C04/model-unavailable", "the Lean model gives no figures: "+perr, "correspondence Graph.newGraph ~ graph.New", cs)
		return
	}
	if kind, what := diffTables(got, model, true); kind != "" && !failed {
		c.Disagree("C04/model/"+mode+"/"+kind, "graph.New and the Lean model differ: "+what+" ["+q.String()+"]", "correspondence Graph.newGraph/newTree ~ graph.New (theorems graph_*_eq_spec are about the model)", cs)
	}
}

// ---------- level 2/3: report output forms ----------

var c04Formats = map[string]int{"text": report.Text, "tree": report.Tree, "peek": report.Tree, "dot": report.Dot,
	"callgrind": report.Callgrind, "topproto": report.TopProto, "traces": report.Traces}

// expectedDisplay turns figures into what the given output form shows for them.
func expectedDisplay(format string, t *gTable) []dispNode {
	last := func(k string) graph.NodeInfo {
		p := t.Info[k]
		return p[len(p)-1]
	}
	listed := func(k string) bool { _, ok := t.Flat[k]; return ok }
	var out []dispNode
	for k := range t.Flat {
		ni := last(k)
		n := dispNode{Name: ni.PrintableName(), Flat: t.Flat[k].V, Cum: t.Cum[k].V}
		switch format {
		case "callgrind":
			n.Name = ni.Name
			n.Extra = fmt.Sprintf("%s|%s|%#x|%d", ni.Objfile, ni.File, ni.Address, ni.Lineno)
		case "topproto":
			n.Name = ni.Name
			n.Extra = fmt.Sprintf("%q|%q|%d|%#x|%d|%d", ni.OrigName, ni.File, ni.StartLine, ni.Address, ni.Lineno, ni.Columnno)
		}
		for _, e := range t.Edges {
			if e.Src == k {
				dn := last(e.Dst)
				d := dispEdge{Name: dn.PrintableName(), W: e.Wt.V, Residual: e.Residual}
				if format == "dot" && !listed(e.Dst) {
					// an edge to an entry that is not listed (all figures zero) has no declared DOT node
					// to point to: ComposeDot skips it (fix 1120e19; it used to print "-> N0"). An edge
					// to an undeclared node in the output parses as unlistedName and matches nothing.
					continue
				}
				if format == "callgrind" {
					ci := last(e.Dst)
					cn := ci.Name
					if !listed(e.Dst) {
						cn = "" // an unlisted (all-zero) callee has no entry in the name table
					}
					d.Name = fmt.Sprintf("%s|%s", ci.File, cn)
				}
				n.Out = append(n.Out, d)
			}
			if e.Dst == k {
				if format == "dot" && !listed(e.Src) {
					continue // dot prints the out-edges of listed nodes only
				}
				if format == "callgrind" {
					continue // callgrind lists calls under the caller only
				}
				sn := last(e.Src)
				n.In = append(n.In, dispEdge{Name: sn.PrintableName(), W: e.Wt.V, Residual: e.Residual})
			}
		}
		out = append(out, n)
	}
	return out
}

// rawEdgeDisplay is expectedDisplay with un-divided edge weights (what printTree/printCallgrind
// show under `mean` on the pinned tree); used only to classify a violation precisely.
func rawEdgeTable(t *gTable) *gTable {
	c := *t
	c.Edges = map[string]gEdge{}
	for k, e := range t.Edges {
		e.Wt.V = e.Wt.W
		c.Edges[k] = e
	}
	return &c
}

// checkDisplay compares one output with the expected figures. Returns (kind, what).
func checkDisplay(c *Ctx, format string, out []byte, want *gTable, frames *leanFrames) (string, string) {
	var pr *parsedReport
	var err error
	switch format {
	case "text":
		pr, err = parseText(string(out))
	case "tree", "peek":
		pr, err = parseTree(string(out))
	case "dot":
		pr, err = parseDot(string(out))
	case "callgrind":
		pr, err = parseCallgrind(string(out))
	case "topproto":
		pr, err = parseTopProto(out)
	case "traces":
		return checkTraces(string(out), frames)
	}
	if err != nil {
		return "unparsable", err.Error()
	}
	withCum := format != "callgrind"
	withEdges := format == "tree" || format == "peek" || format == "dot" || format == "callgrind"
	withRes := format == "dot"
	got := canonNodes(pr.Nodes, withCum, withEdges, withRes)
	exp := canonNodes(expectedDisplay(format, want), withCum, withEdges, withRes)
	if d := firstDiff(got, exp); d != "" {
		// classify
		if withEdges {
			if firstDiff(canonNodes(pr.Nodes, withCum, false, false), canonNodes(expectedDisplay(format, want), withCum, false, false)) == "" {
				if firstDiff(got, canonNodes(expectedDisplay(format, rawEdgeTable(want)), withCum, withEdges, withRes)) == "" {
					return "edge-weight-not-mean", "edge weights are shown as un-divided sums although flat and cum are means: " + d
				}
				if os.Getenv("VERIF_DEBUG") != "" {
					fmt.Fprintln(os.Stderr, "raw diff:", firstDiff(got, canonNodes(expectedDisplay(format, rawEdgeTable(want)), withCum, withEdges, withRes)))
				}
				return "edge", d
			}
		}
		return "entry", d
	}
	if format == "dot" {
		for _, e := range want.Edges {
			_, a := want.Flat[e.Src]
			_, b := want.Flat[e.Dst]
			if a && !b {
				c.Res.Hit("dot:edge-to-unlisted-zero-entry-omitted")
				break
			}
		}
	}
	// legend/header: "Showing nodes accounting for X, p% of T total"
	if format == "text" || format == "tree" || format == "peek" || format == "dot" {
		shown, total, ok := parseAccounting(pr.Labels)
		if !ok {
			return "legend-unparsable", "no 'Showing nodes accounting for' line in " + strings.Join(pr.Labels, " / ")
		}
		if total != want.Total.V {
			return "total", fmt.Sprintf("report total %d, expected Σ|value| = %d", total, want.Total.V)
		}
		var sum int64
		for _, n := range pr.Nodes {
			sum += n.Flat
		}
		if shown != sum {
			return "accounting-for", fmt.Sprintf("legend says %d, sum of shown flat values is %d", shown, sum)
		}
	}
	return "", ""
}

func parseAccounting(labels []string) (shown, total int64, ok bool) {
	for _, l := range labels {
		if i := strings.Index(l, "Showing nodes accounting for "); i >= 0 {
			rest := l[i+len("Showing nodes accounting for "):]
			// "<shown>, <pct> of <total> total"
			comma := strings.Index(rest, ", ")
			of := strings.LastIndex(rest, " of ")
			tot := strings.LastIndex(rest, " total")
			if comma < 0 || of < 0 || tot < of {
				return 0, 0, false
			}
			s, err1 := parseIntField(rest[:comma])
			t, err2 := parseIntField(rest[of+4 : tot])
			return s, t, err1 == nil && err2 == nil
		}
	}
	return 0, 0, false
}

type leanFrames struct {
	rows []struct {
		names []string // root → leaf
		w, d  int64
	}
}

func askFrames(c *Ctx, q *gReq, p0 *profile.Profile, canon string) (*leanFrames, string) {
	reply := c.Drv.Ask("graph.frames " + q.tokens(nil, false, cleanTable(p0, c04PathFn), canon))
	if !strings.HasPrefix(reply, "ok ") {
		return nil, "model reply: " + trunc(reply)
	}
	r := newTR(reply[3:])
	var infos []graph.NodeInfo
	for i, n := 0, r.n(); i < n && r.err == nil; i++ {
		infos = append(infos, graph.NodeInfo{Name: r.str(), OrigName: r.str(), Address: r.nat(), File: r.str(),
			StartLine: int(r.int()), Lineno: int(r.int()), Columnno: int(r.int()), Objfile: r.str()})
	}
	lf := &leanFrames{}
	for i, n := 0, r.n(); i < n && r.err == nil; i++ {
		var names []string
		for j, m := 0, r.n(); j < m && r.err == nil; j++ {
			ix := r.n()
			if ix >= len(infos) {
				return nil, "index out of range"
			}
			names = append(names, infos[ix].PrintableName())
		}
		w, d := r.int(), r.int()
		r.bool()
		lf.rows = append(lf.rows, struct {
			names []string
			w, d  int64
		}{names, w, d})
	}
	if r.err != nil {
		return nil, r.err.Error()
	}
	return lf, ""
}

func checkTraces(out string, lf *leanFrames) (string, string) {
	_, rows, err := parseTraces(out)
	if err != nil {
		return "unparsable", err.Error()
	}
	var exp []traceRow
	for _, r := range lf.rows {
		if len(r.names) == 0 {
			continue
		}
		v := r.w
		if r.d != 0 {
			v = r.w / r.d
		}
		fr := make([]string, len(r.names))
		for i, n := range r.names {
			fr[len(r.names)-1-i] = n
		}
		exp = append(exp, traceRow{Value: v, Frames: fr})
	}
	if len(rows) != len(exp) {
		return "traces-count", fmt.Sprintf("%d traces shown, expected %d", len(rows), len(exp))
	}
	for i := range rows {
		if rows[i].Value != exp[i].Value {
			return "traces-value", fmt.Sprintf("trace %d: value %d, expected %d", i, rows[i].Value, exp[i].Value)
		}
		if strings.Join(rows[i].Frames, "\n") != strings.Join(exp[i].Frames, "\n") {
			return "traces-frames", fmt.Sprintf("trace %d: frames %q, expected %q", i, rows[i].Frames, exp[i].Frames)
		}
	}
	return "", ""
}

// reportReq derives the graph options the report code uses for a format.
func reportReq(q gReq, format string) gReq {
	r := q
	r.CallTree = q.CallTree && (format == "dot" || format == "callgrind")
	r.ObjNames = format == "callgrind"
	r.OrigFnNames = false
	if format == "traces" {
		r.CallTree, r.ObjNames = false, false
	}
	return r
}

func c04Report(c *Ctx, cs *c04Case) {
	p, err := ParseCanon(cs.Profile)
	if err != nil {
		c.Res.HarnessError = "ParseCanon: " + err.Error()
		return
	}
	p0, _ := ParseCanon(cs.Profile)
	q := &cs.Req
	var buf bytes.Buffer
	var genErr error
	pn := safely(func() {
		ro := &report.Options{OutputFormat: c04Formats[cs.Format], CallTree: q.CallTree, SampleValue: valueAt(q.VI),
			SampleType: p.SampleType[q.VI].Type, SampleUnit: "count", OutputUnit: "minimum", Ratio: 1}
		if q.Mean {
			ro.SampleMeanDivisor = valueAt(0)
		}
		rpt := report.New(p, ro)
		if genErr = aggregateReal(p, q.Agg); genErr != nil {
			return
		}
		genErr = report.Generate(&buf, rpt, nil)
	})
	if pn != "" {
		c.Violation("C04/report/"+cs.Format+"/panic", "report.Generate panics: "+pn, cs)
		return
	}
	if genErr != nil {
		c.Violation("C04/report/"+cs.Format+"/error", "report.Generate fails: "+genErr.Error(), cs)
		return
	}
	c04CheckOutput(c, cs, "report", buf.Bytes(), reportReq(*q, cs.Format), p0)
}

func c04CheckOutput(c *Ctx, cs *c04Case, level string, out []byte, rq gReq, p0 *profile.Profile) {
	var want, model *gTable
	var frames *leanFrames
	var perr string
	if cs.Format == "traces" {
		frames, perr = askFrames(c, &rq, p0, c04CanonOf(p0))
	} else {
		want, perr = askTables(c, "graph.spec", &rq, nil, false, p0, c04CanonOf(p0))
	}
	if perr != "" {
		c.Disagree("C04/spec-unavailable", "the Lean specification gives no figures: "+perr, "driver op graph.spec", cs)
		return
	}
	kind, what := checkDisplay(c, cs.Format, out, want, frames)
	if kind == "edge-weight-not-mean" {
		// one signature per printer, whatever the level (fixed upstream-side by aae387b; kept as a regression check)
		printer := map[string]string{"tree": "printTree", "peek": "printTree", "callgrind": "printCallgrind"}[cs.Format]
		c.Violation("C04/"+printer+"/edge-weight-not-mean", what+" ["+rq.String()+"]", cs)
		return
	}
	if os.Getenv("VERIF_DEBUG") != "" {
		fmt.Fprintf(os.Stderr, "---- %s %s output ----\n%s\n---- verdict: %s %s\n", level, cs.Format, out, kind, what)
	}
	if kind != "" {
		c.Violation("C04/"+level+"/"+cs.Format+"/"+kind, what+" ["+rq.String()+"]", cs)
		return
	}
	if cs.Format != "traces" {
		c.Res.ModelCompared++
		model, perr = askTables(c, "graph.model", &rq, nil, false, p0, c04CanonOf(p0))
		if perr != "" {
			c.Disagree("C04/model-unavailable", perr, "correspondence Graph.newGraph ~ graph.New", cs)
			return
		}
		if kind, what := checkDisplay(c, cs.Format, out, model, nil); kind != "" {
			c.Disagree("C04/model/"+level+"/"+cs.Format+"/"+kind, "output and Lean model differ: "+what, "correspondence report printers ~ Graph model", cs)
		}
	}
}

func c04CanonOf(p *profile.Profile) string { return Canon(p) }

// ---------- CLI ----------

var granIndex = map[string]int{"functions": 0, "filefunctions": 1, "files": 2, "lines": 3, "addresses": 4}

// cliReq derives (through the Lean model of driver.aggregate / SampleIndexByName) the graph
// options a command line stands for. p0 is the profile AFTER tagroot/tagleaf frames were added
// by the model-side description (not modelled here: cases with tags are checked separately).
func cliReq(c *Ctx, cs *c04Case, p0 *profile.Profile) (gReq, string) {
	q := gReq{CallTree: cs.Req.CallTree, Mean: cs.Req.Mean}
	gran := cs.Gran
	if gran == "" {
		gran = "functions"
	}
	noInl := cs.NoInlines
	if cs.Format == "callgrind" {
		gran = "addresses" // applyCommandOverrides
	}
	r := c.Drv.Ask(fmt.Sprintf("graph.aggflags %d %s %s", granIndex[gran], b2s(noInl), b2s(cs.ShowColumns)))
	f := strings.Fields(r)
	switch {
	case len(f) == 2 && f[0] == "ok" && f[1] == "0":
		q.Agg = nil
	case len(f) == 8 && f[0] == "ok" && f[1] == "1":
		var a [6]bool
		for i := range a {
			a[i] = f[2+i] == "1"
		}
		q.Agg = &a
	default:
		return q, "graph.aggflags: " + r
	}
	var w tw
	w.str(cs.SampleIndex)
	r = c.Drv.Ask("graph.sampleindex " + w.String() + " " + Canon(p0))
	f = strings.Fields(r)
	if len(f) != 2 || f[0] != "ok" {
		return q, "graph.sampleindex: " + r
	}
	q.VI, _ = strconv.Atoi(f[1])
	return q, ""
}

func (cs *c04Case) cliArgs(file string) []string {
	args := []string{"-" + cs.Format}
	if cs.Format == "peek" {
		args = []string{"-peek=."}
	}
	args = append(args, "-symbolize=none", "-nodecount=0", "-nodefraction=0", "-edgefraction=0")
	if cs.Gran != "" {
		args = append(args, "-"+cs.Gran)
	}
	if cs.NoInlines {
		args = append(args, "-noinlines")
	}
	if cs.ShowColumns {
		args = append(args, "-showcolumns")
	}
	if cs.Req.CallTree {
		args = append(args, "-call_tree")
	}
	if cs.Req.Mean {
		args = append(args, "-mean")
	}
	if cs.SampleIndex != "" {
		args = append(args, "-sample_index="+cs.SampleIndex)
	}
	if cs.TagRoot != "" {
		args = append(args, "-tagroot="+cs.TagRoot)
	}
	if cs.TagLeaf != "" {
		args = append(args, "-tagleaf="+cs.TagLeaf)
	}
	return append(args, file)
}

var c04TmpOnce sync.Once
var c04TmpDir string

func c04Tmp() string {
	c04TmpOnce.Do(func() {
		base := os.Getenv("VERIF_DIR")
		if base == "" {
			base = os.TempDir()
		} else {
			base = filepath.Join(base, ".build")
		}
		c04TmpDir, _ = os.MkdirTemp(base, "cli-")
	})
	return c04TmpDir
}

type cliResult struct {
	out, errOut []byte
	err         error
}

// runPprof writes the profile and runs one pprof process.
func runPprof(c *Ctx, canon string, args func(file string) []string, id int) cliResult {
	p, err := ParseCanon(canon)
	if err != nil {
		return cliResult{err: err}
	}
	file := filepath.Join(c04Tmp(), fmt.Sprintf("p%d.pb.gz", id))
	f, err := os.Create(file)
	if err != nil {
		return cliResult{err: err}
	}
	if err := p.Write(f); err != nil {
		f.Close()
		return cliResult{err: err}
	}
	f.Close()
	defer os.Remove(file)
	cmd := exec.Command(c.Pprof, args(file)...)
	cmd.Env = append(os.Environ(), "PPROF_TMPDIR="+c04Tmp(), "HOME="+c04Tmp(), "PPROF_BINARY_PATH="+c04Tmp())
	var so, se bytes.Buffer
	cmd.Stdout, cmd.Stderr = &so, &se
	err = cmd.Run()
	return cliResult{so.Bytes(), se.Bytes(), err}
}

// c04CLICheck evaluates an already obtained CLI output (so that processes can run in parallel
// while the single Lean driver is asked sequentially).
func c04CLICheck(c *Ctx, cs *c04Case, res cliResult) {
	peekEmpty := false
	if res.err != nil && cs.Format == "peek" && strings.Contains(string(res.errOut), "no matches found for regexp") {
		// printTree reports an error when no entry is listed; acceptable iff nothing should be listed
		peekEmpty = true
		res.err = nil
	}
	if res.err != nil {
		c.Violation("C04/cli/"+cs.Format+"/error", fmt.Sprintf("pprof %v fails: %v: %s", cs.cliArgs("FILE"), res.err, trunc(string(res.errOut))), cs)
		return
	}
	p0, err := ParseCanon(cs.Profile)
	if err != nil {
		c.Res.HarnessError = err.Error()
		return
	}
	// what the file round trip does to the profile is C01's business; use the re-read profile
	var buf bytes.Buffer
	p0.Write(&buf)
	p0, err = profile.Parse(&buf)
	if err != nil {
		c.Res.HarnessError = "re-read: " + err.Error()
		return
	}
	if cs.TagRoot != "" || cs.TagLeaf != "" {
		// pseudo frames from labels: the Lean model of addLabelNodes rewrites the profile
		var w tw
		for _, ks := range []string{cs.TagRoot, cs.TagLeaf} {
			var keys []string
			for _, k := range strings.Split(ks, ",") {
				if k != "" {
					keys = append(keys, k)
				}
			}
			w.n(len(keys))
			for _, k := range keys {
				w.str(k)
			}
		}
		// The Lean model of addLabelNodes takes the label VALUES as strings. The documented pseudo-frame
		// name (tagroot.go formatLabelValues) is: the string values of the key, then its numeric values
		// rendered with their unit (measurement.ScaledLabel to the output unit, default "minimum"; plain
		// numbers when the key has no units), comma-joined. Rendering numbers is external to the model
		// (like filepath.Clean): the harness appends the rendered numeric values to the string values of
		// every tag key before it hands the profile to the model.
		tagKeys := map[string]bool{}
		for _, k := range strings.Split(cs.TagRoot+","+cs.TagLeaf, ",") {
			if k != "" {
				tagKeys[k] = true
			}
		}
		for _, s := range p0.Sample {
			for k := range tagKeys {
				nums, units := s.NumLabel[k], s.NumUnit[k]
				if len(nums) == 0 || (len(units) != len(nums) && len(units) != 0) {
					continue
				}
				if s.Label == nil {
					s.Label = map[string][]string{}
				}
				vals := append([]string(nil), s.Label[k]...)
				for i, n := range nums {
					if len(units) != 0 {
						vals = append(vals, measurement.ScaledLabel(n, units[i], "minimum"))
					} else {
						vals = append(vals, measurement.ScaledLabel(n, "", ""))
					}
				}
				s.Label[k] = vals
				c.Res.Hit("cli:tag-key-with-numeric-values")
			}
		}
		reply := c.Drv.Ask("graph.tag " + w.String() + " " + Canon(p0))
		if !strings.HasPrefix(reply, "ok ") {
			c.Disagree("C04/cli/tag-model", "graph.tag: "+trunc(reply), "Lean model of addLabelNodes", cs)
			return
		}
		if p0, err = ParseCanon(reply[3:]); err != nil {
			c.Disagree("C04/cli/tag-model", "graph.tag reply: "+err.Error(), "Lean model of addLabelNodes", cs)
			return
		}
		c.Res.Hit("cli:tagroot/tagleaf")
	}
	q, perr := cliReq(c, cs, p0)
	if perr != "" {
		c.Disagree("C04/cli/options", perr, "model of driver.aggregate / SampleIndexByName", cs)
		return
	}
	if peekEmpty {
		rq := reportReq(q, cs.Format)
		want, perr := askTables(c, "graph.spec", &rq, nil, false, p0, Canon(p0))
		if perr != "" {
			c.Disagree("C04/spec-unavailable", perr, "driver op graph.spec", cs)
		} else if len(want.Flat) != 0 {
			c.Violation("C04/cli/peek/entries-missing", fmt.Sprintf("peek lists nothing but %d entries have non-zero figures", len(want.Flat)), cs)
		} else {
			c.Res.Hit("peek-empty-report")
		}
		return
	}
	c04CheckOutput(c, cs, "cli", res.out, reportReq(q, cs.Format), p0)
}

func c04CLI(c *Ctx, cs *c04Case) {
	if c.Pprof == "" {
		return
	}
	res := runPprof(c, cs.Profile, cs.cliArgs, 0)
	c04CLICheck(c, cs, res)
}

func c04Run(c *Ctx, cs *c04Case) {
	switch cs.Level {
	case "graph":
		c04Graph(c, cs)
	case "report":
		c04Report(c, cs)
	case "cli":
		c04CLI(c, cs)
	}
}

// ---------- generation ----------

func c04RandAgg(r *Rng) *[6]bool {
	switch r.Intn(8) {
	case 0:
		return nil
	case 1: // arbitrary flag combination (wider than what the CLI can reach)
		var a [6]bool
		for i := range a {
			a[i] = r.Bool()
		}
		return &a
	}
	// the CLI's combinations
	noInl, cols := r.Chance(35), r.Chance(30)
	var a [6]bool
	switch r.Intn(5) {
	case 0:
		a = [6]bool{!noInl, true, false, false, cols, false}
	case 1:
		a = [6]bool{!noInl, true, true, false, cols, false}
	case 2:
		a = [6]bool{!noInl, false, true, false, cols, false}
	case 3:
		a = [6]bool{!noInl, true, true, true, cols, false}
	case 4:
		if !noInl {
			return nil
		}
		a = [6]bool{false, true, true, true, cols, true}
	}
	return &a
}

func runC04(c *Ctx) {
	c.Res.Rule = "profiles from 9 stack-shape strategies (random, direct/mutual recursion, repeated multi-line location, shared locations, unsymbolized, cancelling ±values, deep, empty) × options grid (Aggregate flags incl. all CLI granularities × noinlines × showcolumns, call_tree, obj/orig names, every sample index, mean); levels: graph.New tables, report.Generate output of text/tree/dot/callgrind/topproto/traces parsed back, pprof CLI output parsed back (+ a dedicated stream of 84×scale labelled profiles run with -tagroot/-tagleaf in every CLI format); expected figures = Lean Spec via pvdrv, correspondence = Lean model of newGraph/newTree. non-trivial = some sample has ≥2 frames and non-zero value (an edge and a cum≠flat entry exist); distinct by canonical profile + options"
	if c.Replay != "" {
		var cs c04Case
		if err := c.LoadReplay(&cs); err != nil {
			c.Res.HarnessError = err.Error()
			return
		}
		c04Run(c, &cs)
		c.Res.Evaluations++
		return
	}
	r := NewRng(c.Seed)
	nProfiles := 450 * c.Scale
	var cliCases []*c04Case
	formats := []string{"text", "tree", "dot", "callgrind", "topproto", "traces"}
	for i := 0; i < nProfiles; i++ {
		st := c04Strategies[i%len(c04Strategies)]
		o := &c04GenOpts{Strategy: st, BigValues: r.Chance(15), Labels: r.Chance(35)}
		p := genC04Profile(r, o)
		canon := Canon(p)
		sh := c04Classify(p)
		nt := false
		for _, s := range p.Sample {
			nz := false
			for _, v := range s.Value {
				if v != 0 {
					nz = true
				}
			}
			fr := 0
			for _, l := range s.Location {
				if n := len(l.Line); n > 0 {
					fr += n
				} else {
					fr++
				}
			}
			if nz && fr >= 2 {
				nt = true
			}
		}
		c.Res.Hit("strategy:" + st)
		for k, v := range map[string]bool{"shape:recursion": sh.recursion, "shape:multi-line-location": sh.multiLine, "shape:location-without-lines": sh.noLine,
			"shape:empty-stack": sh.emptyStack, "shape:negative-value": sh.negative, "shape:shared-location": sh.sharedLoc} {
			if v {
				c.Res.Hit(k)
			}
		}
		c.Res.Hit(fmt.Sprintf("sample-types:%d", sh.sampleTypes))
		// graph level: several option points per profile
		for k := 0; k < 4; k++ {
			cs := &c04Case{Level: "graph", Profile: canon, Req: gReq{CallTree: r.Chance(30), ObjNames: r.Chance(30), OrigFnNames: r.Chance(30),
				Agg: c04RandAgg(r), VI: r.Intn(len(p.SampleType)), Mean: r.Chance(40)}}
			c.Res.Count(canon+cs.Req.String(), nt)
			c04Graph(c, cs)
			if cs.Req.Mean {
				c.Res.Hit("opt:mean")
			}
			if cs.Req.CallTree {
				c.Res.Hit("opt:call_tree")
			}
		}
		// report level: two formats per profile
		for k := 0; k < 2; k++ {
			f := formats[(i+k*3)%len(formats)]
			cs := &c04Case{Level: "report", Profile: canon, Format: f, Req: gReq{CallTree: r.Chance(40), Agg: c04RandAgg(r), VI: r.Intn(len(p.SampleType)), Mean: r.Chance(40)}}
			c.Res.Count(canon+"report"+f+cs.Req.String(), nt)
			c.Res.Hit("report-format:" + f)
			if i < 2 && k == 0 {
				c.Res.Sample(map[string]any{"strategy": st, "format": f, "options": cs.Req.String(), "profile": trunc(canon)})
			}
			c04Report(c, cs)
		}
		// CLI level: one invocation for every other profile
		if i%2 == 0 && c.Pprof != "" {
			cliFormats := []string{"text", "tree", "peek", "dot", "callgrind", "topproto", "traces"}
			cs := &c04Case{Level: "cli", Profile: canon, Format: cliFormats[(i/2)%len(cliFormats)],
				Gran: r.Pick([]string{"", "functions", "filefunctions", "files", "lines", "addresses"}), NoInlines: r.Chance(35), ShowColumns: r.Chance(25),
				Req: gReq{CallTree: r.Chance(40), Mean: r.Chance(40)}}
			switch r.Intn(4) {
			case 0:
				cs.SampleIndex = ""
			case 1:
				cs.SampleIndex = strconv.Itoa(r.Intn(len(p.SampleType)))
			case 2:
				cs.SampleIndex = p.SampleType[r.Intn(len(p.SampleType))].Type
			case 3:
				cs.SampleIndex = "inuse_" + p.SampleType[r.Intn(len(p.SampleType))].Type
			}
			if o.Labels {
				cs.TagRoot = r.Pick([]string{"", "k", "req", "k,req", "nokey", "req,,k"})
				cs.TagLeaf = r.Pick([]string{"", "k", "req", "nokey,k"})
			}
			cliCases = append(cliCases, cs)
			c.Res.Count(canon+"cli"+strings.Join(cs.cliArgs("F"), " "), nt)
			c.Res.Hit("cli-format:" + cs.Format)
		}
	}
	// dedicated -tagroot / -tagleaf stream (own PRNG stream, so the cases above do not move): labelled
	// profiles, at least one of the two options set, every CLI format; expected figures = Lean Spec on
	// the profile rewritten by the Lean model of addLabelNodes (theorem tagroot_tagleaf_frames: that is
	// rootFrames ++ frames ++ leafFrames)
	if c.Pprof != "" {
		rt := NewRng(c.Seed ^ 0x7A67)
		tagFormats := []string{"traces", "tree", "text", "dot", "topproto", "callgrind", "peek"}
		for i := 0; i < 84*c.Scale; i++ {
			st := c04Strategies[i%len(c04Strategies)]
			if st == "empty" {
				st = "deep"
			}
			p := genC04Profile(rt, &c04GenOpts{Strategy: st, Labels: true})
			numeric := i%3 != 2
			if numeric {
				// samples that carry STRING and NUMERIC values under the same key (several values, with
				// and without units): samples sharing the string value but not the numbers are different
				// pseudo frames
				for si, s := range p.Sample {
					if rt.Chance(55) {
						k := rt.Pick([]string{"k", "req"})
						nv := 1 + rt.Intn(2)
						if s.NumLabel == nil {
							s.NumLabel, s.NumUnit = map[string][]int64{}, map[string][]string{}
						}
						for j := 0; j < nv; j++ {
							s.NumLabel[k] = append(s.NumLabel[k], int64(10*(1+rt.Intn(3))))
						}
						if (si+i)%2 == 0 {
							for j := 0; j < nv; j++ {
								s.NumUnit[k] = append(s.NumUnit[k], rt.Pick([]string{"bytes", "ms", "widgets"}))
							}
						}
						if s.Label == nil && rt.Chance(60) {
							s.Label = map[string][]string{k: {rt.Pick([]string{"a", "b"})}}
						}
					}
				}
				c.Res.Hit("tagstream:numeric-and-string-values")
			}
			if i%2 == 1 {
				// sparse ids: the pseudo locations / functions must be numbered above the LARGEST id in
				// use, not above the count (graph.CreateNodes keys its location table by Location.ID)
				for _, l := range p.Location {
					l.ID = l.ID*2 + 1
				}
				for _, f := range p.Function {
					f.ID = f.ID * 3
				}
				c.Res.Hit("tagstream:sparse-ids")
			}
			format := tagFormats[i%len(tagFormats)]
			if numeric {
				// numeric labels also become tag nodelets / label lines in dot, callgrind and traces
				// output (not this property's subject): use the formats that print entries only
				format = []string{"text", "tree", "peek", "topproto"}[i%4]
			}
			cs := &c04Case{Level: "cli", Profile: Canon(p), Format: format,
				Gran: rt.Pick([]string{"", "functions", "filefunctions", "files", "lines"}), NoInlines: rt.Chance(25),
				Req: gReq{CallTree: rt.Chance(30), Mean: rt.Chance(20)}}
			cs.TagRoot = rt.Pick([]string{"k", "req", "k,req", "req,k", "nokey,k", ""})
			cs.TagLeaf = rt.Pick([]string{"k", "req", "req,k", "k,nokey", ""})
			if cs.TagRoot == "" && cs.TagLeaf == "" {
				cs.TagLeaf = "k"
			}
			matched := false
			for _, s := range p.Sample {
				nz := false
				for _, v := range s.Value {
					if v != 0 {
						nz = true
					}
				}
				for _, k := range strings.Split(cs.TagRoot+","+cs.TagLeaf, ",") {
					if k != "" && len(s.Label[k]) > 0 && len(s.Location) > 0 && nz {
						matched = true
					}
				}
			}
			cliCases = append(cliCases, cs)
			c.Res.Count(cs.Profile+"cli-tag"+strings.Join(cs.cliArgs("F"), " "), matched)
			c.Res.Hit("tagstream-format:" + cs.Format)
			if cs.TagRoot != "" {
				c.Res.Hit("tagstream:tagroot")
			}
			if cs.TagLeaf != "" {
				c.Res.Hit("tagstream:tagleaf")
			}
			if matched {
				c.Res.Hit("tagstream:some-sample-carries-a-key")
			}
		}
	}
	// run the pprof processes in parallel, then evaluate sequentially
	results := make([]cliResult, len(cliCases))
	var wg sync.WaitGroup
	sem := make(chan struct{}, 12)
	for i, cs := range cliCases {
		wg.Add(1)
		go func(i int, cs *c04Case) {
			defer wg.Done()
			sem <- struct{}{}
			defer func() { <-sem }()
			results[i] = runPprof(c, cs.Profile, cs.cliArgs, i+1)
		}(i, cs)
	}
	wg.Wait()
	for i, cs := range cliCases {
		c04CLICheck(c, cs, results[i])
	}
	if c04TmpDir != "" {
		os.RemoveAll(c04TmpDir)
	}
}
