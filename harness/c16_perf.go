//go:build verif

package main

// C16, stream "perf.data conversion": a source whose file starts with PERFILE2 is converted by
// pprof with the external tool `perf_to_profile -i <in> -o <tmp> -f` inside its fetch goroutine.
// The stand-in tool is THIS binary re-executed under that name (a symlink on PATH; see init below):
// it reads its instructions from the input file (which profile to write or how to fail, how long
// to wait before writing and before exiting — so that the conversions of the sources of one run
// overlap), and writes the output file IN PLACE.  Several sources carry the same base name
// (run-a/perf.data, run-b/perf.data …).  Oracle: the generic one — every source contributes
// exactly its own profile, one error line per failing conversion, report identical across
// schedules.

import (
	"encoding/json"
	"fmt"
	"os"
	"path/filepath"
	"strings"
	"time"
)

const (
	c16PerfOK      = "perf-ok"      // the tool writes this source's profile
	c16PerfFail    = "perf-fail"    // the tool exits with status 1
	c16PerfGarbage = "perf-garbage" // the tool writes garbage
	c16PerfMagic   = "PERFILE2"
)

func c16IsPerf(kind string) bool { return strings.HasPrefix(kind, "perf-") }

// what the stand-in tool reads from its input file (after the magic)
type c16PerfJob struct {
	Group  int    `json:"group"`
	ID     int    `json:"id"`
	Src    c16Src `json:"src"`
	PreUS  int    `json:"pre_us"`  // wait before writing the output
	PostUS int    `json:"post_us"` // wait after writing, before exiting
}

func init() {
	if filepath.Base(os.Args[0]) != "perf_to_profile" {
		return
	}
	// stand-in for perf_to_profile
	in, out := "", ""
	for i := 1; i+1 < len(os.Args); i++ {
		switch os.Args[i] {
		case "-i":
			in = os.Args[i+1]
		case "-o":
			out = os.Args[i+1]
		}
	}
	b, err := os.ReadFile(in)
	if err != nil || !strings.HasPrefix(string(b), c16PerfMagic) {
		fmt.Fprintln(os.Stderr, "perf_to_profile stand-in: bad input")
		os.Exit(2)
	}
	var job c16PerfJob
	if err := json.Unmarshal(b[len(c16PerfMagic):], &job); err != nil {
		fmt.Fprintln(os.Stderr, "perf_to_profile stand-in: bad job")
		os.Exit(2)
	}
	time.Sleep(time.Duration(job.PreUS) * time.Microsecond)
	if job.Src.Kind == c16PerfFail {
		os.Exit(1)
	}
	data := c16Garbage
	if job.Src.Kind == c16PerfOK {
		data = c16Bytes(c16ProfileOf(job.Group, job.ID, job.Src))
	}
	f, err := os.OpenFile(out, os.O_WRONLY|os.O_CREATE|os.O_TRUNC, 0o644) // in place, like -f
	if err != nil {
		os.Exit(3)
	}
	f.Write(data)
	f.Close()
	time.Sleep(time.Duration(job.PostUS) * time.Microsecond)
	os.Exit(0)
}

// c16PerfSetup puts the stand-in on PATH and points the temp dir into the scratch area.
func c16PerfSetup(root string) error {
	exe, err := os.Executable()
	if err != nil {
		return err
	}
	bin := filepath.Join(root, "perfbin")
	os.MkdirAll(bin, 0o755)
	if err := os.Symlink(exe, filepath.Join(bin, "perf_to_profile")); err != nil {
		return err
	}
	tmp := filepath.Join(root, "tmpdir")
	os.MkdirAll(tmp, 0o755)
	os.Setenv("TMPDIR", tmp)
	c16OrigPath = os.Getenv("PATH")
	os.Setenv("PATH", bin+string(os.PathListSeparator)+c16OrigPath)
	return nil
}

func c16PerfAddr(dir, tok string) string { return filepath.Join(dir, tok, "perf.data") }

// c16WritePerf writes the perf.data stand-ins of one run. delays[i] (µs) is when source i's conversion
// writes its output; with commonExit all conversions end at about the same time (after the last
// write), otherwise right after their own write.
func c16WritePerf(dir string, cs *c16Case, kinds []string, delays []int, commonExit bool) {
	n := len(cs.Sources)
	max := 0
	for _, d := range delays {
		if d > max {
			max = d
		}
	}
	for i, s := range cs.all() {
		if !c16IsPerf(kinds[i]) {
			continue
		}
		g, id := 0, i
		if i >= n {
			g, id = 1, i-n
		}
		s.Kind = kinds[i]
		job := c16PerfJob{Group: g, ID: id, Src: s}
		if i < len(delays) {
			job.PreUS = delays[i] * 20 // process start-up is milliseconds: spread the writes accordingly
		}
		if commonExit {
			job.PostUS = (max*20 - job.PreUS) + 8000
		}
		b, _ := json.Marshal(job)
		p := c16PerfAddr(dir, c16Token(g, id))
		os.MkdirAll(filepath.Dir(p), 0o755)
		os.WriteFile(p, append([]byte(c16PerfMagic), b...), 0o644)
	}
}

func c16GenPerf(r *Rng, idx int) *c16Case {
	cs := &c16Case{Name: fmt.Sprintf("perf-conversion-%d", idx), Perf: true}
	n := 2 + r.Intn(4)
	for i := 0; i < n; i++ {
		k := c16PerfOK
		switch {
		case r.Chance(20):
			k = r.Pick([]string{c16PerfFail, c16PerfGarbage})
		case r.Chance(25):
			k = r.Pick([]string{c16OK, c16OKFile, c16Err, c16Missing})
		}
		cs.Sources = append(cs.Sources, c16Src{Kind: k, Seed: r.U64() >> 16})
	}
	// at least two convertible sources with the same base name
	i, j := r.Intn(n), r.Intn(n)
	if i == j {
		j = (i + 1) % n
	}
	cs.Sources[i] = c16Src{Kind: c16PerfOK, Seed: r.U64() >> 16}
	cs.Sources[j] = c16Src{Kind: c16PerfOK, Seed: r.U64() >> 16}
	if idx%3 == 2 {
		cs.Bases = []c16Src{{Kind: c16PerfOK, Seed: r.U64() >> 16}}
		cs.DiffBase = r.Bool()
	}
	N := len(cs.all())
	for s := 0; s < 3; s++ {
		rank := c16Perm(r, N)
		d := make([]int, N)
		for x := range d {
			d[x] = rank[x] * 150 // ×20 in c16WritePerf: 3 ms between the writes of consecutive ranks
		}
		cs.Schedules = append(cs.Schedules, d)
	}
	c16Alt(r, cs)
	return cs
}
