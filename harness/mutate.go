//go:build verif

package main

// mutateBytes applies 1..3 structure-blind mutations (bit flips, truncation, byte insertion,
// duplication of a slice, length-byte edits) to b.
func mutateBytes(r *Rng, b []byte) []byte {
	out := append([]byte(nil), b...)
	for k, n := 0, 1+r.Intn(3); k < n; k++ {
		if len(out) == 0 {
			out = append(out, byte(r.U64()))
			continue
		}
		i := r.Intn(len(out))
		switch r.Intn(8) {
		case 0:
			out[i] ^= 1 << uint(r.Intn(8))
		case 1:
			out = out[:i]
		case 2:
			out = append(out[:i], append([]byte{byte(r.U64())}, out[i:]...)...)
		case 3:
			j := i + r.Intn(len(out)-i)
			out = append(out[:j], append(append([]byte(nil), out[i:j]...), out[j:]...)...)
		case 4:
			out[i] = byte(r.Intn(4)) // small value: often a length, id or index
		case 5:
			out[i] = 0xff
		case 6:
			out = append(out[:i], out[i+1:]...)
		case 7:
			out = append(out, out[:i]...)
		}
	}
	return out
}
