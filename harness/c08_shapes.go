//go:build verif

package main

// C08, (a) graph shapes whose TRIMMED form has several residual edges into one node — mutual recursion,
// diamonds, cycles, with helper nodes that -nodefraction / -nodecount drop — rendered as -dot ≥16 times
// across fresh processes and 24 times in process (report.Generate); (b) the time probe: compressed
// serializations of a profile WITHOUT collection time, taken more than a second apart (once per run),
// must be byte-identical, in process (Profile.Write) and through the CLI (-proto).

import (
	"bytes"
	"fmt"
	"os"
	"path/filepath"
	"strings"
	"time"

	"github.com/google/pprof/internal/report"
	"github.com/google/pprof/profile"
)

// c08ShapeProfile: root -> (hubs in some order, possibly cyclic) -> helper -> hot leaf, one stack per
// helper, equal or near-equal weights.  The helpers carry 1/k of the total and are dropped by a node
// fraction between 1/k and the hubs' share, which leaves residual edges hub -> leaf that can be
// redundant through one another.
func c08ShapeProfile(r *Rng) (*profile.Profile, []string) {
	p := &profile.Profile{TimeNanos: 1700000000000000000, DurationNanos: 1e9, Period: 1,
		PeriodType: &profile.ValueType{Type: "cpu", Unit: "nanoseconds"},
		SampleType: []*profile.ValueType{{Type: "samples", Unit: "count"}},
		Mapping:    []*profile.Mapping{{ID: 1, Start: 0x1000, Limit: 0x90000, File: "/bin/demo", HasFunctions: true}},
	}
	loc := map[string]*profile.Location{}
	add := func(name string) *profile.Location {
		if l, ok := loc[name]; ok {
			return l
		}
		id := uint64(len(p.Function) + 1)
		f := &profile.Function{ID: id, Name: name, SystemName: name, Filename: "demo.go", StartLine: 1}
		p.Function = append(p.Function, f)
		l := &profile.Location{ID: id, Mapping: p.Mapping[0], Address: 0x1000 + 0x100*id, Line: []profile.Line{{Function: f, Line: int64(10 * id)}}}
		p.Location = append(p.Location, l)
		loc[name] = l
		return l
	}
	hubs := []string{"A", "B", "C", "D"}[:2+r.Intn(3)]
	leaves := []string{"leaf", "leaf2"}[:1+r.Intn(2)]
	k := len(hubs) + r.Intn(2) // number of stacks
	if k < 2 {
		k = 2
	}
	w := int64(10)
	for i := 0; i < k; i++ {
		// root, a rotation/permutation of the hubs (all of them: mutual recursion), a helper, a leaf
		order := perm(r, len(hubs))
		if r.Chance(50) { // rotations: A B C, B C A, …
			for j := range order {
				order[j] = (i + j) % len(hubs)
			}
		}
		frames := []string{"root"}
		for _, j := range order {
			frames = append(frames, hubs[j])
		}
		if r.Chance(25) { // a cycle back to the first hub
			frames = append(frames, hubs[order[0]])
		}
		frames = append(frames, fmt.Sprintf("helper%d", i), leaves[r.Intn(len(leaves))])
		s := &profile.Sample{Value: []int64{w}}
		if r.Chance(30) {
			s.Value[0] = w + int64(r.Intn(2)) // near-equal weights
		}
		for j := len(frames) - 1; j >= 0; j-- { // leaf first
			s.Location = append(s.Location, add(frames[j]))
		}
		p.Sample = append(p.Sample, s)
	}
	// node fractions just above the helpers' share, and node counts that keep root+hubs+leaves only
	share := 1.0 / float64(k)
	args := []string{
		fmt.Sprintf("-nodefraction=%.3f", share+0.05),
		fmt.Sprintf("-nodefraction=%.3f", share+0.02),
		fmt.Sprintf("-nodecount=%d", 1+len(hubs)+len(leaves)),
		fmt.Sprintf("-nodecount=%d", 2+len(hubs)+len(leaves)),
	}
	return p, args
}

type c08ShapeCase struct {
	Kind     string  `json:"kind"` // "dot-inprocess"
	Profile  string  `json:"profile"`
	Fraction float64 `json:"node_fraction"`
	Count    int     `json:"node_count"`
	Reps     int     `json:"reps"`
	Out1     string  `json:"output_1,omitempty"`
	Out2     string  `json:"output_2,omitempty"`
}

// c08DotInProcess renders the dot report of one profile repeatedly in this process.
func c08DotInProcess(c *Ctx, cs c08ShapeCase) {
	src, err := ParseCanon(cs.Profile)
	if err != nil {
		c.Res.HarnessError = "ParseCanon: " + err.Error()
		return
	}
	render := func() (string, string) {
		var buf bytes.Buffer
		pn := safely(func() {
			rpt := report.New(src.Copy(), &report.Options{OutputFormat: report.Dot, NodeFraction: cs.Fraction, NodeCount: cs.Count,
				SampleValue: func(v []int64) int64 { return v[0] }, SampleUnit: "count"})
			if err := report.Generate(&buf, rpt, nil); err != nil {
				buf.WriteString("error: " + err.Error())
			}
		})
		return buf.String(), pn
	}
	first, pn := render()
	if pn != "" {
		c.Violation("C08/dot-inprocess/panic", pn, cs)
		return
	}
	for k := 1; k < cs.Reps; k++ {
		got, pn := render()
		if pn != "" || got != first {
			cs.Out1, cs.Out2 = trunc2k(first), trunc2k(got+pn)
			c.Violation("C08/dot-inprocess/nondeterministic", fmt.Sprintf("report.Generate(Dot) of the same profile and options differs on render %d of %d in one process", k+1, cs.Reps), cs)
			return
		}
	}
	if strings.Contains(first, "style=\"dotted\"") {
		c.Res.Hit("shape:residual-edges-in-output")
	}
}

// c08ShapeStream: CLI jobs (fresh processes) + in-process renders.
func c08ShapeStream(c *Ctx, r *Rng, n, runs int) {
	tmp, err := os.MkdirTemp("", "c08shape-")
	if err != nil {
		c.Res.HarnessError = err.Error()
		return
	}
	defer os.RemoveAll(tmp)
	var jobs []*c08Job
	for i := 0; i < n; i++ {
		p, args := c08ShapeProfile(r)
		if err := p.CheckValid(); err != nil {
			c.Res.HarnessError = "shape profile invalid: " + err.Error()
			return
		}
		canon := Canon(p)
		fn, err := c08WriteProfile(tmp, i, p)
		if err != nil {
			c.Res.HarnessError = err.Error()
			return
		}
		c.Res.Hit("profile:residual-shapes")
		for _, a := range args {
			jobs = append(jobs, &c08Job{canon: canon, files: []string{fn}, args: []string{"-dot", a}, stream: "shapes"})
			var frac float64
			var cnt int
			fmt.Sscanf(a, "-nodefraction=%f", &frac)
			fmt.Sscanf(a, "-nodecount=%d", &cnt)
			cs := c08ShapeCase{Kind: "dot-inprocess", Profile: canon, Fraction: frac, Count: cnt, Reps: 24}
			c08DotInProcess(c, cs)
			c.Res.Count("dot-inprocess/"+a+"/"+canon, true)
		}
	}
	c08RunJobs(c, tmp, jobs, runs)
	c08JudgeJobs(c, jobs, runs)
}

// ---------- time probe ----------

type c08TimeProbe struct {
	canon string
	dir   string
	file  string
	t0    time.Time
	z0    []byte
	cli0  []byte
}

func c08TimeProbeProfile() *profile.Profile {
	p := c08GenProfile(NewRng(12345), "positive")
	p.TimeNanos, p.DurationNanos = 0, 0 // no collection time: what every legacy text format gives
	return p
}

// c08TimeProbeStart takes the first compressed serializations; c08TimeProbeEnd, at the end of the run and
// at least 1.1 s later (so in another wall-clock second), takes them again and compares.
func c08TimeProbeStart(c *Ctx) *c08TimeProbe {
	tp := &c08TimeProbe{}
	p := c08TimeProbeProfile()
	tp.canon = Canon(p)
	dir, err := os.MkdirTemp("", "c08time-")
	if err != nil {
		return nil
	}
	tp.dir = dir
	tp.file = filepath.Join(dir, "notime.pb.gz")
	// the input file itself is written uncompressed so that its bytes do not depend on this check
	var ub bytes.Buffer
	p.WriteUncompressed(&ub)
	os.WriteFile(tp.file, ub.Bytes(), 0o644)
	tp.t0 = time.Now()
	var z bytes.Buffer
	p.Write(&z)
	tp.z0 = z.Bytes()
	if c.Pprof != "" {
		tp.cli0, _ = c08RunCLI(c, dir, []string{tp.file}, []string{"-proto"}, "")
	}
	return tp
}

func c08TimeProbeEnd(c *Ctx, tp *c08TimeProbe) {
	if tp == nil {
		return
	}
	defer os.RemoveAll(tp.dir)
	if d := 1100*time.Millisecond - time.Since(tp.t0); d > 0 {
		time.Sleep(d)
	}
	p, _ := ParseCanon(tp.canon)
	var z bytes.Buffer
	p.Write(&z)
	cs := c08Case{Kind: "time-probe", Profile: tp.canon, Args: []string{"-proto"}}
	if !bytes.Equal(z.Bytes(), tp.z0) {
		cs.Out1, cs.Out2 = c08ShowOut(tp.z0[:min(len(tp.z0), 32)]), c08ShowOut(z.Bytes()[:min(z.Len(), 32)])
		c.Violation("C08/serialize/gzip-depends-on-wall-clock", "Profile.Write of a profile without collection time gives different bytes when repeated more than a second later (gzip header)", cs)
	}
	if c.Pprof != "" {
		out, _ := c08RunCLI(c, tp.dir, []string{tp.file}, []string{"-proto"}, "")
		if !bytes.Equal(out, tp.cli0) {
			cs.Out1, cs.Out2 = c08ShowOut(tp.cli0[:min(len(tp.cli0), 32)]), c08ShowOut(out[:min(len(out), 32)])
			c.Violation("C08/cli/-proto/depends-on-wall-clock", "pprof -proto on a profile without collection time gives different bytes when run more than a second later", cs)
		}
	}
	c.Res.Hit("time-probe")
	c.Res.Count("time-probe/"+tp.canon, true)
}
