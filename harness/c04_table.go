//go:build verif

package main

import (
	"fmt"
	"sort"
	"strconv"
	"strings"

	"github.com/google/pprof/internal/graph"
	"github.com/google/pprof/profile"
)

// ---- figures tables (shared by C04 and C05) ----

type wd struct{ W, D, V int64 } // accumulated value, accumulated divisor, shown value

type gEdge struct {
	Src, Dst string
	Wt       wd
	Residual bool
}

// gTable: node key (token form of the NodeInfo, or of the path of NodeInfos in call-tree mode)
// → figures; edge key "src>dst".
type gTable struct {
	Flat, Cum map[string]wd
	Edges     map[string]gEdge
	Info      map[string][]graph.NodeInfo // key → NodeInfo path (length 1 in graph mode)
	Total     wd
}

func newGTable() *gTable {
	return &gTable{Flat: map[string]wd{}, Cum: map[string]wd{}, Edges: map[string]gEdge{}, Info: map[string][]graph.NodeInfo{}}
}

func infoTok(ni graph.NodeInfo) string {
	var w tw
	w.str(ni.Name)
	w.str(ni.OrigName)
	w.nat(ni.Address)
	w.str(ni.File)
	w.int(int64(ni.StartLine))
	w.int(int64(ni.Lineno))
	w.int(int64(ni.Columnno))
	w.str(ni.Objfile)
	return w.String()
}

func pathKey(path []graph.NodeInfo) string {
	parts := make([]string, len(path))
	for i, ni := range path {
		parts[i] = infoTok(ni)
	}
	return strings.Join(parts, "|")
}

// parseLeanTables parses the reply of graph.spec / graph.model.
func parseLeanTables(reply string) (*gTable, error) {
	if !strings.HasPrefix(reply, "ok ") {
		return nil, fmt.Errorf("model reply: %s", trunc(reply))
	}
	r := newTR(reply[3:])
	var infos []graph.NodeInfo
	for i, n := 0, r.n(); i < n && r.err == nil; i++ {
		infos = append(infos, graph.NodeInfo{Name: r.str(), OrigName: r.str(), Address: r.nat(), File: r.str(),
			StartLine: int(r.int()), Lineno: int(r.int()), Columnno: int(r.int()), Objfile: r.str()})
	}
	key := func() ([]graph.NodeInfo, string) {
		var path []graph.NodeInfo
		for i, n := 0, r.n(); i < n && r.err == nil; i++ {
			ix := r.n()
			if ix >= len(infos) {
				r.err = fmt.Errorf("info index out of range")
				return nil, ""
			}
			path = append(path, infos[ix])
		}
		return path, pathKey(path)
	}
	rwd := func() wd { return wd{r.int(), r.int(), r.int()} }
	t := newGTable()
	for i, n := 0, r.n(); i < n && r.err == nil; i++ {
		path, k := key()
		if _, dup := t.Flat[k]; dup {
			return nil, fmt.Errorf("duplicate node in model reply")
		}
		t.Info[k] = path
		t.Flat[k] = rwd()
		t.Cum[k] = rwd()
	}
	for i, n := 0, r.n(); i < n && r.err == nil; i++ {
		pa, a := key()
		pb, b := key()
		t.Info[a], t.Info[b] = pa, pb
		e := gEdge{Src: a, Dst: b, Wt: rwd(), Residual: r.bool()}
		t.Edges[a+">"+b] = e
	}
	t.Total = rwd()
	if r.err != nil {
		return nil, r.err
	}
	if r.pos != len(r.toks) {
		return nil, fmt.Errorf("trailing tokens in model reply")
	}
	return t, nil
}

// realTables reads the node and edge tables of a graph built by the real code. Every edge
// reachable from a listed node (In or Out) is recorded. In call-tree mode a node is keyed by
// the path of NodeInfos from its root (following the single In edge).
func realTables(g *graph.Graph, callTree bool) (t *gTable, problem string) {
	t = newGTable()
	memo := map[*graph.Node][]graph.NodeInfo{}
	var pathOf func(n *graph.Node, depth int) []graph.NodeInfo
	pathOf = func(n *graph.Node, depth int) []graph.NodeInfo {
		if !callTree {
			return []graph.NodeInfo{n.Info}
		}
		if p, ok := memo[n]; ok {
			return p
		}
		var p []graph.NodeInfo
		if len(n.In) > 1 {
			problem = "call-tree node with several parents"
		}
		if len(n.In) >= 1 && depth < 10000 {
			for src := range n.In {
				p = append(p, pathOf(src, depth+1)...)
				break
			}
		}
		p = append(p, n.Info)
		memo[n] = p
		return p
	}
	for _, n := range g.Nodes {
		path := pathOf(n, 0)
		k := pathKey(path)
		if _, dup := t.Flat[k]; dup {
			problem = "two listed nodes with the same identity " + n.Info.PrintableName()
		}
		t.Info[k] = path
		t.Flat[k] = wd{n.Flat, n.FlatDiv, n.FlatValue()}
		t.Cum[k] = wd{n.Cum, n.CumDiv, n.CumValue()}
	}
	for _, n := range g.Nodes {
		for _, em := range []graph.EdgeMap{n.In, n.Out} {
			for _, e := range em {
				a, b := pathOf(e.Src, 0), pathOf(e.Dest, 0)
				ka, kb := pathKey(a), pathKey(b)
				t.Info[ka], t.Info[kb] = a, b
				ne := gEdge{Src: ka, Dst: kb, Wt: wd{e.Weight, e.WeightDiv, e.WeightValue()}, Residual: e.Residual}
				if old, ok := t.Edges[ka+">"+kb]; ok && old != ne {
					problem = "In and Out maps disagree about an edge"
				}
				t.Edges[ka+">"+kb] = ne
			}
		}
	}
	return t, problem
}

func (t *gTable) name(k string) string {
	p := t.Info[k]
	if len(p) == 0 {
		return "?"
	}
	parts := make([]string, len(p))
	for i := range p {
		parts[i] = p[i].PrintableName()
	}
	return strings.Join(parts, " > ")
}

// diffTables compares what the real code shows (got) with expected figures (want).
// want's edges are restricted to those touching a node listed in `got` or `want` as shown,
// because edges between two unlisted (all-zero) nodes are not observable.
// Returns "" or (what-kind, description).
func diffTables(got, want *gTable, checkResidual bool) (kind, what string) {
	keys := map[string]bool{}
	for k := range got.Flat {
		keys[k] = true
	}
	for k := range want.Flat {
		keys[k] = true
	}
	sorted := make([]string, 0, len(keys))
	for k := range keys {
		sorted = append(sorted, k)
	}
	sort.Strings(sorted)
	for _, k := range sorted {
		_, g := got.Flat[k]
		_, w := want.Flat[k]
		switch {
		case g && !w:
			return "node-extra", fmt.Sprintf("entry %q is listed (flat=%d cum=%d) but should not be", got.name(k), got.Flat[k].W, got.Cum[k].W)
		case !g && w:
			return "node-missing", fmt.Sprintf("entry %q (flat=%d cum=%d) is not listed", want.name(k), want.Flat[k].W, want.Cum[k].W)
		}
		if got.Cum[k].W != want.Cum[k].W {
			return "cum", fmt.Sprintf("entry %q: cum %d, expected %d", got.name(k), got.Cum[k].W, want.Cum[k].W)
		}
		if got.Flat[k].W != want.Flat[k].W {
			return "flat", fmt.Sprintf("entry %q: flat %d, expected %d", got.name(k), got.Flat[k].W, want.Flat[k].W)
		}
		if got.Cum[k].D != want.Cum[k].D || got.Flat[k].D != want.Flat[k].D {
			return "divisor", fmt.Sprintf("entry %q: divisors flat %d cum %d, expected %d %d", got.name(k), got.Flat[k].D, got.Cum[k].D, want.Flat[k].D, want.Cum[k].D)
		}
		if got.Cum[k].V != want.Cum[k].V || got.Flat[k].V != want.Flat[k].V {
			return "mean", fmt.Sprintf("entry %q: shown flat %d cum %d, expected %d %d", got.name(k), got.Flat[k].V, got.Cum[k].V, want.Flat[k].V, want.Cum[k].V)
		}
	}
	ekeys := map[string]bool{}
	for k := range got.Edges {
		ekeys[k] = true
	}
	for k, e := range want.Edges {
		_, a := want.Flat[e.Src]
		_, b := want.Flat[e.Dst]
		if a || b {
			ekeys[k] = true
		}
	}
	sorted = sorted[:0]
	for k := range ekeys {
		sorted = append(sorted, k)
	}
	sort.Strings(sorted)
	for _, k := range sorted {
		g, gok := got.Edges[k]
		w, wok := want.Edges[k]
		switch {
		case gok && !wok:
			return "edge-extra", fmt.Sprintf("edge %q -> %q (weight %d) should not exist", got.name(g.Src), got.name(g.Dst), g.Wt.W)
		case !gok && wok:
			return "edge-missing", fmt.Sprintf("edge %q -> %q (weight %d) is missing", want.name(w.Src), want.name(w.Dst), w.Wt.W)
		}
		if g.Wt.W != w.Wt.W {
			return "edge-weight", fmt.Sprintf("edge %q -> %q: weight %d, expected %d", got.name(g.Src), got.name(g.Dst), g.Wt.W, w.Wt.W)
		}
		if g.Wt.D != w.Wt.D || g.Wt.V != w.Wt.V {
			return "edge-mean", fmt.Sprintf("edge %q -> %q: divisor %d value %d, expected %d %d", got.name(g.Src), got.name(g.Dst), g.Wt.D, g.Wt.V, w.Wt.D, w.Wt.V)
		}
		if checkResidual && g.Residual != w.Residual {
			return "edge-residual", fmt.Sprintf("edge %q -> %q: residual=%v, expected %v", got.name(g.Src), got.name(g.Dst), g.Residual, w.Residual)
		}
	}
	return "", ""
}

// ---- request building ----

// gReq are the options of one graph construction, as understood by the Lean driver.
type gReq struct {
	CallTree    bool     `json:"call_tree,omitempty"`
	ObjNames    bool     `json:"obj_names,omitempty"`
	OrigFnNames bool     `json:"orig_fn_names,omitempty"`
	Agg         *[6]bool `json:"agg,omitempty"` // Aggregate(inlineFrame, function, filename, linenumber, columnnumber, address); nil = not called
	VI          int      `json:"value_index"`
	Mean        bool     `json:"mean,omitempty"`

	keptPaths [][]graph.NodeInfo // call-tree mode only; set by the C05 runner, not serialised
}

func b2s(b bool) string {
	if b {
		return "1"
	}
	return "0"
}

// cleanTable lists filepath.Clean for every function file name (external function, passed to
// the model as a table).
func cleanTable(p *profile.Profile, clean func(string) string) string {
	seen := map[string]bool{}
	var names []string
	for _, f := range p.Function {
		if !seen[f.Filename] {
			seen[f.Filename] = true
			names = append(names, f.Filename)
		}
	}
	sort.Strings(names)
	var w tw
	w.n(len(names))
	for _, n := range names {
		w.str(n)
		w.str(clean(n))
	}
	return w.String()
}

// keptPaths (call-tree mode) is passed through q.keptPaths when set.
func (q *gReq) tokens(kept []graph.NodeInfo, hasKept bool, cleanTbl, canon string) string {
	var sb strings.Builder
	sb.WriteString(b2s(q.CallTree) + " " + b2s(q.ObjNames) + " " + b2s(q.OrigFnNames) + " ")
	if q.Agg == nil {
		sb.WriteString("0 ")
	} else {
		sb.WriteString("1")
		for _, b := range q.Agg {
			sb.WriteString(" " + b2s(b))
		}
		sb.WriteString(" ")
	}
	sb.WriteString(strconv.Itoa(q.VI) + " " + b2s(q.Mean) + " ")
	if !hasKept {
		sb.WriteString("0 ")
	} else {
		sb.WriteString("1 " + strconv.Itoa(len(kept)))
		for _, ni := range kept {
			sb.WriteString(" " + infoTok(ni))
		}
		sb.WriteString(" ")
	}
	if q.keptPaths == nil {
		sb.WriteString("0 ")
	} else {
		sb.WriteString("1 " + strconv.Itoa(len(q.keptPaths)))
		for _, path := range q.keptPaths {
			sb.WriteString(" " + strconv.Itoa(len(path)))
			for _, ni := range path {
				sb.WriteString(" " + infoTok(ni))
			}
		}
		sb.WriteString(" ")
	}
	sb.WriteString(cleanTbl + " " + canon)
	return sb.String()
}

func (q *gReq) String() string {
	agg := "none"
	if q.Agg != nil {
		agg = ""
		for _, b := range q.Agg {
			agg += b2s(b)
		}
	}
	return fmt.Sprintf("tree=%v obj=%v orig=%v agg=%s vi=%d mean=%v", q.CallTree, q.ObjNames, q.OrigFnNames, agg, q.VI, q.Mean)
}
