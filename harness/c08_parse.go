//go:build verif

package main

// C08, stream "parse": PARSING is part of "identical inputs give identical output".  Every legacy text
// format (heap v1/v2, growthz, fragmentationz, contentionz / Go mutex, threadz, Go count profiles) and the
// memory-map entry points (ParseProcMaps, Profile.ParseMemoryMap) are parsed repeatedly — 32 times in
// process here, and once more in each fresh child process of the "web" stream — and String() /
// WriteUncompressed of the results must be byte-identical.  The memory maps use several `attr=value`
// substitution attributes whose names are prefixes of one another ($root, $rootlib, $r), redefinitions,
// and both map-line syntaxes, so that any order dependence in applying them shows.

import (
	"bytes"
	"fmt"
	"strings"

	"github.com/google/pprof/profile"
)

type c08ParseCase struct {
	Kind  string `json:"kind"`  // "parse"
	Entry string `json:"entry"` // ParseData | ParseProcMaps | ParseMemoryMap
	Input string `json:"input"`
	Reps  int    `json:"reps"`
	Out1  string `json:"result_1,omitempty"`
	Out2  string `json:"result_2,omitempty"`
}

func c08GenMemoryMap(r *Rng) string {
	// attribute names with prefix overlaps; values differ so that a wrong choice is visible
	names := []string{"root", "rootlib", "r", "rootlib64", "lib", "libdir"}
	var b strings.Builder
	used := []string{}
	na := 2 + r.Intn(4)
	for _, i := range perm(r, len(names))[:na] {
		fmt.Fprintf(&b, "%s=/%s/v%d\n", names[i], names[i], r.Intn(3))
		used = append(used, names[i])
	}
	if r.Chance(40) { // redefinition of an attribute
		fmt.Fprintf(&b, "%s=/again/%s\n", used[0], used[0])
	}
	start := uint64(0x400000)
	for i, n := 0, 2+r.Intn(4); i < n; i++ {
		file := "$" + used[r.Intn(len(used))] + r.Pick([]string{"/bin/app", "/libc.so", "64/libm.so", "lib/x.so", ""})
		if r.Chance(15) {
			file = "/plain/no-attr.so"
		}
		if r.Bool() {
			fmt.Fprintf(&b, "%08x-%08x r-xp %08x 00:00 %d %s\n", start, start+0x10000, i*0x1000, 100+i, file)
		} else {
			fmt.Fprintf(&b, "%08x-%08x: %s @ %x abc%d\n", start, start+0x10000, file, i*0x1000, i)
		}
		if r.Chance(20) {
			fmt.Fprintf(&b, "%08x-%08x rw-p 00000000 00:00 0 $%s/data\n", start+0x10000, start+0x20000, used[0])
		}
		start += 0x100000
	}
	return b.String()
}

// c08GenLegacy returns one legacy profile text of the given kind with a memory map section.
func c08GenLegacy(r *Rng, kind string) string {
	mm := c08GenMemoryMap(r)
	addrs := func() string {
		var a []string
		for i, n := 0, 1+r.Intn(4); i < n; i++ {
			a = append(a, fmt.Sprintf("0x%x", 0x400000+0x100000*r.Intn(3)+0x10*(1+r.Intn(8))))
		}
		return strings.Join(a, " ")
	}
	var b strings.Builder
	switch kind {
	case "heap":
		fmt.Fprintf(&b, "heap profile: 3: 30 [ 6: 60] @ heapprofile\n")
		for i := 0; i < 3; i++ {
			fmt.Fprintf(&b, "%d: %d [ %d: %d] @ %s\n", 1+i, 10*(1+i), 2+i, 20*(1+i), addrs())
		}
		b.WriteString("\nMAPPED_LIBRARIES:\n" + mm)
	case "heap_v2":
		fmt.Fprintf(&b, "heap profile: 3: 30 [ 6: 60] @ heap_v2/524288\n")
		for i := 0; i < 3; i++ {
			fmt.Fprintf(&b, "%d: %d [ %d: %d] @ %s\n", 1+i, 10*(1+i), 2+i, 20*(1+i), addrs())
		}
		b.WriteString("\nMAPPED_LIBRARIES:\n" + mm)
	case "growthz":
		fmt.Fprintf(&b, "heap profile: 3: 30 [ 6: 60] @ growthz\n")
		for i := 0; i < 2; i++ {
			fmt.Fprintf(&b, "%d: %d [ %d: %d] @ %s\n", 1+i, 10*(1+i), 2+i, 20*(1+i), addrs())
		}
		b.WriteString("\nMAPPED_LIBRARIES:\n" + mm)
	case "contentionz":
		b.WriteString("--- contentionz 1 ---\ncycles/second = 1000000\nsampling period = 100\n")
		for i := 0; i < 3; i++ {
			fmt.Fprintf(&b, "%d %d @ %s\n", 100*(1+i), 1+i, addrs())
		}
		b.WriteString("--- Memory map: ---\n" + mm)
	case "mutex":
		b.WriteString("--- mutex:\ncycles/second=1000000\nsampling period=100\n")
		for i := 0; i < 3; i++ {
			fmt.Fprintf(&b, "%d %d @ %s\n", 100*(1+i), 1+i, addrs())
		}
		b.WriteString("--- Memory map: ---\n" + mm)
	case "threadz":
		b.WriteString("--- threadz 1 ---\n\n--- Thread 7f0000000001 (name: main/123) stack: ---\n")
		fmt.Fprintf(&b, "  PC: %s\n", addrs())
		b.WriteString("--- Thread 7f0000000002 (name: worker/124) stack: ---\n")
		fmt.Fprintf(&b, "  PC: %s\n", addrs())
		b.WriteString("--- Memory map: ---\n" + mm)
	default: // Go count profile
		b.WriteString("goroutine profile: total 3\n")
		for i := 0; i < 2; i++ {
			fmt.Fprintf(&b, "%d @ %s\n", 1+i, addrs())
		}
		b.WriteString("\n--- Memory map: ---\n" + mm)
	}
	return b.String()
}

var c08LegacyKinds = []string{"heap", "heap_v2", "growthz", "contentionz", "mutex", "threadz", "count"}

func c08MappingsString(ms []*profile.Mapping) string {
	var b strings.Builder
	for _, m := range ms {
		fmt.Fprintf(&b, "%d %x-%x @%x %q %q|", m.ID, m.Start, m.Limit, m.Offset, m.File, m.BuildID)
	}
	return b.String()
}

// c08ParseOnce gives the observable result of one parse through the named entry point.
func c08ParseOnce(entry, input string) (res string) {
	if pn := safely(func() {
		switch entry {
		case "ParseProcMaps":
			ms, err := profile.ParseProcMaps(strings.NewReader(input))
			if err != nil {
				res = "error"
				return
			}
			res = c08MappingsString(ms)
		case "ParseMemoryMap":
			p := &profile.Profile{SampleType: []*profile.ValueType{{Type: "samples", Unit: "count"}},
				Location: []*profile.Location{{ID: 1, Address: 0x400010}, {ID: 2, Address: 0x500010}}}
			p.Sample = []*profile.Sample{{Location: p.Location, Value: []int64{1}}}
			if err := p.ParseMemoryMap(strings.NewReader(input)); err != nil {
				res = "error"
				return
			}
			res = p.String()
		default:
			p, err := profile.ParseData([]byte(input))
			if err != nil {
				res = "error"
				return
			}
			var b bytes.Buffer
			p.WriteUncompressed(&b)
			res = p.String() + "\n#bytes " + fmt.Sprintf("%x", b.Bytes())
		}
	}); pn != "" {
		res = "panic"
	}
	return res
}

func c08ParseRepeat(c *Ctx, cs c08ParseCase) (ok bool) {
	first := c08ParseOnce(cs.Entry, cs.Input)
	for k := 1; k < cs.Reps; k++ {
		if got := c08ParseOnce(cs.Entry, cs.Input); got != first {
			cs.Out1, cs.Out2 = trunc2k(first), trunc2k(got)
			c.Violation("C08/parse/"+cs.Entry+"/result-differs-between-parses", fmt.Sprintf("%s of the same bytes gave a different result on parse %d", cs.Entry, k+1), cs)
			return false
		}
	}
	c.Res.Hit("parse:" + cs.Entry + ":" + map[bool]string{true: "rejected", false: "accepted"}[first == "error" || first == "panic"])
	return first != "error" && first != "panic"
}

func trunc2k(s string) string {
	if len(s) > 2000 {
		return s[:2000] + "…"
	}
	return s
}

// c08ParseStream returns the generated inputs so that the web stream can hand them to its fresh
// child processes as well.
func c08ParseStream(c *Ctx, r *Rng, n int) (inputs []string) {
	for i := 0; i < n; i++ {
		kind := c08LegacyKinds[i%len(c08LegacyKinds)]
		in := c08GenLegacy(r, kind)
		acc := c08ParseRepeat(c, c08ParseCase{Kind: "parse", Entry: "ParseData", Input: in, Reps: 32})
		c.Res.Hit("parse-format:" + kind)
		c.Res.Count("parse/"+in, acc)
		if i < 8 {
			inputs = append(inputs, in)
		}
		if i%3 == 0 {
			mm := c08GenMemoryMap(r)
			a1 := c08ParseRepeat(c, c08ParseCase{Kind: "parse", Entry: "ParseProcMaps", Input: mm, Reps: 32})
			c.Res.Count("procmaps/"+mm, a1)
			a2 := c08ParseRepeat(c, c08ParseCase{Kind: "parse", Entry: "ParseMemoryMap", Input: mm, Reps: 32})
			c.Res.Count("memorymap/"+mm, a2)
		}
	}
	return inputs
}
