//go:build verif

package main

// C13 — ELF address translation (internal/elfexec GetBase / ProgramHeadersForMapping /
// HeaderForFileOffset, internal/binutils computeBase / ObjAddr, nm symbol lookup).
//
// Streams (each with its own PRNG fork so that one cannot starve or mask another):
//   main      loader-consistent layouts with 4 KiB runtime pages  -> direct oracle + model
//   page64k   the same generator with 64 KiB runtime pages        -> direct oracle only
//             (excluded hypothesis runtimePage = 4096; known finding C13/base/runtime-page-64k)
//   biasoff   ET_DYN, load bias == file offset of the owning segment, mapping not at the segment
//             start -> direct oracle only (kernel heuristic captures a user mapping)
//   raw       arbitrary arguments to GetBase / ProgramHeadersForMapping / HeaderForFileOffset /
//             FindTextProgHeader / binutils ObjAddr -> model correspondence (+ structural oracle)
//   nm        sorted symbol tables through binutils with a fake nm tool -> oracle + model
//   real      (thorough) binaries linked with gcc/ld variants, real loader maps, real nm

import (
	"bytes"
	"debug/elf"
	"encoding/binary"
	"fmt"
	"os"
	"os/exec"
	"path/filepath"
	"sort"
	"strconv"
	"strings"

	"github.com/google/pprof/internal/binutils"
	"github.com/google/pprof/internal/elfexec"
	"github.com/google/pprof/internal/plugin"
)

func init() { register("C13", runC13) }

// hx is a uint64 that travels as a hex string in replay files (readable addresses, no float
// rounding in any JSON tool).
type hx uint64

func (h hx) MarshalJSON() ([]byte, error) { return []byte(fmt.Sprintf("\"0x%x\"", uint64(h))), nil }
func (h *hx) UnmarshalJSON(b []byte) error {
	s := strings.Trim(string(b), "\"")
	v, err := strconv.ParseUint(s, 0, 64)
	*h = hx(v)
	return err
}

type c13Seg struct {
	Type   uint32 `json:"type"`  // elf.PT_LOAD = 1
	Flags  uint32 `json:"flags"` // PF_X=1 PF_W=2 PF_R=4
	Off    hx     `json:"off"`
	Vaddr  hx     `json:"vaddr"`
	Filesz hx     `json:"filesz"`
	Memsz  hx     `json:"memsz"`
	Align  hx     `json:"align"`
}

type c13Sym struct {
	Name string `json:"name"`
	Type string `json:"type"` // nm type letter
	Addr hx     `json:"addr"`
	Size hx     `json:"size"`
}

type c13Case struct {
	Kind   string `json:"kind"`   // layout | getbase | phfm | hffo | findtext | objaddr | nm
	Stream string `json:"stream"` // main | page64k | biasoff | raw | nm | real

	EType uint16   `json:"etype,omitempty"` // ET_REL=1 ET_EXEC=2 ET_DYN=3
	Segs  []c13Seg `json:"segs,omitempty"`

	// layout: the loader model
	Page hx     `json:"page,omitempty"`
	Bias hx     `json:"bias,omitempty"`
	Seg  int    `json:"seg,omitempty"` // owning segment
	V0   hx     `json:"v0,omitempty"`
	V1   hx     `json:"v1,omitempty"`
	Why  string `json:"why,omitempty"`

	// the runtime mapping and the sample addresses
	Start  hx   `json:"start,omitempty"`
	Limit  hx   `json:"limit,omitempty"`
	Offset hx   `json:"offset,omitempty"`
	Addrs  []hx `json:"addrs,omitempty"`

	// getbase
	HasSeg bool `json:"has_seg,omitempty"`
	Stext  *hx  `json:"stext,omitempty"`
	// phfm / hffo
	MapOff  hx `json:"map_off,omitempty"`
	MapSz   hx `json:"map_sz,omitempty"`
	FileOff hx `json:"file_off,omitempty"`
	// findtext
	TextAddrs []hx `json:"text_addrs,omitempty"`
	// nm
	Syms []c13Sym `json:"syms,omitempty"`
	Base hx       `json:"base,omitempty"`
	// real
	Variant string `json:"variant,omitempty"`
}

// ---------------------------------------------------------------------------------------------
// environment: temp dir, fake nm, binutils handle

type c13Env struct {
	c    *Ctx
	dir  string
	bu   *binutils.Binutils
	nseq int
	sym  *c13SymEnv // symbolizer-history stream (c13_sym.go), created on first use
}

const c13FakeNM = "#!/bin/sh\n# fake nm for the C13 harness: prints the prepared table of the file named last\nfor a in \"$@\"; do f=\"$a\"; done\nexec cat \"$f.nm\"\n"

func newC13Env(c *Ctx) *c13Env {
	var dir, tools string
	for _, base := range []string{"/dev/shm", ""} { // memory-backed if possible; must allow exec
		if base != "" {
			if st, err := os.Stat(base); err != nil || !st.IsDir() {
				continue
			}
		}
		d, err := os.MkdirTemp(base, "pvc13-")
		if err != nil {
			continue
		}
		tools = filepath.Join(d, "tools")
		os.MkdirAll(tools, 0o755)
		probe := filepath.Join(d, "probe")
		os.WriteFile(probe+".nm", []byte("ok\n"), 0o644)
		if err := os.WriteFile(filepath.Join(tools, "nm"), []byte(c13FakeNM), 0o755); err == nil {
			if out, err := exec.Command(filepath.Join(tools, "nm"), "-x", probe).Output(); err == nil && string(out) == "ok\n" {
				os.Remove(probe + ".nm")
				dir = d
				break
			}
		}
		os.RemoveAll(d)
	}
	if dir == "" {
		panic("C13: no temp dir in which the fake nm tool can be executed")
	}
	bu := &binutils.Binutils{}
	bu.SetTools("nm:" + tools)
	bu.SetFastSymbolization(true)
	return &c13Env{c: c, dir: dir, bu: bu}
}

func (e *c13Env) close() { os.RemoveAll(e.dir) }

// writeELF writes a minimal ELF64 little-endian file consisting of the file header and the given
// program headers (no sections). debug/elf only parses the headers.
func (e *c13Env) writeELF(etype uint16, segs []c13Seg) string {
	e.nseq++
	name := filepath.Join(e.dir, fmt.Sprintf("obj%d.elf", e.nseq))
	var b bytes.Buffer
	h := elf.Header64{Type: etype, Machine: uint16(elf.EM_X86_64), Version: 1, Phoff: 64, Ehsize: 64,
		Phentsize: 56, Phnum: uint16(len(segs))}
	copy(h.Ident[:], []byte{0x7f, 'E', 'L', 'F', byte(elf.ELFCLASS64), byte(elf.ELFDATA2LSB), 1})
	if len(segs) == 0 {
		h.Phoff, h.Phentsize = 0, 0
	}
	binary.Write(&b, binary.LittleEndian, &h)
	for _, s := range segs {
		p := elf.Prog64{Type: s.Type, Flags: s.Flags, Off: uint64(s.Off), Vaddr: uint64(s.Vaddr), Paddr: uint64(s.Vaddr),
			Filesz: uint64(s.Filesz), Memsz: uint64(s.Memsz), Align: uint64(s.Align)}
		binary.Write(&b, binary.LittleEndian, &p)
	}
	if err := os.WriteFile(name, b.Bytes(), 0o644); err != nil {
		panic(err)
	}
	return name
}

func progHeaders(segs []c13Seg) []elf.ProgHeader {
	out := make([]elf.ProgHeader, len(segs))
	for i, s := range segs {
		out[i] = elf.ProgHeader{Type: elf.ProgType(s.Type), Flags: elf.ProgFlag(s.Flags), Off: uint64(s.Off), Vaddr: uint64(s.Vaddr),
			Paddr: uint64(s.Vaddr), Filesz: uint64(s.Filesz), Memsz: uint64(s.Memsz), Align: uint64(s.Align)}
	}
	return out
}

// ---------------------------------------------------------------------------------------------
// tokens for the model driver

func u(v uint64) string { return strconv.FormatUint(v, 10) }

func segTok(s c13Seg) string {
	return fmt.Sprintf("%d %d %d %d %d %d", s.Type, s.Flags, uint64(s.Off), uint64(s.Vaddr), uint64(s.Filesz), uint64(s.Memsz))
}
func segsTok(segs []c13Seg) string {
	var sb strings.Builder
	sb.WriteString(strconv.Itoa(len(segs)))
	for _, s := range segs {
		sb.WriteByte(' ')
		sb.WriteString(segTok(s))
	}
	return sb.String()
}
func optTok(p *hx) string {
	if p == nil {
		return "0"
	}
	return "1 " + u(uint64(*p))
}

// result classes: "ok <n>" | "err" | "panic"
func resTok(v uint64, err error, pn string) string {
	if pn != "" {
		return "panic"
	}
	if err != nil {
		return "err"
	}
	return "ok " + u(v)
}

// ---------------------------------------------------------------------------------------------
// real-code calls

func c13GetBase(etype uint16, seg *c13Seg, stext *hx, start, limit, offset uint64) string {
	fh := &elf.FileHeader{Type: elf.Type(etype)}
	var ph *elf.ProgHeader
	if seg != nil {
		p := progHeaders([]c13Seg{*seg})[0]
		ph = &p
	}
	var st *uint64
	if stext != nil {
		v := uint64(*stext)
		st = &v
	}
	var base uint64
	var err error
	pn := c13Safely(func() { base, err = elfexec.GetBase(fh, ph, st, start, limit, offset) })
	return resTok(base, err, pn)
}

// c13PHFM returns the indices of the headers selected by ProgramHeadersForMapping.
func c13PHFM(phdrs []elf.ProgHeader, mapOff, mapSz uint64) ([]int, string) {
	var hs []*elf.ProgHeader
	pn := c13Safely(func() { hs = elfexec.ProgramHeadersForMapping(phdrs, mapOff, mapSz) })
	if pn != "" {
		return nil, "panic"
	}
	idx := make([]int, 0, len(hs))
	for _, h := range hs {
		k := -1
		for i := range phdrs {
			if h == &phdrs[i] {
				k = i
			}
		}
		if k < 0 { // not a pointer into the input slice: identify by value
			for i := range phdrs {
				if *h == phdrs[i] {
					k = i
					break
				}
			}
		}
		idx = append(idx, k)
	}
	var sb strings.Builder
	sb.WriteString(strconv.Itoa(len(idx)))
	for _, k := range idx {
		sb.WriteString(" " + strconv.Itoa(k))
	}
	return idx, sb.String()
}

func c13HFFO(phdrs []elf.ProgHeader, fo uint64) (int, string) {
	ptrs := make([]*elf.ProgHeader, len(phdrs))
	for i := range phdrs {
		ptrs[i] = &phdrs[i]
	}
	var h *elf.ProgHeader
	var err error
	pn := c13Safely(func() { h, err = elfexec.HeaderForFileOffset(ptrs, fo) })
	if pn != "" {
		return -1, "panic"
	}
	if err != nil {
		return -1, "err"
	}
	for i := range ptrs {
		if h == ptrs[i] {
			return i, "ok " + strconv.Itoa(i)
		}
	}
	for i := range ptrs {
		if h != nil && *h == *ptrs[i] {
			return i, "ok " + strconv.Itoa(i)
		}
	}
	return -1, "ok ?"
}

// objAddr opens the synthetic binary through the public binutils entry point (a fresh ObjFile:
// the base is computed lazily from the first address asked) and translates addr.
func (e *c13Env) objAddr(file string, start, limit, offset, addr uint64) (res string, val uint64, of plugin.ObjFile) {
	var err error
	pn := c13Safely(func() { of, err = e.bu.Open(file, start, limit, offset, "") })
	if pn != "" {
		return "panic", 0, nil
	}
	if err != nil {
		return "err", 0, nil
	}
	pn = c13Safely(func() { val, err = of.ObjAddr(addr) })
	return resTok(val, err, pn), val, of
}

// ---------------------------------------------------------------------------------------------
// the loader model (harness side; every generated case is also checked against the Lean
// predicate Spec.LoaderLayout through the driver, so this is not a second definition to trust)

func pageStart(v, p uint64) uint64 { return v - v%p }
func pageAlign(v, p uint64) uint64 { return (v + p - 1) / p * p }

var c13Sizes = []uint64{1, 0x10, 0x175, 0x189, 0x618, 0xfff, 0x1000, 0x1001, 0x1ff0, 0x2000, 0x2345, 0x3000, 0x7ab0, 0xffff, 0x10000,
	0x10001, 0x12345, 0x20000, 0x1fffff, 0x200000, 0x234567}

func (r *Rng) size() uint64 {
	switch r.Intn(4) {
	case 0:
		return 1 + uint64(r.Intn(0x1000))
	case 1:
		return 1 + uint64(r.Intn(0x40000))
	default:
		return c13Sizes[r.Intn(len(c13Sizes))]
	}
}

// genSegs emits 1–4 PT_LOAD segments the way a linker lays them out for maximum page size A:
// ascending vaddr, Off ≡ Vaddr (mod A), memory images on distinct A-pages, file images either on
// separate pages ("separate-code") or packed back to back (segments sharing a file page), bss,
// optional huge Vaddr−Off distance (Off ≢ Vaddr mod 2^32), optional zero-filesz segment.
func genSegs(r *Rng, etype uint16, A uint64) ([]c13Seg, string) {
	n := 1 + r.Intn(4)
	var segs []c13Seg
	var fo, va uint64
	switch {
	case etype == uint16(elf.ET_EXEC):
		va = []uint64{0x400000, 0x10000, 0x8048000, 0x200000, 0x100000000}[r.Intn(5)]
	case r.Chance(60):
		va = 0
	default:
		va = A * uint64(1+r.Intn(0x400))
	}
	va = pageAlign(va, A)
	style := r.Intn(3) // 0 separate, 1 packed, 2 mixed
	desc := []string{"separate", "packed", "mixed"}[style]
	if r.Chance(25) {
		fo = uint64(r.Intn(0x3000)) // first segment does not start at file offset 0
	}
	xseg := r.Intn(n)
	for i := 0; i < n; i++ {
		filesz := r.size()
		memsz := filesz
		flags := uint32(elf.PF_R)
		switch {
		case i == xseg:
			flags |= uint32(elf.PF_X)
		case r.Chance(40):
			flags |= uint32(elf.PF_W)
		case r.Chance(20):
			flags |= uint32(elf.PF_X)
		}
		if (flags&uint32(elf.PF_W) != 0 && r.Chance(70)) || r.Chance(8) {
			memsz += r.size() // bss
			desc += ",bss"
		}
		packed := style == 1 || (style == 2 && r.Bool())
		var off uint64
		if packed && i > 0 {
			off = fo + uint64(r.Intn(3))*uint64(r.Intn(64))
		} else {
			off = pageAlign(fo, A)
			if i == 0 {
				off = fo
			}
		}
		// smallest vaddr >= va congruent to off modulo A, on an A-page of its own
		vaddr := pageAlign(va, A) + off%A
		if i == 0 && off%A != 0 {
			vaddr = pageStart(va, A) + off%A
		}
		if r.Chance(10) {
			vaddr += A * uint64(1+r.Intn(16))
		}
		if r.Chance(6) {
			vaddr += A * (uint64(1+r.Intn(7)) << 32 / A * 0x10) // Off ≢ Vaddr (mod 2^32)
			desc += ",far"
		}
		segs = append(segs, c13Seg{Type: uint32(elf.PT_LOAD), Flags: flags, Off: hx(off), Vaddr: hx(vaddr), Filesz: hx(filesz), Memsz: hx(memsz), Align: hx(A)})
		fo = off + filesz
		va = vaddr + memsz
		if r.Chance(5) {
			// a pure-bss segment (Filesz = 0, arbitrary Off): skipped by pprof, anonymous for the loader
			v2 := pageAlign(va, A)
			segs = append(segs, c13Seg{Type: uint32(elf.PT_LOAD), Flags: uint32(elf.PF_R | elf.PF_W), Off: hx(uint64(r.Intn(0x8000))), Vaddr: hx(v2), Filesz: 0, Memsz: hx(r.size()), Align: hx(A)})
			va = v2 + uint64(segs[len(segs)-1].Memsz)
			desc += ",zerofilesz"
		}
	}
	return segs, desc
}

var c13Biases = []uint64{0, 0x1000, 0x10000, 0x200000, 0x400000, 0x555555554000, 0x7f1234560000, 0x7ffff7dd0000, 0x100000000, 0xffff0000,
	0x5555_5540_0000, 0x3fff_ffe0_0000, 0x7fff_ffff_f000, 1 << 47, 0xffff_8000_0000 << 8, 1 << 56, 0x4000_0000_0000_0000, 0x7fff_ffff_0000_0000, 0x7fff_ffff_ffe0_0000}

func genBias(r *Rng, etype uint16, P uint64, top uint64) uint64 {
	// top: largest link-time address that must stay below 2^63 after adding the bias
	var b uint64
	switch {
	case etype == uint16(elf.ET_EXEC) && r.Chance(80):
		b = 0
	case r.Chance(50):
		b = c13Biases[r.Intn(len(c13Biases))]
	case r.Chance(50):
		b = r.U64() >> (17 + uint(r.Intn(30)))
	default:
		b = uint64(r.Intn(0x400)) * P
	}
	b = pageStart(b, P)
	for b+top+2*P >= 1<<63 {
		b = pageStart(b/2, P)
	}
	return b
}

// genMapping picks the owning segment and a page-aligned split [v0,v1) of its file-backed image.
func genMapping(r *Rng, cs *c13Case) bool {
	P := uint64(cs.Page)
	var cand []int
	for i, s := range cs.Segs {
		if s.Filesz > 0 {
			cand = append(cand, i)
		}
	}
	if len(cand) == 0 {
		return false
	}
	k := cand[r.Intn(len(cand))]
	if r.Chance(60) { // prefer executable segments
		for _, i := range cand {
			if cs.Segs[i].Flags&uint32(elf.PF_X) != 0 && r.Chance(70) {
				k = i
			}
		}
	}
	s := cs.Segs[k]
	lo, hi := pageStart(uint64(s.Vaddr), P), pageAlign(uint64(s.Vaddr+s.Filesz), P)
	np := int((hi - lo) / P)
	i, j := 0, np
	switch r.Intn(6) {
	case 0, 1, 2: // whole image
	case 3: // tail
		i = r.Intn(np)
	case 4: // head
		j = 1 + r.Intn(np)
	default:
		i = r.Intn(np)
		j = i + 1 + r.Intn(np-i)
	}
	cs.Seg, cs.V0, cs.V1 = k, hx(lo+uint64(i)*P), hx(lo+uint64(j)*P)
	return true
}

func (cs *c13Case) deriveMapping() {
	s := cs.Segs[cs.Seg]
	cs.Start = cs.Bias + cs.V0
	cs.Limit = cs.Bias + cs.V1
	cs.Offset = s.Off + (cs.V0 - s.Vaddr) // modular
}

// sample addresses of the owning segment that lie inside the mapping
func genAddrs(r *Rng, cs *c13Case) {
	s := cs.Segs[cs.Seg]
	lo, hi := uint64(cs.Bias+s.Vaddr), uint64(cs.Bias+s.Vaddr+s.Memsz)
	if uint64(cs.Start) > lo {
		lo = uint64(cs.Start)
	}
	if uint64(cs.Limit) < hi {
		hi = uint64(cs.Limit)
	}
	cs.Addrs = cs.Addrs[:0]
	if lo >= hi {
		return
	}
	add := func(x uint64) {
		if x >= lo && x < hi {
			cs.Addrs = append(cs.Addrs, hx(x))
		}
	}
	add(lo)
	add(hi - 1)
	add(lo + (hi-lo)/2)
	for k := 0; k < 2; k++ {
		add(lo + r.U64()%(hi-lo))
	}
	add(pageAlign(lo, 4096))
	add(pageAlign(lo, 4096) + 4095)
	// the file-backed / bss boundary
	add(uint64(cs.Bias + s.Vaddr + s.Filesz))
	add(uint64(cs.Bias+s.Vaddr+s.Filesz) - 1)
}

func genLayout(r *Rng, P uint64) *c13Case {
	for {
		etype := uint16(elf.ET_DYN)
		if r.Chance(30) {
			etype = uint16(elf.ET_EXEC)
		}
		aligns := []uint64{4096, 65536, 2 << 20}
		A := aligns[r.Intn(3)]
		for A < P {
			A = aligns[r.Intn(3)]
		}
		segs, why := genSegs(r, etype, A)
		cs := &c13Case{Kind: "layout", EType: etype, Segs: segs, Page: hx(P), Why: fmt.Sprintf("align=%#x %s", A, why)}
		if !genMapping(r, cs) {
			continue
		}
		last := segs[len(segs)-1]
		cs.Bias = hx(genBias(r, etype, P, uint64(last.Vaddr+last.Memsz)))
		cs.deriveMapping()
		if cs.Start == 0 && etype == uint16(elf.ET_EXEC) {
			continue // an ET_EXEC image on page 0 cannot be mapped (and the code documents start > 0)
		}
		genAddrs(r, cs)
		if len(cs.Addrs) == 0 {
			continue
		}
		return cs
	}
}

// hitShape records which of the layout features named by the property a main-stream case has.
func (cs *c13Case) hitShape(c *Ctx) {
	s := cs.Segs[cs.Seg]
	c.Res.Hit(fmt.Sprintf("shape:align=%#x", uint64(s.Align)))
	if s.Flags&uint32(elf.PF_X) != 0 {
		c.Res.Hit("shape:owner=text")
	} else {
		c.Res.Hit("shape:owner=data")
	}
	lo, hi := pageStart(uint64(s.Vaddr), uint64(cs.Page)), pageAlign(uint64(s.Vaddr+s.Filesz), uint64(cs.Page))
	if uint64(cs.V0) == lo && uint64(cs.V1) == hi {
		c.Res.Hit("shape:mapping=whole-image")
	} else {
		c.Res.Hit("shape:mapping=split")
	}
	if s.Memsz > s.Filesz {
		c.Res.Hit("shape:owner-has-bss")
	}
	if uint64(s.Vaddr)%uint64(cs.Page) != 0 {
		c.Res.Hit("shape:owner-vaddr-not-page-aligned")
	}
	if uint64(s.Vaddr-s.Off) >= 1<<32 {
		c.Res.Hit("shape:vaddr-off-distance>=2^32")
	}
	if cs.Segs[0].Vaddr != 0 {
		c.Res.Hit("shape:first-vaddr-nonzero")
	}
	for i, o := range cs.Segs {
		if i != cs.Seg && o.Filesz > 0 && uint64(o.Off)/4096 <= uint64(s.Off+s.Filesz-1)/4096 && uint64(s.Off)/4096 <= uint64(o.Off+o.Filesz-1)/4096 {
			c.Res.Hit("shape:shares-file-page-with-other-segment")
			break
		}
	}
	switch b := uint64(cs.Bias); {
	case b == 0:
		c.Res.Hit("shape:bias=0")
	case b < 1<<32:
		c.Res.Hit("shape:bias<2^32")
	case b < 1<<47:
		c.Res.Hit("shape:bias<2^47")
	default:
		c.Res.Hit("shape:bias>=2^47")
	}
}

// kernelLookalike: ET_DYN mapping whose bias equals the file offset of the owning segment; the
// first kernel heuristic (Vaddr == start-offset) then fires for a user-space mapping.
func (cs *c13Case) kernelLookalike() bool {
	s := cs.Segs[cs.Seg]
	return cs.EType == uint16(elf.ET_DYN) && cs.Bias == s.Off
}

// ---------------------------------------------------------------------------------------------
// layout case: oracle + correspondence

func (cs *c13Case) canon() string {
	return fmt.Sprintf("%s %d %s %d %d %d %d %d %d %d", cs.Kind, cs.EType, segsTok(cs.Segs), uint64(cs.Page), uint64(cs.Bias), cs.Seg, uint64(cs.V0), uint64(cs.V1), len(cs.Addrs), uint64(cs.Start))
}

// ambiguous reports whether another loadable segment with file content also claims the file
// offset of x (the situation in which the property allows an error).
func (cs *c13Case) ambiguous(x uint64) bool {
	fo := x - uint64(cs.Start) + uint64(cs.Offset)
	for i, s := range cs.Segs {
		if i == cs.Seg || s.Type != uint32(elf.PT_LOAD) || s.Filesz == 0 {
			continue
		}
		if fo >= uint64(s.Off) && fo < uint64(s.Off+s.Memsz) {
			return true
		}
	}
	return false
}

func (e *c13Env) runLayout(cs *c13Case, mainStream bool) {
	c := e.c
	cs.deriveMapping()
	phdrs := progHeaders(cs.Segs)
	start, limit, offset := uint64(cs.Start), uint64(cs.Limit), uint64(cs.Offset)
	stream := cs.Stream

	// the case must satisfy the Lean predicate Spec.LoaderLayout (the hypothesis of the theorems)
	if c.Drv != nil {
		q := fmt.Sprintf("elf.layout %d %s %d %d %d %d %d %d", uint64(cs.Page), segTok(cs.Segs[cs.Seg]), uint64(cs.Bias), uint64(cs.V0), uint64(cs.V1), start, limit, offset)
		if a := c.Drv.Ask(q); a != "1" {
			c.Res.HarnessError = "generated layout does not satisfy Spec.LoaderLayout (" + a + "): " + cs.canon()
			return
		}
		c.Res.Hit("layout-satisfies-LoaderLayout")
	}

	// (a) segments that can back the mapping
	idx, idxTok := c13PHFM(phdrs, offset, limit-start)
	hasTrue := false
	for _, k := range idx {
		if k == cs.Seg {
			hasTrue = true
		}
	}
	c.Res.Hit(fmt.Sprintf("%s:candidates=%d", stream, len(idx)))
	if !hasTrue {
		c.Res.Hit(stream + ":true-segment-not-candidate")
	}
	{
		// the model is of the code as it is: it must agree on every stream, the excluded ones included
		c.Res.ModelCompared++
		m := c.Drv.Ask(fmt.Sprintf("elf.phfm %s %d %d", segsTok(cs.Segs), offset, limit-start))
		if m != idxTok {
			c.Disagree("C13/model/ProgramHeadersForMapping", fmt.Sprintf("candidates differ: go=[%s] model=[%s]", idxTok, m), "theorem trueSegment_in_candidates / correspondence Elf.programHeadersForMapping ~ elfexec.ProgramHeadersForMapping", cs)
		}
		if !hasTrue && mainStream {
			c.Disagree("C13/candidates/true-segment-missing", "the owning segment is not among ProgramHeadersForMapping's candidates for a loader-consistent 4 KiB layout", "theorem trueSegment_in_candidates", cs)
		}
	}

	// (b) the whole translation through binutils, one fresh ObjFile per first address
	file := e.writeELF(cs.EType, cs.Segs)
	defer os.Remove(file)
	for ai, a := range cs.Addrs {
		x := uint64(a)
		want := x - uint64(cs.Bias)
		res, got, of := e.objAddr(file, start, limit, offset, x)
		one := *cs
		one.Addrs = []hx{a}
		switch {
		case res == "panic":
			c.Violation("C13/objaddr/panic", "ObjAddr panics", &one)
		case res == "err":
			c.Res.Hit(stream + ":objaddr=error")
			if !cs.ambiguous(x) {
				if stream == "main" {
					c.Violation("C13/objaddr/spurious-error", fmt.Sprintf("ObjAddr(%#x) fails although exactly one segment owns the address (want %#x)", x, want), &one)
				} else {
					c.Res.Hit(stream + ":objaddr=spurious-error")
				}
			}
		case got != want:
			c.Res.Hit(stream + ":objaddr=WRONG")
			c.Violation(cs.wrongSig(hasTrue), fmt.Sprintf("ObjAddr(%#x) = %#x, want %#x = address - bias %#x (%s; owning segment %d; mapping [%#x,%#x) off %#x)", x, got, want, uint64(cs.Bias), cs.Why, cs.Seg, start, limit, offset), &one)
		default:
			c.Res.Hit(stream + ":objaddr=bias-correct")
			// later addresses reuse the base computed from the first one
			if of != nil && ai+1 < len(cs.Addrs) {
				y := uint64(cs.Addrs[ai+1])
				if g2, err := of.ObjAddr(y); err != nil || g2 != y-uint64(cs.Bias) {
					c.Violation("C13/objaddr/second-address", fmt.Sprintf("second ObjAddr(%#x) on the same file = %#x,%v want %#x", y, g2, err, y-uint64(cs.Bias)), &one)
				}
			}
		}
		{
			c.Res.ModelCompared++
			m := c.Drv.Ask(fmt.Sprintf("elf.objaddr %d %s 0 0 %d %d %d %d", cs.EType, segsTok(cs.Segs), start, limit, offset, x))
			if m != res {
				c.Disagree("C13/model/ObjAddr", fmt.Sprintf("ObjAddr(%#x): go=%s model=%s", x, res, m), "theorem objAddr_correct_or_error / correspondence Elf.objAddr ~ binutils file.ObjAddr", &one)
			}
		}
	}
}

// wrongSig classifies a wrong translated address.
func (cs *c13Case) wrongSig(trueIsCandidate bool) string {
	switch {
	case cs.Page != 4096 && !trueIsCandidate:
		return "C13/base/runtime-page-64k"
	case cs.Page == 4096 && cs.kernelLookalike() && cs.V0 != cs.Segs[cs.Seg].Vaddr:
		return "C13/base/dyn-bias-equals-segment-offset"
	case cs.Page != 4096:
		return fmt.Sprintf("C13/objaddr/wrong-address/page=%#x,true-segment-candidate", uint64(cs.Page))
	}
	s := cs.Segs[cs.Seg]
	kind := "dyn"
	if cs.EType == uint16(elf.ET_EXEC) {
		kind = "exec"
	}
	x := "data"
	if s.Flags&uint32(elf.PF_X) != 0 {
		x = "text"
	}
	return fmt.Sprintf("C13/objaddr/wrong-address/%s,%s,candidate=%v", kind, x, trueIsCandidate)
}

// ---------------------------------------------------------------------------------------------
// raw streams

var c13Vals = []uint64{0, 1, 0x198, 0x800, 0xfff, 0x1000, 0x1001, 0x2000, 0x10000, 0x200000, 0x400000, 0x3c00000, 0x7fffffffffffffff,
	0x8000000000000000, 0x8000000000000001, 0xc000000000000000, 0xffffffff80200000, 0xffffffff81000000, 0xffffffff81000198,
	0xffffffff83e00000, 0xffffffffffffffff, 0xfffffffffffff000, 0xffff800010000000, 0xffffffc010080800}

func (r *Rng) val() uint64 {
	switch r.Intn(5) {
	case 0:
		return r.U64()
	case 1:
		return r.U64() >> uint(r.Intn(64))
	case 2:
		return uint64(r.Intn(0x4000))
	default:
		return c13Vals[r.Intn(len(c13Vals))]
	}
}

func genGetBase(r *Rng) *c13Case {
	cs := &c13Case{Kind: "getbase", Stream: "raw"}
	cs.EType = uint16([]int{1, 2, 3, 2, 3, 2, 3, 0, 4, 0xfe00}[r.Intn(10)])
	start := r.val()
	limit := r.val()
	switch r.Intn(4) {
	case 0:
		limit = start + uint64(r.Intn(0x100000))
	case 1:
		limit = start + r.val()
	}
	offset := r.val()
	switch r.Intn(6) {
	case 0:
		offset = 0
	case 1:
		offset = start
	case 2:
		offset = 0xc000000000000000
	}
	if r.Chance(85) {
		cs.HasSeg = true
		s := c13Seg{Type: 1, Flags: 5, Off: hx(r.val()), Vaddr: hx(r.val()), Filesz: hx(r.val()), Memsz: hx(r.val())}
		if r.Chance(30) {
			s.Vaddr = hx(start - offset)
		}
		s.Off = s.Off&^0xfff | s.Vaddr&0xfff // ELF: p_offset ≡ p_vaddr (mod page)
		cs.Segs = []c13Seg{s}
	}
	if r.Chance(50) {
		st := hx(r.val())
		switch r.Intn(4) {
		case 0:
			st = hx(r.val()&^0xfff | start&0xfff)
		case 1:
			if cs.HasSeg {
				st = cs.Segs[0].Vaddr + hx(r.Intn(0x400))
			}
		}
		cs.Stext = &st
	}
	cs.Start, cs.Limit, cs.Offset = hx(start), hx(limit), hx(offset)
	return cs
}

func (e *c13Env) runGetBase(cs *c13Case) {
	c := e.c
	var seg *c13Seg
	segTokS := "0"
	if cs.HasSeg && len(cs.Segs) > 0 {
		seg = &cs.Segs[0]
		segTokS = "1 " + segTok(*seg)
	}
	g := c13GetBase(cs.EType, seg, cs.Stext, uint64(cs.Start), uint64(cs.Limit), uint64(cs.Offset))
	c.Res.Hit("getbase:" + c13FirstWord(g) + fmt.Sprintf(",etype=%d", cs.EType))
	if g == "panic" {
		c.Violation("C13/getbase/panic", "GetBase panics", cs)
		return
	}
	// structural oracle: what the documentation of each branch promises irrespective of heuristics
	if cs.EType == uint16(elf.ET_REL) && !(cs.Start == 0 && cs.Offset == 0 && (cs.Limit == 0 || cs.Limit == hx(^uint64(0)))) {
		want := "ok " + u(uint64(cs.Start))
		if cs.Offset != 0 {
			want = "err"
		}
		if g != want {
			c.Violation("C13/getbase/rel", "ET_REL: base must be the mapping start (error for a non-zero offset): got "+g, cs)
		}
	}
	c.Res.ModelCompared++
	m := c.Drv.Ask(fmt.Sprintf("elf.getbase %d %s %s %d %d %d", cs.EType, segTokS, optTok(cs.Stext), uint64(cs.Start), uint64(cs.Limit), uint64(cs.Offset)))
	if m != g {
		c.Disagree("C13/model/GetBase", fmt.Sprintf("GetBase: go=%s model=%s", g, m), "theorem getBase_user_eq_bias / correspondence Elf.getBase ~ elfexec.GetBase", cs)
	}
}

func genRawSegs(r *Rng) []c13Seg {
	n := r.Intn(6)
	segs := make([]c13Seg, n)
	base := r.val() >> uint(r.Intn(40))
	for i := range segs {
		s := c13Seg{Type: 1, Flags: uint32(r.Intn(8))}
		if r.Chance(10) {
			s.Type = uint32([]int{0, 2, 6, 0x6474e551}[r.Intn(4)])
		}
		if r.Chance(70) { // clustered so that overlaps happen
			s.Off = hx(base + uint64(r.Intn(0x6000)))
			s.Vaddr = hx(uint64(s.Off) + uint64(r.Intn(8))*0x1000 + uint64(r.Intn(3))*uint64(r.Intn(0x1000)))
			s.Filesz = hx(r.Intn(0x3000))
			s.Memsz = s.Filesz + hx(r.Intn(3)*r.Intn(0x3000))
		} else {
			s.Off, s.Vaddr, s.Filesz, s.Memsz = hx(r.val()), hx(r.val()), hx(r.val()), hx(r.val())
		}
		// ELF requires p_offset ≡ p_vaddr modulo the page size for loadable segments; behaviour on
		// files violating it is not part of the property (a rewrite may legitimately differ there)
		s.Vaddr = s.Vaddr&^0xfff | s.Off&0xfff
		if r.Chance(8) {
			s.Filesz = 0
		}
		segs[i] = s
	}
	return segs
}

func genPHFM(r *Rng) *c13Case {
	cs := &c13Case{Kind: "phfm", Stream: "raw", Segs: genRawSegs(r)}
	cs.MapOff, cs.MapSz = hx(r.val()), hx(r.val())
	if len(cs.Segs) > 0 && r.Chance(80) {
		s := cs.Segs[r.Intn(len(cs.Segs))]
		cs.MapOff = hx(pageStart(uint64(s.Off), 4096) + uint64(r.Intn(5))*0x1000 - uint64(r.Intn(2))*0x1000)
		if r.Chance(15) {
			cs.MapOff += hx(r.Intn(0x1000))
		}
		cs.MapSz = hx(uint64(1+r.Intn(6)) * 0x1000)
	}
	cs.FileOff = cs.MapOff + hx(r.Intn(0x4000))
	if r.Chance(10) {
		cs.FileOff = hx(r.val())
	}
	return cs
}

func (e *c13Env) runPHFM(cs *c13Case) {
	c := e.c
	phdrs := progHeaders(cs.Segs)
	idx, tok := c13PHFM(phdrs, uint64(cs.MapOff), uint64(cs.MapSz))
	if tok == "panic" {
		c.Violation("C13/phfm/panic", "ProgramHeadersForMapping panics", cs)
		return
	}
	c.Res.Hit(fmt.Sprintf("phfm:selected=%d/%d", len(idx), len(phdrs)))
	// structural oracle: a selected header is a PT_LOAD with file content, in input order
	for j, k := range idx {
		if k < 0 || phdrs[k].Type != elf.PT_LOAD || phdrs[k].Filesz == 0 || (j > 0 && idx[j-1] >= k) {
			c.Violation("C13/phfm/selects-non-load-or-unordered", "ProgramHeadersForMapping selected a header that is not a PT_LOAD with file content / out of order: "+tok, cs)
		}
	}
	c.Res.ModelCompared++
	m := c.Drv.Ask(fmt.Sprintf("elf.phfm %s %d %d", segsTok(cs.Segs), uint64(cs.MapOff), uint64(cs.MapSz)))
	if m != tok {
		c.Disagree("C13/model/ProgramHeadersForMapping", fmt.Sprintf("go=[%s] model=[%s]", tok, m), "correspondence Elf.programHeadersForMapping ~ elfexec.ProgramHeadersForMapping", cs)
	}
	// HeaderForFileOffset on the same headers
	k, ht := c13HFFO(phdrs, uint64(cs.FileOff))
	if ht == "panic" {
		c.Violation("C13/hffo/panic", "HeaderForFileOffset panics", cs)
		return
	}
	// direct oracle: the header returned is the only one whose [Off, Off+Memsz) holds the offset
	nmatch, which := 0, -1
	for i, p := range phdrs {
		if uint64(cs.FileOff) >= p.Off && uint64(cs.FileOff) < p.Off+p.Memsz {
			nmatch++
			which = i
		}
	}
	c.Res.Hit(fmt.Sprintf("hffo:matches=%d", min(nmatch, 3)))
	if ht != "err" && (nmatch != 1 || phdrs[k] != phdrs[which]) {
		c.Violation("C13/hffo/not-unique", fmt.Sprintf("HeaderForFileOffset returned header %d although %d headers contain the offset", k, nmatch), cs)
	}
	if ht == "err" && nmatch == 1 {
		c.Violation("C13/hffo/spurious-error", "HeaderForFileOffset fails although exactly one header contains the offset", cs)
	}
	c.Res.ModelCompared++
	m = c.Drv.Ask(fmt.Sprintf("elf.hffo %s %d", segsTok(cs.Segs), uint64(cs.FileOff)))
	if m != ht {
		c.Disagree("C13/model/HeaderForFileOffset", fmt.Sprintf("go=%s model=%s", ht, m), "theorem headerForFileOffset_unique_or_error / correspondence Elf.headerForFileOffset ~ elfexec.HeaderForFileOffset", cs)
	}
}

func genFindText(r *Rng) *c13Case {
	cs := &c13Case{Kind: "findtext", Stream: "raw", Segs: genRawSegs(r)}
	for i, n := 0, r.Intn(3); i < n; i++ {
		a := hx(r.val())
		if len(cs.Segs) > 0 && r.Chance(80) {
			s := cs.Segs[r.Intn(len(cs.Segs))]
			a = s.Vaddr + hx(r.Intn(int(uint64(s.Memsz)%0x4000+2))) - hx(r.Intn(2))
		}
		cs.TextAddrs = append(cs.TextAddrs, a)
	}
	return cs
}

func (e *c13Env) runFindText(cs *c13Case) {
	c := e.c
	f := &elf.File{}
	phdrs := progHeaders(cs.Segs)
	for i := range phdrs {
		f.Progs = append(f.Progs, &elf.Prog{ProgHeader: phdrs[i]})
	}
	f.Sections = append(f.Sections, &elf.Section{SectionHeader: elf.SectionHeader{Name: ".data", Addr: 0}})
	for _, a := range cs.TextAddrs {
		f.Sections = append(f.Sections, &elf.Section{SectionHeader: elf.SectionHeader{Name: ".text", Addr: uint64(a)}})
	}
	var h *elf.ProgHeader
	if pn := c13Safely(func() { h = elfexec.FindTextProgHeader(f) }); pn != "" {
		c.Violation("C13/findtext/panic", pn, cs)
		return
	}
	g := "0"
	if h != nil {
		g = "1 ?"
		for i := range f.Progs {
			if h == &f.Progs[i].ProgHeader {
				g = "1 " + strconv.Itoa(i)
			}
		}
		// oracle: an executable PT_LOAD containing a .text section address
		okh := false
		for _, a := range cs.TextAddrs {
			if h.Type == elf.PT_LOAD && h.Flags&elf.PF_X != 0 && uint64(a) >= h.Vaddr && uint64(a) < h.Vaddr+h.Memsz {
				okh = true
			}
		}
		if !okh {
			c.Violation("C13/findtext/wrong-header", "FindTextProgHeader returned a header that is not an executable PT_LOAD containing .text", cs)
		}
	}
	if h == nil {
		// direct oracle, other direction: an executable PT_LOAD holding a .text address must be found
		for _, a := range cs.TextAddrs {
			for i := range phdrs {
				p := phdrs[i]
				if p.Type == elf.PT_LOAD && p.Flags&elf.PF_X != 0 && uint64(a) >= p.Vaddr && uint64(a) < p.Vaddr+p.Memsz {
					c.Violation("C13/findtext/missed", fmt.Sprintf("FindTextProgHeader returned nil although executable PT_LOAD #%d [%#x,+%#x) contains the .text address %#x", i, p.Vaddr, p.Memsz, uint64(a)), cs)
					return
				}
			}
		}
	}
	c.Res.Hit("findtext:" + c13FirstWord(g))
	var sb strings.Builder
	sb.WriteString(strconv.Itoa(len(cs.TextAddrs)))
	for _, a := range cs.TextAddrs {
		sb.WriteString(" " + u(uint64(a)))
	}
	c.Res.ModelCompared++
	m := c.Drv.Ask(fmt.Sprintf("elf.findtext %s %s", sb.String(), segsTok(cs.Segs)))
	if m != g {
		c.Disagree("C13/model/FindTextProgHeader", fmt.Sprintf("go=%s model=%s", g, m), "correspondence Elf.findTextProgHeader ~ elfexec.FindTextProgHeader", cs)
	}
}

// raw objaddr: arbitrary (not loader-consistent) mapping against sane headers; correspondence of
// findProgramHeader / computeBase (range check, kernel branch, 0/1/many candidates).
func genRawObjAddr(r *Rng) *c13Case {
	cs := &c13Case{Kind: "objaddr", Stream: "raw", Segs: genRawSegs(r)}
	for i := range cs.Segs { // debug/elf refuses negative int64 offsets and sizes
		cs.Segs[i].Off &= 1<<62 - 1
		cs.Segs[i].Filesz &= 1<<62 - 1
	}
	cs.EType = uint16([]int{2, 3, 3, 1}[r.Intn(4)])
	start := uint64(r.Intn(0x100))*0x1000 + uint64(r.Intn(2))*r.val()
	if r.Chance(10) {
		start = r.val()
	}
	size := uint64(1+r.Intn(6)) * 0x1000
	cs.Start, cs.Limit = hx(start), hx(start+size)
	if r.Chance(8) {
		cs.Limit = hx(r.val())
	}
	cs.Offset = hx(r.val())
	if len(cs.Segs) > 0 && r.Chance(85) {
		s := cs.Segs[r.Intn(len(cs.Segs))]
		cs.Offset = hx(pageStart(uint64(s.Off), 4096) + uint64(r.Intn(3))*0x1000)
	}
	for k := 0; k < 3; k++ {
		cs.Addrs = append(cs.Addrs, hx(start+uint64(r.Intn(int(size)+0x10))-uint64(r.Intn(2))*8))
	}
	return cs
}

func (e *c13Env) runRawObjAddr(cs *c13Case) {
	c := e.c
	file := e.writeELF(cs.EType, cs.Segs)
	defer os.Remove(file)
	for _, a := range cs.Addrs {
		res, _, _ := e.objAddr(file, uint64(cs.Start), uint64(cs.Limit), uint64(cs.Offset), uint64(a))
		c.Res.Hit("rawobjaddr:" + c13FirstWord(res))
		one := *cs
		one.Addrs = []hx{a}
		if res == "panic" {
			c.Violation("C13/objaddr/panic", "Open/ObjAddr panics", &one)
			continue
		}
		c.Res.ModelCompared++
		m := c.Drv.Ask(fmt.Sprintf("elf.objaddr %d %s 0 0 %d %d %d %d", cs.EType, segsTok(cs.Segs), uint64(cs.Start), uint64(cs.Limit), uint64(cs.Offset), uint64(a)))
		if m != res {
			c.Disagree("C13/model/ObjAddr", fmt.Sprintf("ObjAddr(%#x): go=%s model=%s", uint64(a), res, m), "correspondence Elf.objAddr ~ binutils Open+ObjAddr (findProgramHeader, computeBase)", &one)
		}
	}
}

// ---------------------------------------------------------------------------------------------
// nm lookup

func nmIsData(t string) bool { return strings.ContainsAny(t, "bBdDrRvVW") }

func genNM(r *Rng) *c13Case {
	cs := &c13Case{Kind: "nm", Stream: "nm"}
	n := r.Intn(12)
	if r.Chance(20) {
		n = 30 + r.Intn(200)
	}
	if r.Chance(5) {
		n = 1
	}
	addr := uint64(r.Intn(0x2000))
	if r.Chance(20) {
		addr = r.val() >> 2
	}
	types := []string{"T", "t", "T", "t", "W", "D", "d", "B", "b", "R", "r", "V", "w", "A", "U", "i"}
	for i := 0; i < n; i++ {
		switch r.Intn(6) {
		case 0: // duplicate address
		case 1:
			addr += 1
		default:
			addr += uint64(r.Intn(0x200))
		}
		size := uint64(r.Intn(0x100))
		if r.Chance(25) {
			size = 0
		}
		if r.Chance(10) {
			size = uint64(r.Intn(0x1000))
		}
		cs.Syms = append(cs.Syms, c13Sym{Name: fmt.Sprintf("sym%d", i), Type: types[r.Intn(len(types))], Addr: hx(addr), Size: hx(size)})
	}
	// mapping that yields the base start-offset (ET_DYN without program headers)
	switch r.Intn(3) {
	case 0: // whole address space, base 0
		cs.Start, cs.Limit, cs.Offset = 0, hx(^uint64(0)), 0
	case 1:
		cs.Start, cs.Limit, cs.Offset = 0x7f0000000000, 0x7f0000100000, hx(uint64(r.Intn(16))*0x1000)
	default:
		cs.Start, cs.Limit, cs.Offset = hx(uint64(1+r.Intn(0x1000))*0x1000), 0, 0
		cs.Limit = cs.Start + 0x100000
	}
	cs.Base = cs.Start - cs.Offset
	base := uint64(cs.Base)
	pick := func() uint64 {
		if len(cs.Syms) == 0 || r.Chance(5) {
			return base + uint64(r.Intn(0x4000))
		}
		s := cs.Syms[r.Intn(len(cs.Syms))]
		a := base + uint64(s.Addr)
		switch r.Intn(8) {
		case 0:
			return a
		case 1:
			return a + uint64(s.Size)
		case 2:
			return a + uint64(s.Size) - 1
		case 3:
			return a - 1
		case 4:
			return a + 1
		default:
			return a + uint64(r.Intn(int(s.Size)+0x40))
		}
	}
	// the first address also triggers the lazy base computation: it must lie in the mapping
	cs.Addrs = append(cs.Addrs, cs.Start+hx(r.Intn(0x1000)))
	for k := 0; k < 24; k++ {
		cs.Addrs = append(cs.Addrs, hx(pick()))
	}
	if len(cs.Syms) > 0 {
		first, last := cs.Syms[0], cs.Syms[len(cs.Syms)-1]
		cs.Addrs = append(cs.Addrs, hx(base)+first.Addr, hx(base)+first.Addr-1, hx(base)+last.Addr, hx(base)+last.Addr+last.Size, hx(base)+last.Addr+last.Size-1)
	}
	return cs
}

func (e *c13Env) runNM(cs *c13Case) {
	c := e.c
	file := e.writeELF(uint16(elf.ET_DYN), nil)
	defer os.Remove(file)
	defer os.Remove(file + ".nm")
	var sb, mt strings.Builder
	for _, s := range cs.Syms {
		fmt.Fprintf(&sb, "%s %s %x %x\n", s.Name, s.Type, uint64(s.Addr), uint64(s.Size))
		d := 0
		if nmIsData(s.Type) {
			d = 1
		}
		fmt.Fprintf(&mt, " %d %d %d", uint64(s.Addr), uint64(s.Size), d)
	}
	os.WriteFile(file+".nm", []byte(sb.String()), 0o644)
	var of plugin.ObjFile
	var err error
	if pn := c13Safely(func() { of, err = e.bu.Open(file, uint64(cs.Start), uint64(cs.Limit), uint64(cs.Offset), "") }); pn != "" || err != nil {
		c.Violation("C13/nm/open", fmt.Sprintf("Open fails on the synthetic object: %v %v", pn, err), cs)
		return
	}
	base := uint64(cs.Base)
	// table after relocation, as parseAddr2LinerNM builds it
	type rs struct {
		addr, size uint64
		data       bool
		name       string
	}
	tab := make([]rs, len(cs.Syms))
	sorted := true
	for i, s := range cs.Syms {
		tab[i] = rs{uint64(s.Addr) + base, uint64(s.Size), nmIsData(s.Type), s.Name}
		if i > 0 && tab[i].addr < tab[i-1].addr {
			sorted = false
		}
	}
	if !sorted {
		c.Res.Hit("nm:unsorted-after-relocation(skipped)")
		return
	}
	for ai, a := range cs.Addrs {
		x := uint64(a)
		var frames []plugin.Frame
		pn := c13Safely(func() { frames, err = of.SourceLine(x) })
		one := *cs
		one.Addrs = []hx{cs.Addrs[0], a}
		if pn != "" {
			c.Violation("C13/nm/panic", "nm lookup panics: "+pn, &one)
			return
		}
		if err != nil {
			if ai == 0 {
				c.Violation("C13/nm/base-error", "computeBase fails for an address inside the mapping: "+err.Error(), &one)
				return
			}
			c.Violation("C13/nm/error", "nm lookup returns an error: "+err.Error(), &one)
			continue
		}
		got := ""
		if len(frames) > 1 {
			c.Violation("C13/nm/multiple-frames", "nm lookup returned several frames", &one)
			continue
		}
		if len(frames) == 1 {
			got = frames[0].Func
		}
		// direct oracle: greatest start <= x; data symbols only within their size
		gi := -1
		for i := range tab {
			if tab[i].addr <= x {
				gi = i
			}
		}
		var okNames []string // acceptable answers; "" = no symbol
		ndup := 0
		if gi < 0 {
			okNames = []string{""}
		} else {
			g := tab[gi].addr
			for i := range tab {
				if tab[i].addr != g {
					continue
				}
				ndup++
				if tab[i].data && x >= tab[i].addr+tab[i].size {
					okNames = append(okNames, "")
				} else {
					okNames = append(okNames, tab[i].name)
				}
			}
			last := tab[len(tab)-1]
			if x >= last.addr+last.size {
				okNames = append(okNames, "") // documented: beyond the end of the last symbol
			}
		}
		found := false
		for _, n := range okNames {
			if n == got {
				found = true
			}
		}
		cls := "none"
		if got != "" {
			cls = "found"
		}
		c.Res.Hit(fmt.Sprintf("nm:%s,dups=%d", cls, min(ndup, 3)))
		if !found {
			sig := "C13/nm/not-greatest-start-le-addr"
			if got == "" {
				sig = "C13/nm/missed-symbol"
			} else {
				for i := range tab {
					if tab[i].name == got && gi >= 0 && tab[i].addr == tab[gi].addr && tab[i].data {
						sig = "C13/nm/data-symbol-beyond-size"
					}
				}
			}
			c.Violation(sig, fmt.Sprintf("nm lookup of %#x returned %q, acceptable %q", x, got, okNames), &one)
		}
		// model
		c.Res.ModelCompared++
		m := c.Drv.Ask(fmt.Sprintf("nm.addrinfo %d %d%s %d", base, len(cs.Syms), mt.String(), x))
		want := "ok 0"
		if got != "" {
			want = "ok 1 " + strings.TrimPrefix(got, "sym")
		}
		if m != want {
			if ndup <= 1 || !strings.HasPrefix(m, "ok") {
				c.Disagree("C13/model/addrInfo", fmt.Sprintf("lookup of %#x: go=%s model=%s", x, want, m), "theorems nmSearch_greatest_le, nmSearch_data_within_size / correspondence Elf.addrInfo ~ addr2LinerNM.addrInfo", &one)
			} else {
				c.Res.Hit("nm:duplicate-start-other-pick")
			}
		}
	}
}

// ---------------------------------------------------------------------------------------------

func (e *c13Env) runCase(cs *c13Case) {
	switch cs.Kind {
	case "layout":
		e.runLayout(cs, cs.Stream == "main")
	case "getbase":
		e.runGetBase(cs)
	case "phfm":
		e.runPHFM(cs)
	case "findtext":
		e.runFindText(cs)
	case "objaddr":
		e.runRawObjAddr(cs)
	case "nm":
		e.runNM(cs)
	case "real":
		e.runReal(cs)
	default:
		e.c.Res.HarnessError = "unknown C13 case kind " + cs.Kind
	}
}

func runC13(c *Ctx) {
	c.Res.Rule = "layout streams: linker-like layouts (1–4 PT_LOAD + optional zero-filesz segment; first vaddr 0/non-zero; separate, packed (shared file page) or mixed; bss; Vaddr−Off up to 2^36; 4K/64K/2M segment alignment) × page-aligned biases (0, small, 2^32-ish, PIE/mmap-like, near 2^63) × page-aligned sub-ranges [v0,v1) of the owning segment's file image × addresses of the segment inside the mapping (first, last, middle, random, page edges, filesz edge); each case is checked against the Lean predicate Spec.LoaderLayout; non-trivial = ProgramHeadersForMapping must discriminate (≥2 PT_LOAD with file content) — distinct by canonical layout text. raw streams: boundary-rich arbitrary arguments (non-trivial = result is not the trivial empty/err case). nm: sorted tables with duplicate starts, zero sizes, data/function types (non-trivial = table has ≥2 symbols). symhist: one synthetic object opened at 2–4 page-aligned biases (several below the table span) in ONE Binutils instance, 12–27 interleaved SourceLine calls, through three tool chains (fast nm; addr2line+nm with llvm-symbolizer hidden; llvm-symbolizer) whose tools are table-driven fakes; nm names longer than addr2line names (.constprop.0 …); each answer checked against the containing function, the model and a fresh single-bias instance on a private file copy (non-trivial = ≥2 functions and ≥2 biases)."
	e := newC13Env(c)
	defer e.close()
	if c.Replay != "" {
		var cs c13Case
		if err := c.LoadReplay(&cs); err != nil {
			c.Res.HarnessError = err.Error()
			return
		}
		if cs.Kind == "weblist" {
			var wc c13WeblistCase
			if err := c.LoadReplay(&wc); err != nil {
				c.Res.HarnessError = err.Error()
				return
			}
			e.runWeblist(&wc)
			c.Res.Evaluations++
			return
		}
		if cs.Kind == "symhist" {
			var sc c13SymCase
			if err := c.LoadReplay(&sc); err != nil {
				c.Res.HarnessError = err.Error()
				return
			}
			e.runSymHist(&sc)
			e.checkToolArgv(&sc)
			c.Res.Evaluations++
			return
		}
		e.runCase(&cs)
		c.Res.Evaluations++
		return
	}
	root := NewRng(c.Seed)
	rMain, r64, rOff, rRaw, rNM := root.Fork(), root.Fork(), root.Fork(), root.Fork(), root.Fork()
	rSym := root.Fork()
	nontrivLayout := func(cs *c13Case) bool {
		k := 0
		for _, s := range cs.Segs {
			if s.Filesz > 0 {
				k++
			}
		}
		return k >= 2
	}

	// main stream: 4 KiB runtime pages (hypothesis of the theorems)
	for i, n := 0, 6000*c.Scale; i < n; i++ {
		cs := genLayout(rMain, 4096)
		if cs.kernelLookalike() && cs.V0 != cs.Segs[cs.Seg].Vaddr {
			continue // belongs to the biasoff stream
		}
		cs.Stream = "main"
		c.Res.Count(cs.canon(), nontrivLayout(cs))
		c.Res.Hit(fmt.Sprintf("main:segs=%d,etype=%d", len(cs.Segs), cs.EType))
		cs.hitShape(c)
		if i < 2 {
			c.Res.Sample(cs)
		}
		e.runLayout(cs, true)
	}
	// excluded hypothesis 1: 64 KiB runtime pages
	for i, n := 0, 1500*c.Scale; i < n; i++ {
		cs := genLayout(r64, 65536)
		if cs.kernelLookalike() && cs.V0 != cs.Segs[cs.Seg].Vaddr {
			continue
		}
		cs.Stream = "page64k"
		c.Res.Count(cs.canon(), nontrivLayout(cs))
		e.runLayout(cs, false)
	}
	// excluded hypothesis 2: ET_DYN, bias == file offset of the owning segment
	for i, n := 0, 800*c.Scale; i < n; i++ {
		cs := genLayout(rOff, 4096)
		cs.EType = uint16(elf.ET_DYN)
		s := cs.Segs[cs.Seg]
		if uint64(s.Off)%4096 != 0 || cs.V1-cs.V0 < 0x2000 && cs.V0 == s.Vaddr {
			continue
		}
		cs.Bias = s.Off
		if cs.V0 == s.Vaddr {
			cs.V0 += 0x1000
		}
		cs.deriveMapping()
		genAddrs(rOff, cs)
		if len(cs.Addrs) == 0 {
			continue
		}
		cs.Stream = "biasoff"
		c.Res.Count(cs.canon(), true)
		e.runLayout(cs, false)
	}
	// raw correspondence streams
	for i, n := 0, 20000*c.Scale; i < n; i++ {
		cs := genGetBase(rRaw)
		c.Res.Count("gb "+fmt.Sprint(*cs), cs.HasSeg)
		e.runGetBase(cs)
	}
	for i, n := 0, 12000*c.Scale; i < n; i++ {
		cs := genPHFM(rRaw)
		c.Res.Count("ph "+segsTok(cs.Segs)+fmt.Sprint(cs.MapOff, cs.MapSz, cs.FileOff), len(cs.Segs) >= 2)
		e.runPHFM(cs)
	}
	for i, n := 0, 3000*c.Scale; i < n; i++ {
		cs := genFindText(rRaw)
		c.Res.Count("ft "+segsTok(cs.Segs)+fmt.Sprint(cs.TextAddrs), len(cs.Segs) >= 1 && len(cs.TextAddrs) >= 1)
		e.runFindText(cs)
	}
	for i, n := 0, 4000*c.Scale; i < n; i++ {
		cs := genRawObjAddr(rRaw)
		c.Res.Count("oa "+segsTok(cs.Segs)+fmt.Sprint(cs.EType, cs.Start, cs.Limit, cs.Offset, cs.Addrs), len(cs.Segs) >= 2)
		e.runRawObjAddr(cs)
	}
	// nm
	for i, n := 0, 500*c.Scale; i < n; i++ {
		cs := genNM(rNM)
		c.Res.Count("nm "+fmt.Sprint(cs.Syms, cs.Base), len(cs.Syms) >= 2)
		e.runNM(cs)
	}
	// symbolizer histories: same file at several biases in one process, nm / addr2line+nm / llvm
	e.runSymStreams(rSym)
	// weblist of a real PIE on biased mappings (real gcc/objdump/symbolizer; skipped with a note if absent)
	{
		wc := &c13WeblistCase{Kind: "weblist", Biases: []hx{0x100000, 0x555555554000, hx(uint64(1+rSym.Intn(0x7ffff)) * 0x1000)}}
		c.Res.Count(fmt.Sprint("weblist ", wc.Biases), true)
		e.runWeblist(wc)
	}
	if c.Tier == "thorough" {
		e.runRealAll(root.Fork())
	}
	sortNotes(c)
}

func sortNotes(c *Ctx) { sort.Strings(c.Res.Notes) }

// c13Safely runs f, converting a panic into a string (own copy: c01.go is not part of this overlay).
func c13Safely(f func()) (panicked string) {
	defer func() {
		if e := recover(); e != nil {
			panicked = fmt.Sprint(e)
			if panicked == "" {
				panicked = "panic"
			}
		}
	}()
	f()
	return ""
}

func c13FirstWord(s string) string {
	if i := strings.IndexByte(s, ' '); i >= 0 {
		return s[:i]
	}
	return s
}
