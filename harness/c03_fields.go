//go:build verif

package main

import (
	"fmt"

	"github.com/google/pprof/profile"
)

// Entity-key collisions, generically. For every key-relevant (and every non-key) field of
// Function / Line / Location / Mapping / Sample labels, the twins of ndBase() are given two
// different *variants* of that one field and nothing else: the original value, the empty/zero
// value, the value of each sibling field of the same entity ("SystemName == Name",
// "Filename == Name", "BuildID == File", "Line == Column", "Address == Mapping.Start" …), the
// value the same field has in the other entity of that type, and a near miss. All unordered
// pairs of variants, in both orders (which twin is seen first), in the three placements of
// placePair. The Lean Spec decides whether the two stacks are one or two; the hand-written
// key functions of the model and the real keys are thereby exercised one field at a time,
// including relations between fields that a key function may wrongly normalise.

type fieldVariant struct {
	label string
	set   func(p *profile.Profile)
}

type fieldSpec struct {
	name     string
	variants []fieldVariant
}

func strVariants(name string, get func(p *profile.Profile) *string, siblings map[string]func(p *profile.Profile) *string, other func(p *profile.Profile) *string) fieldSpec {
	fs := fieldSpec{name: name}
	fs.variants = append(fs.variants, fieldVariant{"orig", func(p *profile.Profile) {}})
	fs.variants = append(fs.variants, fieldVariant{`""`, func(p *profile.Profile) { *get(p) = "" }})
	for sn, sg := range siblings {
		sg := sg
		fs.variants = append(fs.variants, fieldVariant{"=" + sn, func(p *profile.Profile) { *get(p) = *sg(p) }})
	}
	if other != nil {
		fs.variants = append(fs.variants, fieldVariant{"=other-entity", func(p *profile.Profile) { *get(p) = *other(p) }})
	}
	fs.variants = append(fs.variants, fieldVariant{"near", func(p *profile.Profile) { *get(p) += "x" }})
	return fs
}

func intVariants(name string, get func(p *profile.Profile) *int64, siblings map[string]func(p *profile.Profile) int64) fieldSpec {
	fs := fieldSpec{name: name}
	fs.variants = append(fs.variants, fieldVariant{"orig", func(p *profile.Profile) {}})
	fs.variants = append(fs.variants, fieldVariant{"0", func(p *profile.Profile) { *get(p) = 0 }})
	for sn, sg := range siblings {
		sg := sg
		fs.variants = append(fs.variants, fieldVariant{"=" + sn, func(p *profile.Profile) { *get(p) = sg(p) }})
	}
	fs.variants = append(fs.variants, fieldVariant{"+1", func(p *profile.Profile) { *get(p)++ }})
	fs.variants = append(fs.variants, fieldVariant{"negated", func(p *profile.Profile) { *get(p) = -*get(p) }})
	return fs
}

func uintVariants(name string, get func(p *profile.Profile) *uint64, siblings map[string]func(p *profile.Profile) uint64) fieldSpec {
	fs := fieldSpec{name: name}
	fs.variants = append(fs.variants, fieldVariant{"orig", func(p *profile.Profile) {}})
	fs.variants = append(fs.variants, fieldVariant{"0", func(p *profile.Profile) { *get(p) = 0 }})
	for sn, sg := range siblings {
		sg := sg
		fs.variants = append(fs.variants, fieldVariant{"=" + sn, func(p *profile.Profile) { *get(p) = sg(p) }})
	}
	fs.variants = append(fs.variants, fieldVariant{"+1", func(p *profile.Profile) { *get(p)++ }})
	fs.variants = append(fs.variants, fieldVariant{"+4K", func(p *profile.Profile) { *get(p) += 0x1000 }})
	return fs
}

func boolVariants(name string, get func(p *profile.Profile) *bool) fieldSpec {
	return fieldSpec{name: name, variants: []fieldVariant{
		{"false", func(p *profile.Profile) { *get(p) = false }},
		{"true", func(p *profile.Profile) { *get(p) = true }},
	}}
}

// labels of ndBase's sample as a tuple, so that one component can be varied at a time.
type lblTuple struct{ lk, lv, nk, unit string }

func setLabels(p *profile.Profile, t lblTuple) {
	s := p.Sample[0]
	s.Label = map[string][]string{t.lk: {t.lv}}
	s.NumLabel = map[string][]int64{t.nk: {7}}
	s.NumUnit = map[string][]string{t.nk: {t.unit}}
}

func labelVariants(name string, pick func(t *lblTuple) *string) fieldSpec {
	orig := lblTuple{"k", "v", "n", "bytes"}
	fs := fieldSpec{name: name}
	vals := []struct{ label, v string }{{"orig", *pick(&orig)}, {`""`, ""}, {"=labelKey", orig.lk}, {"=labelValue", orig.lv},
		{"=numKey", orig.nk}, {"=unit", orig.unit}, {"near", *pick(&orig) + "x"}}
	seen := map[string]bool{}
	for _, x := range vals {
		if seen[x.v] {
			continue
		}
		seen[x.v] = true
		x := x
		fs.variants = append(fs.variants, fieldVariant{x.label, func(p *profile.Profile) {
			t := orig
			*pick(&t) = x.v
			setLabels(p, t)
		}})
	}
	return fs
}

func c03FieldSpecs() []fieldSpec {
	type P = *profile.Profile
	var specs []fieldSpec
	for fi := 0; fi < 2; fi++ {
		fi := fi
		name := func(p P) *string { return &p.Function[fi].Name }
		sys := func(p P) *string { return &p.Function[fi].SystemName }
		file := func(p P) *string { return &p.Function[fi].Filename }
		pre := fmt.Sprintf("function[%d].", fi)
		specs = append(specs,
			strVariants(pre+"Name", name, map[string]func(P) *string{"SystemName": sys, "Filename": file}, func(p P) *string { return &p.Function[1-fi].Name }),
			strVariants(pre+"SystemName", sys, map[string]func(P) *string{"Name": name, "Filename": file}, func(p P) *string { return &p.Function[1-fi].SystemName }),
			strVariants(pre+"Filename", file, map[string]func(P) *string{"Name": name, "SystemName": sys}, func(p P) *string { return &p.Function[1-fi].Filename }),
			intVariants(pre+"StartLine", func(p P) *int64 { return &p.Function[fi].StartLine }, map[string]func(P) int64{
				"Line": func(p P) int64 { return p.Location[0].Line[fi].Line },
				"other.StartLine": func(p P) int64 { return p.Function[1-fi].StartLine }}),
		)
	}
	for li := 0; li < 2; li++ {
		li := li
		pre := fmt.Sprintf("line[%d].", li)
		specs = append(specs,
			intVariants(pre+"Line", func(p P) *int64 { return &p.Location[0].Line[li].Line }, map[string]func(P) int64{
				"Column":          func(p P) int64 { return p.Location[0].Line[li].Column },
				"StartLine":       func(p P) int64 { return p.Location[0].Line[li].Function.StartLine },
				"other-line.Line": func(p P) int64 { return p.Location[0].Line[1-li].Line }}),
			intVariants(pre+"Column", func(p P) *int64 { return &p.Location[0].Line[li].Column }, map[string]func(P) int64{
				"Line":              func(p P) int64 { return p.Location[0].Line[li].Line },
				"other-line.Column": func(p P) int64 { return p.Location[0].Line[1-li].Column }}),
		)
	}
	specs = append(specs,
		uintVariants("location.Address", func(p P) *uint64 { return &p.Location[0].Address }, map[string]func(P) uint64{
			"Mapping.Start":   func(p P) uint64 { return p.Location[0].Mapping.Start },
			"relative":        func(p P) uint64 { return p.Location[0].Address - p.Location[0].Mapping.Start },
			"Mapping.Limit":   func(p P) uint64 { return p.Location[0].Mapping.Limit },
			"other-loc.Address": func(p P) uint64 { return p.Location[1].Address }}),
		boolVariants("location.IsFolded", func(p P) *bool { return &p.Location[0].IsFolded }),
	)
	for mi := 0; mi < 2; mi++ {
		mi := mi
		pre := fmt.Sprintf("mapping[%d].", mi)
		file := func(p P) *string { return &p.Mapping[mi].File }
		bid := func(p P) *string { return &p.Mapping[mi].BuildID }
		specs = append(specs,
			strVariants(pre+"File", file, map[string]func(P) *string{"BuildID": bid}, func(p P) *string { return &p.Mapping[1-mi].File }),
			strVariants(pre+"BuildID", bid, map[string]func(P) *string{"File": file}, func(p P) *string { return &p.Mapping[1-mi].BuildID }),
			uintVariants(pre+"Start", func(p P) *uint64 { return &p.Mapping[mi].Start }, map[string]func(P) uint64{
				"Offset": func(p P) uint64 { return p.Mapping[mi].Offset }, "Limit": func(p P) uint64 { return p.Mapping[mi].Limit }}),
			uintVariants(pre+"Limit", func(p P) *uint64 { return &p.Mapping[mi].Limit }, map[string]func(P) uint64{
				"Start": func(p P) uint64 { return p.Mapping[mi].Start }, "other.Limit": func(p P) uint64 { return p.Mapping[1-mi].Limit }}),
			uintVariants(pre+"Offset", func(p P) *uint64 { return &p.Mapping[mi].Offset }, map[string]func(P) uint64{
				"Start": func(p P) uint64 { return p.Mapping[mi].Start }, "other.Offset": func(p P) uint64 { return p.Mapping[1-mi].Offset }}),
			boolVariants(pre+"HasFunctions", func(p P) *bool { return &p.Mapping[mi].HasFunctions }),
			boolVariants(pre+"HasFilenames", func(p P) *bool { return &p.Mapping[mi].HasFilenames }),
			boolVariants(pre+"HasLineNumbers", func(p P) *bool { return &p.Mapping[mi].HasLineNumbers }),
			boolVariants(pre+"HasInlineFrames", func(p P) *bool { return &p.Mapping[mi].HasInlineFrames }),
		)
	}
	specs = append(specs,
		labelVariants("label.key", func(t *lblTuple) *string { return &t.lk }),
		labelVariants("label.value", func(t *lblTuple) *string { return &t.lv }),
		labelVariants("numLabel.key", func(t *lblTuple) *string { return &t.nk }),
		labelVariants("numLabel.unit", func(t *lblTuple) *string { return &t.unit }),
	)
	return specs
}

type fieldCase struct {
	field        string
	va, vb       fieldVariant
	placement    int
	neg, swapped bool
}

// c03FieldCases enumerates every (field, unordered pair of variants, order, placement); the
// cancelling sign is added for placement 0 only. Map iteration order inside the variant lists
// does not matter: all pairs are taken, and the enumeration is sorted by label below.
func c03FieldCases() []fieldCase {
	var out []fieldCase
	for _, fs := range c03FieldSpecs() {
		vs := append([]fieldVariant{}, fs.variants...)
		// deterministic order independent of map iteration
		for i := 1; i < len(vs); i++ {
			for j := i; j > 0 && vs[j].label < vs[j-1].label; j-- {
				vs[j], vs[j-1] = vs[j-1], vs[j]
			}
		}
		for i := 0; i < len(vs); i++ {
			for j := i + 1; j < len(vs); j++ {
				for pl := 0; pl < 3; pl++ {
					out = append(out, fieldCase{fs.name, vs[i], vs[j], pl, false, false}, fieldCase{fs.name, vs[j], vs[i], pl, false, true})
				}
				out = append(out, fieldCase{fs.name, vs[i], vs[j], 0, true, false})
			}
		}
	}
	return out
}

func genFieldCase(fc fieldCase) c03Gen {
	a, b := ndBase(), ndBase()
	fc.va.set(a)
	fc.vb.set(b)
	b.Sample[0].Value = []int64{10, 20}
	if fc.neg {
		b.Sample[0].Value = []int64{-3, -4}
	}
	g := placePair(a, b, fc.placement, fmt.Sprintf("%s:%s|%s", fc.field, fc.va.label, fc.vb.label))
	g.kind = "field" + g.kind[len("neardup"):]
	return g
}
