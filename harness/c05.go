//go:build verif

package main

import (
	"bytes"
	"fmt"
	"os"
	"regexp"
	"sort"
	"strconv"
	"strings"
	"sync"
	"time"

	"github.com/google/pprof/internal/graph"
	"github.com/google/pprof/internal/report"
	"github.com/google/pprof/profile"
)

func init() { register("C05", runC05) }

// c05Case is a self-contained replay case.
type c05Case struct {
	Level   string `json:"level"` // kept | tree | report | cli | web
	Profile string `json:"profile"`
	Req     gReq   `json:"req"`
	// kept / tree level: which entries are kept: indices into the untrimmed node list sorted by key
	KeptIdx []int `json:"kept_idx,omitempty"`
	// report / cli level
	Format    string `json:"format,omitempty"` // text tree topproto dot
	NodeCount int    `json:"nodecount,omitempty"`
	FracNum   int64  `json:"nodefraction_num,omitempty"` // nodefraction = num / den (den a power of two)
	FracDen   int64  `json:"nodefraction_den,omitempty"`
	EdgeNum   int64  `json:"edgefraction_num,omitempty"`
	EdgeDen   int64  `json:"edgefraction_den,omitempty"`
	CumSort   bool   `json:"cum_sort,omitempty"`
	Gran      string `json:"granularity,omitempty"`
	NoInlines bool   `json:"noinlines,omitempty"`
	Strategy  string `json:"kept_strategy,omitempty"`
	Query     string `json:"query,omitempty"` // web level: URL query of the /top request
	// report / cli level: Options.SourcePath / Options.TrimPath (-source_path / -trim_path)
	SourcePath string `json:"source_path,omitempty"`
	TrimPath   string `json:"trim_path,omitempty"`
	// cli level: leave the option off the command line (the command's documented default applies)
	NoNodeCount bool `json:"nodecount_unset,omitempty"`
	NoFractions bool `json:"fractions_unset,omitempty"`
	// climono level: the nodecount settings to run and compare (c05Unset = option not given)
	Counts []int `json:"counts,omitempty"`
}

const c05Unset = -1000

// eff is the DOCUMENTED meaning of the trimming settings of a case (doc of the options in
// internal/driver/commands.go and applyCommandOverrides): nodecount 0 = no limit, unset or -1 = the
// command's default (no limit for text/top/topproto, 80 for graph-like commands); nodefraction /
// edgefraction unset = 0.005 / 0.001; peek, callgrind and traces are never trimmed. In-process
// report cases have no defaults: the values are report.Options fields.
func (cs *c05Case) eff(cli bool) (nc int, fn, fd, en, ed int64) {
	nc, fn, fd, en, ed = cs.NodeCount, cs.FracNum, cs.FracDen, cs.EdgeNum, cs.EdgeDen
	if !cli {
		return
	}
	if cs.NoNodeCount || nc == -1 {
		switch cs.Format {
		case "text", "top", "topproto":
			nc = 0
		default:
			nc = 80
		}
	}
	if cs.NoFractions {
		fn, fd, en, ed = 5, 1000, 1, 1000
	}
	switch cs.Format {
	case "peek", "callgrind", "traces":
		nc, fn, fd, en, ed = 0, 0, 1, 0, 1
	}
	return
}

// c05FloatAmbiguous: total*num/den is an integer but den is not a power of two — the float64
// product the code computes may fall on either side of it; such a cutoff is not judged.
func c05FloatAmbiguous(total, num, den int64) bool {
	if den <= 0 || den&(den-1) == 0 {
		return false
	}
	return (total*num)%den == 0 && num != 0
}

func frac(num, den int64) float64 {
	if den == 0 {
		return 0
	}
	return float64(num) / float64(den)
}

func sortedKeys2[V any](m map[string]V) []string {
	ks := make([]string, 0, len(m))
	for k := range m {
		ks = append(ks, k)
	}
	sort.Strings(ks)
	return ks
}

func buildGraph(canon string, q *gReq, kept graph.NodeSet) (*graph.Graph, string) {
	p, err := ParseCanon(canon)
	if err != nil {
		return nil, "ParseCanon: " + err.Error()
	}
	var g *graph.Graph
	var aggErr error
	pn := safely(func() {
		if aggErr = aggregateReal(p, q.Agg); aggErr != nil {
			return
		}
		o := &graph.Options{SampleValue: valueAt(q.VI), CallTree: q.CallTree, ObjNames: q.ObjNames, OrigFnNames: q.OrigFnNames, KeptNodes: kept}
		if q.Mean {
			o.SampleMeanDivisor = valueAt(0)
		}
		g = graph.New(p, o)
	})
	if pn != "" {
		return nil, "panic: " + pn
	}
	if aggErr != nil {
		return nil, "aggregate: " + aggErr.Error()
	}
	return g, ""
}

// ---------- level "kept": graph.New with KeptNodes ----------

func c05Kept(c *Ctx, cs *c05Case) {
	q := &cs.Req
	q.CallTree = false
	p0, err := ParseCanon(cs.Profile)
	if err != nil {
		c.Res.HarnessError = err.Error()
		return
	}
	gu, prob := buildGraph(cs.Profile, q, nil)
	if prob != "" {
		c.Violation("C05/kept/untrimmed-build", prob, cs)
		return
	}
	U, problem := realTables(gu, false)
	if problem != "" {
		c.Violation("C05/kept/structure", problem, cs)
		return
	}
	ukeys := sortedKeys2(U.Flat)
	kept := graph.NodeSet{}
	var keptList []graph.NodeInfo
	for _, i := range cs.KeptIdx {
		if i >= 0 && i < len(ukeys) {
			ni := U.Info[ukeys[i]][0]
			if !kept[ni] {
				kept[ni] = true
				keptList = append(keptList, ni)
			}
		}
	}
	gr, prob := buildGraph(cs.Profile, q, kept)
	if prob != "" {
		c.Violation("C05/kept/rebuild-fails", "graph.New with a kept set: "+prob, cs)
		return
	}
	R, problem := realTables(gr, false)
	if problem != "" {
		c.Violation("C05/kept/structure", problem, cs)
		return
	}
	failed := false
	viol := func(kind, what string) {
		c.Violation("C05/kept/"+kind, what+" ["+q.String()+" strategy="+cs.Strategy+"]", cs)
		failed = true
	}
	// direct oracle, real code against real code: the property's own statement
	for _, k := range sortedKeys2(R.Flat) {
		ni := R.Info[k][0]
		if !kept[ni] {
			viol("node-not-kept", fmt.Sprintf("entry %q is shown but was removed", R.name(k)))
			continue
		}
		if _, ok := U.Flat[k]; !ok {
			viol("node-new", fmt.Sprintf("entry %q does not exist in the untrimmed graph", R.name(k)))
			continue
		}
		if R.Flat[k] != U.Flat[k] {
			viol("flat-changed", fmt.Sprintf("entry %q: flat %d (div %d) after trimming, %d (div %d) untrimmed", R.name(k), R.Flat[k].W, R.Flat[k].D, U.Flat[k].W, U.Flat[k].D))
		}
		if R.Cum[k] != U.Cum[k] {
			viol("cum-changed", fmt.Sprintf("entry %q: cum %d (div %d) after trimming, %d (div %d) untrimmed", R.name(k), R.Cum[k].W, R.Cum[k].D, U.Cum[k].W, U.Cum[k].D))
		}
	}
	for _, k := range ukeys {
		if kept[U.Info[k][0]] {
			if _, ok := R.Flat[k]; !ok {
				viol("node-lost", fmt.Sprintf("kept entry %q is not shown", U.name(k)))
			}
		}
	}
	nres := 0
	for _, ek := range sortedKeys2(R.Edges) {
		e := R.Edges[ek]
		if !kept[R.Info[e.Src][0]] || !kept[R.Info[e.Dst][0]] {
			viol("edge-to-removed", fmt.Sprintf("edge %q -> %q refers to a removed entry", R.name(e.Src), R.name(e.Dst)))
			continue
		}
		if e.Residual {
			nres++
			continue
		}
		ue, ok := U.Edges[ek]
		if !ok {
			viol("nonresidual-edge-new", fmt.Sprintf("edge %q -> %q is not marked residual but does not exist untrimmed", R.name(e.Src), R.name(e.Dst)))
		} else if ue.Wt != e.Wt {
			viol("nonresidual-edge-weight-changed", fmt.Sprintf("edge %q -> %q: weight %d, untrimmed %d", R.name(e.Src), R.name(e.Dst), e.Wt.W, ue.Wt.W))
		}
	}
	if nres > 0 {
		c.Res.Hit("kept:has-residual-edge")
	}
	// against the Lean specification under K (residual weights and marks included)
	spec, perr := askTables(c, "graph.spec", q, keptList, true, p0, cs.Profile)
	if perr != "" {
		c.Disagree("C05/spec-unavailable", perr, "driver op graph.spec with kept set", cs)
		return
	}
	if kind, what := diffTables(R, spec, true); kind != "" {
		viol("spec/"+kind, what)
	}
	c.Res.ModelCompared++
	model, perr := askTables(c, "graph.model", q, keptList, true, p0, cs.Profile)
	if perr != "" {
		c.Disagree("C05/model-unavailable", perr, "correspondence Graph.newGraph K ~ graph.New with KeptNodes", cs)
		return
	}
	if kind, what := diffTables(R, model, true); kind != "" && !failed {
		c.Disagree("C05/model/kept/"+kind, "graph.New(KeptNodes) and the Lean model differ: "+what, "correspondence Graph.newGraph K ~ graph.New with KeptNodes (theorems rebuild_*)", cs)
	}
}

// ---------- level "tree": Graph.TrimTree ----------

func c05Tree(c *Ctx, cs *c05Case) {
	q := &cs.Req
	q.CallTree = true
	p0, err := ParseCanon(cs.Profile)
	if err != nil {
		c.Res.HarnessError = err.Error()
		return
	}
	g, prob := buildGraph(cs.Profile, q, nil)
	if prob != "" {
		c.Violation("C05/tree/untrimmed-build", prob, cs)
		return
	}
	// original path of every node (listed or not), before trimming
	orig := map[*graph.Node][]graph.NodeInfo{}
	var pathOf func(n *graph.Node) []graph.NodeInfo
	pathOf = func(n *graph.Node) []graph.NodeInfo {
		if p, ok := orig[n]; ok {
			return p
		}
		var p []graph.NodeInfo
		for src := range n.In {
			p = append(p, pathOf(src)...)
			break
		}
		p = append(p, n.Info)
		orig[n] = p
		return p
	}
	type nv struct{ flat, cum wd }
	before := map[*graph.Node]nv{}
	nodes := append(graph.Nodes(nil), g.Nodes...)
	sort.Slice(nodes, func(i, j int) bool { return pathKey(pathOf(nodes[i])) < pathKey(pathOf(nodes[j])) })
	for _, n := range nodes {
		pathOf(n)
		before[n] = nv{wd{n.Flat, n.FlatDiv, n.FlatValue()}, wd{n.Cum, n.CumDiv, n.CumValue()}}
		for _, e := range n.Out {
			pathOf(e.Dest)
		}
	}
	kept := graph.NodePtrSet{}
	for _, i := range cs.KeptIdx {
		if i >= 0 && i < len(nodes) {
			kept[nodes[i]] = true
		}
	}
	// the order in which TrimTree will visit the nodes (g.Nodes as graph.New left it: collected from
	// maps, so it differs from run to run; the model is given the same order)
	goOrder := make([][]graph.NodeInfo, len(g.Nodes))
	for i, n := range g.Nodes {
		goOrder[i] = orig[n]
	}
	// unlisted (all-zero) nodes are not in g.Nodes: TrimTree leaves them linked. The path
	// specification asked through graph.spec does not describe that situation (the TrimTree model does)
	hasUnlisted := false
	for n := range orig {
		if _, listed := before[n]; !listed {
			hasUnlisted = true
		}
	}
	if hasUnlisted {
		c.Res.Hit("tree:unlisted-zero-node(model-only)")
	}
	if pn := safely(func() { g.TrimTree(kept) }); pn != "" {
		c.Violation("C05/tree/panic", "TrimTree panics on a tree built by graph.New: "+pn, cs)
		return
	}
	failed := false
	viol := func(kind, what string) {
		c.Violation("C05/tree/"+kind, what+" ["+q.String()+" strategy="+cs.Strategy+"]", cs)
		failed = true
	}
	// direct oracle on the real code: the property's own statement
	R := newGTable()                      // nodes + every edge seen from a listed node
	Rin, Rout := newGTable(), newGTable() // the same, In maps and Out maps separately
	for _, n := range g.Nodes {
		k := pathKey(orig[n])
		if !kept[n] {
			viol("node-not-kept", fmt.Sprintf("entry %q is shown but was removed", n.Info.PrintableName()))
			return
		}
		if _, dup := R.Flat[k]; dup {
			viol("node-twice", "a node is listed twice after TrimTree")
			return
		}
		for _, t := range []*gTable{R, Rin, Rout} {
			t.Info[k] = orig[n]
			t.Flat[k] = wd{n.Flat, n.FlatDiv, n.FlatValue()}
			t.Cum[k] = wd{n.Cum, n.CumDiv, n.CumValue()}
		}
		if b := before[n]; b.flat != R.Flat[k] || b.cum != R.Cum[k] {
			viol("value-changed", fmt.Sprintf("entry %q: flat/cum changed by TrimTree", n.Info.PrintableName()))
			return
		}
	}
	if len(g.Nodes) != len(kept) {
		viol("node-lost", fmt.Sprintf("%d entries kept, %d shown", len(kept), len(g.Nodes)))
		return
	}
	nres, nbypass2 := 0, 0
	for _, n := range g.Nodes {
		for vi, em := range []graph.EdgeMap{n.In, n.Out} {
			for _, e := range em {
				for _, end := range []*graph.Node{e.Src, e.Dest} {
					if _, listed := before[end]; listed && !kept[end] {
						viol("edge-to-removed", fmt.Sprintf("edge %q -> %q refers to a removed entry", e.Src.Info.PrintableName(), e.Dest.Info.PrintableName()))
						return
					}
				}
				pa, pb := orig[e.Src], orig[e.Dest]
				ka, kb := pathKey(pa), pathKey(pb)
				ge := gEdge{Src: ka, Dst: kb, Wt: wd{e.Weight, e.WeightDiv, e.WeightValue()}, Residual: e.Residual}
				if old, ok := R.Edges[ka+">"+kb]; ok && old != ge {
					viol("in-out-disagree", fmt.Sprintf("In and Out maps disagree about the edge %q -> %q", e.Src.Info.PrintableName(), e.Dest.Info.PrintableName()))
					return
				}
				R.Edges[ka+">"+kb] = ge
				t := Rin
				if vi == 1 {
					t = Rout
				}
				t.Edges[ka+">"+kb] = ge
				t.Info[ka], t.Info[kb] = pa, pb
				R.Info[ka], R.Info[kb] = pa, pb
				// the source must be an ancestor (a proper prefix of the destination's original path);
				// residual iff it is not the original parent
				if len(pa) >= len(pb) || pathKey(pb[:len(pa)]) != ka {
					viol("edge-not-from-ancestor", fmt.Sprintf("edge %q -> %q: the source is not an ancestor of the destination in the untrimmed tree", R.name(ka), R.name(kb)))
					return
				}
				if e.Residual != (len(pa) != len(pb)-1) {
					viol("residual-mark", fmt.Sprintf("edge %q -> %q: residual=%v but it bypasses %d removed entries", R.name(ka), R.name(kb), e.Residual, len(pb)-1-len(pa)))
					return
				}
				if e.Residual {
					nres++
					if len(pb)-len(pa) >= 3 {
						nbypass2++
					}
				}
			}
		}
	}
	if nres > 0 {
		c.Res.Hit("tree:has-residual-edge")
	}
	if nbypass2 > 0 {
		c.Res.Hit("tree:residual-edge-over-2+-removed-levels")
	}
	var kp [][]graph.NodeInfo
	for n := range kept {
		kp = append(kp, orig[n])
	}
	sort.Slice(kp, func(i, j int) bool { return pathKey(kp[i]) < pathKey(kp[j]) })
	if kp == nil {
		kp = [][]graph.NodeInfo{}
	}
	q2 := *q
	q2.keptPaths = kp
	if !hasUnlisted {
		spec, perr := askTables(c, "graph.spec", &q2, nil, false, p0, cs.Profile)
		if perr != "" {
			c.Disagree("C05/spec-unavailable", perr, "driver op graph.spec with kept paths", cs)
			return
		}
		c05Debug("R=%v\nspec=%v", R.Flat, spec.Flat)
		if kind, what := diffTables(R, spec, true); kind != "" {
			viol(kind, what)
		}
	}
	// correspondence: the Lean model of TrimTree (Model/TrimTree.lean), given the same node order
	c.Res.ModelCompared++
	var w tw
	w.n(len(goOrder))
	for _, path := range goOrder {
		w.n(len(path))
		for _, ni := range path {
			w.tok(infoTok(ni))
		}
	}
	clean := cleanTable(p0, c04PathFn)
	reply := c.Drv.Ask("trim.tree " + w.String() + " " + q2.tokens(nil, false, clean, cs.Profile))
	thm := "correspondence TrimTree.trimNewTree ~ Graph.TrimTree (theorems trimTree_*)"
	parts := strings.Split(reply, " ;; ")
	if len(parts) != 2 {
		if failed {
			return
		}
		c.Disagree("C05/model/tree/outcome", "Lean model of TrimTree: "+trunc(reply)+" ["+q.String()+" strategy="+cs.Strategy+"]", thm, cs)
		return
	}
	for i, got := range []*gTable{Rin, Rout} {
		view := []string{"in", "out"}[i]
		M, err := parseLeanTables(parts[i])
		if err != nil {
			c.Disagree("C05/model/tree/reply", err.Error(), thm, cs)
			return
		}
		if kind, what := diffTables(got, M, true); kind != "" && !failed {
			c.Disagree("C05/model/tree/"+view+"/"+kind, "Graph.TrimTree and the Lean model differ ("+view+" maps): "+what+" ["+q.String()+" strategy="+cs.Strategy+"]", thm, cs)
			return
		}
		// diffTables ignores model edges that touch no listed node: there must be none in a view
		for k, e := range M.Edges {
			if _, ok := got.Edges[k]; !ok && !failed {
				c.Disagree("C05/model/tree/"+view+"/edge-missing", fmt.Sprintf("edge %q -> %q of the Lean model is not in the %s maps", M.name(e.Src), M.name(e.Dst), view), thm, cs)
				return
			}
		}
	}
}

// ---------- level "report" / "cli": trimmed reports ----------

func subMultiset(shown, all []string) string {
	m := map[string]int{}
	for _, a := range all {
		m[a]++
	}
	for _, s := range shown {
		if m[s] == 0 {
			return s
		}
		m[s]--
	}
	return ""
}

// c05CheckTrimmed evaluates the output of a trimmed report against the untrimmed figures U
// (Lean Spec) and, for non-visual formats, against the Lean model of the node selection.
// peekEmpty: `pprof -peek` reported "no matches found" (printTree returns an error when it lists
// nothing); acceptable iff nothing should be listed.
func c05CheckTrimmed(c *Ctx, cs *c05Case, level string, out []byte, U *gTable, rq gReq, p0 *profile.Profile, canon string, peekEmpty bool) bool {
	var pr *parsedReport
	var err error
	effNC, effFN, effFD, effEN, effED := cs.eff(level == "cli")
	if c05FloatAmbiguous(sumFlat(U), effFN, effFD) || c05FloatAmbiguous(sumFlat(U), effEN, effED) {
		c.Res.Hit("skipped:non-dyadic-fraction-cutoff-on-an-integer-boundary")
		return true
	}
	switch cs.Format {
	case "text", "top":
		pr, err = parseText(string(out))
	case "tree", "peek":
		if peekEmpty {
			pr = &parsedReport{}
		} else {
			pr, err = parseTree(string(out))
		}
	case "dot":
		pr, err = parseDot(string(out))
	case "topproto":
		pr, err = parseTopProto(out)
	}
	sig := "C05/" + level + "/" + cs.Format + "/"
	desc := fmt.Sprintf(" [nodecount=%d nodefraction=%d/%d edgefraction=%d/%d cum=%v %s]", effNC, effFN, effFD, effEN, effED, cs.CumSort, rq.String())
	if level == "cli" && (cs.NoNodeCount || cs.NoFractions || cs.NodeCount != effNC) {
		desc = fmt.Sprintf(" [command line: %s]", strings.Join(cs.cliArgs("FILE")[:len(cs.cliArgs("FILE"))-1], " ")) + desc
	}
	if err != nil {
		c.Violation(sig+"unparsable", err.Error()+desc, cs)
		return false
	}
	if len(pr.Nodes) < len(U.Flat) {
		c05Removed = true
	}
	c05LastShown = canonNodes(pr.Nodes, true, false, false)
	// (1) every shown entry carries its untrimmed numbers
	exp := expectedDisplay(cs.Format, U)
	if bad := subMultiset(canonNodes(pr.Nodes, true, false, false), canonNodes(exp, true, false, false)); bad != "" {
		c.Violation(sig+"value-changed", "shown row "+bad+" has no untrimmed counterpart with the same flat and cum"+desc, cs)
		return false
	}
	// (2) text-like reports: the shown entries are exactly the Lean model's selection
	if cs.Format != "dot" && !(rq.CallTree) {
		var w tw
		w.int(effFN)
		den := effFD
		if den == 0 {
			den = 1
		}
		w.int(den)
		w.n(effNC)
		w.bool(cs.CumSort)
		keys := sortedKeys2(U.Flat)
		w.n(len(keys))
		for _, k := range keys {
			ni := U.Info[k][0]
			w.str(ni.PrintableName())
			w.str(fmt.Sprint(ni))
			w.int(U.Flat[k].W)
			w.int(U.Cum[k].W)
		}
		reply := c.Drv.Ask("trim.text " + w.String())
		f := strings.Fields(reply)
		if len(f) < 3 || f[0] != "ok" {
			c.Disagree("C05/trim-model-unavailable", "trim.text: "+trunc(reply), "Lean model Trim.trimText", cs)
			return false
		}
		cutoff, _ := strconv.ParseInt(f[1], 10, 64)
		var want []dispNode
		for _, t := range f[3:] {
			i, _ := strconv.Atoi(t)
			if i < 0 || i >= len(keys) {
				c.Res.HarnessError = "trim.text index"
				return false
			}
			one := newGTable()
			k := keys[i]
			one.Flat[k], one.Cum[k], one.Info[k] = U.Flat[k], U.Cum[k], U.Info[k]
			want = append(want, expectedDisplay(cs.Format, one)...)
		}
		got := canonNodes(pr.Nodes, true, false, false)
		wantC := canonNodes(want, true, false, false)
		if d := firstDiff(got, wantC); d != "" {
			kind := "selection"
			if len(got) > len(wantC) {
				kind = "too-many-shown"
			} else if len(got) < len(wantC) {
				kind = "too-few-shown"
			}
			c.Violation(sig+kind, fmt.Sprintf("shown entries differ from {|cum| ≥ cutoff %d} ∩ top %d: %s", cutoff, effNC, d)+desc, cs)
			return false
		}
		if len(wantC) < len(U.Flat) {
			c.Res.Hit("trim:removed-some")
		}
		if len(wantC) == 0 && len(U.Flat) > 0 {
			c.Res.Hit("trim:removed-all")
		}
		// display order = the model's order (multiset equality established; order is C08's, only counted)
		same := len(pr.Nodes) == len(want)
		for i := 0; same && i < len(want); i++ {
			same = pr.Nodes[i].Name == want[i].Name && pr.Nodes[i].Flat == want[i].Flat && pr.Nodes[i].Cum == want[i].Cum
		}
		if same {
			c.Res.Hit("trim:order-as-model")
		} else {
			c.Res.Hit("trim:order-differs-from-model")
		}
		// (2b) reports that print callers and callees (-tree, -peek): the whole context of every shown
		// entry is the Lean Spec under the shown set K — every caller/callee line is an edge between two
		// shown entries with the weight of the adjacency after deleting the removed entries (so the
		// bypass edges are there and no removed entry appears), minus the edges below the edge cutoff.
		// When nothing was removed the graph is the untrimmed one (K = everything listed; edges to
		// entries that are never listed because all their figures are zero stay).
		// (on profiles with hundreds of entries only when at most 100 are shown: the Spec under a large
		// kept set is expensive)
		if (cs.Format == "tree" || cs.Format == "peek") && !peekEmpty && (len(keys) <= 200 || len(f[3:]) <= 100) {
			S := U
			if len(f[3:]) < len(keys) {
				keptList := []graph.NodeInfo{}
				for _, t := range f[3:] {
					i, _ := strconv.Atoi(t)
					keptList = append(keptList, U.Info[keys[i]][0])
				}
				var perr string
				S, perr = askTables(c, "graph.spec", &rq, keptList, true, p0, canon)
				if perr != "" {
					c.Disagree("C05/spec-unavailable", perr, "driver op graph.spec with kept set", cs)
					return false
				}
				c.Res.Hit("context:rebuilt-under-shown-set")
			}
			edgeCut := int64(float64(sumFlat(U)) * frac(effEN, effED))
			if edgeCut < 0 {
				edgeCut = -edgeCut
			}
			Sf := *S
			Sf.Edges = map[string]gEdge{}
			nres := 0
			for k, e := range S.Edges {
				aw := e.Wt.W
				if aw < 0 {
					aw = -aw
				}
				// TrimLowFrequencyEdges walks the In maps of the LISTED nodes: an edge into an entry
				// that is not listed (all figures zero; only present when nothing was removed) stays
				if _, dstListed := S.Flat[e.Dst]; dstListed && aw < edgeCut {
					continue
				}
				Sf.Edges[k] = e
				if e.Residual {
					nres++
				}
			}
			if nres > 0 {
				c.Res.Hit("context:has-bypass-edge")
			}
			gotE := canonNodes(pr.Nodes, true, true, false)
			wantE := canonNodes(expectedDisplay(cs.Format, &Sf), true, true, false)
			if d := firstDiff(gotE, wantE); d != "" {
				shownNames := map[string]bool{}
				for _, n := range pr.Nodes {
					shownNames[n.Name] = true
				}
				kind := "context"
				for _, n := range pr.Nodes {
					for _, e := range append(append([]dispEdge{}, n.In...), n.Out...) {
						if !shownNames[e.Name] && len(f[3:]) < len(keys) {
							kind = "context-names-removed-entry"
						}
					}
				}
				c.Violation(sig+kind, "callers/callees of the shown entries differ from the Spec under the shown set (edge cutoff "+strconv.FormatInt(edgeCut, 10)+"): "+d+desc, cs)
				return false
			}
		}
	}
	// (2c) dot (the visual selection order is not modelled; without tags its SIZE is): the number of
	// entries drawn is min(nodecount, survivors of the node cutoff), all survivors when nodecount = 0
	if cs.Format == "dot" && !rq.CallTree {
		cut := int64(float64(sumFlat(U)) * frac(effFN, effFD))
		if cut < 0 {
			cut = -cut
		}
		surv := 0
		for _, v := range U.Cum {
			a := v.W
			if a < 0 {
				a = -a
			}
			if a >= cut {
				surv++
			}
		}
		want := surv
		if effNC > 0 && effNC < surv {
			want = effNC
		}
		if len(pr.Nodes) != want {
			c.Violation(sig+"node-count", fmt.Sprintf("%d entries are drawn, expected %d (= min(nodecount, %d entries with |cum| ≥ cutoff %d), nodecount 0 meaning no limit)", len(pr.Nodes), want, surv, cut)+desc, cs)
			return false
		}
	}
	// (3) legend: accounting for = Σ shown flat; total = untrimmed total
	if cs.Format != "topproto" && !peekEmpty {
		shown, total, ok := parseAccounting(pr.Labels)
		if !ok {
			c.Violation(sig+"legend-unparsable", strings.Join(pr.Labels, " / ")+desc, cs)
			return false
		}
		var sum int64
		for _, n := range pr.Nodes {
			sum += n.Flat
		}
		if shown != sum {
			c.Violation(sig+"accounting-for", fmt.Sprintf("legend says %d, the shown flat values sum to %d", shown, sum)+desc, cs)
			return false
		}
		if total != U.Total.V {
			c.Violation(sig+"total", fmt.Sprintf("legend total %d, expected %d", total, U.Total.V)+desc, cs)
			return false
		}
	}
	// (4) edges: non-residual ones carry an untrimmed weight; none refers to an undeclared entry
	if cs.Format == "tree" || cs.Format == "dot" {
		uEdges := map[string]int{}
		for _, e := range U.Edges {
			a, b := U.Info[e.Src], U.Info[e.Dst]
			uEdges[fmt.Sprintf("%s>%s=%d", a[len(a)-1].PrintableName(), b[len(b)-1].PrintableName(), e.Wt.V)]++
		}
		for _, n := range pr.Nodes {
			for _, e := range n.Out {
				if e.Name == unlistedName {
					// DOT edge to a node id that is not declared (entries that are not listed — removed
					// by trimming or never listed because all their figures are zero — have no DOT node;
					// ComposeDot skips such edges since fix 1120e19)
					c.Violation(sig+"dangling-edge", fmt.Sprintf("edge from %q to an entry that is not declared", n.Name)+desc, cs)
					return false
				}
				if cs.Format == "dot" && !e.Residual && uEdges[fmt.Sprintf("%s>%s=%d", n.Name, e.Name, e.W)] == 0 {
					c.Violation(sig+"nonresidual-edge-weight", fmt.Sprintf("edge %q -> %q (%d) is not marked residual but the untrimmed report has no such edge weight", n.Name, e.Name, e.W)+desc, cs)
					return false
				}
				if e.Residual {
					c.Res.Hit("dot:residual-edge-shown")
				}
			}
		}
		if cs.Format == "dot" {
			declared := map[int]bool{}
			for _, n := range pr.Nodes {
				declared[n.ID] = true
			}
			for _, e := range pr.DotEdges {
				if !declared[e.From] || !declared[e.To] {
					c.Violation(sig+"dangling-edge", fmt.Sprintf("edge N%d -> N%d refers to an undeclared node", e.From, e.To)+desc, cs)
					return false
				}
			}
		}
	}
	return true
}

func c05ReportOptions(cs *c05Case, p *profile.Profile) *report.Options {
	q := &cs.Req
	ro := &report.Options{OutputFormat: c04Formats[cs.Format], CallTree: q.CallTree, CumSort: cs.CumSort, SampleValue: valueAt(q.VI),
		SampleType: p.SampleType[q.VI].Type, SampleUnit: "count", OutputUnit: "minimum", Ratio: 1,
		NodeCount: cs.NodeCount, NodeFraction: frac(cs.FracNum, cs.FracDen), EdgeFraction: frac(cs.EdgeNum, cs.EdgeDen),
		SourcePath: cs.SourcePath, TrimPath: cs.TrimPath}
	if q.Mean {
		ro.SampleMeanDivisor = valueAt(0)
	}
	if cs.Format == "peek" {
		ro.Symbol = regexp.MustCompile(".")
	}
	return ro
}

func c05Report(c *Ctx, cs *c05Case) {
	defer c05UsePaths(cs)()
	p, err := ParseCanon(cs.Profile)
	if err != nil {
		c.Res.HarnessError = err.Error()
		return
	}
	p0, _ := ParseCanon(cs.Profile)
	q := &cs.Req
	var buf bytes.Buffer
	var genErr error
	pn := safely(func() {
		rpt := report.New(p, c05ReportOptions(cs, p))
		if genErr = aggregateReal(p, q.Agg); genErr != nil {
			return
		}
		genErr = report.Generate(&buf, rpt, nil)
	})
	if pn != "" {
		c.Violation("C05/report/"+cs.Format+"/panic", "report.Generate panics: "+pn, cs)
		return
	}
	peekEmpty := false
	if genErr != nil && cs.Format == "peek" && strings.Contains(genErr.Error(), "no matches found for regexp") {
		// printTree reports an error when it lists nothing; acceptable iff nothing should be listed
		peekEmpty, genErr = true, nil
		c.Res.Hit("peek-empty-report")
	}
	if genErr != nil {
		c.Violation("C05/report/"+cs.Format+"/error", genErr.Error(), cs)
		return
	}
	rq := reportReq(*q, cs.Format)
	c05Debug("---- output ----\n%s", buf.String())
	U, perr := askTables(c, "graph.spec", &rq, nil, false, p0, cs.Profile)
	if perr != "" {
		c.Disagree("C05/spec-unavailable", perr, "driver op graph.spec", cs)
		return
	}
	if !c05CheckTrimmed(c, cs, "report", buf.Bytes(), U, rq, p0, cs.Profile, peekEmpty) {
		return
	}
	// dot, graph mode: take the survivor set chosen by the code as given and check the rebuilt graph
	// against the Lean Spec under that kept set (residual marks and weights); edges may additionally
	// be dropped by edgefraction or as redundant residual edges.
	if cs.Format == "dot" && !rq.CallTree {
		p2, _ := ParseCanon(cs.Profile)
		var g *graph.Graph
		pn := safely(func() {
			rpt := report.New(p2, c05ReportOptions(cs, p2))
			if aggregateReal(p2, q.Agg) != nil {
				return
			}
			g, _ = report.GetDOT(rpt)
		})
		if pn != "" || g == nil {
			c.Violation("C05/report/dot/panic", "GetDOT: "+pn, cs)
			return
		}
		R, problem := realTables(g, false)
		if problem != "" {
			c.Violation("C05/report/dot/structure", problem, cs)
			return
		}
		var keptList []graph.NodeInfo
		for _, k := range sortedKeys2(R.Flat) {
			keptList = append(keptList, R.Info[k][0])
		}
		if keptList == nil {
			keptList = []graph.NodeInfo{}
		}
		if len(R.Flat) == len(U.Flat) {
			return // nothing removed: C04's case
		}
		S, perr := askTables(c, "graph.spec", &rq, keptList, true, p0, cs.Profile)
		if perr != "" {
			c.Disagree("C05/spec-unavailable", perr, "driver op graph.spec with kept set", cs)
			return
		}
		c.Res.ModelCompared++
		// nodes: exactly the kept ones with the Spec's figures; edges: a subset, each with the Spec's weight and mark
		edgeCut := int64(float64(sumFlat(U)) * frac(cs.EdgeNum, cs.EdgeDen))
		if edgeCut < 0 {
			edgeCut = -edgeCut
		}
		Rn, Sn := *R, *S
		Rn.Edges, Sn.Edges = map[string]gEdge{}, map[string]gEdge{}
		if kind, what := diffTables(&Rn, &Sn, false); kind != "" {
			c.Violation("C05/report/dot/"+kind, what, cs)
			return
		}
		for _, ek := range sortedKeys2(R.Edges) {
			e := R.Edges[ek]
			se, ok := S.Edges[ek]
			switch {
			case !ok:
				c.Violation("C05/report/dot/edge-extra", fmt.Sprintf("edge %q -> %q does not follow from the samples and the kept set", R.name(e.Src), R.name(e.Dst)), cs)
			case se.Wt != e.Wt:
				c.Violation("C05/report/dot/edge-weight", fmt.Sprintf("edge %q -> %q: weight %d, expected %d", R.name(e.Src), R.name(e.Dst), e.Wt.W, se.Wt.W), cs)
			case se.Residual != e.Residual:
				c.Violation("C05/report/dot/residual-mark", fmt.Sprintf("edge %q -> %q: residual=%v, expected %v", R.name(e.Src), R.name(e.Dst), e.Residual, se.Residual), cs)
			}
		}
		for _, ek := range sortedKeys2(S.Edges) {
			se := S.Edges[ek]
			if _, ok := R.Edges[ek]; ok {
				continue
			}
			aw := se.Wt.W
			if aw < 0 {
				aw = -aw
			}
			if aw < edgeCut || se.Residual {
				continue // dropped by edgefraction, or a redundant residual edge
			}
			c.Violation("C05/report/dot/edge-missing", fmt.Sprintf("edge %q -> %q (weight %d ≥ edge cutoff %d, not residual) is missing", S.name(se.Src), S.name(se.Dst), se.Wt.W, edgeCut), cs)
		}
	}
}

func sumFlat(t *gTable) int64 {
	var s int64
	for _, v := range t.Flat {
		s += v.W
	}
	return s
}

func fracArg(num, den int64) string {
	return strconv.FormatFloat(frac(num, den), 'f', -1, 64)
}

func (cs *c05Case) cliArgs(file string) []string {
	fmtArg := "-" + cs.Format
	if cs.Format == "peek" {
		fmtArg = "-peek=."
	}
	args := []string{fmtArg, "-symbolize=none"}
	if !cs.NoNodeCount {
		args = append(args, "-nodecount="+strconv.Itoa(cs.NodeCount))
	}
	if !cs.NoFractions {
		args = append(args, "-nodefraction="+fracArg(cs.FracNum, cs.FracDen), "-edgefraction="+fracArg(cs.EdgeNum, cs.EdgeDen))
	}
	if cs.Gran != "" {
		args = append(args, "-"+cs.Gran)
	}
	if cs.NoInlines {
		args = append(args, "-noinlines")
	}
	if cs.Req.CallTree {
		args = append(args, "-call_tree")
	}
	if cs.Req.Mean {
		args = append(args, "-mean")
	}
	if cs.CumSort {
		args = append(args, "-cum")
	}
	args = append(args, "-sample_index="+strconv.Itoa(cs.Req.VI))
	if cs.SourcePath != "" {
		args = append(args, "-source_path="+cs.SourcePath)
	}
	if cs.TrimPath != "" {
		args = append(args, "-trim_path="+cs.TrimPath)
	}
	return append(args, file)
}

func c05CLICheck(c *Ctx, cs *c05Case, res cliResult) {
	defer c05UsePaths(cs)()
	peekEmpty := false
	if res.err != nil && cs.Format == "peek" && strings.Contains(string(res.errOut), "no matches found for regexp") {
		peekEmpty = true
		res.err = nil
		c.Res.Hit("peek-empty-report")
	}
	if res.err != nil {
		c.Violation("C05/cli/"+cs.Format+"/error", fmt.Sprintf("pprof %v fails: %v: %s", cs.cliArgs("FILE"), res.err, trunc(string(res.errOut))), cs)
		return
	}
	p0, err := ParseCanon(cs.Profile)
	if err != nil {
		c.Res.HarnessError = err.Error()
		return
	}
	var buf bytes.Buffer
	p0.Write(&buf)
	if p0, err = profile.Parse(&buf); err != nil {
		c.Res.HarnessError = "re-read: " + err.Error()
		return
	}
	c4 := &c04Case{Format: cs.Format, Gran: cs.Gran, NoInlines: cs.NoInlines, SampleIndex: strconv.Itoa(cs.Req.VI), Req: cs.Req}
	q, perr := cliReq(c, c4, p0)
	if perr != "" {
		c.Disagree("C05/cli/options", perr, "model of driver.aggregate / SampleIndexByName", cs)
		return
	}
	rq := reportReq(q, cs.Format)
	canon0 := Canon(p0)
	if cs.Format == "callgrind" || cs.Format == "traces" {
		// never trimmed, whatever nodecount / fractions say: the complete untrimmed output (C04's reading)
		var want *gTable
		var frames *leanFrames
		var perr string
		ck := cs.Format + rq.String() + "|" + canon0
		if cs.Format == "traces" {
			if frames = c05BigFrames[ck]; frames == nil {
				frames, perr = askFrames(c, &rq, p0, canon0)
				c05BigFrames[ck] = frames
			}
		} else if want = c05BigSpec[ck]; want == nil {
			want, perr = askTables(c, "graph.spec", &rq, nil, false, p0, canon0)
			c05BigSpec[ck] = want
		}
		if perr != "" {
			c.Disagree("C05/spec-unavailable", perr, "driver op graph.spec / graph.frames", cs)
			return
		}
		if kind, what := checkDisplay(c, cs.Format, res.out, want, frames); kind != "" {
			c.Violation("C05/cli/"+cs.Format+"/not-the-untrimmed-report/"+kind, fmt.Sprintf("%s output is never trimmed, but with %v it differs from the untrimmed report: %s", cs.Format, cs.cliArgs("FILE"), what), cs)
		}
		return
	}
	// the untrimmed Spec tables of a LARGE profile are asked once per option point (several CLI
	// cases of the web stream share profile and options)
	ck := rq.String() + "|" + canon0
	U := c05BigSpec[ck]
	if U == nil {
		var perr string
		U, perr = askTables(c, "graph.spec", &rq, nil, false, p0, canon0)
		if perr != "" {
			c.Disagree("C05/spec-unavailable", perr, "driver op graph.spec", cs)
			return
		}
		if len(canon0) > 20000 {
			c05BigSpec[ck] = U
		}
	}
	c05CheckTrimmed(c, cs, "cli", res.out, U, rq, p0, canon0, peekEmpty)
}

func c05Run(c *Ctx, cs *c05Case) {
	switch cs.Level {
	case "kept":
		c05Kept(c, cs)
	case "tree":
		c05Tree(c, cs)
	case "report":
		c05Report(c, cs)
	case "cli":
		if c.Pprof != "" {
			c05CLICheck(c, cs, runPprof(c, cs.Profile, cs.cliArgs, 0))
		}
	case "web":
		c05Web(c, cs, nil, nil)
	case "climono":
		if c.Pprof != "" {
			c05CLIMono(c, cs)
		}
	}
}

// ---------- generation ----------

// c05PickKept chooses which entries to keep, by shape relative to the untrimmed graph.
func c05PickKept(r *Rng, strategy string, g *graph.Graph, order []*graph.Node) []int {
	var idx []int
	for i, n := range order {
		leaf, root := len(n.Out) == 0, len(n.In) == 0
		keep := true
		switch strategy {
		case "random":
			keep = r.Chance(60)
		case "remove-leaves":
			keep = !leaf || r.Chance(20)
		case "remove-roots":
			keep = !root || r.Chance(20)
		case "remove-middles":
			keep = leaf || root || r.Chance(25)
		case "remove-one":
			keep = true
		case "remove-all":
			keep = false
		case "keep-one":
			keep = false
		}
		if keep {
			idx = append(idx, i)
		}
	}
	switch strategy {
	case "remove-one":
		if len(idx) > 0 {
			k := r.Intn(len(idx))
			idx = append(idx[:k], idx[k+1:]...)
		}
	case "keep-one":
		if len(order) > 0 {
			idx = []int{r.Intn(len(order))}
		}
	}
	if idx == nil {
		idx = []int{}
	}
	return idx
}

var c05KeptStrategies = []string{"random", "remove-leaves", "remove-roots", "remove-middles", "remove-one", "remove-all", "keep-one", "cutoff", "top-n"}

func runC05(c *Ctx) {
	c.Res.Rule = "profiles as for C04 (9 stack-shape strategies, small values so that fraction products are exact) × (a) graph.New rebuilt with a kept set chosen by 9 strategies (random, remove leaves / roots / chain middles / one / all, keep one, cum cutoff, top-N) — shown figures vs the untrimmed graph.New and vs the Lean Spec under K incl. residual weights and marks, model correspondence; (b) TrimTree on call trees with kept pointer sets — direct oracle (kept nodes only, figures unchanged, every edge comes from an ancestor and is residual iff it bypasses a node, no edge to a removed node, In/Out agree), vs Lean Spec on path keys, and correspondence with the Lean model of TrimTree (In and Out maps of every listed node, node order as in Go, unlisted all-zero nodes included); (c) report.Generate text/tree/topproto/dot with nodecount × nodefraction × edgefraction × sort grids — shown rows ⊆ untrimmed rows, selection = Lean Trim model, legend 'accounting for' = Σ shown flat, dot residual marks vs Spec under the survivor set, no dangling edges; (c2) tree / text / peek reports with nodecount chosen relative to the measured counts N (entries of the untrimmed graph) and S (survivors of the nodefraction cut): nodecount ∈ {S−1, S, S+1, (S+N)/2, N−1, N, N+1}, fraction preferring 0<S<N; for tree/peek (all levels) the complete caller/callee context of every shown entry = Lean Spec under the shown set minus edges below the edge cutoff (no removed entry is named, bypass edges present); (d) the same through the pprof CLI (text, tree, dot, topproto; -peek switches trimming off in the driver, so peek under trimming is exercised in-process only). (e) web UI: /top of the web interface (HTTPServer hook) on one or two profiles per run with more entries than every built-in limit (300–900 functions; the view forces nodecount 500) with nf/n/sort/si URL parameters — on the SERVED rows and header: legend 'accounting for' = Σ flat of the rows served, rows = Lean Trim selection with the Lean Spec's untrimmed figures, 'Showing top N nodes out of M' present iff rows were cut (N, M checked); plus CLI -text on the same profiles with -nodecount 499/500/501/entries±1/80, and on the first large profile of the run every CLI output family (text, top, tree, peek, dot, callgrind, traces, topproto) × nodecount ∈ {unset, -1, 0, 1, 79, 80, 81, entries−1, entries, entries+1} with the fractions unset / 0 / small (rotating): every run is judged by the DOCUMENTED meaning of its settings (0 = no limit, unset or -1 = the command's default: no limit for text/top/topproto, 80 for graph-like commands; fractions unset = 0.005/0.001; peek, callgrind, traces never trimmed) against the Lean Trim model / Spec (dot: number of entries drawn), then monotonicity: entries shown under a larger limit ⊇ entries shown under a smaller one. (f) text/tree reports (in-process and CLI) with source_path / trim_path on profiles whose file names repeat a path component equal to the basename of a source_path directory or to a relative trim_path, at the granularities that keep file names (addresses, lines, filefunctions, files), nodecount 1, 2, N−1, (N+1)/2: expected entries = Lean Spec with the file-name table Clean(trimOnce(name)). non-trivial = the trimming removed at least one entry; distinct by canonical profile + options"
	if c.Replay != "" {
		var cs c05Case
		if err := c.LoadReplay(&cs); err != nil {
			c.Res.HarnessError = err.Error()
			return
		}
		c05Run(c, &cs)
		c.Res.Evaluations++
		return
	}
	r := NewRng(c.Seed ^ 0xC05)
	nProfiles := 360 * c.Scale
	var cliCases []*c05Case
	fracs := [][2]int64{{0, 1}, {1, 64}, {1, 16}, {1, 8}, {1, 4}, {3, 8}, {1, 2}, {3, 4}, {1, 1}, {2, 1}}
	for i := 0; i < nProfiles; i++ {
		st := c04Strategies[i%len(c04Strategies)]
		if st == "empty" && i%2 == 0 {
			st = "deep"
		}
		p := genC04Profile(r, &c04GenOpts{Strategy: st})
		canon := Canon(p)
		c.Res.Hit("strategy:" + st)
		// (a) kept sets on graph.New
		for k := 0; k < 3; k++ {
			q := gReq{ObjNames: r.Chance(20), Agg: c04RandAgg(r), VI: r.Intn(len(p.SampleType)), Mean: r.Chance(30)}
			g, prob := buildGraph(canon, &q, nil)
			if prob != "" {
				continue
			}
			U, _ := realTables(g, false)
			keys := sortedKeys2(U.Flat)
			byKey := map[string]*graph.Node{}
			for _, n := range g.Nodes {
				byKey[pathKey([]graph.NodeInfo{n.Info})] = n
			}
			order := make([]*graph.Node, len(keys))
			for j, kk := range keys {
				order[j] = byKey[kk]
			}
			ks := c05KeptStrategies[(i+k)%len(c05KeptStrategies)]
			var idx []int
			switch ks {
			case "cutoff":
				cut := int64(1 + r.Intn(40))
				set := g.DiscardLowFrequencyNodes(cut)
				for j, n := range order {
					if set[n.Info] {
						idx = append(idx, j)
					}
				}
			case "top-n":
				g.SortNodes(r.Bool(), false)
				set := g.SelectTopNodes(1+r.Intn(4), false)
				for j, n := range order {
					if set[n.Info] {
						idx = append(idx, j)
					}
				}
			default:
				idx = c05PickKept(r, ks, g, order)
			}
			if idx == nil {
				idx = []int{}
			}
			cs := &c05Case{Level: "kept", Profile: canon, Req: q, KeptIdx: idx, Strategy: ks}
			c.Res.Count(canon+"kept"+q.String()+fmt.Sprint(idx), len(idx) < len(order))
			c.Res.Hit("kept-strategy:" + ks)
			c05Kept(c, cs)
		}
		// (b) TrimTree
		{
			q := gReq{CallTree: true, Agg: c04RandAgg(r), VI: r.Intn(len(p.SampleType)), Mean: r.Chance(30)}
			g, prob := buildGraph(canon, &q, nil)
			if prob == "" {
				order := append(graph.Nodes(nil), g.Nodes...)
				n := len(order)
				ks := c05KeptStrategies[(i*3)%7]
				// order as c05Tree sorts: by original path key
				paths := map[*graph.Node]string{}
				var pk func(n *graph.Node) string
				pk = func(n *graph.Node) string {
					if s, ok := paths[n]; ok {
						return s
					}
					s := ""
					for src := range n.In {
						s = pk(src) + "|"
						break
					}
					s += infoTok(n.Info)
					paths[n] = s
					return s
				}
				sort.Slice(order, func(a, b int) bool { return pk(order[a]) < pk(order[b]) })
				idx := c05PickKept(r, ks, g, order)
				cs := &c05Case{Level: "tree", Profile: canon, Req: q, KeptIdx: idx, Strategy: ks}
				c.Res.Count(canon+"tree"+q.String()+fmt.Sprint(idx), len(idx) < n)
				c.Res.Hit("tree-strategy:" + ks)
				c05Tree(c, cs)
			}
		}
		// (c) trimmed reports in-process, (d) CLI
		formats := []string{"text", "tree", "dot", "topproto", "text", "dot"}
		for k := 0; k < 3; k++ {
			f := fracs[r.Intn(len(fracs))]
			e := fracs[r.Intn(5)]
			cs := &c05Case{Level: "report", Profile: canon, Format: formats[(i+k)%len(formats)],
				Req:       gReq{CallTree: r.Chance(25), Agg: c04RandAgg(r), VI: r.Intn(len(p.SampleType)), Mean: r.Chance(25)},
				NodeCount: []int{0, 1, 2, 3, 5, 8, 100}[r.Intn(7)], FracNum: f[0], FracDen: f[1], EdgeNum: e[0], EdgeDen: e[1], CumSort: r.Bool()}
			c.Res.Hit("report-format:" + cs.Format)
			c.Res.Hit(fmt.Sprintf("nodecount:%d", cs.NodeCount))
			c.Res.Hit("nodefraction:" + fracArg(cs.FracNum, cs.FracDen))
			if i < 2 && k == 0 {
				c.Res.Sample(map[string]any{"strategy": st, "format": cs.Format, "nodecount": cs.NodeCount, "nodefraction": fracArg(cs.FracNum, cs.FracDen), "profile": trunc(canon)})
			}
			c05Removed = false
			c05Report(c, cs)
			c.Res.Count(canon+"report"+fmt.Sprint(*cs), c05Removed)
			if k == 0 && i%2 == 0 && c.Pprof != "" {
				cc := *cs
				cc.Level = "cli"
				cc.Format = []string{"text", "tree", "dot", "topproto"}[(i/2)%4]
				cc.Req.Agg = nil
				cc.Gran = r.Pick([]string{"", "functions", "filefunctions", "files", "lines", "addresses"})
				cc.NoInlines = r.Chance(30)
				cliCases = append(cliCases, &cc)
				c.Res.Hit("cli-format:" + cc.Format)
			}
		}
		// (c2) node counts chosen RELATIVE to what was measured on this profile: N = entries of the
		// untrimmed graph, S = survivors of the nodefraction cut; nodecount ∈ {S−1, S, S+1, (S+N)/2,
		// N−1, N, N+1} — the windows in which one trimming stage removes something and the other does
		// not — for the reports that print callers/callees (tree, peek) and for text. The fraction is
		// picked among those that leave 0 < S < N when there is one. (N and S are computed here with
		// plain Go arithmetic only to CHOOSE parameters; the oracle does not use them.)
		{
			rq := gReq{Agg: &[6]bool{true, true, false, false, false, false}, VI: r.Intn(len(p.SampleType)), Mean: r.Chance(25)}
			if r.Chance(40) {
				rq.Agg = c04RandAgg(r)
			}
			cliAble := rq.Agg != nil && *rq.Agg == [6]bool{true, true, false, false, false, false}
			if g, prob := buildGraph(canon, &rq, nil); prob == "" && len(g.Nodes) > 0 {
				N := len(g.Nodes)
				var tot int64
				for _, n := range g.Nodes {
					tot += n.Flat
				}
				type cand struct {
					f [2]int64
					S int
				}
				var good, all []cand
				for _, f := range fracs {
					cut := int64(float64(tot) * frac(f[0], f[1]))
					if cut < 0 {
						cut = -cut
					}
					S := 0
					for _, n := range g.Nodes {
						a := n.Cum
						if a < 0 {
							a = -a
						}
						if a >= cut {
							S++
						}
					}
					all = append(all, cand{f, S})
					if S > 0 && S < N {
						good = append(good, cand{f, S})
					}
				}
				pick := all[r.Intn(len(all))]
				if len(good) > 0 && r.Chance(85) {
					pick = good[r.Intn(len(good))]
				}
				S := pick.S
				rel := []int{S - 1, S, S + 1, (S + N) / 2, N - 1, N, N + 1}
				for k, format := range []string{"tree", "text", "peek"} {
					nc := rel[r.Intn(len(rel))]
					if nc < 1 {
						nc = 1
					}
					e := fracs[r.Intn(4)]
					cs := &c05Case{Level: "report", Profile: canon, Format: format, Req: rq, NodeCount: nc,
						FracNum: pick.f[0], FracDen: pick.f[1], EdgeNum: e[0], EdgeDen: e[1], CumSort: r.Bool()}
					window := "other"
					switch {
					case S < N && S <= nc && nc < N:
						window = "cut-removes,count-does-not(S<=nc<N)"
					case S < N && nc < S:
						window = "both-remove(nc<S<N)"
					case S == N && nc < N:
						window = "count-only(nc<S=N)"
					case S < N && nc >= N:
						window = "cut-only(nc>=N)"
					}
					c.Res.Hit("relgrid:" + window)
					c.Res.Hit("relgrid-format:" + format)
					c05Removed = false
					c05Report(c, cs)
					c.Res.Count(canon+"relgrid"+fmt.Sprint(*cs), c05Removed)
					// through the CLI only -tree: for -peek the driver switches trimming off
					// (applyCommandOverrides: trim = false), so peek under trimming exists in-process only
					if cliAble && (i+k)%2 == 0 && c.Pprof != "" && format == "tree" {
						cc := *cs
						cc.Level = "cli"
						cc.Req.Agg = nil
						cc.Gran = "functions"
						cliCases = append(cliCases, &cc)
						c.Res.Hit("cli-relgrid-format:" + cc.Format)
					}
				}
			}
		}
	}
	// (e) web UI stream and CLI reports on profiles larger than every built-in limit
	tWeb := time.Now()
	c05WebStream(c, &cliCases)
	c05Debug("web stream: %v (generation before it: see total)", time.Since(tWeb))
	// (f) reports with source_path / trim_path (file names are rewritten before every graph is built)
	c05TrimPathStream(c, &cliCases)
	results := make([]cliResult, len(cliCases))
	var wg sync.WaitGroup
	sem := make(chan struct{}, 12)
	for i, cs := range cliCases {
		wg.Add(1)
		go func(i int, cs *c05Case) {
			defer wg.Done()
			sem <- struct{}{}
			defer func() { <-sem }()
			results[i] = runPprof(c, cs.Profile, cs.cliArgs, i+1)
		}(i, cs)
	}
	wg.Wait()
	c05Debug("pprof processes done: %v since web stream start", time.Since(tWeb))
	for i, cs := range cliCases {
		c05Removed = false
		tc := time.Now()
		c05CLICheck(c, cs, results[i])
		if d := time.Since(tc); d > 300*time.Millisecond {
			c05Debug("slow CLI check %v: %v", d, cs.cliArgs("F")[:4])
		}
		c.Res.Count(cs.Profile+"cli"+strings.Join(cs.cliArgs("F"), " "), c05Removed)
	}
	if c04TmpDir != "" {
		os.RemoveAll(c04TmpDir)
	}
}

var c05BigSpec = map[string]*gTable{}
var c05BigFrames = map[string]*leanFrames{}

// c05LastShown: the rows (name, flat, cum) of the report c05CheckTrimmed parsed last.
var c05LastShown []string

// c05Removed is set by c05CheckTrimmed when the report shows fewer entries than the untrimmed
// graph has (the non-triviality criterion of the report/cli levels).
var c05Removed bool

func c05Debug(format string, a ...any) {
	if os.Getenv("VERIF_DEBUG") != "" {
		fmt.Fprintf(os.Stderr, format+"\n", a...)
	}
}
