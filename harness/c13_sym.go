//go:build verif

package main

// C13, symbolizer *histories*: the same ELF file is opened at several load biases inside one
// process / one Binutils instance and the lookups on the resulting ObjFiles are interleaved.
// Three tool chains, each through the public entry points only (binutils.SetTools, Open,
// SourceLine):
//   nm    fast symbolization (fileNM -> addr2LinerNM)
//   a2l   addr2line + nm for fuller names (fileAddr2Line -> addr2Liner{nm}), llvm-symbolizer hidden
//   llvm  llvm-symbolizer
// The external tools are fakes answering from the case's symbol table: this very binary,
// re-executed under the names nm / addr2line / llvm-symbolizer (see init below).
//
// Oracle (direct): the function named for runtime address x of a handle opened at bias B is the
// function whose link-time range contains x − B (nm: the greatest start ≤ x − B); every answer
// also equals the answer of a fresh Binutils instance that has only ever seen that bias (on a
// private copy of the file, so no cache keyed by file name can leak into the reference).
// Model: the nm part is Elf.addrInfo on the table relocated by B (driver op nm.addrinfo); the
// addr2line merge rule (nm name wins iff longer by ≥ 2) is applied to it.

import (
	"bufio"
	"fmt"
	"os"
	"path/filepath"
	"regexp"
	"sort"
	"strconv"
	"strings"
	"sync"
	"time"

	"github.com/google/pprof/internal/binutils"
	"github.com/google/pprof/internal/plugin"
)

// ---------------------------------------------------------------------------------------------
// fake tools (self re-exec)

const c13FakeEnv = "PVC13_FAKE_TOOLS"
const c13FakeDelayEnv = "PVC13_FAKE_DELAY_US" // fakes wait this long between reading a request and answering

func c13FakeDelay() {
	if us, err := strconv.Atoi(os.Getenv(c13FakeDelayEnv)); err == nil && us > 0 {
		time.Sleep(time.Duration(us) * time.Microsecond)
	}
}

func init() {
	if os.Getenv(c13FakeEnv) == "" {
		return
	}
	c13FakeLogArgv()
	switch filepath.Base(os.Args[0]) {
	case "nm":
		c13FakeNMMain()
	case "addr2line":
		c13FakeAddr2lineMain()
	case "llvm-symbolizer":
		c13FakeLLVMMain()
	default:
		return
	}
	os.Exit(0)
}

// c13FakeLogArgv appends "tool<TAB>args…" to argv.log next to the fake tool (O_APPEND: one write).
func c13FakeLogArgv() {
	f, err := os.OpenFile(filepath.Join(filepath.Dir(os.Args[0]), "argv.log"), os.O_APPEND|os.O_CREATE|os.O_WRONLY, 0o644)
	if err != nil {
		return
	}
	f.WriteString(filepath.Base(os.Args[0]) + "\t" + strings.Join(os.Args[1:], "\t") + "\n")
	f.Close()
}

type c13FakeSym struct {
	start, size   uint64
	nmName, short string
	typ, inlined  string
}

// table file: one symbol per line "start size nmName shortName type inlined|-" (hex numbers)
func c13ReadSyms(file string) []c13FakeSym {
	b, err := os.ReadFile(file + ".syms")
	if err != nil {
		os.Exit(1)
	}
	var out []c13FakeSym
	for _, l := range strings.Split(string(b), "\n") {
		f := strings.Fields(l)
		if len(f) != 6 {
			continue
		}
		a, _ := strconv.ParseUint(f[0], 16, 64)
		s, _ := strconv.ParseUint(f[1], 16, 64)
		out = append(out, c13FakeSym{a, s, f[2], f[3], f[4], f[5]})
	}
	return out
}

func c13Containing(t []c13FakeSym, a uint64) *c13FakeSym {
	for i := range t {
		if a >= t[i].start && a-t[i].start < t[i].size {
			return &t[i]
		}
	}
	return nil
}

// c13FakeFmt reads the output-format adversaries requested for file.
func c13FakeFmt(file string) map[string]bool {
	m := map[string]bool{}
	b, _ := os.ReadFile(file + ".fmt")
	for _, f := range strings.Fields(string(b)) {
		m[f] = true
	}
	return m
}

// nm --numeric-sort --print-size --format=posix <file>   (name type addr size)
// nm -n <file>                                           (addr type name)
func c13FakeNMMain() {
	file := os.Args[len(os.Args)-1]
	ft := c13FakeFmt(file)
	nl := "\n"
	if ft["crlf"] {
		nl = "\r\n"
	}
	bsd := len(os.Args) > 1 && os.Args[1] == "-n"
	var lines []string
	for i, s := range c13ReadSyms(file) {
		if ft["blank"] && i%3 == 1 {
			lines = append(lines, "")
		}
		if bsd {
			lines = append(lines, fmt.Sprintf("%016x %s %s", s.start, s.typ, s.nmName))
		} else {
			lines = append(lines, fmt.Sprintf("%s %s %x %x", s.nmName, s.typ, s.start, s.size))
		}
	}
	if ft["blank"] {
		lines = append(lines, "")
	}
	w := bufio.NewWriter(os.Stdout)
	w.WriteString(strings.Join(lines, nl))
	if !ft["nofinalnl"] {
		w.WriteString(nl)
	}
	w.Flush()
}

// addr2line -aif -e <file>: one hex address per input line; answers "0x<addr>", then one
// (function, file:line) pair per frame, inlined frames first.
func c13FakeAddr2lineMain() {
	file := ""
	for i, a := range os.Args {
		if a == "-e" && i+1 < len(os.Args) {
			file = os.Args[i+1]
		}
	}
	t := c13ReadSyms(file)
	ft := c13FakeFmt(file)
	nl, src := "\n", "src.c"
	if ft["crlf"] {
		nl = "\r\n"
	}
	if ft["longfile"] {
		src = c13Expand("/very/long/path/", 70000) + ".c"
	}
	in := bufio.NewScanner(os.Stdin)
	w := bufio.NewWriter(os.Stdout)
	for in.Scan() {
		a, err := strconv.ParseUint(strings.TrimSpace(in.Text()), 16, 64)
		if err != nil {
			continue
		}
		c13FakeDelay()
		fmt.Fprintf(w, "0x%016x%s", a, nl)
		if s := c13Containing(t, a); s != nil {
			if s.inlined != "-" {
				fmt.Fprintf(w, "%s%sinl.h:7%s", s.inlined, nl, nl)
			}
			fmt.Fprintf(w, "%s%s%s:%d%s", s.short, nl, src, 1+(a-s.start)%50, nl)
		} else {
			fmt.Fprintf(w, "??%s??:0%s", nl, nl)
		}
		w.Flush()
	}
}

// llvm-symbolizer --output-style=JSON: "CODE|DATA <file> 0x<addr>" per line
func c13FakeLLVMMain() {
	in := bufio.NewScanner(os.Stdin)
	w := bufio.NewWriter(os.Stdout)
	tabs := map[string][]c13FakeSym{}
	nl, src := "\n", "src.c"
	for in.Scan() {
		f := strings.Fields(in.Text())
		c13FakeDelay()
		if len(f) != 3 {
			fmt.Fprintf(w, "{}\n")
			w.Flush()
			continue
		}
		t, ok := tabs[f[1]]
		if !ok {
			t = c13ReadSyms(f[1])
			tabs[f[1]] = t
			ft := c13FakeFmt(f[1])
			if ft["crlf"] {
				nl = "\r\n"
			}
			if ft["longfile"] {
				src = c13Expand("/very/long/path/", 70000) + ".c"
			}
		}
		a, _ := strconv.ParseUint(f[2], 0, 64)
		s := c13Containing(t, a)
		if f[0] == "DATA" {
			if s != nil {
				fmt.Fprintf(w, "{\"Address\":\"%s\",\"ModuleName\":\"m\",\"Data\":{\"Name\":\"%s\",\"Size\":\"0x%x\",\"Start\":\"0x%x\"}}%s", f[2], s.nmName, s.size, s.start, nl)
			} else {
				fmt.Fprintf(w, "{\"Address\":\"%s\",\"ModuleName\":\"m\",\"Data\":{\"Name\":\"\",\"Size\":\"0x0\",\"Start\":\"0x0\"}}%s", f[2], nl)
			}
		} else {
			syms := ""
			if s != nil {
				if s.inlined != "-" {
					syms = fmt.Sprintf("{\"Column\":0,\"FileName\":\"inl.h\",\"FunctionName\":\"%s\",\"Line\":7,\"StartLine\":0},", s.inlined)
				}
				syms += fmt.Sprintf("{\"Column\":1,\"FileName\":\"%s\",\"FunctionName\":\"%s\",\"Line\":%d,\"StartLine\":1}", src, s.nmName, 1+(a-s.start)%50)
			}
			fmt.Fprintf(w, "{\"Address\":\"%s\",\"ModuleName\":\"m\",\"Symbol\":[%s]}%s", f[2], syms, nl)
		}
		w.Flush()
	}
}

// ---------------------------------------------------------------------------------------------
// case

type c13Func struct {
	Start   hx     `json:"start"`
	Size    hx     `json:"size"`
	NMName  string `json:"nm_name"`
	Short   string `json:"short"`   // what addr2line prints
	Type    string `json:"type"`    // nm type letter (function types only in this stream)
	Inlined string `json:"inlined"` // "-" or the name of an inlined callee frame
	// Pad > 0: the names the tools print for this function are stretched (or cut) to exactly Pad
	// bytes with a deterministic filler — name-length adversary; the replay file stays small
	Pad int `json:"name_len,omitempty"`
}

const c13Filler = "abcdefghijklmnopqrstuvwxyz0123456789_"

// c13Expand stretches or cuts base to exactly n bytes (n <= 0: unchanged).
func c13Expand(base string, n int) string {
	if n <= 0 {
		return base
	}
	if n <= len(base) {
		return base[:n]
	}
	var sb strings.Builder
	sb.Grow(n)
	sb.WriteString(base)
	for sb.Len() < n {
		k := n - sb.Len()
		if k > len(c13Filler) {
			k = len(c13Filler)
		}
		sb.WriteString(c13Filler[:k])
	}
	return sb.String()
}

// the names as the tools print them
func (f *c13Func) nmN() string { return c13Expand(f.NMName, f.Pad) }
func (f *c13Func) shortN() string {
	if f.Pad > 64 {
		return c13Expand(f.Short, f.Pad-16) // still a very long addr2line line; nm's name is longer
	}
	return c13Expand(f.Short, f.Pad)
}

// c13Abbrev keeps messages readable when names are megabytes long.
func c13Abbrev(s string) string {
	if len(s) <= 48 {
		return fmt.Sprintf("%q", s)
	}
	return fmt.Sprintf("%q…(%d bytes)", s[:32], len(s))
}

type c13Lookup struct {
	H    int `json:"h"` // index into Biases: which ObjFile
	Addr hx  `json:"addr"`
	// Op "" = SourceLine(Addr); "symaddr" = Symbols(<matches nothing>, Addr − bias);
	// "symrx" = Symbols(Rx, 0)
	Op string `json:"op,omitempty"`
	Rx string `json:"rx,omitempty"`
}

type c13SymCase struct {
	Kind    string      `json:"kind"` // "symhist"
	Mode    string      `json:"mode"` // nm | a2l | llvm
	Funcs   []c13Func   `json:"funcs"`
	Span    hx          `json:"span"` // mapping size
	Biases  []hx        `json:"biases"`
	Lookups []c13Lookup `json:"lookups"`
	Fmt     []string    `json:"fmt,omitempty"`        // output-format adversaries of the fake tools: crlf, nofinalnl, blank, longfile
	Conc    int         `json:"goroutines,omitempty"` // > 1: lookups after the per-handle warm-up are issued concurrently
}

func genSymCase(r *Rng, mode string) *c13SymCase {
	cs := &c13SymCase{Kind: "symhist", Mode: mode}
	n := 2 + r.Intn(10)
	a := uint64(0x1000 + r.Intn(8)*0x800)
	suffix := []string{"", ".constprop.0", ".isra.0", ".part.0.cold", "_", ".llvm.123456", "", ".lto_priv.0"}
	for i := 0; i < n; i++ {
		size := uint64(8 + r.Intn(0x300))
		if r.Chance(30) {
			size = uint64(0x800 + r.Intn(0x2000))
		}
		short := fmt.Sprintf("f%d", i)
		if r.Chance(30) {
			short = fmt.Sprintf("function_%d", i)
		}
		f := c13Func{Start: hx(a), Size: hx(size), Short: short, NMName: short + suffix[r.Intn(len(suffix))], Type: []string{"T", "t", "t", "T"}[r.Intn(4)], Inlined: "-"}
		if r.Chance(20) {
			f.Inlined = fmt.Sprintf("inl%d", i)
		}
		cs.Funcs = append(cs.Funcs, f)
		a += size
		if r.Chance(50) {
			a += uint64(r.Intn(0x40)) // gap
		}
		if r.Chance(15) {
			a = (a + 0xfff) &^ 0xfff
		}
	}
	cs.Span = hx((a + 0x1fff) &^ 0xfff)
	// biases: small ones (below the table span, so that tables of different handles overlap and a
	// link-time address is a valid runtime address of another function), typical ones, and 0
	nb := 2 + r.Intn(3)
	small := []uint64{0x1000, 0x2000, 0x3000, 0x4000, 0x8000, 0x10000}
	seen := map[uint64]bool{}
	for len(cs.Biases) < nb {
		var b uint64
		switch r.Intn(5) {
		case 0, 1:
			b = small[r.Intn(len(small))]
		case 2:
			b = uint64(1+r.Intn(int(uint64(cs.Span)/0x1000))) * 0x1000
		case 3:
			b = c13Biases[r.Intn(len(c13Biases))] &^ 0xfff
			if b >= 1<<62 {
				b >>= 4
			}
		default:
			b = 0x7f0000000000 + uint64(r.Intn(0x1000))*0x1000
		}
		if b == 0 || seen[b] {
			continue
		}
		seen[b] = true
		cs.Biases = append(cs.Biases, hx(b))
	}
	nl := 12 + r.Intn(16)
	for i := 0; i < nl; i++ {
		h := r.Intn(nb)
		if i < nb {
			h = i // every handle is opened early, then lookups alternate
		}
		f := cs.Funcs[r.Intn(len(cs.Funcs))]
		var link uint64
		switch r.Intn(8) {
		case 0:
			link = uint64(f.Start)
		case 1:
			link = uint64(f.Start + f.Size - 1)
		case 2:
			link = uint64(f.Start + f.Size) // first byte after: next function or gap
		default:
			link = uint64(f.Start) + uint64(r.Intn(int(f.Size)))
		}
		cs.Lookups = append(cs.Lookups, c13Lookup{H: h, Addr: cs.Biases[h] + hx(link)})
	}
	// ObjFile.Symbols lookups (each runs `nm -n`): by address and by regexp
	for k, n := 0, r.Intn(3); k < n; k++ {
		cs.addSymbolsOp(r)
	}
	if r.Chance(25) {
		all := []string{"crlf", "nofinalnl", "blank", "longfile"}
		for _, f := range all {
			if r.Chance(40) {
				cs.Fmt = append(cs.Fmt, f)
			}
		}
	}
	return cs
}

func (cs *c13SymCase) addSymbolsOp(r *Rng) {
	h := r.Intn(len(cs.Biases))
	f := cs.Funcs[r.Intn(len(cs.Funcs))]
	last := cs.Funcs[len(cs.Funcs)-1]
	switch r.Intn(6) {
	case 0: // regexp on a name prefix
		cs.Lookups = append(cs.Lookups, c13Lookup{H: h, Addr: cs.Biases[h], Op: "symrx", Rx: "^" + regexp.QuoteMeta(f.Short)})
	case 1:
		cs.Lookups = append(cs.Lookups, c13Lookup{H: h, Addr: cs.Biases[h], Op: "symrx", Rx: []string{"^f[0-4]", "constprop|isra", "_[0-9]+$", "^function", "."}[r.Intn(5)]})
	case 2: // the last symbol and beyond: the table's tail
		cs.Lookups = append(cs.Lookups, c13Lookup{H: h, Addr: cs.Biases[h] + last.Start + hx(r.Intn(int(last.Size)+0x100)), Op: "symaddr"})
	case 3:
		cs.Lookups = append(cs.Lookups, c13Lookup{H: h, Addr: cs.Biases[h] + f.Start, Op: "symaddr"})
	case 4: // last byte of a group (next start − 1) or the next start itself
		next := ^hx(0)
		for _, g := range cs.Funcs {
			if g.Start > f.Start && g.Start-1 < next {
				next = g.Start - 1
			}
		}
		cs.Lookups = append(cs.Lookups, c13Lookup{H: h, Addr: cs.Biases[h] + next + hx(r.Intn(2)), Op: "symaddr"})
	default:
		cs.Lookups = append(cs.Lookups, c13Lookup{H: h, Addr: cs.Biases[h] + f.Start + hx(r.Intn(int(f.Size))), Op: "symaddr"})
	}
}

// genBoundaryCase aims SourceLine and Symbols lookups at the boundaries of every symbol: start,
// start+1, the last two bytes of the function, the last byte before the next symbol, the next start;
// one below the first symbol, the end of the last one, and (Symbols) 0 and 2^64−1.
func genBoundaryCase(r *Rng, mode string) *c13SymCase {
	var cs *c13SymCase
	for cs == nil || len(cs.Funcs) < 3 {
		cs = genSymCase(r, mode)
	}
	cs.Fmt = nil
	cs.Biases = cs.Biases[:2]
	var warm []c13Lookup
	for _, lk := range cs.Lookups {
		if lk.Op == "" && lk.H < 2 && len(warm) < 2 && (len(warm) == 0 || warm[0].H != lk.H) {
			warm = append(warm, lk)
		}
	}
	cs.Lookups = warm
	add := func(link hx, both bool) {
		h := r.Intn(2)
		if both {
			cs.Lookups = append(cs.Lookups, c13Lookup{H: h, Addr: cs.Biases[h] + link})
		}
		cs.Lookups = append(cs.Lookups, c13Lookup{H: h, Addr: cs.Biases[h] + link, Op: "symaddr"})
	}
	for i, f := range cs.Funcs {
		pts := []hx{f.Start, f.Start + 1, f.Start + f.Size - 2, f.Start + f.Size - 1, f.Start + f.Size}
		if i+1 < len(cs.Funcs) {
			pts = append(pts, cs.Funcs[i+1].Start-1, cs.Funcs[i+1].Start)
		}
		seen := map[hx]bool{}
		for _, p := range pts {
			if !seen[p] && p >= cs.Funcs[0].Start {
				seen[p] = true
				add(p, true)
			}
		}
	}
	add(cs.Funcs[0].Start-1, true)
	add(0, false)
	add(1, false)
	add(^hx(0), false)
	add(^hx(0)-1, false)
	return cs
}

// c13NameLens: symbol-name lengths around the buffer sizes parsers tend to use.
var c13NameLens = []int{1, 4095, 4096, 65535, 65536, 70000, 1 << 20}

// genLongNameCase: one function in the middle of the table gets a name of exactly n bytes; lookups
// concentrate on it and on the functions after it, through SourceLine and Symbols.
func genLongNameCase(r *Rng, mode string, n int, fmts []string) *c13SymCase {
	var cs *c13SymCase
	for cs == nil || len(cs.Funcs) < 4 {
		cs = genSymCase(r, mode)
	}
	cs.Fmt = fmts
	k := 1 + r.Intn(len(cs.Funcs)-2)
	cs.Funcs[k].Pad = n
	cs.Lookups = cs.Lookups[:len(cs.Biases)] // the warm-up lookups
	for i := k; i < len(cs.Funcs); i++ {
		f := cs.Funcs[i]
		h := r.Intn(len(cs.Biases))
		cs.Lookups = append(cs.Lookups,
			c13Lookup{H: h, Addr: cs.Biases[h] + f.Start + hx(r.Intn(int(f.Size)))},
			c13Lookup{H: h, Addr: cs.Biases[h] + f.Start + hx(r.Intn(int(f.Size))), Op: "symaddr"})
	}
	h := r.Intn(len(cs.Biases))
	cs.Lookups = append(cs.Lookups, c13Lookup{H: h, Addr: cs.Biases[h], Op: "symrx", Rx: "."},
		c13Lookup{H: h, Addr: cs.Biases[h], Op: "symrx", Rx: "^" + regexp.QuoteMeta(cs.Funcs[len(cs.Funcs)-1].Short)})
	return cs
}

// ---------------------------------------------------------------------------------------------
// running

type c13SymEnv struct {
	dir, toolsA, toolsL string
	hung                map[string]bool // chains whose concurrent variant already timed out in this run
}

func (e *c13Env) symEnv() *c13SymEnv {
	if e.sym != nil {
		return e.sym
	}
	self, err := os.Executable()
	if err != nil {
		panic("C13: os.Executable: " + err.Error())
	}
	os.Setenv(c13FakeEnv, "1")
	s := &c13SymEnv{hung: map[string]bool{}, dir: filepath.Join(e.dir, "sym"), toolsA: filepath.Join(e.dir, "tools-a2l"), toolsL: filepath.Join(e.dir, "tools-llvm")}
	for _, d := range []string{s.dir, s.toolsA, s.toolsL} {
		os.MkdirAll(d, 0o755)
	}
	for _, t := range []string{"nm", "addr2line"} {
		if err := os.Symlink(self, filepath.Join(s.toolsA, t)); err != nil {
			panic(err)
		}
	}
	if err := os.Symlink(self, filepath.Join(s.toolsL, "llvm-symbolizer")); err != nil {
		panic(err)
	}
	e.sym = s
	return s
}

// newBinutils returns a fresh Binutils instance configured for the tool chain of mode.
func (s *c13SymEnv) newBinutils(mode string) *binutils.Binutils {
	bu := &binutils.Binutils{}
	switch mode {
	case "nm":
		bu.SetTools("nm:" + s.toolsA)
		bu.SetFastSymbolization(true)
	case "a2l":
		bu.SetTools("addr2line:" + s.toolsA + ",nm:" + s.toolsA)
	default:
		bu.SetTools("llvm-symbolizer:" + s.toolsL + ",addr2line:" + s.toolsA + ",nm:" + s.toolsA)
	}
	return bu
}

func (s *c13SymEnv) writeObject(e *c13Env, cs *c13SymCase, tag string) string {
	file := e.writeELF(3 /* ET_DYN */, nil)
	if tag != "" {
		nf := strings.TrimSuffix(file, ".elf") + "-" + tag + ".elf"
		os.Rename(file, nf)
		file = nf
	}
	var sb strings.Builder
	for i := range cs.Funcs {
		f := &cs.Funcs[i]
		fmt.Fprintf(&sb, "%x %x %s %s %s %s\n", uint64(f.Start), uint64(f.Size), f.nmN(), f.shortN(), f.Type, f.Inlined)
	}
	os.WriteFile(file+".syms", []byte(sb.String()), 0o644)
	os.WriteFile(file+".fmt", []byte(strings.Join(cs.Fmt, " ")), 0o644)
	return file
}

// expected answer for link-time address a: (last frame's function, inlined frame or "")
func (cs *c13SymCase) expect(c *Ctx, bias, x uint64) (fn, inl string, owner *c13Func, nmIdx int) {
	a := x - bias
	for i := range cs.Funcs {
		f := &cs.Funcs[i]
		if a >= uint64(f.Start) && a-uint64(f.Start) < uint64(f.Size) {
			owner = f
		}
	}
	// nm part through the Lean model (table relocated by the handle's own bias)
	var mt strings.Builder
	for _, f := range cs.Funcs {
		fmt.Fprintf(&mt, " %d %d 0", uint64(f.Start), uint64(f.Size))
	}
	nmIdx = -1
	m := c.Drv.Ask(fmt.Sprintf("nm.addrinfo %d %d%s %d", bias, len(cs.Funcs), mt.String(), x))
	if strings.HasPrefix(m, "ok 1 ") {
		nmIdx, _ = strconv.Atoi(m[5:])
	} else if m != "ok 0" {
		nmIdx = -2 // model unavailable / panicked: surfaces as a disagreement below
	}
	switch cs.Mode {
	case "nm":
		if nmIdx >= 0 {
			fn = cs.Funcs[nmIdx].nmN()
		}
	case "a2l":
		if owner != nil {
			fn = owner.shortN()
			if nmIdx >= 0 && len(cs.Funcs[nmIdx].nmN()) > len(fn)+1 {
				fn = cs.Funcs[nmIdx].nmN()
			}
			if owner.Inlined != "-" {
				inl = owner.Inlined
			}
		}
	default:
		if owner != nil {
			fn = owner.nmN()
			if owner.Inlined != "-" {
				inl = owner.Inlined
			}
		}
	}
	return
}

func c13Frames(fr []plugin.Frame) (fn, inl string) {
	if len(fr) > 0 {
		fn = fr[len(fr)-1].Func
	}
	if len(fr) > 1 {
		inl = fr[0].Func
	}
	return
}

func (e *c13Env) runSymHist(cs *c13SymCase) {
	c := e.c
	s := e.symEnv()
	if cs.Mode == "a2l" { // hide any installed llvm-symbolizer: pprof falls back to the default name on $PATH
		old := os.Getenv("PATH")
		os.Setenv("PATH", s.toolsA)
		defer os.Setenv("PATH", old)
	}
	file := s.writeObject(e, cs, "")
	defer func() { os.Remove(file); os.Remove(file + ".syms"); os.Remove(file + ".fmt") }()
	bu := s.newBinutils(cs.Mode)
	handles := make([]plugin.ObjFile, len(cs.Biases))
	refs := make([]plugin.ObjFile, len(cs.Biases))
	var cleanup []string
	defer func() {
		for _, h := range append(handles, refs...) {
			if h != nil {
				h.Close()
			}
		}
		for _, f := range cleanup {
			os.Remove(f)
			os.Remove(f + ".syms")
			os.Remove(f + ".fmt")
		}
	}()
	open := func(b *binutils.Binutils, f string, bias uint64) (plugin.ObjFile, string) {
		var of plugin.ObjFile
		var err error
		if pn := c13Safely(func() { of, err = b.Open(f, bias, bias+uint64(cs.Span), 0, "") }); pn != "" {
			return nil, "panic: " + pn
		}
		if err != nil {
			return nil, err.Error()
		}
		return of, ""
	}
	// ensure opens the handle of a lookup (sequentially: Open is not part of the concurrent phase)
	ensure := func(lk c13Lookup, one *c13SymCase) bool {
		if handles[lk.H] == nil {
			of, msg := open(bu, file, uint64(cs.Biases[lk.H]))
			if of == nil {
				c.Violation("C13/symbolizer/"+cs.Mode+"/open", "Open fails on the synthetic object: "+msg, one)
				return false
			}
			handles[lk.H] = of
		}
		return true
	}
	type symRes struct {
		fr   []plugin.Frame
		syms []*plugin.Sym
		msg  string // panic / error text
	}
	call := func(lk c13Lookup) (r symRes) {
		var err error
		pn := c13Safely(func() {
			switch lk.Op {
			case "symaddr":
				r.syms, err = handles[lk.H].Symbols(c13NoMatchRx, uint64(lk.Addr-cs.Biases[lk.H]))
			case "symrx":
				var rx *regexp.Regexp
				if rx, err = regexp.Compile(lk.Rx); err == nil {
					r.syms, err = handles[lk.H].Symbols(rx, 0)
				}
			default:
				r.fr, err = handles[lk.H].SourceLine(uint64(lk.Addr))
			}
		})
		if pn != "" || err != nil {
			r.msg = fmt.Sprintf("%v %v", pn, err)
			if r.msg == "" {
				r.msg = "error"
			}
		}
		return
	}
	tag := ""
	if cs.Conc > 1 {
		tag = "concurrent/"
	}
	// check applies the three oracles to one answer; false = stop the case
	check := func(li int, lk c13Lookup, r symRes, one *c13SymCase) bool {
		bias, x := uint64(cs.Biases[lk.H]), uint64(lk.Addr)
		if r.msg != "" {
			c.Violation("C13/symbolizer/"+cs.Mode+"/"+tag+"error", fmt.Sprintf("%sSourceLine/Symbols(%#x) at bias %#x: %s", lk.Op, x, bias, r.msg), one)
			return false
		}
		if lk.Op != "" {
			cs.checkSymbols(c, lk, r.syms, tag, one)
			return true
		}
		got, gotInl := c13Frames(r.fr)
		want, wantInl, owner, nmIdx := cs.expect(c, bias, x)
		c.Res.ModelCompared++

		// direct oracle: the function named contains x − bias (nm mode: greatest start ≤ x − bias)
		okDirect := false
		switch {
		case owner != nil:
			okDirect = got == owner.shortN() || got == owner.nmN()
		case cs.Mode == "nm":
			var g *c13Func
			for i := range cs.Funcs {
				if uint64(cs.Funcs[i].Start) <= x-bias {
					g = &cs.Funcs[i]
				}
			}
			last := cs.Funcs[len(cs.Funcs)-1]
			okDirect = (g == nil && got == "") || (g != nil && got == g.nmN()) || (x-bias >= uint64(last.Start+last.Size) && got == "")
		default:
			okDirect = got == ""
		}
		cls := "gap"
		if owner != nil {
			cls = "inside"
		}
		if cs.Conc > 1 {
			c.Res.Hit(fmt.Sprintf("sym:%s,%s,concurrent", cs.Mode, cls))
		} else {
			c.Res.Hit(fmt.Sprintf("sym:%s,%s,handle#%d", cs.Mode, cls, min(lk.H, 3)))
		}
		if !okDirect {
			kind := "wrong-function"
			if got == "" {
				kind = "missed"
			}
			on := "<gap>"
			if owner != nil {
				on = c13Abbrev(owner.nmN())
			}
			how := fmt.Sprintf("file opened at %d biases", len(cs.Biases))
			if cs.Conc > 1 {
				how += fmt.Sprintf(", lookups issued from %d goroutines on shared handles", cs.Conc)
			}
			c.Violation("C13/symbolizer/"+cs.Mode+"/"+tag+kind, fmt.Sprintf("%s chain, %s: SourceLine(%#x) on the handle with bias %#x (link-time %#x, inside %s) names %s", cs.Mode, how, x, bias, x-bias, on, c13Abbrev(got)), one)
			return true
		}
		if got != want || gotInl != wantInl || nmIdx == -2 {
			c.Disagree("C13/model/symbolizer-"+cs.Mode, fmt.Sprintf("SourceLine(%#x) bias %#x: go=(%s,%q) expected=(%s,%q)", x, bias, c13Abbrev(got), gotInl, c13Abbrev(want), wantInl), "correspondence Elf.addrInfo∘relocate + addr2line merge rule ~ binutils SourceLine", one)
		}
		// reference: a fresh Binutils instance that only ever sees this bias, on a private copy,
		// used strictly sequentially
		if refs[lk.H] == nil {
			rf := s.writeObject(e, cs, fmt.Sprintf("ref%d", lk.H))
			cleanup = append(cleanup, rf)
			of, msg := open(s.newBinutils(cs.Mode), rf, bias)
			if of == nil {
				c.Violation("C13/symbolizer/"+cs.Mode+"/open", "Open fails on the synthetic object (reference): "+msg, one)
				return false
			}
			refs[lk.H] = of
		}
		var rfr []plugin.Frame
		var err error
		if pn := c13Safely(func() { rfr, err = refs[lk.H].SourceLine(x) }); pn != "" || err != nil {
			c.Violation("C13/symbolizer/"+cs.Mode+"/error", fmt.Sprintf("reference SourceLine(%#x): %v %v", x, pn, err), one)
			return false
		}
		if rg, ri := c13Frames(rfr); rg != got || ri != gotInl {
			c.Violation("C13/symbolizer/"+cs.Mode+"/"+tag+"history-dependent", fmt.Sprintf("SourceLine(%#x) at bias %#x gives %s after this history but %s on a fresh instance used sequentially", x, bias, c13Abbrev(got), c13Abbrev(rg)), one)
		}
		return true
	}

	if cs.Conc <= 1 {
		for li, lk := range cs.Lookups {
			if lk.H < 0 || lk.H >= len(cs.Biases) {
				continue
			}
			one := *cs
			one.Lookups = cs.Lookups[:li+1] // the history up to and including this lookup
			if !ensure(lk, &one) {
				return
			}
			if !check(li, lk, call(lk), &one) {
				return
			}
		}
		return
	}

	// concurrent variant: handles are opened and warmed up (first lookup: lazy base computation and
	// tool start) sequentially, then the remaining lookups are issued from cs.Conc goroutines against
	// the SAME handles. The fake tools answer strictly in request order, after a small delay.
	os.Setenv(c13FakeDelayEnv, "150")
	defer os.Unsetenv(c13FakeDelayEnv)
	res := make([]symRes, len(cs.Lookups))
	warmed := make([]bool, len(cs.Biases))
	var rest []int
	for li, lk := range cs.Lookups {
		if lk.H < 0 || lk.H >= len(cs.Biases) {
			continue
		}
		if !warmed[lk.H] {
			if !ensure(lk, cs) {
				return
			}
			res[li] = call(lk)
			warmed[lk.H] = true
			if !check(li, lk, res[li], cs) {
				return
			}
			continue
		}
		rest = append(rest, li)
	}
	start := make(chan struct{})
	done := make(chan struct{})
	var wg sync.WaitGroup
	for g := 0; g < cs.Conc; g++ {
		wg.Add(1)
		go func(g int) {
			defer wg.Done()
			<-start
			for k := g; k < len(rest); k += cs.Conc {
				li := rest[k]
				res[li] = call(cs.Lookups[li])
			}
		}(g)
	}
	close(start)
	go func() { wg.Wait(); close(done) }()
	select {
	case <-done:
	case <-time.After(10 * time.Second):
		c.Violation("C13/symbolizer/"+cs.Mode+"/concurrent/hang", fmt.Sprintf("%s chain: %d goroutines issuing %d lookups on shared handles did not finish within 10 s (desynchronised tool pipe?)", cs.Mode, cs.Conc, len(rest)), cs)
		s.hung[cs.Mode] = true      // further concurrent cases of this chain would only wait again
		for _, h := range handles { // closing the tools' pipes releases blocked readers
			if h != nil {
				go h.Close()
			}
		}
		finished := false
		select {
		case <-done:
			finished = true
		case <-time.After(5 * time.Second):
		}
		for i := range handles {
			handles[i] = nil
		}
		if finished { // the answers that did arrive are still checked: they show what went wrong
			for _, li := range rest {
				if res[li].msg == "" && !check(li, cs.Lookups[li], res[li], cs) {
					return
				}
			}
		}
		return
	}
	for _, li := range rest {
		if !check(li, cs.Lookups[li], res[li], cs) {
			return
		}
	}
}

// c13ToolContract: the invocations pprof documents for its external tools. The parsers depend on
// the output format these flags select; any other flag set (e.g. --demangle, which puts spaces into
// names of a space-separated format) breaks the contract between pprof and the tool.
var c13ToolContract = map[string][]string{
	"nm":              {"--format=posix --numeric-sort --print-size", "--numeric-sort"},
	"addr2line":       {"-aif -e"},
	"llvm-symbolizer": {"--inlining --output-style=JSON -demangle=false"},
}

var c13FlagSynonyms = map[string]string{"-n": "--numeric-sort", "-v": "--numeric-sort", "-S": "--print-size", "-P": "--format=posix",
	"-fposix": "--format=posix", "--portability": "--format=posix", "--format=bsd": "", "-fbsd": "", "-B": "", "--no-demangle": "",
	"-i": "--inlining", "--inlines": "--inlining", "--demangle=false": "-demangle=false", "-afi": "-aif", "-fai": "-aif", "-fia": "-aif", "-iaf": "-aif", "-ifa": "-aif"}

// checkToolArgv reads (and empties) the argv logs of the fake tools and checks every invocation.
func (e *c13Env) checkToolArgv(cs *c13SymCase) {
	c := e.c
	s := e.sym
	if s == nil {
		return
	}
	for _, dir := range []string{s.toolsA, s.toolsL} {
		logf := filepath.Join(dir, "argv.log")
		b, err := os.ReadFile(logf)
		if err != nil {
			continue
		}
		os.Remove(logf)
		for _, line := range strings.Split(strings.TrimSpace(string(b)), "\n") {
			f := strings.Split(line, "\t")
			if len(f) == 0 || f[0] == "" {
				continue
			}
			tool := f[0]
			var flags []string
			for _, a := range f[1:] {
				if !strings.HasPrefix(a, "-") {
					continue // the file operand
				}
				if syn, ok := c13FlagSynonyms[a]; ok {
					a = syn
				}
				if a != "" {
					flags = append(flags, a)
				}
			}
			sort.Strings(flags)
			got := strings.Join(flags, " ")
			ok := false
			for _, want := range c13ToolContract[tool] {
				if got == want {
					ok = true
				}
			}
			c.Res.Hit("tool-argv:" + tool + " " + got)
			if !ok {
				c.Violation("C13/tool-contract/"+tool+"-argv", fmt.Sprintf("%s was invoked with flags [%s]; pprof's parsers are written for %q — an output-format flag outside that contract changes what they read (e.g. --demangle puts spaces into the names of nm's space-separated format, and such lines are dropped)", tool, strings.Join(f[1:], " "), c13ToolContract[tool]), cs)
			}
		}
	}
}

var c13NoMatchRx = regexp.MustCompile(`^\x00nothing matches this$`)

// checkSymbols: ObjFile.Symbols (the `nm -n` parser behind -disasm / weblist).  Direct oracle: a
// symbol returned for an address contains it — Start ≤ addr, no other table symbol starts in
// (Start, addr], End is the next distinct start − 1, and its names are names nm prints at Start;
// for a regexp every symbol returned carries a matching name at its own start with that End.
// Expectation (exact): the one group holding the address / all groups with a matching name.
func (cs *c13SymCase) checkSymbols(c *Ctx, lk c13Lookup, got []*plugin.Sym, tag string, one *c13SymCase) {
	type group struct {
		start, end uint64
		names      []string
	}
	var groups []group
	for i := range cs.Funcs {
		f := &cs.Funcs[i]
		if n := len(groups); n > 0 && groups[n-1].start == uint64(f.Start) {
			groups[n-1].names = append(groups[n-1].names, f.nmN())
			continue
		}
		if n := len(groups); n > 0 {
			groups[n-1].end = uint64(f.Start) - 1
		}
		groups = append(groups, group{start: uint64(f.Start), end: ^uint64(0), names: []string{f.nmN()}})
	}
	find := func(start uint64) *group {
		for i := range groups {
			if groups[i].start == start {
				return &groups[i]
			}
		}
		return nil
	}
	has := func(g *group, n string) bool {
		for _, x := range g.names {
			if x == n {
				return true
			}
		}
		return false
	}
	sig := "C13/symbols/" + cs.Mode + "/" + tag
	desc := func(sy *plugin.Sym) string {
		n := "[]"
		if len(sy.Name) > 0 {
			n = c13Abbrev(sy.Name[0])
		}
		return fmt.Sprintf("{%s [%#x,%#x]}", n, sy.Start, sy.End)
	}
	var rx *regexp.Regexp
	addr := uint64(lk.Addr - cs.Biases[lk.H])
	if lk.Op == "symrx" {
		rx = regexp.MustCompile(lk.Rx)
	}
	c.Res.Hit("sym:" + cs.Mode + "," + lk.Op)
	nreal := 0
	for _, sy := range got {
		if len(sy.Name) == 0 {
			continue // the parser's empty leading group [0, first start): names nothing
		}
		nreal++
		g := find(sy.Start)
		switch {
		case g == nil:
			c.Violation(sig+"unknown-start", fmt.Sprintf("Symbols returned %s: nm prints no symbol at that start", desc(sy)), one)
			return
		case !has(g, sy.Name[0]):
			c.Violation(sig+"wrong-name", fmt.Sprintf("Symbols returned %s: not a name nm prints at that start", desc(sy)), one)
			return
		case sy.End != g.end:
			c.Violation(sig+"wrong-extent", fmt.Sprintf("Symbols returned %s but the next symbol starts at %#x", desc(sy), g.end+1), one)
			return
		case rx == nil && !(sy.Start <= addr && addr <= g.end):
			c.Violation(sig+"does-not-contain-address", fmt.Sprintf("Symbols(addr %#x) returned %s, which does not contain the address", addr, desc(sy)), one)
			return
		case rx != nil && !rx.MatchString(sy.Name[0]):
			c.Violation(sig+"regexp-mismatch", fmt.Sprintf("Symbols(%q) returned %s", lk.Rx, desc(sy)), one)
			return
		}
	}
	// exact expectation
	want := 0
	for i := range groups {
		g := &groups[i]
		if rx == nil {
			// address 0 means "no address" in the Symbols API
			if addr != 0 && g.start <= addr && addr <= g.end {
				want++
			}
			continue
		}
		for _, n := range g.names {
			if rx.MatchString(n) {
				want++
				break
			}
		}
	}
	if rx == nil && nreal == 0 && want == 1 {
		var g *group
		for i := range groups {
			if groups[i].start <= addr && addr <= groups[i].end {
				g = &groups[i]
			}
		}
		where := "inside"
		switch addr {
		case g.start:
			where = "first byte"
		case g.end:
			where = "last byte"
		}
		c.Violation(sig+"missed", fmt.Sprintf("Symbols(addr %#x) returned nothing; the address is the %s of %s [%#x,%#x], the symbol with the greatest start not above it", addr, where, c13Abbrev(g.names[0]), g.start, g.end), one)
		return
	}
	if nreal != want {
		c.Disagree("C13/model/Symbols-"+cs.Mode, fmt.Sprintf("Symbols(%s %q %#x) returned %d symbols, the nm table has %d matching groups", lk.Op, lk.Rx, addr, nreal, want), "correspondence: findSymbols returns exactly the nm groups that contain the address / match the regexp", one)
	}
}

func (e *c13Env) runSymStreams(r *Rng) {
	c := e.c
	for _, st := range []struct {
		mode string
		n    int
	}{{"nm", 40}, {"a2l", 35}, {"llvm", 15}} {
		for i, n := 0, st.n*c.Scale; i < n; i++ {
			cs := genSymCase(r, st.mode)
			c.Res.Count(fmt.Sprint("symhist ", *cs), len(cs.Funcs) >= 2 && len(cs.Biases) >= 2)
			e.runSymHist(cs)
			e.checkToolArgv(cs)
		}
	}
	// boundary sweeps: every symbol's first/second/last bytes and its neighbours, one case per chain
	for rep := 0; rep < c.Scale; rep++ {
		for _, mode := range []string{"nm", "a2l", "llvm"} {
			cs := genBoundaryCase(r, mode)
			c.Res.Count(fmt.Sprint("symhist-boundary ", *cs), true)
			c.Res.Hit("sym:boundary-sweep-cases," + mode)
			e.runSymHist(cs)
			e.checkToolArgv(cs)
		}
	}
	// name-length and output-format adversaries: every length once per run, chains and formats rotate
	modes := []string{"nm", "a2l", "llvm"}
	fmtSets := [][]string{nil, {"crlf"}, {"nofinalnl"}, {"blank", "longfile"}, {"crlf", "blank", "nofinalnl"}}
	for rep := 0; rep < c.Scale; rep++ {
		for i, n := range c13NameLens {
			mode := modes[(i+int(c.Seed)+rep)%3]
			cs := genLongNameCase(r, mode, n, fmtSets[(i+rep+int(c.Seed/3))%len(fmtSets)])
			c.Res.Count(fmt.Sprint("symhist-long ", *cs), true)
			c.Res.Hit(fmt.Sprintf("sym:name-length=%d,%s", n, mode))
			e.runSymHist(cs)
			e.checkToolArgv(cs)
		}
	}
	// concurrent variant: few cases, more lookups, 4–8 goroutines on the shared handles
	for _, st := range []struct {
		mode string
		n    int
	}{{"llvm", 5}, {"a2l", 4}, {"nm", 2}} {
		for i, n := 0, st.n*c.Scale; i < n; i++ {
			cs := genSymCase(r, st.mode)
			cs.Conc = 4 + r.Intn(5)
			for len(cs.Lookups) < 48 { // enough in-flight requests per handle
				k := r.Intn(len(cs.Lookups))
				f := cs.Funcs[r.Intn(len(cs.Funcs))]
				cs.Lookups = append(cs.Lookups, c13Lookup{H: cs.Lookups[k].H, Addr: cs.Biases[cs.Lookups[k].H] + f.Start + hx(r.Intn(int(f.Size)))})
			}
			c.Res.Count(fmt.Sprint("symhist-conc ", *cs), len(cs.Funcs) >= 2)
			if e.sym != nil && e.sym.hung[st.mode] {
				c.Res.Hit("sym:concurrent-skipped-after-hang," + st.mode)
				continue
			}
			c.Res.Hit("sym:concurrent-cases," + st.mode)
			e.runSymHist(cs)
			e.checkToolArgv(cs)
		}
	}
}
