//go:build verif

package main

// C15, CLI stream: the values `pprof -top -unit=…` prints are the labels and percentages of
// internal/measurement applied to the right quantities (internal/report passes SampleUnit and
// OutputUnit through formatValue; "minimum" goes through selectOutputUnit, which must settle on
// ONE unit of the sample unit's family for the whole report).

import (
	"fmt"
	"os"
	"os/exec"
	"path/filepath"
	"strings"
	"sync"

	"github.com/google/pprof/internal/measurement"
	"github.com/google/pprof/profile"
)

type c15CLI struct {
	Values []int64 `json:"values"`
	From   string  `json:"from"` // hex
	To     string  `json:"to"`   // hex
}

func c15cliProfile(values []int64, unit string) *profile.Profile {
	p := &profile.Profile{SampleType: []*profile.ValueType{{Type: "space", Unit: unit}}}
	for i, v := range values {
		f := &profile.Function{ID: uint64(i + 1), Name: fmt.Sprintf("fn%03d", i)}
		l := &profile.Location{ID: uint64(i + 1), Line: []profile.Line{{Function: f}}}
		p.Function = append(p.Function, f)
		p.Location = append(p.Location, l)
		p.Sample = append(p.Sample, &profile.Sample{Location: []*profile.Location{l}, Value: []int64{v}})
	}
	return p
}

// c15cliRun writes the profile and runs `pprof -top`; returns the raw output.
func c15cliRun(pprof, dir string, id int, cs c15CLI) (string, error) {
	p := c15cliProfile(cs.Values, c15unhex(cs.From))
	fn := filepath.Join(dir, fmt.Sprintf("p%d.pb.gz", id))
	f, err := os.Create(fn)
	if err != nil {
		return "", err
	}
	if err := p.Write(f); err != nil {
		f.Close()
		return "", err
	}
	f.Close()
	cmd := exec.Command(pprof, "-top", "-nodefraction=0", "-nodecount=1000", "-unit="+c15unhex(cs.To), fn)
	cmd.Env = append(os.Environ(), "PPROF_TMPDIR="+dir, "HOME="+dir)
	out, err := cmd.CombinedOutput()
	return string(out), err
}

// rows: function name -> (flat label, flat%)
func c15cliParse(out string) map[string][2]string {
	rows := map[string][2]string{}
	seenHdr := false
	for _, ln := range strings.Split(out, "\n") {
		f := strings.Fields(ln)
		if !seenHdr {
			if len(f) >= 5 && f[0] == "flat" && f[1] == "flat%" {
				seenHdr = true
			}
			continue
		}
		if len(f) == 6 {
			rows[f[5]] = [2]string{f[0], f[1]}
		}
	}
	return rows
}

func (st *c15State) cliEval(cs c15CLI, out string, runErr error) bool {
	c := st.c
	from, to := c15unhex(cs.From), c15unhex(cs.To)
	rc := c15Case{Kind: "cli", Values: cs.Values, From: cs.From, To: cs.To, Text: fmt.Sprintf("pprof -top -unit=%s, sample unit %q, values %v", to, from, cs.Values)}
	rcAny := rc
	if runErr != nil {
		c.Violation("C15/cli/pprof-failed", rc.Text+": "+runErr.Error()+" "+c15trunc(out), rcAny)
		return false
	}
	rows := c15cliParse(out)
	var total int64
	for _, v := range cs.Values {
		if v < 0 {
			total -= v
		} else {
			total += v
		}
	}
	rf := st.recognise(from)
	// the unit the whole report is printed in
	candidates := []string{to}
	if to == "minimum" {
		candidates = nil
		if rf.known {
			for _, u := range st.spec[rf.fam].units {
				candidates = append(candidates, u.display)
			}
		} else {
			candidates = []string{from, "minimum"}
		}
	}
	okUnit := ""
	for _, u := range candidates {
		all := true
		for i, v := range cs.Values {
			r, ok := rows[fmt.Sprintf("fn%03d", i)]
			if !ok || r[0] != measurement.ScaledLabel(v, from, u) {
				all = false
				break
			}
		}
		if all {
			okUnit = u
			break
		}
	}
	if len(rows) != len(cs.Values) {
		c.Violation("C15/cli/rows-missing", fmt.Sprintf("%s: %d of %d functions listed", rc.Text, len(rows), len(cs.Values)), rcAny)
		return rf.known
	}
	if okUnit == "" {
		sig := "C15/cli/flat-label-differs-from-ScaledLabel"
		if to == "minimum" {
			sig = "C15/cli/minimum/no-single-unit-of-the-family"
		}
		c.Violation(sig, fmt.Sprintf("%s: the printed flat values are not ScaledLabel(value, sample unit, output unit) for one output unit; output:\n%s", rc.Text, c15trunc(out)), rcAny)
		return rf.known
	}
	c.Res.Hit("cli:unit=" + map[bool]string{true: "minimum", false: "explicit"}[to == "minimum"])
	for i, v := range cs.Values {
		r := rows[fmt.Sprintf("fn%03d", i)]
		if want := strings.TrimSpace(measurement.Percentage(v, total)); r[1] != want {
			c.Violation("C15/cli/flat-percentage", fmt.Sprintf("%s: fn%03d flat%% %q, Percentage(%d, %d) = %q", rc.Text, i, r[1], v, total, want), rcAny)
			break
		}
	}
	return rf.known
}

func (st *c15State) cliStream(r *Rng) {
	c := st.c
	if c.Pprof == "" {
		c.Res.Hit("cli:no-pprof-binary")
		return
	}
	dir, err := os.MkdirTemp("", "c15cli")
	if err != nil {
		c.Res.HarnessError = err.Error()
		return
	}
	defer os.RemoveAll(dir)
	var cases []c15CLI
	n := 36 * c.Scale
	if n > 400 {
		n = 400
	}
	for k := 0; k < n; k++ {
		fam := st.spec[r.Intn(len(st.spec))]
		u := fam.units[r.Intn(len(fam.units))]
		from := u.names[r.Intn(len(u.names))]
		if r.Chance(30) {
			from += "s"
		}
		if r.Chance(10) {
			from = "widgets"
		}
		to := "minimum"
		switch r.Intn(4) {
		case 0:
			t := fam.units[r.Intn(len(fam.units))]
			to = t.names[r.Intn(len(t.names))]
		case 1:
			to = fam.units[r.Intn(len(fam.units))].display
		}
		nv := 1 + r.Intn(6)
		var vals []int64
		for i := 0; i < nv; i++ {
			v := int64(1 + r.Intn(1000))
			for s := r.Intn(4); s > 0; s-- {
				v *= int64(1 + r.Intn(1500))
			}
			if r.Chance(10) {
				v = -v
			}
			vals = append(vals, v)
		}
		cases = append(cases, c15CLI{Values: vals, From: c15hex(from), To: c15hex(to)})
	}
	outs := make([]string, len(cases))
	errs := make([]error, len(cases))
	var wg sync.WaitGroup
	sem := make(chan struct{}, 12)
	for i := range cases {
		wg.Add(1)
		go func(i int) {
			defer wg.Done()
			sem <- struct{}{}
			defer func() { <-sem }()
			outs[i], errs[i] = c15cliRun(c.Pprof, dir, i, cases[i])
		}(i)
	}
	wg.Wait()
	for i, cs := range cases {
		nt := st.cliEval(cs, outs[i], errs[i])
		c.Res.Count(fmt.Sprintf("cli|%v|%s|%s", cs.Values, cs.From, cs.To), nt)
		c.Res.Hit("kind:cli")
	}
}

// cliReplay re-executes one CLI case from a replay file.
func (st *c15State) cliReplay(cs c15CLI) bool {
	c := st.c
	if c.Pprof == "" {
		return false
	}
	dir, err := os.MkdirTemp("", "c15cli")
	if err != nil {
		c.Res.HarnessError = err.Error()
		return false
	}
	defer os.RemoveAll(dir)
	out, rerr := c15cliRun(c.Pprof, dir, 0, cs)
	return st.cliEval(cs, out, rerr)
}
