//go:build verif

// Command zzverif is the correspondence harness of /verif. It is compiled INTO the pprof
// module with `go build -overlay` (virtual directory internal/zzverif), so it calls the real
// code of /repo's current working tree in-process. See /verif/DESIGN.md §1.2.
package main

import (
	"encoding/json"
	"flag"
	"fmt"
	"os"
	"path/filepath"
	"sort"
	"time"
)

// Ctx is handed to every property runner.
type Ctx struct {
	Prop   string
	Tier   string
	Seed   uint64
	Scale  int // multiplier on case counts (quick=1)
	Drv    *Drv
	Res    *Result
	Dir    string // replay directory for this property
	Pprof  string // path of the pprof binary built from /repo (may be "")
	Replay string // when set: re-run only this replay file
	Start  time.Time
}

type runner func(c *Ctx)

var registry = map[string]runner{}

func register(id string, r runner) { registry[id] = r }

func main() {
	prop := flag.String("prop", "", "property id")
	tier := flag.String("tier", "quick", "quick|thorough")
	seed := flag.Uint64("seed", 1, "PRNG seed")
	drv := flag.String("drv", "", "path to pvdrv")
	out := flag.String("out", "", "result json")
	dir := flag.String("dir", "", "replay dir")
	pp := flag.String("pprof", "", "pprof binary")
	replay := flag.String("replay", "", "replay file")
	corpus := flag.String("corpus", "", "corpus directory (replay files run before the generated cases)")
	flag.Parse()
	if *prop == "list" {
		var ids []string
		for k := range registry {
			ids = append(ids, k)
		}
		sort.Strings(ids)
		for _, k := range ids {
			fmt.Println(k)
		}
		return
	}
	r, ok := registry[*prop]
	if !ok {
		fmt.Fprintf(os.Stderr, "no runner for %q\n", *prop)
		os.Exit(3)
	}
	c := &Ctx{Prop: *prop, Tier: *tier, Seed: *seed, Scale: 1, Dir: *dir, Pprof: *pp, Replay: *replay, Start: time.Now()}
	if *tier == "thorough" {
		c.Scale = 20
	}
	c.Res = newResult(*prop)
	if *drv != "" {
		d, err := startDrv(*drv)
		if err != nil {
			fmt.Fprintf(os.Stderr, "cannot start driver: %v\n", err)
			os.Exit(3)
		}
		c.Drv = d
		defer d.Close()
	}
	os.MkdirAll(c.Dir, 0o755)
	func() {
		defer func() {
			if e := recover(); e != nil {
				// a panic escaping a runner is a harness bug, not a verdict
				fmt.Fprintf(os.Stderr, "HARNESS PANIC: %v\n", e)
				c.Res.HarnessError = fmt.Sprint(e)
			}
		}()
		if c.Replay == "" && *corpus != "" {
			// committed corpus first: minimised past disagreements / violations / known findings
			files, _ := filepath.Glob(filepath.Join(*corpus, "*.json"))
			sort.Strings(files)
			for _, f := range files {
				c.Replay = f
				r(c)
				c.Res.Hit("corpus-cases")
			}
			c.Replay = ""
		}
		r(c)
	}()
	c.Res.WallS = time.Since(c.Start).Seconds()
	c.Res.finish()
	b, _ := json.MarshalIndent(c.Res, "", " ")
	if *out != "" {
		os.WriteFile(*out, b, 0o644)
	} else {
		os.Stdout.Write(b)
	}
}
