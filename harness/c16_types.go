//go:build verif

package main

// C16, stream "sample types": the sources list PARTIALLY OVERLAPPING sets of sample types (each a
// non-empty subset of a small pool, in its own order).  combineProfiles first makes the fetched
// profiles compatible: only the types common to ALL of them survive, in the order of the first one.
// Oracle: the report's sample types are exactly the types common to all FETCHED sources (and
// bases), ordered as in the first fetched source; every stack's values are the sums of the fetched
// sources' values for those types; when no type is common to all, pprof fails (documented error)
// — identical whichever other sources fail and in whatever order the fetches complete.

import "fmt"

var c16TypePool = []string{"samples", "cpu", "alloc", "inuse"}

func c16TypeVal(base int64, typ string) int64 {
	h := int64(0)
	for _, ch := range typ {
		h = h*131 + int64(ch)
	}
	return 1 + (base*31+h)%(1<<24)
}

// c16Common: the sample types common to all fetched sources and bases, in the order of the first
// fetched source (nil when nothing was fetched or nothing is common). ok=false: case has no types.
func c16Common(cs *c16Case, kinds []string) ([]string, bool) {
	if !cs.Types {
		return nil, false
	}
	var first []string
	var sets []map[string]bool
	n := len(cs.Sources)
	for i, s := range cs.all() {
		if !c16Succeeds(kinds[i]) {
			continue
		}
		if i < n && first == nil {
			first = s.Types
		}
		m := map[string]bool{}
		for _, t := range s.Types {
			m[t] = true
		}
		sets = append(sets, m)
	}
	var common []string
	for _, t := range first {
		all := true
		for _, m := range sets {
			if !m[t] {
				all = false
			}
		}
		if all {
			common = append(common, t)
		}
	}
	return common, true
}

func c16GenTypes(r *Rng, idx int) *c16Case {
	cs := &c16Case{Name: fmt.Sprintf("sample-types-%d", idx), Types: true}
	oks := []string{c16OK, c16OK, c16OKFile, c16OKHTTP}
	disjoint := idx%5 == 4
	subset := func(i int) []string {
		if disjoint {
			return []string{c16TypePool[i%len(c16TypePool)]}
		}
		p := c16Perm(r, len(c16TypePool))
		k := 1 + r.Intn(len(c16TypePool))
		var t []string
		has := false
		for _, x := range p[:k] {
			t = append(t, c16TypePool[x])
			has = has || c16TypePool[x] == "cpu"
		}
		if !has { // one type common to all, so that the merge is legal
			t = append(t, "cpu")
			j := r.Intn(len(t))
			t[j], t[len(t)-1] = t[len(t)-1], t[j]
		}
		return t
	}
	gen := func(n, failPct int) []c16Src {
		s := make([]c16Src, n)
		for i := range s {
			k := r.Pick(oks)
			if r.Chance(failPct) {
				k = r.Pick(c16FailKinds)
			}
			s[i] = c16Src{Kind: k, Seed: r.U64() >> 16, Types: subset(i)}
		}
		return s
	}
	n := 3 + r.Intn(5)
	cs.Sources = gen(n, []int{0, 30, 50}[idx%3])
	if !disjoint && idx%2 == 0 {
		// first and last share a type that one in the middle lacks; the last one fetched or not
		cs.Sources[0] = c16Src{Kind: c16OK, Seed: r.U64() >> 16, Types: []string{"samples", "cpu"}}
		cs.Sources[1] = c16Src{Kind: c16OK, Seed: r.U64() >> 16, Types: []string{"cpu"}}
		last := c16OK
		if idx%4 == 2 {
			last = r.Pick(c16FailKinds)
		}
		cs.Sources[n-1] = c16Src{Kind: last, Seed: r.U64() >> 16, Types: []string{"cpu", "samples"}}
	}
	if idx%3 == 1 {
		cs.Bases = gen(1+r.Intn(3), 30)
		cs.DiffBase = r.Bool()
	}
	cs.Schedules = c16Schedules(r, cs, 3)
	c16Alt(r, cs)
	return cs
}
