//go:build verif

package main

import (
	"encoding/hex"
	"fmt"
	"sort"
	"strconv"
	"strings"

	"github.com/google/pprof/profile"
)

// Token form of a profile — identical to Wr.profile in lean/PprofVerif/Model/Profile.lean.
// Pointers become ids (nil = 0), maps become key-sorted lists, nil map == empty map.

type tw struct{ sb strings.Builder }

func (w *tw) tok(s string) {
	if w.sb.Len() > 0 {
		w.sb.WriteByte(' ')
	}
	w.sb.WriteString(s)
}
func (w *tw) nat(n uint64) { w.tok(strconv.FormatUint(n, 10)) }
func (w *tw) int(n int64)  { w.tok(strconv.FormatInt(n, 10)) }
func (w *tw) n(n int)      { w.tok(strconv.Itoa(n)) }
func (w *tw) str(s string) { w.tok("x" + hex.EncodeToString([]byte(s))) }
func (w *tw) bool(b bool) {
	if b {
		w.tok("1")
	} else {
		w.tok("0")
	}
}
func (w *tw) String() string { return w.sb.String() }

func hexTok(b []byte) string { return "x" + hex.EncodeToString(b) }

func (w *tw) valueType(v *profile.ValueType) { w.str(v.Type); w.str(v.Unit) }

func sortedKeys[V any](m map[string]V) []string {
	ks := make([]string, 0, len(m))
	for k := range m {
		ks = append(ks, k)
	}
	sort.Strings(ks)
	return ks
}

func (w *tw) sample(s *profile.Sample) {
	w.n(len(s.Location))
	for _, l := range s.Location {
		if l == nil {
			w.nat(0)
		} else {
			w.nat(l.ID)
		}
	}
	w.n(len(s.Value))
	for _, v := range s.Value {
		w.int(v)
	}
	w.n(len(s.Label))
	for _, k := range sortedKeys(s.Label) {
		w.str(k)
		w.n(len(s.Label[k]))
		for _, v := range s.Label[k] {
			w.str(v)
		}
	}
	w.n(len(s.NumLabel))
	for _, k := range sortedKeys(s.NumLabel) {
		w.str(k)
		w.n(len(s.NumLabel[k]))
		for _, v := range s.NumLabel[k] {
			w.int(v)
		}
	}
	w.n(len(s.NumUnit))
	for _, k := range sortedKeys(s.NumUnit) {
		w.str(k)
		w.n(len(s.NumUnit[k]))
		for _, v := range s.NumUnit[k] {
			w.str(v)
		}
	}
}

func (w *tw) profile(p *profile.Profile) {
	w.n(len(p.SampleType))
	for _, st := range p.SampleType {
		w.valueType(st)
	}
	w.str(p.DefaultSampleType)
	w.n(len(p.Sample))
	for _, s := range p.Sample {
		w.sample(s)
	}
	w.n(len(p.Mapping))
	for _, m := range p.Mapping {
		w.nat(m.ID)
		w.nat(m.Start)
		w.nat(m.Limit)
		w.nat(m.Offset)
		w.str(m.File)
		w.str(m.BuildID)
		w.bool(m.HasFunctions)
		w.bool(m.HasFilenames)
		w.bool(m.HasLineNumbers)
		w.bool(m.HasInlineFrames)
	}
	w.n(len(p.Location))
	for _, l := range p.Location {
		w.nat(l.ID)
		if l.Mapping == nil {
			w.nat(0)
		} else {
			w.nat(l.Mapping.ID)
		}
		w.nat(l.Address)
		w.n(len(l.Line))
		for _, ln := range l.Line {
			if ln.Function == nil {
				w.nat(0)
			} else {
				w.nat(ln.Function.ID)
			}
			w.int(ln.Line)
			w.int(ln.Column)
		}
		w.bool(l.IsFolded)
	}
	w.n(len(p.Function))
	for _, f := range p.Function {
		w.nat(f.ID)
		w.str(f.Name)
		w.str(f.SystemName)
		w.str(f.Filename)
		w.int(f.StartLine)
	}
	w.n(len(p.Comments))
	for _, c := range p.Comments {
		w.str(c)
	}
	w.str(p.DocURL)
	w.str(p.DropFrames)
	w.str(p.KeepFrames)
	w.int(p.TimeNanos)
	w.int(p.DurationNanos)
	if p.PeriodType == nil {
		w.n(0)
	} else {
		w.n(1)
		w.valueType(p.PeriodType)
	}
	w.int(p.Period)
}

// Canon returns the token form of p.
func Canon(p *profile.Profile) string {
	var w tw
	w.profile(p)
	return w.String()
}

// ---- reader ----

type tr struct {
	toks []string
	pos  int
	err  error
}

func newTR(s string) *tr { return &tr{toks: strings.Fields(s)} }
func (r *tr) tok() string {
	if r.pos >= len(r.toks) {
		if r.err == nil {
			r.err = fmt.Errorf("out of tokens")
		}
		return "0"
	}
	t := r.toks[r.pos]
	r.pos++
	return t
}
func (r *tr) nat() uint64 {
	v, err := strconv.ParseUint(r.tok(), 10, 64)
	if err != nil && r.err == nil {
		r.err = err
	}
	return v
}
func (r *tr) n() int {
	v := r.nat()
	if v > 1<<24 {
		if r.err == nil {
			r.err = fmt.Errorf("length too large")
		}
		return 0
	}
	return int(v)
}
func (r *tr) int() int64 {
	v, err := strconv.ParseInt(r.tok(), 10, 64)
	if err != nil && r.err == nil {
		r.err = err
	}
	return v
}
func (r *tr) bool() bool { return r.nat() != 0 }
func (r *tr) str() string {
	t := r.tok()
	if !strings.HasPrefix(t, "x") {
		if r.err == nil {
			r.err = fmt.Errorf("bad string token %q", t)
		}
		return ""
	}
	b, err := hex.DecodeString(t[1:])
	if err != nil && r.err == nil {
		r.err = err
	}
	return string(b)
}

// ParseCanon rebuilds a *profile.Profile from its token form (ids must resolve; 0 = nil).
func ParseCanon(s string) (*profile.Profile, error) {
	r := newTR(s)
	p := r.profile()
	if r.err != nil {
		return nil, r.err
	}
	if r.pos != len(r.toks) {
		return nil, fmt.Errorf("trailing tokens")
	}
	return p, nil
}

func (r *tr) profile() *profile.Profile {
	p := &profile.Profile{}
	for i, n := 0, r.n(); i < n && r.err == nil; i++ {
		p.SampleType = append(p.SampleType, &profile.ValueType{Type: r.str(), Unit: r.str()})
	}
	p.DefaultSampleType = r.str()
	type pend struct {
		s   *profile.Sample
		ids []uint64
	}
	var pends []pend
	for i, n := 0, r.n(); i < n && r.err == nil; i++ {
		s := &profile.Sample{}
		var ids []uint64
		for j, m := 0, r.n(); j < m && r.err == nil; j++ {
			ids = append(ids, r.nat())
		}
		for j, m := 0, r.n(); j < m && r.err == nil; j++ {
			s.Value = append(s.Value, r.int())
		}
		if m := r.n(); m > 0 {
			s.Label = map[string][]string{}
			for j := 0; j < m && r.err == nil; j++ {
				k := r.str()
				vs := []string{}
				for a, b := 0, r.n(); a < b && r.err == nil; a++ {
					vs = append(vs, r.str())
				}
				s.Label[k] = vs
			}
		}
		if m := r.n(); m > 0 {
			s.NumLabel = map[string][]int64{}
			for j := 0; j < m && r.err == nil; j++ {
				k := r.str()
				vs := []int64{}
				for a, b := 0, r.n(); a < b && r.err == nil; a++ {
					vs = append(vs, r.int())
				}
				s.NumLabel[k] = vs
			}
		}
		if m := r.n(); m > 0 {
			s.NumUnit = map[string][]string{}
			for j := 0; j < m && r.err == nil; j++ {
				k := r.str()
				vs := []string{}
				for a, b := 0, r.n(); a < b && r.err == nil; a++ {
					vs = append(vs, r.str())
				}
				s.NumUnit[k] = vs
			}
		}
		p.Sample = append(p.Sample, s)
		pends = append(pends, pend{s, ids})
	}
	maps := map[uint64]*profile.Mapping{}
	for i, n := 0, r.n(); i < n && r.err == nil; i++ {
		m := &profile.Mapping{ID: r.nat(), Start: r.nat(), Limit: r.nat(), Offset: r.nat(), File: r.str(), BuildID: r.str(),
			HasFunctions: r.bool(), HasFilenames: r.bool(), HasLineNumbers: r.bool(), HasInlineFrames: r.bool()}
		p.Mapping = append(p.Mapping, m)
		maps[m.ID] = m
	}
	type lpend struct {
		l    *profile.Location
		mid  uint64
		fids []uint64
	}
	var lpends []lpend
	locs := map[uint64]*profile.Location{}
	for i, n := 0, r.n(); i < n && r.err == nil; i++ {
		l := &profile.Location{ID: r.nat()}
		mid := r.nat()
		l.Address = r.nat()
		var fids []uint64
		for j, m := 0, r.n(); j < m && r.err == nil; j++ {
			fids = append(fids, r.nat())
			l.Line = append(l.Line, profile.Line{Line: r.int(), Column: r.int()})
		}
		l.IsFolded = r.bool()
		p.Location = append(p.Location, l)
		locs[l.ID] = l
		lpends = append(lpends, lpend{l, mid, fids})
	}
	funcs := map[uint64]*profile.Function{}
	for i, n := 0, r.n(); i < n && r.err == nil; i++ {
		f := &profile.Function{ID: r.nat(), Name: r.str(), SystemName: r.str(), Filename: r.str(), StartLine: r.int()}
		p.Function = append(p.Function, f)
		funcs[f.ID] = f
	}
	for _, lp := range lpends {
		if lp.mid != 0 {
			lp.l.Mapping = maps[lp.mid]
		}
		for i, fid := range lp.fids {
			if fid != 0 {
				lp.l.Line[i].Function = funcs[fid]
			}
		}
	}
	for _, sp := range pends {
		for _, id := range sp.ids {
			sp.s.Location = append(sp.s.Location, locs[id])
		}
	}
	for i, n := 0, r.n(); i < n && r.err == nil; i++ {
		p.Comments = append(p.Comments, r.str())
	}
	p.DocURL = r.str()
	p.DropFrames = r.str()
	p.KeepFrames = r.str()
	p.TimeNanos = r.int()
	p.DurationNanos = r.int()
	if r.n() != 0 {
		p.PeriodType = &profile.ValueType{Type: r.str(), Unit: r.str()}
	}
	p.Period = r.int()
	return p
}
