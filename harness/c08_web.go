//go:build verif

package main

// C08, streams "web" and "concurrent-serialize".
//
// web: every output-producing entry point of the web UI — json.Marshal(rpt.Stacks()) (the flame-graph
// data), the pages /top /flamegraph /peek /source /disasm and /download — is computed in ≥3 FRESH
// PROCESSES (this harness binary re-executed as runner "C08child": fresh map seeds, fresh
// maphash/other per-process seeds) on the same profile and compared byte for byte.
//
// concurrent-serialize: N goroutines serialise ONE profile at the same time (Write, WriteUncompressed,
// Copy — what the /download handler and concurrent commands do); every result must equal the bytes
// of a lone serialisation.

import (
	"bytes"
	"encoding/hex"
	"encoding/json"
	"fmt"
	"io"
	"net/http"
	"net/http/httptest"
	"os"
	"os/exec"
	"path/filepath"
	"regexp"
	"sort"
	"strconv"
	"strings"
	"sync"
	"time"

	"github.com/google/pprof/internal/driver"
	"github.com/google/pprof/internal/plugin"
	"github.com/google/pprof/internal/report"
	"github.com/google/pprof/profile"
)

func init() { register("C08child", runC08Child) }

// ---------- plug-ins (public plug-in API only) ----------

type c08Flags struct{ set map[string]string }

func (f *c08Flags) Bool(n string, d bool, _ string) *bool {
	if v, ok := f.set[n]; ok {
		d = v == "true"
	}
	return &d
}
func (f *c08Flags) Int(n string, d int, _ string) *int {
	if v, ok := f.set[n]; ok {
		if i, err := strconv.Atoi(v); err == nil {
			d = i
		}
	}
	return &d
}
func (f *c08Flags) Float64(n string, d float64, _ string) *float64 {
	if v, ok := f.set[n]; ok {
		if x, err := strconv.ParseFloat(v, 64); err == nil {
			d = x
		}
	}
	return &d
}
func (f *c08Flags) String(n, d, _ string) *string {
	if v, ok := f.set[n]; ok {
		d = v
	}
	return &d
}
func (f *c08Flags) StringList(n, d, _ string) *[]*string { return &[]*string{} }
func (f *c08Flags) ExtraUsage() string                   { return "" }
func (f *c08Flags) AddExtraUsage(string)                 {}
func (f *c08Flags) Parse(func()) []string                { return []string{"c08-profile"} }

type c08Fetcher struct{ p *profile.Profile }

func (f c08Fetcher) Fetch(string, time.Duration, time.Duration) (*profile.Profile, string, error) {
	return f.p, "c08-profile", nil
}

type c08NoSym struct{}

func (c08NoSym) Symbolize(string, plugin.MappingSources, *profile.Profile) error { return nil }

type c08NoObj struct{}

func (c08NoObj) Open(file string, start, limit, offset uint64, _ string) (plugin.ObjFile, error) {
	return nil, fmt.Errorf("no object files in this test")
}
func (c08NoObj) Disasm(string, uint64, uint64, bool) ([]plugin.Inst, error) {
	return nil, fmt.Errorf("no object files in this test")
}

// c08ProfObj is an object tool scripted by the profile itself: every location with a function is a
// symbol [address, address+7] of its mapping's binary, and disassembles to two instructions.
type c08ProfObj struct{ p *profile.Profile }

func (o c08ProfObj) Open(file string, start, limit, offset uint64, _ string) (plugin.ObjFile, error) {
	for _, m := range o.p.Mapping {
		if m.File == file && m.File != "" {
			return c08ProfObjFile{p: o.p, name: file}, nil
		}
	}
	return nil, fmt.Errorf("no such object file %s", file)
}

func (o c08ProfObj) Disasm(file string, start, end uint64, intel bool) ([]plugin.Inst, error) {
	var out []plugin.Inst
	for a := start; a <= end && len(out) < 2; a += 4 {
		out = append(out, plugin.Inst{Addr: a, Text: fmt.Sprintf("op%d %%r%d", a%7, a%5)})
	}
	return out, nil
}

type c08ProfObjFile struct {
	p    *profile.Profile
	name string
}

func (f c08ProfObjFile) Name() string                        { return f.name }
func (f c08ProfObjFile) ObjAddr(addr uint64) (uint64, error) { return addr, nil }
func (f c08ProfObjFile) BuildID() string                     { return "" }
func (f c08ProfObjFile) SourceLine(uint64) ([]plugin.Frame, error) {
	return nil, fmt.Errorf("no source line")
}
func (f c08ProfObjFile) Close() error { return nil }
func (f c08ProfObjFile) Symbols(r *regexp.Regexp, addr uint64) ([]*plugin.Sym, error) {
	var out []*plugin.Sym
	seen := map[uint64]bool{}
	for _, l := range f.p.Location {
		if l.Mapping == nil || l.Mapping.File != f.name || len(l.Line) == 0 || l.Line[len(l.Line)-1].Function == nil || seen[l.Address] {
			continue
		}
		name := l.Line[len(l.Line)-1].Function.Name
		if r != nil && !r.MatchString(name) {
			continue
		}
		if addr != 0 && !(l.Address <= addr && addr <= l.Address+7) {
			continue
		}
		seen[l.Address] = true
		out = append(out, &plugin.Sym{Name: []string{name}, File: f.name, Start: l.Address, End: l.Address + 7})
	}
	return out, nil
}

// ---------- child: compute the payloads of one profile in this (fresh) process ----------

var c08WebPages = []string{"/top", "/flamegraph", "/peek?f=.", "/source?f=.", "/disasm?f=.", "/download", "/top?si=0", "/flamegraph?f=foo|main"}

func c08WebPayloads(p *profile.Profile) (map[string]string, error) {
	out := map[string]string{}
	// the flame-graph data as the /flamegraph handler builds it
	if pn := safely(func() {
		q := p.Copy()
		idx := len(q.SampleType) - 1
		rpt := report.New(q, &report.Options{OutputFormat: report.Text, CallTree: true,
			SampleValue: func(v []int64) int64 { return v[idx] },
			SampleType:  q.SampleType[idx].Type, SampleUnit: q.SampleType[idx].Unit, OutputUnit: "minimum"})
		b, err := json.Marshal(rpt.Stacks())
		if err != nil {
			out["stacks-json"] = "error: " + err.Error()
			return
		}
		out["stacks-json"] = string(b)
	}); pn != "" {
		out["stacks-json"] = "panic: " + pn
	}
	// Two servers: without any object file (addresses are listed as "unprocessed": synthesized
	// source/assembly) and with an object tool scripted by the profile (symbols, disassembly).
	for _, srv := range []struct {
		tag   string
		obj   plugin.ObjTool
		pages []string
	}{
		{"", c08NoObj{}, c08WebPages},
		{" [objtool]", c08ProfObj{p}, []string{"/disasm?f=.", "/source?f=.", "/disasm?f=fn0|main", "/peek?f=."}},
	} {
		var handlers map[string]http.Handler
		err := driver.PProf(&plugin.Options{
			Flagset: &c08Flags{set: map[string]string{"http": "localhost:0", "symbolize": "none", "no_browser": "true"}},
			Fetch:   c08Fetcher{p.Copy()},
			Sym:     c08NoSym{},
			Obj:     srv.obj,
			UI:      c08QuietUI{},
			HTTPServer: func(a *plugin.HTTPServerArgs) error {
				handlers = a.Handlers
				return nil
			},
		})
		if err != nil || handlers == nil {
			return out, fmt.Errorf("web UI did not start: %v", err)
		}
		for _, target := range srv.pages {
			path := target
			if i := strings.IndexByte(path, '?'); i >= 0 {
				path = path[:i]
			}
			hd := handlers[path]
			if hd == nil {
				out[target+srv.tag] = "no handler"
				continue
			}
			rec := httptest.NewRecorder()
			if pn := safely(func() { hd.ServeHTTP(rec, httptest.NewRequest("GET", target, nil)) }); pn != "" {
				out[target+srv.tag] = "panic: " + pn
				continue
			}
			body, _ := io.ReadAll(rec.Body)
			out[target+srv.tag] = strconv.Itoa(rec.Code) + "\n" + string(body)
		}
	}
	return out, nil
}

// runC08Child: C08_CHILD_IN = file with the canonical profile, C08_CHILD_OUT = where to write the
// payloads (JSON object name -> hex).
func runC08Child(c *Ctx) {
	in, outp := os.Getenv("C08_CHILD_IN"), os.Getenv("C08_CHILD_OUT")
	b, err := os.ReadFile(in)
	if err != nil {
		c.Res.HarnessError = "child: " + err.Error()
		return
	}
	p, err := ParseCanon(string(b))
	if err != nil {
		c.Res.HarnessError = "child: ParseCanon: " + err.Error()
		return
	}
	pl, err := c08WebPayloads(p)
	if err != nil {
		pl["error"] = err.Error()
	}
	// legacy inputs of the "parse" stream: one more parse in this fresh process
	if lf := os.Getenv("C08_CHILD_LEGACY"); lf != "" {
		if lb, err := os.ReadFile(lf); err == nil {
			var ins []string
			if json.Unmarshal(lb, &ins) == nil {
				for i, in := range ins {
					pl[fmt.Sprintf("legacy-parse-%d", i)] = c08ParseOnce("ParseData", in)
				}
			}
		}
	}
	enc := map[string]string{}
	for k, v := range pl {
		enc[k] = hex.EncodeToString([]byte(v))
	}
	jb, _ := json.Marshal(enc)
	if err := os.WriteFile(outp, jb, 0o644); err != nil {
		c.Res.HarnessError = "child: " + err.Error()
	}
}

// ---------- parent ----------

type c08WebCase struct {
	Kind    string   `json:"kind"` // "web"
	Profile string   `json:"profile"`
	Procs   int      `json:"processes"`
	Legacy  []string `json:"legacy_inputs,omitempty"` // also parsed in every child (payloads legacy-parse-i)
	Payload string   `json:"payload,omitempty"`
	Out1    string   `json:"output_1,omitempty"`
	Out2    string   `json:"output_2,omitempty"`
}

func c08SpawnChild(tmp string, id int, canonFile, legacyFile string) (map[string]string, error) {
	outp := filepath.Join(tmp, fmt.Sprintf("child-%d.json", id))
	res := filepath.Join(tmp, fmt.Sprintf("child-%d.res", id))
	cmd := exec.Command(os.Args[0], "-prop", "C08child", "-tier", "quick", "-seed", "1", "-dir", tmp, "-out", res)
	ev := c08EnvVariant(tmp, id%100, false)
	cmd.Env = append([]string{"C08_CHILD_IN=" + canonFile, "C08_CHILD_OUT=" + outp, "C08_CHILD_LEGACY=" + legacyFile}, ev.Env...)
	cmd.Dir = ev.Dir
	var stderr bytes.Buffer
	cmd.Stderr = &stderr
	if err := cmd.Run(); err != nil {
		return nil, fmt.Errorf("child failed: %v %s", err, trunc(stderr.String()))
	}
	b, err := os.ReadFile(outp)
	if err != nil {
		return nil, err
	}
	os.Remove(outp)
	os.Remove(res)
	enc := map[string]string{}
	if err := json.Unmarshal(b, &enc); err != nil {
		return nil, err
	}
	out := map[string]string{}
	for k, v := range enc {
		d, _ := hex.DecodeString(v)
		out[k] = string(d)
	}
	return out, nil
}

// c08WebCompare runs `procs` children on each profile (all in parallel, 16 at a time) and compares.
func c08WebCompare(c *Ctx, canons []string, procs int, legacy []string) {
	tmp, err := os.MkdirTemp("", "c08web-")
	if err != nil {
		c.Res.HarnessError = err.Error()
		return
	}
	defer os.RemoveAll(tmp)
	type job struct {
		prof, k int
		out     map[string]string
		err     error
	}
	legacyFile := ""
	if len(legacy) > 0 {
		legacyFile = filepath.Join(tmp, "legacy.json")
		lb, _ := json.Marshal(legacy)
		if err := os.WriteFile(legacyFile, lb, 0o644); err != nil {
			c.Res.HarnessError = err.Error()
			return
		}
	}
	c08EnvPrepare(tmp)
	var jobs []*job
	for i, cn := range canons {
		if err := os.WriteFile(filepath.Join(tmp, fmt.Sprintf("p%d.canon", i)), []byte(cn), 0o644); err != nil {
			c.Res.HarnessError = err.Error()
			return
		}
		for k := 0; k < procs; k++ {
			jobs = append(jobs, &job{prof: i, k: k})
		}
	}
	ch := make(chan *job)
	var wg sync.WaitGroup
	for w := 0; w < c08Workers(); w++ {
		wg.Add(1)
		go func() {
			defer wg.Done()
			for j := range ch {
				j.out, j.err = c08SpawnChild(tmp, j.prof*100+j.k, filepath.Join(tmp, fmt.Sprintf("p%d.canon", j.prof)), legacyFile)
			}
		}()
	}
	for _, j := range jobs {
		ch <- j
	}
	close(ch)
	wg.Wait()
	for i, cn := range canons {
		var first map[string]string
		nontrivial := false
		for _, j := range jobs {
			if j.prof != i {
				continue
			}
			if j.err != nil {
				c.Res.HarnessError = j.err.Error()
				return
			}
			if first == nil {
				first = j.out
				nontrivial = strings.HasPrefix(first["/flamegraph"], "200") && strings.HasPrefix(first["/top"], "200") && len(first["stacks-json"]) > 40
				continue
			}
			names := make([]string, 0, len(first))
			for n := range first {
				names = append(names, n)
			}
			sort.Strings(names)
			for _, n := range names {
				if j.out[n] != first[n] {
					cs := c08WebCase{Kind: "web", Profile: cn, Procs: 2 * procs, Legacy: legacy, Payload: n, Out1: c08ShowOut([]byte(first[n])), Out2: c08ShowOut([]byte(j.out[n]))}
					c.Violation("C08/web/"+n+"/differs-between-processes", "the web UI payload "+n+" of the same profile differs between fresh processes", cs)
				}
			}
		}
		for n, v := range first {
			st := firstWord(strings.SplitN(v, "\n", 2)[0])
			if _, err := strconv.Atoi(st); err != nil {
				st = "data"
			}
			c.Res.Hit("web:" + n + ":" + st)
		}
		c.Res.Count("web/"+cn, nontrivial)
	}
}

// c08LimitsProfile: MORE matching functions / files than the built-in limits of the web UI (50 entries
// for /disasm and /source), with many equal weights — which entries survive the cut must not depend on
// map iteration.
func c08LimitsProfile(r *Rng) *profile.Profile {
	p := &profile.Profile{TimeNanos: 1700000000000000000, DurationNanos: 1e9, Period: 1,
		PeriodType: &profile.ValueType{Type: "cpu", Unit: "nanoseconds"},
		SampleType: []*profile.ValueType{{Type: "samples", Unit: "count"}},
		Mapping:    []*profile.Mapping{{ID: 1, Start: 0x400000, Limit: 0x500000, File: "/bin/prog", HasFunctions: true, HasFilenames: true, HasLineNumbers: true}},
	}
	n := 60 + r.Intn(30)
	for i := 0; i < n; i++ {
		f := &profile.Function{ID: uint64(i + 1), Name: fmt.Sprintf("fn%03d", i), SystemName: fmt.Sprintf("fn%03d", i), Filename: fmt.Sprintf("src/file%03d.go", i), StartLine: 1}
		p.Function = append(p.Function, f)
		p.Location = append(p.Location, &profile.Location{ID: uint64(i + 1), Mapping: p.Mapping[0], Address: 0x400000 + uint64(16*(i+1)),
			Line: []profile.Line{{Function: f, Line: int64(10 + i%3)}}})
	}
	for _, i := range perm(r, n) {
		v := []int64{5, 5, 5, 3, 7}[r.Intn(5)]
		s := &profile.Sample{Location: []*profile.Location{p.Location[i]}, Value: []int64{v}}
		if r.Chance(30) {
			s.Location = append(s.Location, p.Location[r.Intn(n)])
		}
		p.Sample = append(p.Sample, s)
	}
	return p
}

func c08WebStream(c *Ctx, r *Rng, n, procs int, legacy []string) {
	var canons []string
	for i := 0; i < 2+n/6; i++ {
		canons = append(canons, Canon(c08LimitsProfile(r)))
		c.Res.Hit("web-profile:over-the-limits")
	}
	for i := 0; i < n; i++ {
		st := c08Strategies[i%len(c08Strategies)]
		p := c08GenProfile(r, st)
		if st == "entropy-twins" {
			p = c08EntropyTwins(r)
		}
		canons = append(canons, Canon(p))
	}
	c08WebCompare(c, canons, procs, legacy)
}

// ---------- concurrent serialisation of one profile ----------

type c08ConcCase struct {
	Kind    string `json:"kind"` // "concurrent-serialize"
	Profile string `json:"profile"`
	Workers int    `json:"goroutines"`
	Rounds  int    `json:"rounds"`
	What    string `json:"differing_operation,omitempty"`
}

func c08ConcProfile(r *Rng) *profile.Profile {
	p := c08GenProfile(r, "pm-pairs")
	// many labels and strings: a long string table to rebuild in preEncode
	for i := 0; i < 150; i++ {
		s := &profile.Sample{Location: []*profile.Location{p.Location[r.Intn(len(p.Location))]}, Value: make([]int64, len(p.SampleType))}
		s.Value[0] = int64(1 + r.Intn(9))
		s.Label = map[string][]string{}
		for k := 0; k < 4; k++ {
			s.Label[fmt.Sprintf("key%d", r.Intn(12))] = []string{fmt.Sprintf("value-%d-%d", i, r.Intn(1000))}
		}
		s.NumLabel = map[string][]int64{"bytes": {int64(r.Intn(1 << 20))}}
		s.NumUnit = map[string][]string{"bytes": {"bytes"}}
		p.Sample = append(p.Sample, s)
	}
	return p
}

func c08Concurrent(c *Ctx, cs c08ConcCase) {
	p, err := ParseCanon(cs.Profile)
	if err != nil {
		c.Res.HarnessError = "ParseCanon: " + err.Error()
		return
	}
	loneU, pn := writeU(p)
	if pn != "" {
		c.Violation("C08/concurrent-serialize/lone-panic", pn, cs)
		return
	}
	var loneZ bytes.Buffer
	p.Write(&loneZ)
	loneC, _ := writeU(p.Copy()) // Copy normalises (parse of the serialisation): compare copies with a lone copy
	var mu sync.Mutex
	bad := ""
	var wg sync.WaitGroup
	for w := 0; w < cs.Workers; w++ {
		wg.Add(1)
		go func(w int) {
			defer wg.Done()
			for k := 0; k < cs.Rounds; k++ {
				what, ok := "", true
				pn := safely(func() {
					switch (w + k) % 3 {
					case 0:
						what = "WriteUncompressed"
						var b bytes.Buffer
						p.WriteUncompressed(&b)
						ok = bytes.Equal(b.Bytes(), loneU)
					case 1:
						what = "Write"
						var b bytes.Buffer
						p.Write(&b)
						ok = bytes.Equal(b.Bytes(), loneZ.Bytes())
					default:
						what = "Copy"
						q := p.Copy()
						var b bytes.Buffer
						q.WriteUncompressed(&b)
						ok = bytes.Equal(b.Bytes(), loneC)
					}
				})
				if pn != "" {
					what, ok = what+" panics: "+pn, false
				}
				if !ok {
					mu.Lock()
					if bad == "" {
						bad = what
					}
					mu.Unlock()
					return
				}
			}
		}(w)
	}
	wg.Wait()
	if bad != "" {
		cs.What = bad
		c.Violation("C08/concurrent-serialize/differs-from-lone-serialization", fmt.Sprintf("%d goroutines serialising ONE profile concurrently: %s gave other bytes than a lone serialisation", cs.Workers, firstWord(bad)), cs)
	}
}

func c08ConcStream(c *Ctx, r *Rng, n int) {
	for i := 0; i < n; i++ {
		p := c08ConcProfile(r)
		cs := c08ConcCase{Kind: "concurrent-serialize", Profile: Canon(p), Workers: 8, Rounds: 12}
		c08Concurrent(c, cs)
		c.Res.Hit("concurrent-serialize")
		c.Res.Count("conc/"+cs.Profile, len(p.Sample) > 100)
	}
}
