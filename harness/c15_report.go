//go:build verif

package main

// C15, report-level label streams.  internal/report (and internal/driver's -tagroot) print values
// through internal/measurement in many places: numeric tag values (`-tags`, `-traces`, `-tagroot`),
// sample values (`-top`, `-tree`, `-traces`, tag totals), legends.  Every printed label is parsed
// back (number + unit string) and must be, for the quantity it stands for (its value and ITS OWN
// unit: the numeric tag key's unit, or the sample unit),
//   * expressed in a unit of that unit's own family (never another family's),
//   * within display rounding (0.005 of the printed unit) of the original magnitude,
// with the meaning of unit strings taken from the Lean dictionary; and it is compared with the
// model's `label` for (value, that unit, output unit).  Profiles carry several numeric tag keys
// whose units belong to DIFFERENT families and whose VALUES COINCIDE, in both sample orders,
// so that any confusion between keys / units / cached results shows.  Reports are generated
// in-process (report.New / report.Generate) for volume and through the real `pprof` binary for the
// driver's plumbing (-unit, NumLabelUnits, -tagroot).

import (
	"bytes"
	"fmt"
	"math"
	"math/big"
	"os"
	"os/exec"
	"path/filepath"
	"regexp"
	"sort"
	"strconv"
	"strings"
	"sync"

	"github.com/google/pprof/internal/report"
	"github.com/google/pprof/profile"
)

type c15NumLabel struct {
	Key   string `json:"key"`
	Value int64  `json:"value"`
	Unit  string `json:"unit"` // hex
	Text  string `json:"text,omitempty"`
}

type c15RptSample struct {
	Value  int64         `json:"value"`
	Labels []c15NumLabel `json:"labels,omitempty"`
}

// the replay case (embedded in c15Case)
type c15Rpt struct {
	Mode    string         `json:"mode"` // tags | traces | top | tree | tagroot
	CLI     bool           `json:"cli,omitempty"`
	Reverse bool           `json:"reverse,omitempty"`
	Samples []c15RptSample `json:"samples"`
	RootKey string         `json:"root_key,omitempty"` // mode tagroot
	// -divide_by (report.Options.Ratio = 1/DivideBy); 0 or 1 = none
	DivideBy float64 `json:"divide_by,omitempty"`
	// profile.DurationNanos (0 = none): the header then says "Duration: X, Total samples = Y (Z%)"
	DurationNanos int64 `json:"duration_nanos,omitempty"`
	// report.Options.NodeFraction (in-process top only): produces the "Dropped N nodes (cum <= L)" line
	NodeFraction float64 `json:"node_fraction,omitempty"`
	// derived second stage of a round trip: one single-frame sample per function, no root frame
	NoRoot bool `json:"no_root,omitempty"`
}

func (rp *c15Rpt) ratio() float64 {
	if rp.DivideBy == 0 {
		return 1
	}
	return 1 / rp.DivideBy
}

func c15rptProfile(from string, rp *c15Rpt) *profile.Profile {
	p := &profile.Profile{SampleType: []*profile.ValueType{{Type: "space", Unit: from}}, DurationNanos: rp.DurationNanos}
	root := &profile.Function{ID: 100000, Name: "root"}
	rl := &profile.Location{ID: 100000, Line: []profile.Line{{Function: root}}}
	p.Function = append(p.Function, root)
	p.Location = append(p.Location, rl)
	idx := make([]int, len(rp.Samples))
	for i := range idx {
		idx[i] = i
		if rp.Reverse {
			idx[i] = len(rp.Samples) - 1 - i
		}
	}
	for _, i := range idx {
		s := rp.Samples[i]
		f := &profile.Function{ID: uint64(i + 1), Name: fmt.Sprintf("fn%03d", i)}
		l := &profile.Location{ID: uint64(i + 1), Line: []profile.Line{{Function: f}}}
		p.Function = append(p.Function, f)
		p.Location = append(p.Location, l)
		ps := &profile.Sample{Location: []*profile.Location{l, rl}, Value: []int64{s.Value}}
		for _, nl := range s.Labels {
			if ps.NumLabel == nil {
				ps.NumLabel = map[string][]int64{}
				ps.NumUnit = map[string][]string{}
			}
			ps.NumLabel[nl.Key] = append(ps.NumLabel[nl.Key], nl.Value)
			ps.NumUnit[nl.Key] = append(ps.NumUnit[nl.Key], c15unhex(nl.Unit))
		}
		p.Sample = append(p.Sample, ps)
	}
	return p
}

func c15rptInProcess(from, to string, rp *c15Rpt) (out string, panicked string, err error) {
	p := c15rptProfile(from, rp)
	units, _ := p.NumLabelUnits()
	format := map[string]int{"tags": report.Tags, "traces": report.Traces, "top": report.Text, "tree": report.Tree, "peek": report.Tree, "dot": report.Dot, "topproto": report.TopProto, "callgrind": report.Callgrind}[rp.Mode]
	var sym *regexp.Regexp
	if rp.Mode == "peek" {
		sym = regexp.MustCompile("fn000")
	}
	var buf bytes.Buffer
	panicked = c15safely(func() {
		rpt := report.New(p, &report.Options{
			OutputFormat:  format,
			Symbol:        sym,
			Ratio:         rp.ratio(),
			SampleValue:   func(v []int64) int64 { return v[0] },
			SampleType:    "space",
			SampleUnit:    from,
			OutputUnit:    to,
			NumLabelUnits: units,
			NodeCount:     100000,
			NodeFraction:  rp.NodeFraction,
		})
		err = report.Generate(&buf, rpt, nil)
	})
	return buf.String(), panicked, err
}

func c15rptCLI(pprof, dir string, id int, from, to string, rp *c15Rpt) (string, error) {
	p := c15rptProfile(from, rp)
	fn := filepath.Join(dir, fmt.Sprintf("r%d.pb.gz", id))
	f, err := os.Create(fn)
	if err != nil {
		return "", err
	}
	if err := p.Write(f); err != nil {
		f.Close()
		return "", err
	}
	f.Close()
	args := []string{fmt.Sprintf("-nodefraction=%v", rp.NodeFraction), "-edgefraction=0", "-nodecount=100000", "-unit=" + to}
	if rp.DivideBy != 0 {
		args = append(args, fmt.Sprintf("-divide_by=%v", rp.DivideBy))
	}
	switch rp.Mode {
	case "tagroot":
		args = append(args, "-top", "-tagroot="+rp.RootKey)
	case "peek":
		args = append(args, "-peek=fn000")
	case "callgrind":
		cg := filepath.Join(dir, fmt.Sprintf("r%d.callgrind", id))
		args = append(args, "-callgrind", "-output="+cg)
		cmd := exec.Command(pprof, append(args, fn)...)
		cmd.Env = append(os.Environ(), "PPROF_TMPDIR="+dir, "HOME="+dir)
		if o, err := cmd.CombinedOutput(); err != nil {
			return string(o), err
		}
		b, err := os.ReadFile(cg)
		return string(b), err
	default:
		args = append(args, "-"+rp.Mode)
	}
	cmd := exec.Command(pprof, append(args, fn)...)
	cmd.Env = append(os.Environ(), "PPROF_TMPDIR="+dir, "HOME="+dir)
	out, err := cmd.CombinedOutput()
	return string(out), err
}

// c15rptRoundtrip feeds pprof's own output back in: stage 1 `pprof -topproto -unit=minimum -output=F`
// writes the top nodes as a profile whose sample types carry the unit pprof chose (a canonical
// printed name such as "kB", "hrs", "M*GCU"); stage 2 renders F with `pprof -top -unit=<to>`.
func c15rptRoundtrip(pprof, dir string, id int, from, to string, rp *c15Rpt) (stage1 []byte, out2 string, err error) {
	p := c15rptProfile(from, rp)
	in := filepath.Join(dir, fmt.Sprintf("rt%d-in.pb.gz", id))
	mid := filepath.Join(dir, fmt.Sprintf("rt%d-mid.pb.gz", id))
	f, err := os.Create(in)
	if err != nil {
		return nil, "", err
	}
	if err := p.Write(f); err != nil {
		f.Close()
		return nil, "", err
	}
	f.Close()
	env := append(os.Environ(), "PPROF_TMPDIR="+dir, "HOME="+dir)
	cmd := exec.Command(pprof, "-topproto", "-unit=minimum", "-nodefraction=0", "-edgefraction=0", "-nodecount=100000", "-output="+mid, in)
	cmd.Env = env
	if o, err := cmd.CombinedOutput(); err != nil {
		return nil, string(o), fmt.Errorf("stage 1 (-topproto): %v", err)
	}
	stage1, err = os.ReadFile(mid)
	if err != nil {
		return nil, "", err
	}
	args := []string{"-top", "-nodefraction=0", "-edgefraction=0", "-nodecount=100000", "-unit=" + to}
	if rp.DivideBy != 0 {
		args = append(args, fmt.Sprintf("-divide_by=%v", rp.DivideBy))
	}
	cmd = exec.Command(pprof, append(args, mid)...)
	cmd.Env = env
	o, err := cmd.CombinedOutput()
	if err != nil {
		return stage1, string(o), fmt.Errorf("stage 2 (-top of the -topproto output): %v", err)
	}
	return stage1, string(o), nil
}

// roundtripEval: stage 1 is judged as a -topproto report of the original profile; stage 2 as a
// -top report of the profile stage 1 wrote (its unit string is pprof's own printed name).
func (st *c15State) roundtripEval(cs c15Case, stage1 []byte, out2 string) bool {
	rp := cs.Rpt
	from, to := c15unhex(cs.From), c15unhex(cs.To)
	q1 := *rp
	q1.Mode, q1.DivideBy, q1.NodeFraction = "topproto", 0, 0
	c1 := cs
	c1.Rpt = &q1
	x1 := &c15rptCtx{st: st, cs: c1, from: from, to: "minimum", rp: &q1, units: map[string]string{}, partner: true}
	x1.cs.Text = cs.Text + " [stage 1: -topproto -unit=minimum]"
	x1.evalTopProto(string(stage1))
	if x1.failed {
		return true
	}
	q := c15quantities(string(stage1), "topproto")
	U := q["unit"]
	q2 := c15Rpt{Mode: "top", CLI: true, NoRoot: true, DivideBy: rp.DivideBy, DurationNanos: rp.DurationNanos}
	for i := range rp.Samples {
		g, err := strconv.ParseInt(q["flat:"+fmt.Sprintf("fn%03d", i)], 10, 64)
		if err != nil {
			st.c.Violation("C15/report/roundtrip/topproto-node-missing", fmt.Sprintf("%s: fn%03d is not in the -topproto output", cs.Text, i), cs)
			return true
		}
		q2.Samples = append(q2.Samples, c15RptSample{Value: g})
	}
	c2 := cs
	x2 := &c15rptCtx{st: st, cs: c2, from: U, to: to, rp: &q2, units: map[string]string{}, partner: true}
	x2.cs.Text = fmt.Sprintf("%s [stage 2: pprof -top -unit=%s of the -topproto output, whose sample unit is %q]", cs.Text, to, U)
	st.c.Res.Hit("rpt:roundtrip-unit=" + U)
	x2.evalTop(out2, "top", "")
	return st.recognise(U).known
}

// ---------------------------------------------------------------------------------------------
// reading a label back

var c15lblRe = regexp.MustCompile(`^(-?[0-9]+(?:\.[0-9]+)?)(.*)$`)

func c15parseLabel(s string) (*big.Rat, string, bool) {
	m := c15lblRe.FindStringSubmatch(s)
	if m == nil {
		return nil, "", false
	}
	n, ok := new(big.Rat).SetString(m[1])
	return n, m[2], ok
}

// expect: what the property allows a label of the quantity qty (in units of `unit`) under output
// unit `to` to be expressed in.  known=false: the unit is no unit name — the value is printed
// unchanged with the pass-through unit.
func (st *c15State) expect(qty *big.Rat, unit, to string) (known bool, accept map[string]*big.Rat, m *big.Rat, exact bool) {
	rf, rt := st.recognise(unit), st.recognise(to)
	if !rf.known {
		return false, nil, new(big.Rat).Set(qty), true
	}
	fam := &st.spec[rf.fam]
	exact = qty.IsInt() && qty.Num().IsInt64() && c15exactRegime(fam, qty.Num().Int64(), rf.f)
	m = new(big.Rat).Mul(qty, rf.f)
	accept = map[string]*big.Rat{}
	switch {
	case to == "auto" || to == "minimum":
		accept = st.acceptableAutoM(fam, c15abs(m), exact)
	case rt.known && rt.fam == rf.fam:
		accept[rt.display] = rt.f
	default:
		for _, u := range fam.units {
			accept[u.display] = u.f
		}
	}
	return true, accept, m, exact
}

var c15half = big.NewRat(5001, 1000000)

// checkLabel: the direct oracle for one printed label of the integer value v.
func (st *c15State) checkLabel(printed string, v int64, unit, to string) (why string) {
	return st.checkLabelQ(printed, new(big.Rat).SetInt64(v), unit, to)
}

// checkLabelQ: the direct oracle for one printed label of a quantity.  why == "" when it holds.
func (st *c15State) checkLabelQ(printed string, qty *big.Rat, unit, to string) (why string) {
	known, accept, m, _ := st.expect(qty, unit, to)
	if printed == "0" {
		if !known {
			if c15abs(m).Cmp(c15half) > 0 {
				return "printed as 0"
			}
			return ""
		}
		for _, f := range accept {
			if c15abs(new(big.Rat).Quo(m, f)).Cmp(c15half) <= 0 {
				return ""
			}
		}
		return "printed as 0 although its magnitude is at least 0.005 of every admissible unit"
	}
	num, us, ok := c15parseLabel(printed)
	if !ok {
		return "not a number followed by a unit"
	}
	if !known {
		if us != c15passUnit(to) {
			return fmt.Sprintf("%q is not a unit name, so the value must be printed unchanged with the unit %q", unit, c15passUnit(to))
		}
		lim := new(big.Rat).Add(c15half, new(big.Rat).Mul(c15abs(m), c15tol))
		if c15abs(new(big.Rat).Sub(num, m)).Cmp(lim) > 0 {
			return "the value of an unknown unit must be printed unchanged"
		}
		return ""
	}
	f, okU := accept[us]
	if !okU {
		rf := st.recognise(unit)
		fam := &st.spec[rf.fam]
		if st.unitByDisplay(fam, us) == nil {
			return fmt.Sprintf("printed in %q, which is not a unit of the %s family of its own unit %q", us, fam.def, unit)
		}
		var want []string
		for k := range accept {
			want = append(want, k)
		}
		sort.Strings(want)
		return fmt.Sprintf("printed in %q, expected %s", us, strings.Join(want, "|"))
	}
	want := new(big.Rat).Quo(m, f)
	lim := new(big.Rat).Add(c15half, new(big.Rat).Mul(c15abs(want), c15tol))
	if c15abs(new(big.Rat).Sub(num, want)).Cmp(lim) > 0 {
		w, _ := want.Float64()
		return fmt.Sprintf("read back with its unit it is not within display rounding of the original (%v %s)", w, us)
	}
	return ""
}

// modelLabel compares one printed label with the Lean model's `label`.
func (st *c15State) modelLabel(printed string, v int64, unit, to string) (why string) {
	if !c15modelDomain(unit, to) {
		return ""
	}
	rep := st.c.Drv.Ask(fmt.Sprintf("c15.label %d %s %s", v, c15tok(unit), c15tok(to)))
	t := &c15tr{toks: strings.Fields(rep)}
	lr, okq := t.rat()
	lu := t.str()
	if t.bad || !okq {
		return "model reply " + c15trunc(rep)
	}
	var num *big.Rat
	us := ""
	if printed == "0" {
		num = new(big.Rat)
	} else {
		var ok bool
		if num, us, ok = c15parseLabel(printed); !ok {
			return ""
		}
	}
	st.c.Res.ModelCompared++
	if num.Sign() != 0 && lr.Sign() != 0 && us != lu {
		_, _, _, exact := st.expect(new(big.Rat).SetInt64(v), unit, to)
		if (to == "auto" || to == "minimum") && !exact {
			return "" // unit-step ambiguity under inexact float arithmetic
		}
		return fmt.Sprintf("model unit %q", lu)
	}
	if us == lu || num.Sign() == 0 || lr.Sign() == 0 {
		lim := new(big.Rat).Add(big.NewRat(1, 100), new(big.Rat).Mul(c15abs(lr), c15tol))
		if c15abs(new(big.Rat).Sub(num, lr)).Cmp(lim) > 0 {
			return fmt.Sprintf("model number %s%s", lr.FloatString(2), lu)
		}
	}
	return ""
}

// ---------------------------------------------------------------------------------------------
// evaluation of one generated report

type c15rptCtx struct {
	st       *c15State
	cs       c15Case
	from, to string
	rp       *c15Rpt
	units    map[string]string // numeric tag key -> unit
	failed   bool
	partner  bool
}

func (x *c15rptCtx) viol(sig, what string) {
	x.failed = true
	x.st.c.Violation(sig, x.cs.Text+": "+what, x.cs)
}

// label checks one label of a quantity (v, unit); `to` is the output unit in force.
func (x *c15rptCtx) label(site, printed string, v int64, unit, to string) {
	if why := x.st.checkLabel(printed, v, unit, to); why != "" {
		x.viol("C15/report/"+x.rp.Mode+"/"+site, fmt.Sprintf("%s of %d %q is printed %q (output unit %q): %s", site, v, unit, printed, to, why))
		return
	}
	if x.failed {
		return
	}
	if why := x.st.modelLabel(printed, v, unit, to); why != "" {
		x.st.c.Disagree("C15/model-report/"+x.rp.Mode+"/"+site, fmt.Sprintf("%s: %s of %d %q printed %q (output unit %q): %s", x.cs.Text, site, v, unit, printed, to, why), "correspondence Measure.label ~ the labels internal/report prints", x.cs)
		x.failed = true
	}
}

// divided: the whole sample values a report may print for v after `-divide_by` (r = the float64
// 1/divide_by, taken exactly).
// exactDivided: v·r without any truncation (nil when no ratio applies).
func (x *c15rptCtx) exactDivided(v int64) *big.Rat {
	r := x.rp.ratio()
	if !(r > 0 && r != 1) {
		return nil
	}
	R, ok := c15ratOfFloat(r)
	if !ok {
		return nil
	}
	return new(big.Rat).Mul(new(big.Rat).SetInt64(v), R)
}

func (x *c15rptCtx) divided(v int64) []int64 {
	q := x.exactDivided(v)
	if q == nil {
		return []int64{v}
	}
	// report.New truncates v·r to a whole sample unit before labelling; a formatter that rounds
	// instead loses no more, so both whole neighbours of the quotient are admitted
	t := new(big.Int).Quo(q.Num(), q.Denom()) // truncates toward zero
	if !t.IsInt64() {
		return []int64{v}
	}
	out := []int64{t.Int64()}
	if !q.IsInt() {
		out = append(out, t.Int64()+int64(q.Sign()))
	} else {
		// float rounding of the product may land just below a whole number
		out = append(out, t.Int64()-int64(q.Sign()))
	}
	return out
}

// valOK: the printed label is an admissible label of the (divided) sample value.
func (x *c15rptCtx) valOK(printed string, v int64, to string) bool {
	for _, w := range x.divided(v) {
		if x.st.checkLabel(printed, w, x.from, to) == "" {
			return true
		}
	}
	// a formatter that does not truncate the quotient to a whole sample unit is just as good
	if q := x.exactDivided(v); q != nil && x.st.checkLabelQ(printed, q, x.from, to) == "" {
		return true
	}
	return false
}

// valLabel checks one label of a SAMPLE value (flat, cum, weight, total …): with -divide_by the
// quantity printed is the divided value, and an automatic unit must suit THAT value.
func (x *c15rptCtx) valLabel(site, printed string, v int64, to string) {
	ws := x.divided(v)
	if len(ws) == 1 && ws[0] == v && !(x.rp.ratio() > 0 && x.rp.ratio() != 1) {
		x.label(site, printed, v, x.from, to)
		return
	}
	var why string
	found := false
	pass := map[int64]bool{}
	for _, w := range ws {
		if wy := x.st.checkLabel(printed, w, x.from, to); wy == "" {
			pass[w], found = true, true
		} else if why == "" {
			why = wy
		}
	}
	if !found {
		if q := x.exactDivided(v); q != nil && x.st.checkLabelQ(printed, q, x.from, to) == "" {
			// the untruncated quotient, correctly labelled: the property holds; the model (which
			// truncates like report.New does today) is not consulted
			x.st.c.Res.Hit("rpt:divide_by-untruncated-quotient")
			return
		}
		x.viol("C15/report/"+x.rp.Mode+"/divide_by/"+site, fmt.Sprintf("%s of %d %q divided by %v (= %d) is printed %q (output unit %q): %s", site, v, x.from, x.rp.DivideBy, ws[0], printed, to, why))
		return
	}
	if x.failed || !c15modelDomain(x.from, to) {
		return
	}
	// model: scaleByRatio, then the label of the divided value
	R, _ := c15ratOfFloat(x.rp.ratio())
	rep := x.st.c.Drv.Ask(fmt.Sprintf("c15.format %d %s %s %s %s", v, R.Num().String(), R.Denom().String(), c15tok(x.from), c15tok(to)))
	t := &c15tr{toks: strings.Fields(rep)}
	mw := t.big()
	bk := "theorem formatValue_labels_divided_value / correspondence Measure.formatValue ~ report.New's value formatter"
	if t.bad || !mw.IsInt64() {
		x.failed = true
		x.st.c.Disagree("C15/model-report/"+x.rp.Mode+"/divide_by/bad-reply", x.cs.Text+": "+c15trunc(rep), bk, x.cs)
		return
	}
	if mw.Int64() != ws[0] {
		x.failed = true
		x.st.c.Disagree("C15/model-report/"+x.rp.Mode+"/divide_by/divided-value", fmt.Sprintf("%s: %d × %v: model %s, truncated quotient %d", x.cs.Text, v, x.rp.ratio(), mw.String(), ws[0]), bk, x.cs)
		return
	}
	if !pass[ws[0]] {
		x.st.c.Res.Hit("rpt:divide_by-other-whole-neighbour")
		return // printed the other whole neighbour of the quotient (rounding instead of truncating)
	}
	if why := x.st.modelLabel(printed, ws[0], x.from, to); why != "" && len(pass) == 1 {
		x.failed = true
		x.st.c.Disagree("C15/model-report/"+x.rp.Mode+"/divide_by/"+site, fmt.Sprintf("%s: %s of %d %q divided by %v printed %q (output unit %q): %s", x.cs.Text, site, v, x.from, x.rp.DivideBy, printed, to, why), bk, x.cs)
	}
}

// outputUnit: for -top/-tree "minimum" is replaced by ONE unit for the whole report
// (selectOutputUnit); find it from the printed sample values.
func (x *c15rptCtx) outputUnit(printedOf func(unit string) bool) (string, bool) {
	if x.to != "minimum" {
		return x.to, true
	}
	rf := x.st.recognise(x.from)
	var cands []string
	if rf.known {
		for _, u := range x.st.spec[rf.fam].units {
			cands = append(cands, u.display)
		}
	} else {
		cands = []string{x.from, "minimum", ""}
	}
	// a report that leaves "minimum" unresolved selects a unit per value: also fine
	cands = append(cands, "minimum")
	for _, u := range cands {
		if printedOf(u) {
			return u, true
		}
	}
	return "", false
}

var (
	c15tagHdr = regexp.MustCompile(`^\s*(\S+): Total (\S+) of (\S+)(?: \(\s*(\S+)\))?\s*$`)
	c15tagRow = regexp.MustCompile(`^\s+(\S+)(?: \(\s*(\S+)\))?:\s+(\S.*?)\s*$`)
)

func (x *c15rptCtx) evalTags(out string) {
	type row struct{ flat, name string }
	rows := map[string][]row{}
	totals := map[string][2]string{}
	key := ""
	for _, ln := range strings.Split(out, "\n") {
		if m := c15tagHdr.FindStringSubmatch(ln); m != nil {
			key = m[1]
			totals[key] = [2]string{m[2], m[3]}
			continue
		}
		if strings.TrimSpace(ln) == "" {
			key = ""
			continue
		}
		if m := c15tagRow.FindStringSubmatch(ln); m != nil && key != "" {
			rows[key] = append(rows[key], row{m[1], m[3]})
		}
	}
	var profileTotal int64
	for _, s := range x.rp.Samples {
		if s.Value < 0 {
			profileTotal -= s.Value
		} else {
			profileTotal += s.Value
		}
	}
	for k, unit := range x.units {
		rs, ok := rows[k]
		if !ok {
			o := out
			if len(o) > 700 {
				o = o[:700] + "…"
			}
			x.viol("C15/report/tags/key-missing", fmt.Sprintf("numeric tag %q is not listed in:\n%s", k, o))
			continue
		}
		var tagTotal int64
		// every tag value of the key must be shown under a label that reads back to it
		for _, s := range x.rp.Samples {
			for _, nl := range s.Labels {
				if nl.Key != k {
					continue
				}
				tagTotal += s.Value
				found := false
				var why string
				for _, r := range rs {
					if w := x.st.checkLabel(r.name, nl.Value, unit, x.to); w == "" {
						found = true
					} else {
						why = w
					}
				}
				if !found {
					var names []string
					for _, r := range rs {
						names = append(names, r.name)
					}
					x.viol("C15/report/tags/numeric-tag-label", fmt.Sprintf("tag %s=%d %q is shown under none of the labels %q that reads back to it (%s)", k, nl.Value, unit, names, why))
				}
			}
		}
		// every label shown for the key must read back to one of the key's values, and carry their
		// weight (checked when every value reads back to exactly one of the shown labels)
		determined := true
		for _, s := range x.rp.Samples {
			for _, nl := range s.Labels {
				if nl.Key == k {
					n := 0
					for _, r := range rs {
						if x.st.checkLabel(r.name, nl.Value, unit, x.to) == "" {
							n++
						}
					}
					determined = determined && n == 1
				}
			}
		}
		for _, r := range rs {
			var vals []int64
			var weight int64
			for _, s := range x.rp.Samples {
				for _, nl := range s.Labels {
					if nl.Key == k && x.st.checkLabel(r.name, nl.Value, unit, x.to) == "" {
						vals = append(vals, nl.Value)
						weight += s.Value
					}
				}
			}
			if len(vals) == 0 {
				x.viol("C15/report/tags/numeric-tag-label", fmt.Sprintf("tag key %s (unit %q): the label %q reads back to none of the key's values", k, unit, r.name))
				continue
			}
			if determined {
				x.valLabel("tag-weight", r.flat, weight, x.to)
			}
			// model: the label is the model's label of at least one of the values it reads back to
			if !x.failed {
				why := ""
				for _, v := range vals {
					if why = x.st.modelLabel(r.name, v, unit, x.to); why == "" {
						break
					}
				}
				if why != "" {
					x.failed = true
					x.st.c.Disagree("C15/model-report/tags/numeric-tag-label", fmt.Sprintf("%s: tag key %s (unit %q, output unit %q): the shown label %q is the model's label of none of the values %v it reads back to (%s)", x.cs.Text, k, unit, x.to, r.name, vals, why), "correspondence Measure.label ~ the labels internal/report prints", x.cs)
				}
			}
		}
		// model: every value of the key is shown under the model's label for it
		if !x.failed {
			for _, s := range x.rp.Samples {
				for _, nl := range s.Labels {
					if nl.Key != k || x.failed {
						continue
					}
					why := ""
					for _, r := range rs {
						if x.st.checkLabel(r.name, nl.Value, unit, x.to) != "" {
							continue
						}
						if why = x.st.modelLabel(r.name, nl.Value, unit, x.to); why == "" {
							break
						}
					}
					if why != "" {
						x.failed = true
						x.st.c.Disagree("C15/model-report/tags/numeric-tag-label", fmt.Sprintf("%s: tag %s=%d %q (output unit %q) is not shown under the model's label (%s)", x.cs.Text, k, nl.Value, unit, x.to, why), "correspondence Measure.label ~ the labels internal/report prints", x.cs)
					}
				}
			}
		}
		if t, ok := totals[k]; ok {
			x.valLabel("tag-total", t[0], tagTotal, x.to)
			x.valLabel("profile-total", t[1], profileTotal, x.to)
		}
	}
}

var c15traceVal = regexp.MustCompile(`^\s*(\S+)\s+(fn\d\d\d)\s*$`)
var c15traceLbl = regexp.MustCompile(`^\s*(\S+):\s+(\S.*?)\s*$`)

func (x *c15rptCtx) evalTraces(out string) {
	x.evalHeader(out, x.to)
	blocks := strings.Split(out, "-----------+-------------------------------------------------------")
	seen := 0
	for _, b := range blocks[1:] {
		lbls := map[string][]string{}
		val, fn := "", ""
		for _, ln := range strings.Split(b, "\n") {
			if m := c15traceVal.FindStringSubmatch(ln); m != nil {
				val, fn = m[1], m[2]
				break
			}
			if m := c15traceLbl.FindStringSubmatch(ln); m != nil {
				lbls[m[1]] = strings.Fields(m[2])
			}
		}
		if fn == "" {
			continue
		}
		var i int
		fmt.Sscanf(fn, "fn%03d", &i)
		if i >= len(x.rp.Samples) {
			continue
		}
		seen++
		s := x.rp.Samples[i]
		x.valLabel("sample-value", val, s.Value, x.to)
		perKey := map[string][]int64{}
		for _, nl := range s.Labels {
			perKey[nl.Key] = append(perKey[nl.Key], nl.Value)
		}
		for k, vs := range perKey {
			got := lbls[k]
			if len(got) != len(vs) {
				x.viol("C15/report/traces/numeric-tag-missing", fmt.Sprintf("sample %s: tag %s has %d values, %d labels shown", fn, k, len(vs), len(got)))
				continue
			}
			for j, v := range vs {
				x.label("numeric-tag-label", got[j], v, x.units[k], "auto")
			}
		}
	}
	if seen != len(x.rp.Samples) {
		x.viol("C15/report/traces/samples-missing", fmt.Sprintf("%d of %d samples listed", seen, len(x.rp.Samples)))
	}
}

// c15pctMatches: the printed percentage (without padding) against the exact ratio R (in percent),
// by the rule of measurement.Percentage: "100%" within [99.95, 100.05], two decimals from 1% up,
// two significant digits below.
func c15pctMatches(s string, R *big.Rat) bool {
	if !strings.HasSuffix(s, "%") || strings.HasPrefix(s, "-") {
		return false
	}
	p, err := strconv.ParseFloat(strings.TrimSuffix(s, "%"), 64)
	if err != nil || math.IsNaN(p) || math.IsInf(p, 0) {
		return false
	}
	pr, _ := c15ratOfFloat(p)
	near := func(b *big.Rat) bool {
		return c15abs(new(big.Rat).Sub(R, b)).Cmp(new(big.Rat).Mul(b, new(big.Rat).Mul(c15tol, big.NewRat(8, 1)))) <= 0
	}
	lo, hi, one := big.NewRat(9995, 100), big.NewRat(10005, 100), big.NewRat(1, 1)
	check := func(cl string) bool {
		switch cl {
		case "hundred":
			return s == "100%"
		case "fixed":
			lim := new(big.Rat).Add(big.NewRat(5001, 1000000), new(big.Rat).Mul(R, c15tol))
			return c15abs(new(big.Rat).Sub(pr, R)).Cmp(lim) <= 0
		default:
			if R.Sign() == 0 {
				return p == 0
			}
			f, _ := R.Float64()
			lim := new(big.Rat).SetFloat64(0.5001 * math.Pow(10, math.Floor(math.Log10(f))-1) * 1.0000001)
			return lim != nil && c15abs(new(big.Rat).Sub(pr, R)).Cmp(lim) <= 0
		}
	}
	class := "short"
	switch {
	case R.Cmp(lo) >= 0 && R.Cmp(hi) <= 0:
		class = "hundred"
	case R.Cmp(one) >= 0:
		class = "fixed"
	}
	if check(class) {
		return true
	}
	if near(lo) || near(hi) || near(one) {
		return check("hundred") || check("fixed") || check("short")
	}
	return false
}

var c15durLine = regexp.MustCompile(`Duration: (\S+), Total samples = (\S+) ?(?:\(\s*([0-9.eE+-]+%)\))?`)
var c15dropLine = regexp.MustCompile(`Dropped (\d+) nodes? \(cum <= (\S+?)\)`)

// nsFactor: size of the sample unit in nanoseconds when it is a time unit.
func (x *c15rptCtx) nsFactor() (*big.Rat, bool) {
	rf := x.st.recognise(x.from)
	if !rf.known {
		return nil, false
	}
	ns := x.st.recognise("ns")
	if !ns.known || ns.fam != rf.fam {
		return nil, false
	}
	return new(big.Rat).Quo(rf.f, ns.f), true
}

func (x *c15rptCtx) totals() (sum, abssum int64) {
	for _, s := range x.rp.Samples {
		sum += s.Value
		if s.Value < 0 {
			abssum -= s.Value
		} else {
			abssum += s.Value
		}
	}
	return
}

// evalHeader: the header line "Duration: X, Total samples = Y (Z%)".  X is the label of the duration,
// Y the label of the (divided) total in the output unit U in force, Z = total expressed in
// nanoseconds / DurationNanos — a property of the physical profile, whatever unit its samples are
// expressed in; for sample units that are not time units no percentage may be printed.
func (x *c15rptCtx) evalHeader(out, U string) {
	if x.rp.DurationNanos == 0 {
		return
	}
	m := c15durLine.FindStringSubmatch(out)
	if m == nil {
		x.viol("C15/report/"+x.rp.Mode+"/header/duration-line-missing", "no 'Duration: …, Total samples = …' line in:\n"+c15trunc(out))
		return
	}
	_, abssum := x.totals()
	x.label("header/duration", m[1], x.rp.DurationNanos, "nanoseconds", "auto")
	x.valLabel("header/total-samples", m[2], abssum, U)
	f, isTime := x.nsFactor()
	if !isTime {
		if m[3] != "" {
			x.viol("C15/report/"+x.rp.Mode+"/header/percentage-of-non-time-total", fmt.Sprintf("a total in %q was related to the duration: %q", x.from, m[0]))
		}
		return
	}
	if abssum == 0 {
		return
	}
	totalNs := new(big.Rat).Mul(new(big.Rat).SetInt64(abssum), f)
	if totalNs.Cmp(new(big.Rat).SetInt(new(big.Int).Lsh(big.NewInt(1), 62))) >= 0 {
		// assumption of the property: the total expressed in nanoseconds fits an int64 (146 years)
		x.st.c.Res.Hit("rpt:header-total-beyond-int64-ns")
		return
	}
	R := new(big.Rat).Quo(totalNs, new(big.Rat).SetInt64(x.rp.DurationNanos))
	R.Abs(R)
	R.Mul(R, big.NewRat(100, 1))
	x.st.c.Res.Hit("rpt:header-percentage")
	if m[3] == "" || !c15pctMatches(m[3], R) {
		rf, _ := R.Float64()
		x.viol("C15/report/"+x.rp.Mode+"/header/percentage-of-duration", fmt.Sprintf("header %q: the total is %s ns of a duration of %d ns = %v%%", m[0], totalNs.RatString(), x.rp.DurationNanos, rf))
		return
	}
	if x.failed {
		return
	}
	// model: Measure.percentage on (total in ns, duration)
	if totalNs.IsInt() && totalNs.Num().IsInt64() {
		rep := x.st.c.Drv.Ask(fmt.Sprintf("c15.pct %d %d", totalNs.Num().Int64(), x.rp.DurationNanos))
		tk := &c15tr{toks: strings.Fields(rep)}
		mr, okq := tk.rat()
		x.st.c.Res.ModelCompared++
		if tk.bad || !okq || !c15pctMatches(m[3], mr) {
			x.failed = true
			x.st.c.Disagree("C15/model-report/"+x.rp.Mode+"/header/percentage-of-duration", fmt.Sprintf("%s: header %q, model %s", x.cs.Text, m[0], c15trunc(rep)), "theorem percentage_abs / correspondence Measure.percentage ~ the header percentage of internal/report", x.cs)
			return
		}
	}
	// metamorphic: the same physical profile expressed in a finer time unit prints the same percentage
	if x.rp.CLI || x.partner {
		return
	}
	rf := x.st.recognise(x.from)
	for _, u := range x.st.spec[rf.fam].units {
		k := new(big.Rat).Quo(rf.f, u.f)
		if !k.IsInt() || k.Cmp(big.NewRat(1, 1)) <= 0 || !k.Num().IsInt64() {
			continue
		}
		kk := k.Num().Int64()
		q := *x.rp
		q.Samples = nil
		okv := true
		for _, s := range x.rp.Samples {
			if s.Value > (1<<52)/kk || s.Value < -(1<<52)/kk {
				okv = false
			}
			q.Samples = append(q.Samples, c15RptSample{Value: s.Value * kk, Labels: s.Labels})
		}
		if !okv || abssum > (1<<52)/kk {
			continue
		}
		o2, pn, err := c15rptInProcess(u.names[0], x.to, &q)
		if pn != "" || err != nil {
			continue
		}
		m2 := c15durLine.FindStringSubmatch(o2)
		if m2 == nil || m2[3] != m[3] {
			got := "<none>"
			if m2 != nil {
				got = m2[0]
			}
			x.viol("C15/report/"+x.rp.Mode+"/header/percentage-depends-on-unit", fmt.Sprintf("the same profile with its samples expressed in %q (values × %d) prints %q, in %q it prints %q", u.names[0], kk, got, x.from, m[0]))
			return
		}
		x.st.c.Res.Hit("rpt:header-percentage-metamorphic")
	}
}

// dot: N1 [label="fn000\n4kB (12.5%)" …]  /  N2 [label="root\n0 of 32kB (100%)" …]  /
// N2 -> N1 [label=" 4kB" … tooltip="root -> fn000 (4kB)" …]
var c15dotNode = regexp.MustCompile(`^N\d+ \[label="([^"\\]+)\\n(\S+)(?: of (\S+))? \(`)
var c15dotEdge = regexp.MustCompile(`^N\d+ -> N\d+ \[label=" (\S+)".* tooltip="\S+ -> (\S+) \(`)

// dot nodelets of numeric tags: NN3_0 [label = "2kB" id="NN3_0" fontsize=8 shape=box3d tooltip="2048B"]
// (N3 is the node they hang from); only the tag with the key "bytes" survives into graph reports.
var c15dotNodeID = regexp.MustCompile(`^N(\d+) \[label="([^"\\]+)\\n`)
var c15dotNodelet = regexp.MustCompile(`^NN(\d+)_(\d+) \[label = "([^"]*)" .*tooltip="([^"]*)"\]`)

var c15legend = regexp.MustCompile(`Showing nodes accounting for (\S+), (\S+) of (\S+) total`)

// evalTop handles -top and -tree (and -top -tagroot=key when rootKey != "").
type c15node struct{ flat, cum, name string }
type c15edge struct{ w, name string }

func c15parseTopLike(out, kind string) (nodes []c15node, edges []c15edge) {
	type node = c15node
	type edge = c15edge
	hdr := false
	tree := kind == "tree" || kind == "peek"
	for _, ln := range strings.Split(out, "\n") {
		f := strings.Fields(ln)
		if kind == "dot" {
			if m := c15dotNode.FindStringSubmatch(ln); m != nil {
				cum := m[3]
				if cum == "" {
					cum = m[2]
				}
				nodes = append(nodes, node{m[2], cum, m[1]})
			} else if m := c15dotEdge.FindStringSubmatch(ln); m != nil {
				edges = append(edges, edge{m[1], m[2]})
			}
			continue
		}
		if !hdr {
			if len(f) >= 5 && f[0] == "flat" && f[1] == "flat%" {
				hdr = true
			}
			continue
		}
		if tree {
			i := strings.Index(ln, "|")
			if i < 0 {
				continue
			}
			l, name := strings.Fields(ln[:i]), strings.TrimSpace(ln[i+1:])
			switch len(l) {
			case 5:
				nodes = append(nodes, node{l[0], l[3], name})
			case 2:
				edges = append(edges, edge{l[0], name})
			}
		} else if len(f) == 6 {
			nodes = append(nodes, node{f[0], f[3], f[5]})
		}
	}
	return nodes, edges
}

func (x *c15rptCtx) evalTop(out string, kind string, rootKey string) {
	type node = c15node
	nodes, edges := c15parseTopLike(out, kind)
	sum, abssum := x.totals()
	// nodes the report may drop: cum <= |total × nodeFraction|
	cutoff := int64(0)
	if x.rp.NodeFraction > 0 {
		cutoff = int64(float64(abssum) * x.rp.NodeFraction)
	}
	dropped := func(v int64) bool {
		if v < 0 {
			v = -v
		}
		if x.rp.NoRoot && v == 0 {
			return true // a function whose value truncated to 0 may be left out
		}
		return x.rp.NodeFraction > 0 && v <= cutoff+1 // +1: float rounding of the product
	}
	leaf := map[string]node{}
	for _, n := range nodes {
		leaf[n.name] = n
	}
	// the one output unit of the report
	U, ok := x.outputUnit(func(u string) bool {
		for i, s := range x.rp.Samples {
			n, ok := leaf[fmt.Sprintf("fn%03d", i)]
			if ok && !x.valOK(n.flat, s.Value, u) {
				return false
			}
		}
		// labels that print as "0" fit every unit: the totals decide then
		if r, ok := leaf["root"]; ok && !x.rp.NoRoot && !x.valOK(r.cum, sum, u) {
			return false
		}
		if m := c15legend.FindStringSubmatch(out); m != nil && !x.valOK(m[3], abssum, u) {
			return false
		}
		return true
	})
	for i := range x.rp.Samples {
		if _, ok := leaf[fmt.Sprintf("fn%03d", i)]; !ok && (kind != "peek" || i == 0) && !dropped(x.rp.Samples[i].Value) {
			x.viol("C15/report/"+x.rp.Mode+"/rows-missing", fmt.Sprintf("fn%03d is not listed in:\n%s", i, c15trunc(out)))
			return
		}
	}
	if !ok {
		x.viol("C15/report/"+x.rp.Mode+"/minimum/no-single-unit-of-the-family", "the flat values are not all printed in one unit of the sample unit's family within display rounding:\n"+c15trunc(out))
		return
	}
	ratioActive := x.rp.ratio() > 0 && x.rp.ratio() != 1
	if x.to == "minimum" && !ratioActive && rootKey == "" {
		// selectOutputUnit takes the unit from the smallest non-zero magnitude (×100 at most): no
		// non-zero value may vanish
		for i, s := range x.rp.Samples {
			if n, listed := leaf[fmt.Sprintf("fn%03d", i)]; listed && s.Value != 0 && n.flat == "0" {
				x.viol("C15/report/"+x.rp.Mode+"/minimum/non-zero-value-printed-as-0", fmt.Sprintf("fn%03d has the value %d %q and is printed as 0 under unit=minimum (the unit must suit the smallest non-zero magnitude):\n%s", i, s.Value, x.from, c15trunc(out)))
				break
			}
		}
	}
	if x.to == "minimum" && rootKey == "" && x.rp.NodeFraction == 0 && !x.failed && c15modelDomain(x.from) {
		if mu, ok := x.modelUnit(sum, abssum, false); ok {
			x.st.c.Res.ModelCompared++
			if !x.consistentWith(leaf, sum, abssum, out, mu) && !x.stepAmbiguous(U) {
				x.failed = true
				x.st.c.Disagree("C15/model-report/"+x.rp.Mode+"/minimum/output-unit", fmt.Sprintf("%s: the labels are not in the unit %q the model of selectOutputUnit chooses:\n%s", x.cs.Text, mu, c15trunc(out)), "theorems selectOutputUnit_sign_invariant, selectOutputUnit_keeps_smallest_visible / correspondence Measure.selectOutputUnit ~ Report.selectOutputUnit", x.cs)
			}
		}
	}
	for i, s := range x.rp.Samples {
		n, listed := leaf[fmt.Sprintf("fn%03d", i)]
		if !listed {
			continue
		}
		x.valLabel("flat", n.flat, s.Value, U)
		x.valLabel("cum", n.cum, s.Value, U)
	}
	if r, ok := leaf["root"]; ok && !x.rp.NoRoot {
		x.valLabel("flat", r.flat, 0, U)
		x.valLabel("cum", r.cum, sum, U)
	}
	for _, e := range edges {
		var i int
		if _, err := fmt.Sscanf(e.name, "fn%03d", &i); err == nil && i < len(x.rp.Samples) {
			x.valLabel("edge", e.w, x.rp.Samples[i].Value, U)
		}
	}
	if kind == "dot" {
		x.evalNodelets(out, U)
	}
	x.evalHeader(out, U)
	if m := c15dropLine.FindStringSubmatch(out); m != nil {
		x.st.c.Res.Hit("rpt:dropped-line")
		x.valLabel("dropped-cutoff", m[2], cutoff, U)
	}
	if m := c15legend.FindStringSubmatch(out); m != nil {
		x.valLabel("legend-total", m[3], abssum, U)
		// "accounting for S, P of T": S = the shown flat values, P their share of the total
		shown := int64(0)
		for i, s := range x.rp.Samples {
			if _, ok := leaf[fmt.Sprintf("fn%03d", i)]; ok || kind == "peek" {
				shown += s.Value
			}
		}
		if kind != "peek" {
			x.valLabel("legend-shown", m[1], shown, U)
			if abssum != 0 {
				R := new(big.Rat).Quo(new(big.Rat).SetInt64(shown), new(big.Rat).SetInt64(abssum))
				R.Abs(R)
				R.Mul(R, big.NewRat(100, 1))
				if !c15pctMatches(m[2], R) {
					rf, _ := R.Float64()
					x.viol("C15/report/"+x.rp.Mode+"/legend-percentage", fmt.Sprintf("%q: the shown nodes are %v%% of the total", m[0], rf))
				}
			}
		}
	} else {
		x.viol("C15/report/"+x.rp.Mode+"/legend-missing", "no 'Showing nodes accounting for' line")
	}
	if rootKey != "" {
		// -tagroot=key: each sample gets a root frame named after the key's value
		unit := x.units[rootKey]
		for _, n := range nodes {
			if strings.HasPrefix(n.name, "fn") || n.name == "root" || n.name == "<unknown>" {
				continue
			}
			okv := false
			var why string
			for _, s := range x.rp.Samples {
				for _, nl := range s.Labels {
					if nl.Key == rootKey {
						if w := x.st.checkLabel(n.name, nl.Value, unit, x.to); w == "" {
							okv = true
						} else {
							why = w
						}
					}
				}
			}
			if !okv {
				x.viol("C15/report/tagroot/frame-label", fmt.Sprintf("root frame %q reads back to none of the values of tag %s (unit %q): %s", n.name, rootKey, unit, why))
			}
		}
	}
}

// evalNodelets: the numeric-tag nodelets of a dot graph.  Graph reports keep the numeric tag whose
// KEY is "bytes" (whatever its unit string); its value is labelled when the graph is built, i.e.
// under the output unit as requested (a "minimum" is still unresolved then: per-value automatic
// selection), its weight with the report's value formatter.
func (x *c15rptCtx) evalNodelets(out, U string) {
	unit, ok := x.units["bytes"]
	if !ok {
		return
	}
	ids := map[string]string{}
	type nl struct{ label, weight string }
	lets := map[string][]nl{}
	for _, ln := range strings.Split(out, "\n") {
		if m := c15dotNodeID.FindStringSubmatch(ln); m != nil {
			ids[m[1]] = m[2]
		} else if m := c15dotNodelet.FindStringSubmatch(ln); m != nil {
			lets[m[1]] = append(lets[m[1]], nl{m[3], m[4]})
		}
	}
	byName := map[string][]nl{}
	for id, l := range lets {
		byName[ids[id]] = l
	}
	for i, s := range x.rp.Samples {
		name := fmt.Sprintf("fn%03d", i)
		var tv *int64
		for _, l := range s.Labels {
			if l.Key == "bytes" {
				v := l.Value
				tv = &v
			}
		}
		found := false
		for _, id := range ids {
			found = found || id == name
		}
		if tv == nil || !found || s.Value == 0 {
			continue
		}
		x.st.c.Res.Hit("rpt:dot-nodelet")
		l := byName[name]
		if len(l) != 1 {
			x.viol("C15/report/dot/nodelet-missing", fmt.Sprintf("%s carries the numeric tag bytes=%d %q and has %d nodelets", name, *tv, unit, len(l)))
			continue
		}
		x.label("nodelet-tag-label", l[0].label, *tv, unit, x.to)
		x.valLabel("nodelet-weight", l[0].weight, s.Value, U)
	}
}

var (
	c15cgEvents = regexp.MustCompile(`^events: \S*?\((.*)\)\s*$`)
	c15cgName   = regexp.MustCompile(`^(c?fn)=\((\d+)\)(?: (\S+))?`)
	c15cgSelf   = regexp.MustCompile(`^\S+ \d+ (-?\d+)$`)
	c15cgIncl   = regexp.MustCompile(`^\* \* (-?\d+)$`)
)

// c15parseCallgrind: the unit of the events line, the self cost per function and the inclusive cost
// of each call (by callee).
func c15parseCallgrind(out string) (unit string, self, calls map[string]string, ok bool) {
	self, calls = map[string]string{}, map[string]string{}
	names := map[string]string{}
	cur, callee := "", ""
	for _, ln := range strings.Split(out, "\n") {
		if m := c15cgEvents.FindStringSubmatch(ln); m != nil {
			unit, ok = m[1], true
			continue
		}
		if m := c15cgName.FindStringSubmatch(ln); m != nil {
			if m[3] != "" {
				names[m[2]] = m[3]
			}
			if m[1] == "fn" {
				cur, callee = names[m[2]], ""
			} else {
				callee = names[m[2]]
			}
			continue
		}
		if m := c15cgIncl.FindStringSubmatch(ln); m != nil && callee != "" {
			calls[callee] = m[1]
			callee = ""
			continue
		}
		if m := c15cgSelf.FindStringSubmatch(ln); m != nil && cur != "" && !strings.HasPrefix(ln, "calls=") {
			if _, dup := self[cur]; !dup {
				self[cur] = m[1]
			}
		}
	}
	return unit, self, calls, ok
}

// evalCallgrind: callgrind costs are whole numbers of the output unit named in the events line:
// every self cost and every inclusive call cost is the sample value converted EXACTLY and truncated
// (int64(Scale(v, sample unit, output unit))) — bit-exact where the arithmetic is exact, within
// one unit otherwise.  -divide_by does not apply to callgrind costs.
func (x *c15rptCtx) evalCallgrind(out string) {
	U, self, calls, ok := c15parseCallgrind(out)
	if !ok {
		x.viol("C15/report/callgrind/no-events-line", "no 'events:' line in:\n"+c15trunc(out))
		return
	}
	rf, ru := x.st.recognise(x.from), x.st.recognise(U)
	sum, abssum := x.totals()
	if x.to == "minimum" && rf.known && !(ru.known && ru.fam == rf.fam) {
		x.viol("C15/report/callgrind/unit", fmt.Sprintf("events unit %q is not a unit of the family of the sample unit %q", U, x.from))
		return
	}
	if rf.known && !(ru.known && ru.fam == rf.fam) {
		x.st.c.Res.Hit("rpt:callgrind-foreign-target-skipped")
		return
	}
	check := func(site, name, got string, v int64) {
		g, err := strconv.ParseInt(got, 10, 64)
		if err != nil {
			x.viol("C15/report/callgrind/"+site+"-missing", fmt.Sprintf("no %s cost line for %s in:\n%s", site, name, c15trunc(out)))
			return
		}
		want := new(big.Rat).SetInt64(v)
		exact := true
		if rf.known {
			want.Mul(want, new(big.Rat).Quo(rf.f, ru.f))
			fam := &x.st.spec[rf.fam]
			exact = c15exactRegime(fam, v, rf.f)
		}
		if c15abs(want).Cmp(new(big.Rat).SetInt(new(big.Int).Lsh(big.NewInt(1), 62))) >= 0 {
			return
		}
		t := new(big.Int).Quo(want.Num(), want.Denom()) // truncation toward zero
		okc := t.IsInt64() && t.Int64() == g
		if !okc && !exact {
			// inexact float arithmetic: one unit either way
			d := c15abs(new(big.Rat).Sub(new(big.Rat).SetInt64(g), want))
			okc = d.Cmp(new(big.Rat).Add(big.NewRat(1, 1), new(big.Rat).Mul(c15abs(want), c15tol))) <= 0
		}
		if !okc {
			wf, _ := want.Float64()
			x.viol("C15/report/callgrind/"+site, fmt.Sprintf("%s cost of %s: %d %q is written as %d %q; the exact conversion is %v, truncated %s", site, name, v, x.from, g, U, wf, t.String()))
			return
		}
		// model: trunc of Measure.scale
		if !x.failed && exact && c15modelDomain(x.from, U) {
			rep := x.st.c.Drv.Ask(fmt.Sprintf("c15.scale %d %s %s", v, c15tok(x.from), c15tok(U)))
			tk := &c15tr{toks: strings.Fields(rep)}
			mr, okq := tk.rat()
			x.st.c.Res.ModelCompared++
			if tk.bad || !okq || new(big.Int).Quo(mr.Num(), mr.Denom()).Cmp(big.NewInt(g)) != 0 {
				x.failed = true
				x.st.c.Disagree("C15/model-report/callgrind/"+site, fmt.Sprintf("%s: %s cost of %s is %d %q, model scale %s", x.cs.Text, site, name, g, U, c15trunc(rep)), "theorem scale_same_family_exact / correspondence trunc(Measure.scale) ~ callgrind cost lines", x.cs)
			}
		}
	}
	for i, s := range x.rp.Samples {
		n := fmt.Sprintf("fn%03d", i)
		x.st.c.Res.Hit("rpt:callgrind-cost")
		check("self", n, self[n], s.Value)
		if c, present := calls[n]; present { // (the root disappears from the graph when its signed sum is 0)
			check("call", n, c, s.Value)
		}
	}
	if x.to == "minimum" && !x.failed && c15modelDomain(x.from) {
		if mu, ok := x.modelUnit(sum, abssum, true); ok && mu != U && !x.stepAmbiguous(U) {
			x.failed = true
			x.st.c.Disagree("C15/model-report/callgrind/minimum/output-unit", fmt.Sprintf("%s: events unit %q, the model of selectOutputUnit (callgrind) chooses %q", x.cs.Text, U, mu), "correspondence Measure.selectOutputUnit ~ Report.selectOutputUnit", x.cs)
		}
	}
}

// stepAmbiguous: in a family whose factors are not exact float64 values (GCU) the float comparison
// "value/factor >= 1" can go either way exactly at a unit step; U is then accepted when it is an
// admissible automatic unit, within that tolerance, for the smallest magnitude (or 100 times it).
func (x *c15rptCtx) stepAmbiguous(U string) bool {
	rf := x.st.recognise(x.from)
	if !rf.known || x.st.spec[rf.fam].integer {
		return false
	}
	fam := &x.st.spec[rf.fam]
	sum, _ := x.totals()
	minMag := int64(0)
	for _, v := range append([]int64{sum}, func() []int64 {
		var vs []int64
		for _, s := range x.rp.Samples {
			vs = append(vs, s.Value)
		}
		return vs
	}()...) {
		if a := max(v, -v); a != 0 && (minMag == 0 || a < minMag) {
			minMag = a
		}
	}
	for _, m := range []int64{minMag, 100 * minMag} {
		M := c15abs(new(big.Rat).Mul(new(big.Rat).SetInt64(m), rf.f))
		if _, ok := x.st.acceptableAutoM(fam, M, false)[U]; ok {
			x.st.c.Res.Hit("rpt:selectunit-step-ambiguous")
			return true
		}
	}
	return false
}

// modelUnit asks the model of selectOutputUnit for the graph of this profile: one leaf node per
// sample (flat = cum = value) and the root (flat 0, cum Σ values).
func (x *c15rptCtx) modelUnit(sum, abssum int64, callgrind bool) (string, bool) {
	var b strings.Builder
	if x.rp.NoRoot {
		return "", false
	}
	// the model truncates min·r and total·r in exact arithmetic; where the float64 product lands on
	// the other side of a whole number the two legitimately differ: not compared
	if q := x.exactDivided(abssum); q != nil {
		minMag := int64(0)
		for _, v := range append([]int64{sum}, func() []int64 {
			var vs []int64
			for _, s := range x.rp.Samples {
				vs = append(vs, s.Value)
			}
			return vs
		}()...) {
			if a := max(v, -v); a != 0 && (minMag == 0 || a < minMag) {
				minMag = a
			}
		}
		for _, v := range []int64{minMag, abssum} {
			qq := x.exactDivided(v)
			half := big.NewRat(1, 2)
			nq := new(big.Rat).Add(qq, half)
			n := new(big.Int).Quo(nq.Num(), nq.Denom())
			d := c15abs(new(big.Rat).Sub(qq, new(big.Rat).SetInt(n)))
			if d.Sign() != 0 && d.Cmp(new(big.Rat).Mul(c15abs(qq), c15tol)) <= 0 {
				x.st.c.Res.Hit("rpt:selectunit-float-boundary-skipped")
				return "", false
			}
		}
	}
	fmt.Fprintf(&b, "c15.selectunit %d", len(x.rp.Samples)+1)
	for _, s := range x.rp.Samples {
		fmt.Fprintf(&b, " %d %d", s.Value, s.Value)
	}
	fmt.Fprintf(&b, " 0 %d %d", sum, abssum)
	R, ok := c15ratOfFloat(x.rp.ratio())
	if !ok {
		return "", false
	}
	cg := 0
	if callgrind {
		cg = 1
	}
	fmt.Fprintf(&b, " %s %s %s %d", R.Num().String(), R.Denom().String(), c15tok(x.from), cg)
	rep := x.st.c.Drv.Ask(b.String())
	t := &c15tr{toks: strings.Fields(rep)}
	u := t.str()
	if t.bad {
		return "", false
	}
	return u, true
}

// consistentWith: every sample-value label of a top-like report is an admissible label under unit u.
func (x *c15rptCtx) consistentWith(leaf map[string]c15node, sum, abssum int64, out, u string) bool {
	for i, s := range x.rp.Samples {
		if n, ok := leaf[fmt.Sprintf("fn%03d", i)]; ok && !x.valOK(n.flat, s.Value, u) {
			return false
		}
	}
	if r, ok := leaf["root"]; ok && !x.rp.NoRoot && !x.valOK(r.cum, sum, u) {
		return false
	}
	if m := c15legend.FindStringSubmatch(out); m != nil && !x.valOK(m[3], abssum, u) {
		return false
	}
	return true
}

func c15mirror(l string) string {
	switch {
	case l == "0" || l == "":
		return l
	case strings.HasPrefix(l, "-"):
		return l[1:]
	}
	return "-" + l
}

// quantities: every printed quantity of a report, by name.  Keys with "~" are sign-sensitive
// sums of several samples (mirrored only when ALL values are negated), keys with "^" depend on the
// magnitude of such a sum; "flat:"/"cum:"/"edge:"/
// "value:" keys belong to the sample fnNNN; all others do not depend on signs.
func c15quantities(out, mode string) map[string]string {
	q := map[string]string{}
	switch mode {
	case "top", "tree", "peek", "dot":
		nodes, edges := c15parseTopLike(out, mode)
		for _, n := range nodes {
			if strings.HasPrefix(n.name, "fn") {
				q["flat:"+n.name], q["cum:"+n.name] = n.flat, n.cum
			} else if n.name == "root" {
				q["rootcum~"] = n.cum
			}
		}
		for _, e := range edges {
			if strings.HasPrefix(e.name, "fn") {
				q["edge:"+e.name] = e.w
			}
		}
		if m := c15legend.FindStringSubmatch(out); m != nil {
			q["legend-shown~"], q["legend-pct^"], q["legend-total"] = m[1], m[2], m[3]
		}
	case "traces":
		for _, b := range strings.Split(out, "-----------+-------------------------------------------------------")[1:] {
			lbls := ""
			for _, ln := range strings.Split(b, "\n") {
				if m := c15traceVal.FindStringSubmatch(ln); m != nil {
					q["value:"+m[2]] = m[1]
					q["tags:"+m[2]] = lbls
					break
				}
				lbls += strings.Join(strings.Fields(ln), " ") + ";"
			}
		}
	case "tags":
		key := ""
		for _, ln := range strings.Split(out, "\n") {
			if m := c15tagHdr.FindStringSubmatch(ln); m != nil {
				key = m[1]
				q["tagtotal~:"+key], q["profiletotal:"+key] = m[2], m[3]
			} else if strings.TrimSpace(ln) == "" {
				key = ""
			} else if m := c15tagRow.FindStringSubmatch(ln); m != nil && key != "" {
				q["tagrow~:"+key+":"+m[3]] = m[1]
			}
		}
	case "callgrind":
		if u, self, calls, ok := c15parseCallgrind(out); ok {
			q["unit"] = u
			for n, v := range self {
				if strings.HasPrefix(n, "fn") {
					q["flat:"+n] = v
				}
			}
			for n, v := range calls {
				if strings.HasPrefix(n, "fn") {
					q["edge:"+n] = v
				}
			}
		}
	case "topproto":
		if p, err := profile.ParseData([]byte(out)); err == nil && len(p.SampleType) == 2 {
			q["unit"] = p.SampleType[1].Unit
			for _, s := range p.Sample {
				if len(s.Location) == 1 && len(s.Location[0].Line) == 1 && s.Location[0].Line[0].Function != nil && len(s.Value) == 2 {
					n := s.Location[0].Line[0].Function.Name
					if strings.HasPrefix(n, "fn") {
						q["flat:"+n], q["cum:"+n] = strconv.FormatInt(s.Value[1], 10), strconv.FormatInt(s.Value[0], 10)
					} else if n == "root" {
						q["rootcum~"] = strconv.FormatInt(s.Value[0], 10)
					}
				}
			}
		}
	}
	if m := c15durLine.FindStringSubmatch(out); m != nil {
		q["header-duration"], q["header-total"], q["header-pct"] = m[1], m[2], m[3]
	}
	return q
}

// signMetamorphic: the same profile with values negated must print mirror-image labels: the same
// unit and digits with the sign flipped for every quantity that is negated, identical text for
// those that are not (totals are sums of magnitudes).  Variant 1 negates every value; variant 2 a
// subset (then only per-sample quantities and totals are compared, and only when the root's signed
// sum is not what selectOutputUnit takes the unit from).
func (x *c15rptCtx) signMetamorphic(out string) {
	if x.rp.CLI || x.partner || x.failed {
		return
	}
	base := c15quantities(out, x.rp.Mode)
	for variant := 1; variant <= 2; variant++ {
		q := *x.rp
		q.Samples = nil
		flipped := map[string]bool{}
		var sum1, sum2, minLeaf int64
		for i, s := range x.rp.Samples {
			f := variant == 1 || (uint64(s.Value)*2654435761+uint64(i)*40503)%3 == 0
			v := s.Value
			sum1 += v
			if f {
				v = -v
				flipped[fmt.Sprintf("fn%03d", i)] = true
			}
			sum2 += v
			if a := max(s.Value, -s.Value); a != 0 && (minLeaf == 0 || a < minLeaf) {
				minLeaf = a
			}
			q.Samples = append(q.Samples, c15RptSample{Value: v, Labels: s.Labels})
		}
		if variant == 2 {
			if len(flipped) == 0 || len(flipped) == len(x.rp.Samples) || x.rp.NodeFraction > 0 {
				continue // (with trimming the root's signed sum decides which nodes the graph keeps)
			}
			a1, a2 := max(sum1, -sum1), max(sum2, -sum2)
			if (a1 != 0 && a1 < minLeaf) || (a2 != 0 && a2 < minLeaf) {
				continue // the root's cum is the smallest magnitude in one rendering only
			}
		}
		o2, pn, err := c15rptInProcess(x.from, x.to, &q)
		if pn != "" || err != nil {
			x.viol("C15/report/"+x.rp.Mode+"/negated/generate-failed", fmt.Sprintf("the profile with negated values cannot be rendered: %s %v", pn, err))
			return
		}
		other := c15quantities(o2, x.rp.Mode)
		x.st.c.Res.Hit(fmt.Sprintf("rpt:sign-metamorphic-%d", variant))
		keys := make([]string, 0, len(base))
		for k := range base {
			keys = append(keys, k)
		}
		sort.Strings(keys)
		for _, k := range keys {
			a := base[k]
			b, ok := other[k]
			want := a
			name := k
			if i := strings.Index(k, ":"); i >= 0 {
				name = k[i+1:]
			}
			switch {
			case strings.Contains(k, "^"): // depends on a signed sum, but not on its sign
				if variant == 2 {
					continue
				}
			case strings.Contains(k, "~"):
				if variant == 2 {
					continue
				}
				want = c15mirror(a)
			case strings.HasPrefix(k, "flat:") || strings.HasPrefix(k, "cum:") || strings.HasPrefix(k, "edge:") || strings.HasPrefix(k, "value:"):
				if flipped[name] {
					want = c15mirror(a)
				}
			}
			if !ok {
				if variant == 2 || strings.HasPrefix(k, "tagrow") {
					continue // trimmed rows / regrouped labels
				}
				b = "<missing>"
			}
			if strings.Contains(a, "9223372036854775808") || strings.Contains(b, "9223372036854775808") {
				continue // int64 overflow of a converted value: outside the property's domain
			}
			if b != want {
				what := "all values negated"
				if variant == 2 {
					what = fmt.Sprintf("the values of %d of %d samples negated", len(flipped), len(x.rp.Samples))
				}
				x.viol("C15/report/"+x.rp.Mode+"/negation-not-mirrored", fmt.Sprintf("with %s, %s is printed %q; the original prints %q, so %q was expected (same unit and digits, sign flipped where the value is):\n--- original\n%s\n--- negated\n%s", what, k, b, a, want, c15trunc(out), c15trunc(o2)))
				return
			}
		}
	}
}

// evalTopProto: -topproto writes the top nodes as a profile whose sample types carry the output unit.
func (x *c15rptCtx) evalTopProto(out string) {
	q := c15quantities(out, "topproto")
	U, ok := q["unit"]
	if !ok {
		x.viol("C15/report/topproto/unparsable", "the output is not a profile with (cum, flat) sample types")
		return
	}
	sum, abssum := x.totals()
	check := func(site string, got string, v int64) {
		g, err := strconv.ParseInt(got, 10, 64)
		if err != nil {
			return
		}
		// int64(Scale(v, sample unit, U)): within one unit of the exact magnitude, in U
		rf, ru := x.st.recognise(x.from), x.st.recognise(U)
		var want *big.Rat
		switch {
		case !rf.known:
			want = new(big.Rat).SetInt64(v)
		case ru.known && ru.fam == rf.fam:
			want = new(big.Rat).Quo(new(big.Rat).Mul(new(big.Rat).SetInt64(v), rf.f), ru.f)
		default:
			if x.to == "minimum" {
				x.viol("C15/report/topproto/unit", fmt.Sprintf("sample type unit %q is not a unit of the family of the sample unit %q", U, x.from))
			} else {
				// an explicit -unit of another family: the proto is labelled with the requested string
				// while the values are in the family's default unit; not judged here
				x.st.c.Res.Hit("rpt:topproto-foreign-target-skipped")
			}
			return
		}
		if c15abs(want).Cmp(new(big.Rat).SetInt(new(big.Int).Lsh(big.NewInt(1), 62))) >= 0 {
			return // the converted value does not fit an int64: outside the property's domain
		}
		lim := new(big.Rat).Add(big.NewRat(1, 1), new(big.Rat).Mul(c15abs(want), c15tol))
		if c15abs(new(big.Rat).Sub(new(big.Rat).SetInt64(g), want)).Cmp(lim) > 0 {
			wf, _ := want.Float64()
			x.viol("C15/report/topproto/"+site, fmt.Sprintf("%s of %d %q is written as %d %q, expected %v", site, v, x.from, g, U, wf))
		}
	}
	for i, s := range x.rp.Samples {
		n := fmt.Sprintf("fn%03d", i)
		if f, ok := q["flat:"+n]; ok {
			check("flat", f, s.Value)
			check("cum", q["cum:"+n], s.Value)
		}
	}
	if rc, ok := q["rootcum~"]; ok {
		check("cum", rc, sum)
	}
	if x.to == "minimum" && x.rp.NodeFraction == 0 && !x.failed && c15modelDomain(x.from) {
		if mu, ok := x.modelUnit(sum, abssum, false); ok && mu != U && !x.stepAmbiguous(U) {
			x.failed = true
			x.st.c.Disagree("C15/model-report/topproto/minimum/output-unit", fmt.Sprintf("%s: unit %q, the model of selectOutputUnit chooses %q", x.cs.Text, U, mu), "correspondence Measure.selectOutputUnit ~ Report.selectOutputUnit", x.cs)
		}
	}
}

func (st *c15State) rptEval(cs c15Case, out string) bool {
	rp := cs.Rpt
	x := &c15rptCtx{st: st, cs: cs, from: c15unhex(cs.From), to: c15unhex(cs.To), rp: rp, units: map[string]string{}}
	for _, s := range rp.Samples {
		for _, nl := range s.Labels {
			x.units[nl.Key] = c15unhex(nl.Unit)
		}
	}
	switch rp.Mode {
	case "tags":
		x.evalTags(out)
	case "traces":
		x.evalTraces(out)
	case "top":
		x.evalTop(out, "top", "")
	case "tree", "peek", "dot":
		x.evalTop(out, rp.Mode, "")
	case "tagroot":
		x.evalTop(out, "top", rp.RootKey)
	case "topproto":
		x.evalTopProto(out)
	case "callgrind":
		x.evalCallgrind(out)
	}
	if rp.Mode != "tagroot" {
		x.signMetamorphic(out)
	}
	fams := map[int]bool{}
	for _, u := range x.units {
		if r := st.recognise(u); r.known {
			fams[r.fam] = true
		}
	}
	return len(fams) >= 2 || ((rp.Mode == "top" || rp.Mode == "tree" || rp.Mode == "peek" || rp.Mode == "dot" || rp.Mode == "topproto" || rp.Mode == "callgrind") && st.recognise(x.from).known)
}

func c15rptText(cs c15Case) string {
	rp := cs.Rpt
	var b strings.Builder
	how := "report.Generate"
	if rp.CLI {
		how = "pprof"
	}
	fmt.Fprintf(&b, "%s -%s -unit=%s (sample unit %q", how, rp.Mode, c15unhex(cs.To), c15unhex(cs.From))
	if rp.Reverse {
		b.WriteString(", samples reversed")
	}
	if rp.RootKey != "" {
		b.WriteString(", -tagroot=" + rp.RootKey)
	}
	if rp.DivideBy != 0 {
		fmt.Fprintf(&b, ", -divide_by=%v", rp.DivideBy)
	}
	if rp.DurationNanos != 0 {
		fmt.Fprintf(&b, ", DurationNanos=%d", rp.DurationNanos)
	}
	if rp.NodeFraction != 0 {
		fmt.Fprintf(&b, ", nodefraction=%v", rp.NodeFraction)
	}
	b.WriteString("; samples")
	for _, s := range rp.Samples {
		fmt.Fprintf(&b, " %d{", s.Value)
		for j, nl := range s.Labels {
			if j > 0 {
				b.WriteString(",")
			}
			fmt.Fprintf(&b, "%s=%d %s", nl.Key, nl.Value, c15unhex(nl.Unit))
		}
		b.WriteString("}")
	}
	b.WriteString(")")
	return c15trunc(b.String()) + ""
}

// rptCase runs one report case (used by the generator for in-process cases and by replay for both).
func (st *c15State) rptCase(cs c15Case) bool {
	c := st.c
	if cs.Rpt == nil || len(cs.Rpt.Samples) == 0 {
		return false
	}
	cs.Text = c15rptText(cs)
	var out string
	if cs.Rpt.CLI {
		if c.Pprof == "" {
			return false
		}
		dir, err := os.MkdirTemp("", "c15rpt")
		if err != nil {
			c.Res.HarnessError = err.Error()
			return false
		}
		defer os.RemoveAll(dir)
		if cs.Rpt.Mode == "roundtrip" {
			s1, o2, rerr := c15rptRoundtrip(c.Pprof, dir, 0, c15unhex(cs.From), c15unhex(cs.To), cs.Rpt)
			if rerr != nil {
				c.Violation("C15/report/pprof-failed", cs.Text+": "+rerr.Error()+" "+c15trunc(o2), cs)
				return false
			}
			return st.roundtripEval(cs, s1, o2)
		}
		o, rerr := c15rptCLI(c.Pprof, dir, 0, c15unhex(cs.From), c15unhex(cs.To), cs.Rpt)
		if rerr != nil {
			c.Violation("C15/report/pprof-failed", cs.Text+": "+rerr.Error()+" "+c15trunc(o), cs)
			return false
		}
		out = o
	} else {
		o, pn, err := c15rptInProcess(c15unhex(cs.From), c15unhex(cs.To), cs.Rpt)
		if pn != "" || err != nil {
			c.Violation("C15/report/generate-failed", fmt.Sprintf("%s: panic %q error %v", cs.Text, pn, err), cs)
			return false
		}
		out = o
	}
	return st.rptEval(cs, out)
}

// ---------------------------------------------------------------------------------------------
// generator

func (st *c15State) genRpt(r *Rng) (from, to string, rp *c15Rpt) {
	// units of DIFFERENT families for the numeric tag keys, plus sometimes an unknown one
	nk := 2 + r.Intn(3)
	perm := []int{0, 1, 2}
	for i := range perm {
		j := i + r.Intn(len(perm)-i)
		perm[i], perm[j] = perm[j], perm[i]
	}
	type key struct{ name, unit string }
	var keys []key
	for k := 0; k < nk; k++ {
		unit := "widgets"
		if k < len(st.spec) && !(k >= 2 && r.Chance(40)) {
			fam := st.spec[perm[k]%len(st.spec)]
			u := fam.units[r.Intn(len(fam.units))]
			unit = u.names[r.Intn(len(u.names))]
			if r.Chance(25) && len(unit) >= 2 {
				unit += "s"
			}
		}
		keys = append(keys, key{fmt.Sprintf("tag%c", 'a'+k), unit})
	}
	// the numeric tag graph reports keep is the one whose KEY is "bytes"; its unit string is
	// whatever the producer wrote: other spellings of bytes, larger byte units, or another family
	if r.Chance(60) {
		ki := r.Intn(len(keys))
		keys[ki].name = "bytes"
		if r.Chance(60) {
			bu := []string{"kilobytes", "kb", "MB", "bytes", "megabyte", "gigabytes", "KB", "byte", "tb", "kB"}
			keys[ki].unit = bu[r.Intn(len(bu))]
		}
	}
	// a small pool of values shared by all keys, so that values coincide across keys
	pool := []int64{2048}
	cands := []int64{1, 2, 1000, 1024, 1536, 3600, 2048, 1 << 20, 1000000, 3600000, 5 << 30, 999, 1023, 250}
	for len(pool) < 2+r.Intn(2) {
		pool = append(pool, cands[r.Intn(len(cands))])
	}
	if r.Chance(30) {
		pool[0] = c15RandValue(r)%1000000000 + 1
	}
	fam := st.spec[r.Intn(len(st.spec))]
	fu := fam.units[r.Intn(len(fam.units))]
	from = fu.names[r.Intn(len(fu.names))]
	if r.Chance(8) {
		from = "objects"
	}
	to = "minimum"
	switch r.Intn(5) {
	case 0:
		t := fam.units[r.Intn(len(fam.units))]
		to = t.names[r.Intn(len(t.names))]
	case 1:
		// an output unit of the family of one of the TAG keys
		k := keys[r.Intn(len(keys))]
		if rc := st.recognise(k.unit); rc.known {
			t := st.spec[rc.fam].units[r.Intn(len(st.spec[rc.fam].units))]
			to = t.names[0]
		}
	}
	if r.Chance(15) {
		to = "auto"
	}
	rp = &c15Rpt{}
	if r.Chance(65) {
		rp.DivideBy = []float64{1024, 1000, 0.001, 3, 60, 0.5, 1e6, 1, 1048576, 7}[r.Intn(10)]
	}
	// time-valued sample types in every time unit and spelling, with a profile duration that is
	// not a whole number of that unit (or is smaller than one unit): the header relates the total to it
	small := false
	if nsr := st.recognise("ns"); nsr.known && r.Chance(45) {
		tf := st.spec[nsr.fam]
		tu := tf.units[r.Intn(len(tf.units))]
		from = tu.names[r.Intn(len(tu.names))]
		if r.Chance(25) && len(from) >= 2 {
			from += "s"
		}
		small = r.Chance(70)
	}
	// pprof's own printed names fed back in as the sample unit ("kB", "hrs", "M*GCU" …: what
	// -topproto writes), and mixed-case spellings of the names
	if rc := st.recognise(from); rc.known {
		switch {
		case r.Chance(30):
			fu := st.spec[rc.fam].units[r.Intn(len(st.spec[rc.fam].units))]
			if small {
				for _, u := range st.spec[rc.fam].units {
					if u.f.Cmp(rc.f) == 0 {
						fu = u
					}
				}
			}
			from = fu.display
		case r.Chance(15):
			b := []byte(from)
			for i := range b {
				if b[i] >= 'a' && b[i] <= 'z' && r.Bool() {
					b[i] -= 32
				}
			}
			from = string(b)
		}
	}
	if r.Chance(12) {
		rp.NodeFraction = []float64{0.05, 0.2}[r.Intn(2)]
	}
	ns := 2 + r.Intn(5)
	for i := 0; i < ns; i++ {
		s := c15RptSample{Value: int64(1 + r.Intn(4000))}
		for k := r.Intn(3); k > 0; k-- {
			s.Value *= int64(1 + r.Intn(2000))
		}
		if small {
			s.Value = int64(1 + r.Intn(4))
		}
		// one key per sample mostly (coinciding values then live in DIFFERENT samples, whose order
		// is under our control), sometimes two or three keys in one sample
		nkeys := 1
		if r.Chance(30) {
			nkeys = 2 + r.Intn(2)
		}
		used := map[string]bool{}
		for j := 0; j < nkeys; j++ {
			k := keys[(i+j)%len(keys)]
			if used[k.name] {
				continue
			}
			used[k.name] = true
			v := pool[0]
			if r.Chance(35) {
				v = pool[r.Intn(len(pool))]
			}
			s.Labels = append(s.Labels, c15NumLabel{Key: k.name, Value: v, Unit: c15hex(k.unit), Text: k.unit})
		}
		rp.Samples = append(rp.Samples, s)
	}
	// diff-like profiles: mixed signs, often with the smallest magnitude negative
	if r.Chance(40) {
		mi := 0
		for i := range rp.Samples {
			if r.Chance(35) {
				rp.Samples[i].Value = -rp.Samples[i].Value
			}
			if a, b := rp.Samples[i].Value, rp.Samples[mi].Value; max(a, -a) < max(b, -b) {
				mi = i
			}
		}
		if v := rp.Samples[mi].Value; v > 0 && r.Chance(75) {
			rp.Samples[mi].Value = -v
		}
	}
	if r.Chance(70) {
		var total int64
		for _, s := range rp.Samples {
			total += max(s.Value, -s.Value)
		}
		unitNs := big.NewRat(1, 1)
		if rc, nsr := st.recognise(from), st.recognise("ns"); rc.known && nsr.known && rc.fam == nsr.fam {
			unitNs = new(big.Rat).Quo(rc.f, nsr.f)
		}
		// duration = unit × m/den with m/den no whole number (den ∈ {2,3,4,8}), from below one unit to a few totals
		den := []int64{2, 3, 4, 8}[r.Intn(4)]
		m := int64(1 + r.Intn(int(min(4*total*den, 1<<30))))
		if m%den == 0 {
			m++
		}
		if r.Chance(15) {
			m = int64(1 + r.Intn(int(den-1))) // smaller than one unit
		}
		d := new(big.Rat).Mul(unitNs, big.NewRat(m, den))
		dn := new(big.Int).Quo(d.Num(), d.Denom())
		if dn.IsInt64() && dn.Int64() > 0 {
			rp.DurationNanos = dn.Int64()
		} else {
			rp.DurationNanos = 1 + int64(r.Intn(1000))
		}
	}
	return from, to, rp
}

func (st *c15State) reportStream(r *Rng) {
	c := st.c
	n := 90 * c.Scale
	if n > 900 {
		n = 900
	}
	type cliJob struct{ cs c15Case }
	var jobs []cliJob
	for k := 0; k < n; k++ {
		from, to, rp := st.genRpt(r)
		for _, mode := range []string{"tags", "traces", "top", "tree", "peek", "dot", "topproto", "callgrind"} {
			for _, rev := range []bool{false, true} {
				q := *rp
				q.Mode, q.Reverse = mode, rev
				if mode == "peek" {
					q.NodeFraction = 0 // the peeked function must not be trimmed away
				}
				cs := c15Case{Kind: "rpt", From: c15hex(from), To: c15hex(to), Rpt: &q}
				nt := st.rptCase(cs)
				c.Res.Count(c15canon(cs), nt)
				c.Res.Hit("kind:rpt")
				c.Res.Hit("rpt:" + mode)
				if nt {
					c.Res.Hit("nontrivial:rpt")
				}
			}
		}
		if k == 1 {
			c.Res.Sample(map[string]any{"kind": "rpt", "from": from, "to": to, "samples": rp.Samples})
		}
		// a share of the cases also through the real binary
		if k%3 == 0 && c.Pprof != "" {
			modes := []string{"tags", "roundtrip", "traces", "callgrind", "tree", "tagroot", "roundtrip", "peek", "dot", "top", "callgrind"}
			q := *rp
			q.CLI, q.Mode, q.Reverse = true, modes[(k/3)%len(modes)], (k/3)%2 == 1
			if q.Mode == "tagroot" {
				q.RootKey = "taga"
			}
			if q.Mode == "peek" {
				q.NodeFraction = 0
			}
			jobs = append(jobs, cliJob{c15Case{Kind: "rpt", From: c15hex(from), To: c15hex(to), Rpt: &q}})
		}
	}
	// exact multiples k·(to/from) of a larger unit, for every pair of units of a family: callgrind
	// (integer costs), topproto and top must convert them exactly (3600000 ms is 1 hrs, not 0)
	for k := 0; k < 120*c.Scale && k < 1200; k++ {
		fam := st.spec[r.Intn(len(st.spec))]
		if fam.def == "B" && r.Chance(80) {
			fam = st.spec[(r.Intn(len(st.spec)-1)+1)%len(st.spec)] // binary byte ratios are exact in float64 anyway
		}
		a, b := fam.units[r.Intn(len(fam.units))], fam.units[r.Intn(len(fam.units))]
		if a.f.Cmp(b.f) > 0 {
			a, b = b, a
		}
		ratio := new(big.Rat).Quo(b.f, a.f)
		if !ratio.IsInt() || !ratio.Num().IsInt64() || ratio.Num().Int64() > 1<<40 {
			continue
		}
		rp := &c15Rpt{}
		for i, n := 0, 2+r.Intn(5); i < n; i++ {
			rp.Samples = append(rp.Samples, c15RptSample{Value: int64(1+r.Intn(64)) * ratio.Num().Int64()})
		}
		from := a.names[r.Intn(len(a.names))]
		to := "minimum"
		if r.Bool() {
			to = b.names[r.Intn(len(b.names))]
		}
		for _, mode := range []string{"callgrind", "topproto", "top"} {
			q := *rp
			q.Mode = mode
			cs := c15Case{Kind: "rpt", From: c15hex(from), To: c15hex(to), Rpt: &q}
			nt := st.rptCase(cs)
			c.Res.Count(c15canon(cs), nt)
			c.Res.Hit("kind:rpt")
			c.Res.Hit("rpt:exact-multiple:" + mode)
		}
		if k%8 == 0 && c.Pprof != "" {
			q := *rp
			q.CLI, q.Mode = true, "callgrind"
			jobs = append(jobs, cliJob{c15Case{Kind: "rpt", From: c15hex(from), To: c15hex(to), Rpt: &q}})
		}
	}
	if len(jobs) == 0 {
		return
	}
	dir, err := os.MkdirTemp("", "c15rpt")
	if err != nil {
		c.Res.HarnessError = err.Error()
		return
	}
	defer os.RemoveAll(dir)
	outs := make([]string, len(jobs))
	stage1 := make([][]byte, len(jobs))
	errs := make([]error, len(jobs))
	var wg sync.WaitGroup
	sem := make(chan struct{}, 12)
	for i := range jobs {
		wg.Add(1)
		go func(i int) {
			defer wg.Done()
			sem <- struct{}{}
			defer func() { <-sem }()
			cs := jobs[i].cs
			if cs.Rpt.Mode == "roundtrip" {
				stage1[i], outs[i], errs[i] = c15rptRoundtrip(c.Pprof, dir, i, c15unhex(cs.From), c15unhex(cs.To), cs.Rpt)
				return
			}
			outs[i], errs[i] = c15rptCLI(c.Pprof, dir, i, c15unhex(cs.From), c15unhex(cs.To), cs.Rpt)
		}(i)
	}
	wg.Wait()
	for i, j := range jobs {
		cs := j.cs
		cs.Text = c15rptText(cs)
		nt := false
		if errs[i] != nil {
			c.Violation("C15/report/pprof-failed", cs.Text+": "+errs[i].Error()+" "+c15trunc(outs[i]), cs)
		} else if cs.Rpt.Mode == "roundtrip" {
			nt = st.roundtripEval(cs, stage1[i], outs[i])
		} else {
			nt = st.rptEval(cs, outs[i])
		}
		c.Res.Count(c15canon(cs), nt)
		c.Res.Hit("kind:rpt-cli")
		c.Res.Hit("rpt-cli:" + cs.Rpt.Mode)
	}
}
