//go:build verif

package main

// C19 — access to the REAL settings code: driver.PProf with -http and the HTTPServer plug-in hook
// (as internal/driver/webui_test.go does) hands out the web handlers; /saveconfig, /deleteconfig
// and a report page (whose header carries configMenu) are called directly with recorded requests.
// The settings file is $XDG_CONFIG_HOME/pprof/settings.json (os.UserConfigDir), read back with a
// generic JSON decoder — none of pprof's own types.

import (
	"bytes"
	"encoding/hex"
	"encoding/json"
	"fmt"
	"html"
	"net/http"
	"net/http/httptest"
	"net/url"
	"os"
	"path/filepath"
	"regexp"
	"sort"
	"strconv"
	"strings"
	"sync"
	"time"

	"github.com/google/pprof/internal/driver"
	"github.com/google/pprof/internal/plugin"
	"github.com/google/pprof/profile"
)

// c19Flags: a plugin.FlagSet whose values come from a map (flag name → text).  A flag that is not
// in the map keeps the default pprof passes in — for option flags that is the CURRENT value of the
// process-wide configuration, so a test that sets an option must reset it explicitly afterwards.
type c19Flags struct {
	vals map[string]string
	args []string
}

func (c19Flags) ExtraUsage() string      { return "" }
func (c19Flags) AddExtraUsage(eu string) {}
func (f c19Flags) Bool(s string, d bool, c string) *bool {
	if t, ok := f.vals[s]; ok {
		b := t == "true"
		return &b
	}
	return &d
}
func (f c19Flags) Int(s string, d int, c string) *int {
	if t, ok := f.vals[s]; ok {
		if n, err := strconv.Atoi(t); err == nil {
			return &n
		}
	}
	return &d
}
func (f c19Flags) Float64(s string, d float64, c string) *float64 {
	if t, ok := f.vals[s]; ok {
		if v, err := strconv.ParseFloat(t, 64); err == nil {
			return &v
		}
	}
	return &d
}
func (f c19Flags) String(s, d, c string) *string {
	if t, ok := f.vals[s]; ok {
		return &t
	}
	return &d
}
func (f c19Flags) StringList(s, d, c string) *[]*string { return &[]*string{} }
func (f c19Flags) Parse(func()) []string                { return f.args }

type c19Fetcher struct{ p *profile.Profile }

func (f c19Fetcher) Fetch(src string, duration, timeout time.Duration) (*profile.Profile, string, error) {
	return f.p.Copy(), "", nil
}

type c19Sym struct{}

func (c19Sym) Symbolize(mode string, srcs plugin.MappingSources, prof *profile.Profile) error {
	return nil
}

type c19UI struct {
	mu   sync.Mutex
	errs []string
}

func (u *c19UI) ReadLine(prompt string) (string, error) { return "", fmt.Errorf("no input") }
func (u *c19UI) Print(args ...interface{})              {}
func (u *c19UI) PrintErr(args ...interface{}) {
	u.mu.Lock()
	u.errs = append(u.errs, fmt.Sprint(args...))
	u.mu.Unlock()
}
func (u *c19UI) IsTerminal() bool                             { return false }
func (u *c19UI) WantBrowser() bool                            { return false }
func (u *c19UI) SetAutoComplete(complete func(string) string) {}

func c19Profile() *profile.Profile {
	m := &profile.Mapping{ID: 1, Start: 0x1000, Limit: 0x9000, File: "c19bin", HasFunctions: true}
	var fns []*profile.Function
	var locs []*profile.Location
	for i, n := range []string{"main", "foo", "bar", "baz"} {
		f := &profile.Function{ID: uint64(i + 1), Name: n, SystemName: n, Filename: n + ".go"}
		fns = append(fns, f)
		locs = append(locs, &profile.Location{ID: uint64(i + 1), Mapping: m, Address: uint64(0x1000 + 16*i),
			Line: []profile.Line{{Function: f, Line: int64(10 + i)}}})
	}
	return &profile.Profile{
		SampleType: []*profile.ValueType{{Type: "samples", Unit: "count"}, {Type: "cpu", Unit: "milliseconds"}},
		PeriodType: &profile.ValueType{Type: "cpu", Unit: "milliseconds"}, Period: 10,
		Sample: []*profile.Sample{
			{Location: []*profile.Location{locs[1], locs[0]}, Value: []int64{10, 100}},
			{Location: []*profile.Location{locs[2], locs[1], locs[0]}, Value: []int64{20, 200}},
			{Location: []*profile.Location{locs[3], locs[0]}, Value: []int64{5, 50}},
		},
		Location: locs, Function: fns, Mapping: []*profile.Mapping{m},
	}
}

// c19Server: the handlers of one web UI instance whose settings live under xdg.
type c19Server struct {
	h    map[string]http.Handler
	ui   *c19UI
	xdg  string
	file string // settings.json
}

// c19NewServer starts the web interface the way `pprof -http` does. XDG_CONFIG_HOME is process
// wide, so servers are created one after another (each keeps the path it was created with).
func c19NewServer(xdg string) (*c19Server, error) { return c19NewServerFlags(xdg, nil) }

// c19NewServerFlags: additionally passes option flags (e.g. tagroot=x) on the "command line".
func c19NewServerFlags(xdg string, opts map[string]string) (*c19Server, error) {
	vals := map[string]string{"no_browser": "true", "http": "localhost:1234"}
	for k, v := range opts {
		vals[k] = v
	}
	if err := os.MkdirAll(xdg, 0o755); err != nil {
		return nil, err
	}
	os.Setenv("XDG_CONFIG_HOME", xdg)
	s := &c19Server{ui: &c19UI{}, xdg: xdg, file: filepath.Join(xdg, "pprof", "settings.json")}
	var err error
	pn := c19Safely(func() {
		err = driver.PProf(&plugin.Options{
			Flagset: c19Flags{vals: vals, args: []string{"c19-profile"}},
			Fetch: c19Fetcher{c19Profile()},
			Sym:   c19Sym{},
			UI:    s.ui,
			HTTPServer: func(a *plugin.HTTPServerArgs) error {
				s.h = a.Handlers
				return nil
			},
		})
	})
	switch {
	case pn != "":
		return nil, fmt.Errorf("driver.PProf panics: %s", pn)
	case err != nil:
		return nil, err
	case s.h == nil || s.h["/saveconfig"] == nil || s.h["/deleteconfig"] == nil:
		return nil, fmt.Errorf("HTTPServer hook did not receive /saveconfig and /deleteconfig handlers")
	}
	return s, nil
}

// get performs one request against the handler registered for the path.
func (s *c19Server) get(pathAndQuery string) (status int, body string, panicked string) {
	panicked = c19Safely(func() {
		req := httptest.NewRequest(http.MethodGet, "http://localhost:1234"+pathAndQuery, nil)
		h := s.h[req.URL.Path]
		if h == nil {
			status, body = 404, "no handler"
			return
		}
		rec := httptest.NewRecorder()
		h.ServeHTTP(rec, req)
		status, body = rec.Code, rec.Body.String()
	})
	return
}

var c19MenuRe = regexp.MustCompile(`(?s)<a href="([^"]*)">\s*(<span class="menu-check-mark">[^<]*</span>)?\s*([^<]*?)\s*(<span class="menu-delete-btn"[^>]*>[^<]*</span>)?\s*</a>`)

type c19MenuEntry struct {
	Name    string
	Query   url.Values
	Current bool
	User    bool
}

// c19Menu extracts the Config menu (configMenu's entries) from a rendered page.
func c19Menu(page string) ([]c19MenuEntry, error) {
	i := strings.Index(page, `id="config"`)
	if i < 0 {
		return nil, fmt.Errorf("page has no config menu")
	}
	sec := page[i:]
	if j := strings.Index(sec, `id="download"`); j >= 0 {
		sec = sec[:j]
	}
	var out []c19MenuEntry
	for _, m := range c19MenuRe.FindAllStringSubmatch(sec, -1) {
		href := html.UnescapeString(m[1])
		u, err := url.Parse(href)
		if err != nil {
			return nil, fmt.Errorf("menu URL %q: %v", href, err)
		}
		q, err := url.ParseQuery(u.RawQuery)
		if err != nil {
			return nil, fmt.Errorf("menu URL %q: %v", href, err)
		}
		out = append(out, c19MenuEntry{Name: html.UnescapeString(m[3]), Query: q, Current: m[2] != "", User: m[4] != ""})
	}
	if len(out) == 0 || out[0].Name != "Default" {
		return nil, fmt.Errorf("config menu does not start with the Default entry")
	}
	return out, nil
}

// ---- field table (from the regenerated Lean table, via the driver) ----

type c19Val struct {
	K byte // 'b' 'i' 'f' 's'
	B bool
	I int64
	S string // string value, or canonical float text
}

func (v c19Val) tok() string {
	switch v.K {
	case 'b':
		if v.B {
			return "b 1"
		}
		return "b 0"
	case 'i':
		return "i " + strconv.FormatInt(v.I, 10)
	case 'f':
		return "f " + hexTok([]byte(v.S))
	}
	return "s " + hexTok([]byte(v.S))
}

func (v c19Val) String() string {
	switch v.K {
	case 'b':
		return fmt.Sprint(v.B)
	case 'i':
		return fmt.Sprint(v.I)
	case 'f':
		return v.S
	}
	return strconv.Quote(v.S)
}

type c19Field struct {
	GoName, Name, URLParam, Kind string
	Saved, Omit                  bool
	Choices                      []string
	Default                      c19Val
}

func (f c19Field) zero() c19Val {
	switch f.Kind {
	case "bool":
		return c19Val{K: 'b'}
	case "int":
		return c19Val{K: 'i'}
	case "float":
		return c19Val{K: 'f', S: "0"}
	}
	return c19Val{K: 's'}
}

type c19Table struct {
	Fields []c19Field
	byName map[string]int
}

// token reader for driver replies
type c19Rd struct {
	t   []string
	i   int
	bad bool
}

func (r *c19Rd) tok() string {
	if r.i >= len(r.t) {
		r.bad = true
		return ""
	}
	r.i++
	return r.t[r.i-1]
}
func (r *c19Rd) nat() int {
	n, err := strconv.Atoi(r.tok())
	if err != nil || n < 0 {
		r.bad = true
		return 0
	}
	return n
}
func (r *c19Rd) str() string {
	t := r.tok()
	if !strings.HasPrefix(t, "x") {
		r.bad = true
		return ""
	}
	b, err := hex.DecodeString(t[1:])
	if err != nil {
		r.bad = true
	}
	return string(b)
}
func (r *c19Rd) val() c19Val {
	switch r.tok() {
	case "b":
		return c19Val{K: 'b', B: r.nat() != 0}
	case "i":
		n, err := strconv.ParseInt(r.tok(), 10, 64)
		if err != nil {
			r.bad = true
		}
		return c19Val{K: 'i', I: n}
	case "f":
		return c19Val{K: 'f', S: r.str()}
	case "s":
		return c19Val{K: 's', S: r.str()}
	}
	r.bad = true
	return c19Val{}
}

func c19LoadTable(c *Ctx) (*c19Table, error) {
	rep := c.Drv.Ask("config.table")
	r := &c19Rd{t: strings.Fields(rep)}
	n := r.nat()
	if r.bad || n == 0 || n > 1000 {
		return nil, fmt.Errorf("driver has no field table: %s", c19Trunc(rep))
	}
	t := &c19Table{byName: map[string]int{}}
	for i := 0; i < n && !r.bad; i++ {
		f := c19Field{GoName: r.tok(), Name: r.str(), Saved: r.nat() != 0, Omit: r.nat() != 0, URLParam: r.str(), Kind: r.tok()}
		for k := r.nat(); k > 0 && !r.bad; k-- {
			f.Choices = append(f.Choices, r.str())
		}
		f.Default = r.val()
		t.byName[f.Name] = len(t.Fields)
		t.Fields = append(t.Fields, f)
	}
	if r.bad {
		return nil, fmt.Errorf("unparsable field table: %s", c19Trunc(rep))
	}
	return t, nil
}

func (t *c19Table) defaultsTok() string {
	var b strings.Builder
	fmt.Fprint(&b, len(t.Fields))
	for _, f := range t.Fields {
		b.WriteString(" " + f.Default.tok())
	}
	return b.String()
}

// ---- the settings file, decoded generically ----

type c19Entry struct {
	Name string
	Obj  map[string]c19Val
}

type c19Doc struct {
	Exists  bool
	Raw     []byte
	Err     string // non-empty: the file does not parse as a settings document
	Entries []c19Entry
}

func c19CanonFloat(text string) (string, bool) {
	v, err := strconv.ParseFloat(text, 64)
	if err != nil {
		return "", false
	}
	return fmt.Sprint(v), true
}

func c19ReadDoc(path string, t *c19Table) c19Doc {
	raw, err := os.ReadFile(path)
	if err != nil {
		if os.IsNotExist(err) {
			return c19Doc{}
		}
		return c19Doc{Exists: true, Err: err.Error()}
	}
	d := c19Doc{Exists: true, Raw: raw}
	var top struct {
		Configs []map[string]json.RawMessage `json:"configs"`
	}
	dec := json.NewDecoder(bytes.NewReader(raw))
	if err := dec.Decode(&top); err != nil {
		d.Err = "not JSON: " + err.Error()
		return d
	}
	if dec.More() {
		d.Err = "extra data after the JSON document"
		return d
	}
	for _, m := range top.Configs {
		e := c19Entry{Obj: map[string]c19Val{}}
		for k, rv := range m {
			s := strings.TrimSpace(string(rv))
			if k == "name" {
				if err := json.Unmarshal(rv, &e.Name); err != nil {
					d.Err = "config name is not a string"
					return d
				}
				continue
			}
			switch {
			case s == "true" || s == "false":
				e.Obj[k] = c19Val{K: 'b', B: s == "true"}
			case strings.HasPrefix(s, `"`):
				var str string
				if err := json.Unmarshal(rv, &str); err != nil {
					d.Err = "bad string for " + k
					return d
				}
				e.Obj[k] = c19Val{K: 's', S: str}
			case s == "null":
			default:
				kind := "float"
				if t != nil {
					if i, ok := t.byName[k]; ok {
						kind = t.Fields[i].Kind
					}
				}
				if kind == "int" {
					n, err := strconv.ParseInt(s, 10, 64)
					if err != nil {
						d.Err = "bad int for " + k
						return d
					}
					e.Obj[k] = c19Val{K: 'i', I: n}
				} else {
					ct, ok := c19CanonFloat(s)
					if !ok {
						d.Err = "bad number for " + k
						return d
					}
					e.Obj[k] = c19Val{K: 'f', S: ct}
				}
			}
		}
		d.Entries = append(d.Entries, e)
	}
	return d
}

func (t *c19Table) objTok(o map[string]c19Val) string {
	keys := make([]string, 0, len(o))
	for k := range o {
		keys = append(keys, k)
	}
	idx := func(k string) int {
		if i, ok := t.byName[k]; ok {
			return i
		}
		return 1 << 20
	}
	sort.Slice(keys, func(i, j int) bool {
		if idx(keys[i]) != idx(keys[j]) {
			return idx(keys[i]) < idx(keys[j])
		}
		return keys[i] < keys[j]
	})
	var b strings.Builder
	fmt.Fprint(&b, len(keys))
	for _, k := range keys {
		b.WriteString(" " + hexTok([]byte(k)) + " " + o[k].tok())
	}
	return b.String()
}

// fileTok renders a decoded document in the driver's `file` token form.
func (t *c19Table) fileTok(d c19Doc) string {
	if !d.Exists {
		return "0"
	}
	return "1 " + t.entriesTok(d.Entries)
}

func (t *c19Table) entriesTok(es []c19Entry) string {
	var b strings.Builder
	fmt.Fprint(&b, len(es))
	for _, e := range es {
		b.WriteString(" " + hexTok([]byte(e.Name)) + " " + t.objTok(e.Obj))
	}
	return b.String()
}

// value of a saved field in a stored object: absent = Go zero value.
func (f c19Field) in(o map[string]c19Val) c19Val {
	if v, ok := o[f.Name]; ok {
		return v
	}
	return f.zero()
}

func c19QueryTok(q url.Values) string {
	keys := make([]string, 0, len(q))
	for k := range q {
		if len(q[k]) > 0 {
			keys = append(keys, k)
		}
	}
	sort.Strings(keys)
	var b strings.Builder
	fmt.Fprint(&b, len(keys))
	for _, k := range keys {
		b.WriteString(" " + hexTok([]byte(k)) + " " + hexTok([]byte(q[k][0])))
	}
	return b.String()
}

// floatsTok: the graph of ParseFloat∘Sprint on every text that may reach a float field.
func (t *c19Table) floatsTok(q url.Values, docs ...c19Doc) string {
	texts := map[string]bool{}
	for _, f := range t.Fields {
		if f.Kind != "float" {
			continue
		}
		texts[f.Default.S] = true
		texts["0"] = true
		if f.URLParam != "" {
			if v := q.Get(f.URLParam); v != "" {
				texts[v] = true
			}
		}
	}
	for _, d := range docs {
		for _, e := range d.Entries {
			for _, v := range e.Obj {
				if v.K == 'f' {
					texts[v.S] = true
				}
			}
		}
	}
	keys := make([]string, 0, len(texts))
	for k := range texts {
		keys = append(keys, k)
	}
	sort.Strings(keys)
	var b strings.Builder
	fmt.Fprint(&b, len(keys))
	for _, k := range keys {
		b.WriteString(" " + hexTok([]byte(k)))
		if ct, ok := c19CanonFloat(k); ok {
			b.WriteString(" 1 " + hexTok([]byte(ct)))
		} else {
			b.WriteString(" 0")
		}
	}
	return b.String()
}
