//go:build verif

package main

import (
	"encoding/json"
	"fmt"
	"os"
	"strconv"
	"strings"
)

// Weight tables as printed by Driver/Ops/C03.lean:
//   ok N | count nvalues v… <stack key tokens> | … # <header tokens>

type wRow struct {
	count  int
	values []string
	key    string
}

type wTable struct {
	rows   map[string]wRow // by key text
	order  []string
	header string
}

func parseTable(reply string) (*wTable, error) {
	if !strings.HasPrefix(reply, "ok ") {
		return nil, fmt.Errorf("not a table: %s", c3trunc(reply))
	}
	body := reply[3:]
	hdr := ""
	if i := strings.Index(body, " # "); i >= 0 {
		hdr = body[i+3:]
		body = body[:i]
	}
	parts := strings.Split(body, " | ")
	n, err := strconv.Atoi(strings.TrimSpace(parts[0]))
	if err != nil || n != len(parts)-1 {
		return nil, fmt.Errorf("bad row count in %s", c3trunc(reply))
	}
	t := &wTable{rows: map[string]wRow{}, header: hdr}
	for _, p := range parts[1:] {
		f := strings.Fields(p)
		if len(f) < 2 {
			return nil, fmt.Errorf("short row")
		}
		cnt, e1 := strconv.Atoi(f[0])
		nv, e2 := strconv.Atoi(f[1])
		if e1 != nil || e2 != nil || len(f) < 2+nv {
			return nil, fmt.Errorf("bad row %s", c3trunc(p))
		}
		r := wRow{count: cnt, values: f[2 : 2+nv], key: strings.Join(f[2+nv:], " ")}
		if _, dup := t.rows[r.key]; dup {
			return nil, fmt.Errorf("table lists a key twice")
		}
		t.rows[r.key] = r
		t.order = append(t.order, r.key)
	}
	return t, nil
}

func (r wRow) allZero() bool {
	for _, v := range r.values {
		if v != "0" {
			return false
		}
	}
	return true
}

func sameValues(a, b []string) bool {
	if len(a) != len(b) {
		return false
	}
	for i := range a {
		if a[i] != b[i] {
			return false
		}
	}
	return true
}

// ---- naming the attribute in which two stack keys differ ----

type keyTok struct{ path, tok string }

// flattenKey turns the token text of a stack key (W.stackKey in Driver/Ops/C03.lean) into
// (attribute path, token) pairs.
func flattenKey(key string) []keyTok {
	r := newTR(key)
	var out []keyTok
	add := func(path, tok string) { out = append(out, keyTok{path, tok}) }
	nf := r.n()
	add("stack.depth", strconv.Itoa(nf))
	for i := 0; i < nf && r.err == nil; i++ {
		if r.n() != 0 {
			add("frame.mapping.present", "1")
			add("frame.mapping.buildIDOrFile", r.tok())
			add("frame.mapping.size", r.tok())
			add("frame.mapping.offset", r.tok())
		} else {
			add("frame.mapping.present", "0")
		}
		add("frame.relAddr", r.tok())
		nl := r.n()
		add("frame.lines.count", strconv.Itoa(nl))
		for j := 0; j < nl && r.err == nil; j++ {
			sfx := ""
			if j < nl-1 {
				sfx = "(non-last-line)"
			}
			if r.n() != 0 {
				add("frame.line.function.present"+sfx, "1")
				add("frame.line.function.name"+sfx, r.tok())
				add("frame.line.function.systemName"+sfx, r.tok())
				add("frame.line.function.filename"+sfx, r.tok())
				add("frame.line.function.startLine"+sfx, r.tok())
			} else {
				add("frame.line.function.present"+sfx, "0")
			}
			add("frame.line.line"+sfx, r.tok())
			add("frame.line.column"+sfx, r.tok())
		}
		add("frame.folded", r.tok())
	}
	n := r.n()
	add("label.count", strconv.Itoa(n))
	for i := 0; i < n && r.err == nil; i++ {
		add("label.key", r.tok())
		m := r.n()
		add("label.values.count", strconv.Itoa(m))
		for j := 0; j < m && r.err == nil; j++ {
			add("label.value", r.tok())
		}
	}
	n = r.n()
	add("numLabel.count", strconv.Itoa(n))
	for i := 0; i < n && r.err == nil; i++ {
		add("numLabel.key", r.tok())
		m := r.n()
		add("numLabel.values.count", strconv.Itoa(m))
		for j := 0; j < m && r.err == nil; j++ {
			add("numLabel.value", r.tok())
		}
		m = r.n()
		add("numLabel.units.count", strconv.Itoa(m))
		for j := 0; j < m && r.err == nil; j++ {
			add("numLabel.unit", r.tok())
		}
	}
	return out
}

// keyDiff names the first attribute in which two stack keys differ and counts differing positions.
func keyDiff(a, b string) (attr string, ndiff int) {
	fa, fb := flattenKey(a), flattenKey(b)
	n := len(fa)
	if len(fb) < n {
		n = len(fb)
	}
	for i := 0; i < n; i++ {
		if fa[i] != fb[i] {
			if attr == "" {
				attr = fa[i].path
				if fa[i].path != fb[i].path {
					attr = fa[i].path + "~" + fb[i].path
				}
			}
			ndiff++
		}
	}
	if len(fa) != len(fb) {
		ndiff += len(fa) + len(fb) - 2*n
		if attr == "" {
			attr = "length"
		}
	}
	if attr == "label.count" {
		// one key has a string label where the other has a numeric one?
		ca, cb := "", ""
		for _, t := range fa {
			if t.path == "numLabel.count" {
				ca = t.tok
			}
		}
		for _, t := range fb {
			if t.path == "numLabel.count" {
				cb = t.tok
			}
		}
		if ca != cb {
			attr = "label.string-vs-numeric"
		}
	}
	return attr, ndiff
}

// local copies of small helpers (c01.go is not part of this property's overlay)
func c3safely(f func()) (panicked string) {
	defer func() {
		if e := recover(); e != nil {
			panicked = fmt.Sprint(e)
		}
	}()
	f()
	return ""
}

func c3firstWord(s string) string {
	if i := strings.IndexByte(s, ' '); i >= 0 {
		return s[:i]
	}
	return s
}

func c3trunc(s string) string {
	if len(s) > 200 {
		return s[:200] + "…"
	}
	return s
}

// c3diffField names the first section of the canonical form in which two profiles differ.
func c3diffField(a, b string) string {
	ta, tb := strings.Fields(a), strings.Fields(b)
	pa, ea := ParseCanon(a)
	pb, eb := ParseCanon(b)
	if ea != nil || eb != nil {
		return "unparsable"
	}
	if len(pa.Sample) != len(pb.Sample) {
		return "sample-count"
	}
	// sections in token order: sampleType, defaultSampleType, samples, mappings, locations, functions, header
	n := len(ta)
	if len(tb) < n {
		n = len(tb)
	}
	first := n
	for i := 0; i < n; i++ {
		if ta[i] != tb[i] {
			first = i
			break
		}
	}
	var w tw
	bounds := []struct {
		name string
		f    func()
	}{
		{"sampleType", func() {
			w.n(len(pa.SampleType))
			for _, st := range pa.SampleType {
				w.valueType(st)
			}
			w.str(pa.DefaultSampleType)
		}},
		{"sample", func() {
			w.n(len(pa.Sample))
			for _, s := range pa.Sample {
				w.sample(s)
			}
		}},
	}
	for _, b := range bounds {
		b.f()
		if first < len(strings.Fields(w.String())) {
			return b.name
		}
	}
	return "tables-or-header"
}

// ---- shrinking of failing cases (delta debugging over profiles and samples) ----

func c03HasSig(c *Ctx, cs c03Case, sig string) bool {
	dir, err := os.MkdirTemp(c.Dir, "shrink")
	if err != nil {
		return false
	}
	defer os.RemoveAll(dir)
	sc := &Ctx{Prop: c.Prop, Tier: c.Tier, Seed: c.Seed, Scale: c.Scale, Drv: c.Drv, Res: newResult(c.Prop), Dir: dir, Start: c.Start}
	c03Check(sc, cs, true)
	for _, f := range sc.Res.Findings {
		if f.Signature == sig {
			return true
		}
	}
	return false
}

func c03Shrink(c *Ctx, cs c03Case, sig string) c03Case {
	budget := 150
	try := func(x c03Case) bool {
		if budget <= 0 {
			return false
		}
		budget--
		return c03HasSig(c, x, sig)
	}
	mkPerm := func(n int) []int {
		if n < 2 {
			return nil
		}
		p := make([]int, n)
		for i := range p {
			p[i] = n - 1 - i
		}
		return p
	}
	// drop whole profiles
	for i := 0; i < len(cs.Profiles) && len(cs.Profiles) > 1; {
		x := cs
		x.Profiles = append(append([]string{}, cs.Profiles[:i]...), cs.Profiles[i+1:]...)
		if len(cs.Pasts) == len(cs.Profiles) {
			x.Pasts = append(append([]string{}, cs.Pasts[:i]...), cs.Pasts[i+1:]...)
		}
		x.Perm = mkPerm(len(x.Profiles))
		if try(x) {
			cs = x
		} else {
			i++
		}
	}
	// drop samples
	for pi := range cs.Profiles {
		p, err := ParseCanon(cs.Profiles[pi])
		if err != nil {
			continue
		}
		for si := 0; si < len(p.Sample); {
			q, _ := ParseCanon(cs.Profiles[pi])
			q.Sample = append(q.Sample[:si:si], q.Sample[si+1:]...)
			x := cs
			x.Profiles = append([]string{}, cs.Profiles...)
			x.Profiles[pi] = Canon(q)
			if try(x) {
				cs = x
				p = q
			} else {
				si++
			}
		}
	}
	return cs
}

// c03ShrinkNew shrinks the cases of the findings reported since index from and rewrites their replay files.
func c03ShrinkNew(c *Ctx, from int, cs c03Case) {
	for i := from; i < len(c.Res.Findings); i++ {
		f := c.Res.Findings[i]
		if f.Kind != "violation" {
			continue
		}
		small := c03Shrink(c, cs, f.Signature)
		b, err := os.ReadFile(f.Replay)
		if err != nil {
			continue
		}
		var doc map[string]any
		if json.Unmarshal(b, &doc) != nil {
			continue
		}
		doc["case"] = small
		doc["shrunk_from_bytes"] = len(strings.Join(cs.Profiles, " "))
		if nb, err := json.MarshalIndent(doc, "", " "); err == nil {
			os.WriteFile(f.Replay, nb, 0o644)
		}
	}
}
