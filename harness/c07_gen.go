//go:build verif

package main

import "strings"

// generators for C07; every random choice comes from the one Rng of the run.

const c07MaxPhys = int64(1) << 46

func c07PickUnit(r *Rng, ti c07TypeInfo) string {
	if ti.fam == 0 {
		return ti.unit
	}
	return r.Pick(c07FamUnits[ti.fam])
}

// value for a column with the given unit: physical magnitude stays <= 2^46
func c07Value(r *Rng, unit string, negOK bool) int64 {
	f := c07Factor(unit)
	lim := c07MaxPhys / f
	var v int64
	switch x := r.Intn(100); {
	case x < 22:
		v = 0
	case x < 60:
		v = int64(r.Intn(20)) + 1
	case x < 85:
		v = int64(r.Intn(1000000)) + 1
	default:
		v = int64(r.U64()%uint64(lim)) + 1
	}
	if v > lim {
		v = lim
	}
	if negOK && r.Chance(12) {
		v = -v
	}
	return v
}

func c07Stack(r *Rng) []int {
	d := 1 + r.Intn(4)
	st := make([]int, d)
	for i := range st {
		st[i] = r.Intn(len(c07LocFuncs))
	}
	return st
}

func c07Perm(r *Rng, n int) []int {
	p := make([]int, n)
	for i := range p {
		p[i] = i
	}
	for i := n - 1; i > 0; i-- {
		j := r.Intn(i + 1)
		p[i], p[j] = p[j], p[i]
	}
	return p
}

type c07GenCtx struct {
	pool  [][]int
	tags  []string
	negOK bool
}

func (g *c07GenCtx) samples(r *Rng, types []c07Type, n int) []c07Sample {
	var out []c07Sample
	for i := 0; i < n; i++ {
		s := c07Sample{}
		if r.Chance(85) {
			s.Stack = append([]int(nil), g.pool[r.Intn(len(g.pool))]...)
		} else {
			s.Stack = c07Stack(r)
		}
		if r.Chance(15) {
			s.Tag = g.tags[r.Intn(len(g.tags))]
		}
		for _, t := range types {
			s.Values = append(s.Values, c07Value(r, t.Unit, g.negOK))
		}
		if r.Chance(4) {
			for j := range s.Values {
				s.Values[j] = 0
			}
		}
		out = append(out, s)
	}
	return out
}

// types of one profile: the core types plus extras, in random order, units drawn per profile
func c07ProfTypes(r *Rng, core []int, aligned []c07Type) []c07Type {
	if aligned != nil {
		return append([]c07Type(nil), aligned...)
	}
	idx := append([]int(nil), core...)
	for i := range c07TypeUniverse {
		in := false
		for _, c := range core {
			in = in || c == i
		}
		if !in && r.Chance(20) {
			idx = append(idx, i)
		}
	}
	var ts []c07Type
	for _, k := range c07Perm(r, len(idx)) {
		ti := c07TypeUniverse[idx[k]]
		ts = append(ts, c07Type{ti.name, c07PickUnit(r, ti)})
	}
	return ts
}

// convert a profile to other units / column order with the same physical content (only exact
// conversions: the new unit must divide the value's physical quantity)
func c07Converted(r *Rng, p *c07Prof) c07Prof {
	perm := c07Perm(r, len(p.Types))
	q := c07Prof{Build: p.Build, Sym: p.Sym, Hom: p.Hom, Drop: p.Drop, Keep: p.Keep}
	newUnits := make([]string, len(p.Types))
	for j, t := range p.Types {
		newUnits[j] = t.Unit
		fam := c07TypeFam(t.Type)
		if fam == 0 {
			continue
		}
		cand := r.Pick(c07FamUnits[fam])
		ok := true
		for _, s := range p.Samples {
			if (s.Values[j]*c07Factor(t.Unit))%c07Factor(cand) != 0 {
				ok = false
			}
		}
		if ok {
			newUnits[j] = cand
		}
	}
	for _, j := range perm {
		q.Types = append(q.Types, c07Type{p.Types[j].Type, newUnits[j]})
	}
	for _, s := range p.Samples {
		ns := c07Sample{Stack: append([]int(nil), s.Stack...), Tag: s.Tag}
		for _, j := range perm {
			ns.Values = append(ns.Values, s.Values[j]*c07Factor(p.Types[j].Unit)/c07Factor(newUnits[j]))
		}
		q.Samples = append(q.Samples, ns)
	}
	return q
}

func c07GenCLI(r *Rng, i int) *c07Case {
	cs := &c07Case{Kind: "cli", Stream: "main"}
	g := &c07GenCtx{tags: []string{"a", "b"}, negOK: r.Chance(30)}
	for k, n := 0, 3+r.Intn(5); k < n; k++ {
		g.pool = append(g.pool, c07Stack(r))
	}
	switch x := r.Intn(100); {
	case x < 30:
		cs.Mode = "plain"
	case x < 65:
		cs.Mode = "base"
	default:
		cs.Mode = "diff_base"
	}
	nsrc := 1 + r.Intn(5)
	nbase := 0
	if cs.Mode != "plain" {
		nbase = 1 // the open-source flag set keeps only the last -base/-diff_base value
		cs.Normalize = r.Chance(25)
	} else if nsrc == 1 {
		nsrc = 2
	}
	ncore := 1 + r.Intn(3)
	core := c07Perm(r, len(c07TypeUniverse))[:ncore]
	var aligned []c07Type
	if cs.Normalize {
		// Normalize requires identical sample types in source and base (pprof refuses otherwise:
		// separate stream normalize-unaligned)
		aligned = c07ProfTypes(r, core, nil)
		g.negOK = r.Chance(15)
	}
	cs.Strategy = "random"
	mk := func() c07Prof {
		ts := c07ProfTypes(r, core, aligned)
		return c07Prof{Types: ts, Samples: g.samples(r, ts, r.Intn(9))}
	}
	for k := 0; k < nsrc; k++ {
		cs.Sources = append(cs.Sources, mk())
	}
	for k := 0; k < nbase; k++ {
		cs.Bases = append(cs.Bases, mk())
	}
	if cs.Mode != "plain" && !cs.Normalize {
		switch x := r.Intn(100); {
		case x < 8:
			cs.Strategy = "self-difference"
			cs.Sources = cs.Sources[:1]
			cs.Bases = append([]c07Prof(nil), cs.Sources...)
		case x < 18:
			cs.Strategy = "self-difference-converted"
			cs.Sources = cs.Sources[:1]
			cs.Bases = nil
			for k := range cs.Sources {
				cs.Bases = append(cs.Bases, c07Converted(r, &cs.Sources[k]))
			}
		}
	}
	if cs.Strategy == "random" && !cs.Normalize && r.Chance(20) {
		// a zero in a column that needs scaling next to a non-zero in one that does not
		cs.Strategy = "zero-next-to-unscaled"
		p := &cs.Sources[0]
		for len(p.Samples) < 2 {
			p.Samples = append(p.Samples, g.samples(r, p.Types, 1)...)
		}
		for k := range p.Samples {
			for j, t := range p.Types {
				if c07Factor(t.Unit) > 1 {
					if k%2 == 0 {
						p.Samples[k].Values[j] = 0
					}
				} else if p.Samples[k].Values[j] == 0 {
					p.Samples[k].Values[j] = int64(1 + r.Intn(9))
				}
			}
		}
	}
	self := strings.HasPrefix(cs.Strategy, "self-difference")
	all := func(f func(p *c07Prof, isBase bool)) {
		for k := range cs.Sources {
			f(&cs.Sources[k], false)
		}
		for k := range cs.Bases {
			f(&cs.Bases[k], true)
		}
	}
	homonyms := false
	switch x := r.Intn(100); {
	case self || x < 20:
	case x < 42:
		// profiles from different builds: entries must still be combined by name
		cs.Strategy += "+builds"
		all(func(p *c07Prof, isBase bool) {
			p.Build = r.Intn(3)
			if isBase {
				p.Build = 1 + r.Intn(3)
			}
		})
	case x < 72:
		// homonym functions within and across the members: distinct functions, at different
		// addresses, that agree on every key field but one (file / start line / system name)
		cs.Strategy += "+homonyms"
		homonyms = true
		hot := []int{0, 11, 1, 8, 10, 9}
		k := r.Intn(2)
		all(func(p *c07Prof, isBase bool) {
			p.Hom = k % 2
			k += 1 + r.Intn(2)
			for i := range p.Samples {
				if r.Chance(60) && len(p.Samples[i].Stack) > 0 {
					p.Samples[i].Stack[r.Intn(len(p.Samples[i].Stack))] = hot[r.Intn(len(hot))]
				}
			}
		})
		cs.Sources[0].Hom = 1
	default:
		// the same binary symbolized differently (same mapping, same addresses): renamed
		// function, other line / file / start line, no symbol information
		cs.Strategy += "+symvariants"
		k := 0
		all(func(p *c07Prof, isBase bool) {
			p.Sym = (k + r.Intn(2)) % 3
			k++
		})
	}
	if r.Chance(60) {
		// different table sizes and id schemes, ASLR-shifted mappings (a profile re-encoded this way
		// is the same profile: also applied to the base of a self-difference)
		cs.Strategy += "+tables"
		all(func(p *c07Prof, isBase bool) {
			p.IDs, p.Extra, p.Aslr = r.Intn(3), r.Intn(8), r.Intn(3)
		})
	}
	if r.Chance(20) {
		// drop_frames / keep_frames headers (the same in every member, as in profiles of one kind),
		// with matching frames at the leaf side of some stacks
		cs.Strategy += "+dropframes"
		drop := r.Pick([]string{"fn5", "fn5|fn7", "fn7"}) // functions of single-line locations only (pruning inside inlined locations is C11's subject)
		keep := r.Pick([]string{"", "", "fn6"})
		leaf := map[string]int{"fn5": 5, "fn5|fn7": 5, "fn7": 7}[drop]
		all(func(p *c07Prof, isBase bool) {
			p.Drop, p.Keep = drop, keep
			for i := range p.Samples {
				if r.Chance(50) {
					p.Samples[i].Stack = append([]int{leaf}, p.Samples[i].Stack...)
				}
			}
		})
	}
	if !self && r.Chance(25) {
		// samples with values but no stack at all (they count in the total only)
		cs.Strategy += "+emptystacks"
		all(func(p *c07Prof, isBase bool) {
			for k, n := 0, 1+r.Intn(2); k < n; k++ {
				sm := c07Sample{}
				for _, t := range p.Types {
					v := c07Value(r, t.Unit, false)
					if v == 0 {
						v = 3
					}
					sm.Values = append(sm.Values, v)
				}
				p.Samples = append(p.Samples, sm)
			}
		})
	}
	aslr := false
	all(func(p *c07Prof, isBase bool) { aslr = aslr || p.Aslr != 0 })
	switch x := r.Intn(100); {
	case homonyms:
		// always a granularity that keeps the file
		cs.Gran = r.Pick([]string{"files", "filefunctions", "lines"})
	case x < 8:
		cs.Gran = "filefunctions"
	case x < 16:
		cs.Gran = "lines"
	case x < 22:
		cs.Gran = "files"
	case x < 32 && !aslr:
		// (addresses of an ASLR-shifted input are shown rebased in the combined report)
		cs.Gran = "addresses"
	}
	common := c07CommonTypes(cs)
	if len(common) > 0 {
		cs.Index = common[r.Intn(len(common))]
	}
	return cs
}

// c07CommonTypes: type names present in every profile of the case, in the first source's order
// (used only to choose -sample_index; the expectation itself comes from the Lean model).
func c07CommonTypes(cs *c07Case) []string {
	all := append(append([]c07Prof(nil), cs.Sources...), cs.Bases...)
	var out []string
	for _, t := range all[0].Types {
		in := true
		for _, p := range all[1:] {
			f := false
			for _, u := range p.Types {
				f = f || u.Type == t.Type
			}
			in = in && f
		}
		if in {
			out = append(out, t.Type)
		}
	}
	return out
}

// large stream: values beyond 2^53 (known finding C07/scale/|v|>2^53); same units everywhere so
// that only Scale(-1) goes through float64.
func c07GenLarge(r *Rng, i int) *c07Case {
	cs := &c07Case{Kind: "cli", Stream: "large", Strategy: "self-difference", Mode: "base", Index: "samples"}
	if r.Bool() {
		cs.Mode = "diff_base"
	}
	p := c07Prof{Types: []c07Type{{"samples", "count"}}}
	for k, n := 0, 1+r.Intn(3); k < n; k++ {
		v := int64(1)<<53 + int64(r.U64()%(1<<55))
		if r.Chance(30) {
			v = int64(1)<<53 + 1 + 2*int64(r.Intn(50))
		}
		p.Samples = append(p.Samples, c07Sample{Stack: []int{k, 7}, Values: []int64{v}})
	}
	cs.Sources = []c07Prof{p}
	cs.Bases = []c07Prof{p}
	if i%4 == 3 {
		cs.Kind = "scaleneg"
		cs.Bases = nil
	}
	return cs
}

func c07GenNormalizeUnaligned(r *Rng) *c07Case {
	cs := &c07Case{Kind: "cli", Stream: "normalize-unaligned", Strategy: "random", Mode: "base", Normalize: true, Index: "cpu"}
	g := &c07GenCtx{pool: [][]int{{0, 1}, {2, 1}, {3}}, tags: []string{"a"}}
	t1 := []c07Type{{"cpu", "ms"}, {"samples", "count"}}
	t2 := []c07Type{{"samples", "count"}, {"cpu", "nanoseconds"}}
	if r.Bool() {
		t2 = []c07Type{{"cpu", "us"}, {"samples", "count"}}
	}
	cs.Sources = []c07Prof{{Types: t1, Samples: g.samples(r, t1, 2+r.Intn(4))}}
	cs.Bases = []c07Prof{{Types: t2, Samples: g.samples(r, t2, 2+r.Intn(4))}}
	return cs
}

var c07IntRatios = [][2]int64{{1, 1}, {1, 1}, {-1, 1}, {2, 1}, {1024, 1}, {1000, 1}, {1000000, 1}, {0, 1}, {1, 2}, {3, 4}, {1, 1024}, {-5, 8}, {2, 2}, {7, 1}}

func c07GenInproc(r *Rng, i int) *c07Case {
	kinds := []string{"scalen", "scalen", "normalize", "compat", "scaleprofiles", "scaleneg"}
	cs := &c07Case{Kind: kinds[i%len(kinds)], Stream: "main"}
	n := 1 + r.Intn(4)
	small := func() int64 {
		switch x := r.Intn(10); {
		case x < 3:
			return 0
		case x < 7:
			return int64(r.Intn(21)) - 5
		default:
			return int64(r.U64()%(1<<30)) - (1 << 28)
		}
	}
	mkTypes := func(k int) []c07Type {
		var ts []c07Type
		for _, j := range c07Perm(r, len(c07TypeUniverse))[:k] {
			ti := c07TypeUniverse[j]
			ts = append(ts, c07Type{ti.name, c07PickUnit(r, ti)})
		}
		return ts
	}
	mkProf := func(ts []c07Type, val func() int64) c07Prof {
		p := c07Prof{Types: ts}
		for k, m := 0, r.Intn(8); k < m; k++ {
			s := c07Sample{Stack: []int{k}}
			for range ts {
				s.Values = append(s.Values, val())
			}
			p.Samples = append(p.Samples, s)
		}
		return p
	}
	switch cs.Kind {
	case "scalen":
		ts := mkTypes(n)
		cs.Sources = []c07Prof{mkProf(ts, small)}
		for j := 0; j < n; j++ {
			cs.Ratios = append(cs.Ratios, c07IntRatios[r.Intn(len(c07IntRatios))])
		}
		if r.Chance(3) {
			cs.Ratios = cs.Ratios[:n-1] // length mismatch: error class
		}
	case "scaleneg":
		ts := mkTypes(n)
		big := func() int64 {
			if r.Chance(40) {
				return small()
			}
			v := int64(r.U64() >> uint(2+r.Intn(12)))
			if r.Bool() {
				v = -v
			}
			return v
		}
		cs.Sources = []c07Prof{mkProf(ts, big)}
		cs.Stream = "large"
	case "normalize":
		ts := mkTypes(n)
		pos := func() int64 {
			if r.Chance(25) {
				return 0
			}
			return int64(r.U64() % (1 << uint(3+r.Intn(24))))
		}
		val := pos
		if r.Chance(20) {
			val = small
		}
		cs.Sources = []c07Prof{mkProf(ts, val)}
		cs.Bases = []c07Prof{mkProf(ts, val)}
	case "compat":
		core := c07Perm(r, len(c07TypeUniverse))[:1+r.Intn(3)]
		if r.Chance(5) {
			core = nil
		}
		for k, m := 0, 1+r.Intn(4); k < m; k++ {
			cs.Sources = append(cs.Sources, mkProf(c07ProfTypes(r, core, nil), small))
		}
	case "scaleprofiles":
		ts := mkTypes(n)
		for k, m := 0, 1+r.Intn(4); k < m; k++ {
			us := make([]c07Type, len(ts))
			for j, t := range ts {
				us[j] = c07Type{t.Type, c07PickUnit(r, c07TypeUniverse[c07TypeID(t.Type)])}
			}
			if r.Chance(3) {
				us[0].Unit = "count" // incompatible with a byte/time unit elsewhere: error class
			}
			p := c07Prof{Types: us}
			for a, m2 := 0, r.Intn(8); a < m2; a++ {
				sm := c07Sample{Stack: []int{a}}
				for _, t := range us {
					sm.Values = append(sm.Values, c07Value(r, t.Unit, true))
				}
				p.Samples = append(p.Samples, sm)
			}
			cs.Sources = append(cs.Sources, p)
		}
	}
	return cs
}
