//go:build verif

package main

// C19 (iv): N concurrent /saveconfig and /deleteconfig requests against ONE web UI instance (one
// goroutine per request, as net/http does).  Afterwards the settings file must parse and must be
// the result of SOME serial order of the requests.  Requests on different names commute
// (theorem edit_frame), so the judgement is made per name: the entries of that name in the final
// file must equal what some order of the requests on that name produces from the entries of that
// name in the initial file — decided by the Lean model (`settings.serial`, all permutations) —
// and entries of names no request mentions must be unchanged.  The relative order of entries of
// different names is not compared (any order is produced by some serial order).
// Schedules are not replayable deterministically: a replay repeats the same request mix for the
// recorded number of rounds.

import (
	"fmt"
	"net/url"
	"sort"
	"sync"
)

func c19GenConc(r *Rng, t *c19Table) c19Case {
	cs := c19Case{Kind: "conc", Rounds: 1}
	valid := func(name string) c19Step { return c19GenSave(r, t, name, true) }
	for i := 0; i < 6; i++ {
		cs.Init = append(cs.Init, valid(fmt.Sprintf("p%d", i)))
	}
	// 16 requests: fresh names, overwrites, deletes, and conflicting pairs
	for i := 0; i < 6; i++ {
		cs.Reqs = append(cs.Reqs, valid(fmt.Sprintf("w%d", i)))
	}
	cs.Reqs = append(cs.Reqs, valid("p0"), valid("p1"))
	cs.Reqs = append(cs.Reqs, c19Step{Op: "delete", Name: "p2"}, c19Step{Op: "delete", Name: "p3"})
	cs.Reqs = append(cs.Reqs, valid("dup"), valid("dup"))
	cs.Reqs = append(cs.Reqs, valid("p4"), c19Step{Op: "delete", Name: "p4"})
	cs.Reqs = append(cs.Reqs, c19Step{Op: "delete", Name: "nosuch"}, valid("w6"))
	// shuffle
	for i := len(cs.Reqs) - 1; i > 0; i-- {
		j := r.Intn(i + 1)
		cs.Reqs[i], cs.Reqs[j] = cs.Reqs[j], cs.Reqs[i]
	}
	return cs
}

func c19Project(d c19Doc, name string) []c19Entry {
	var out []c19Entry
	for _, e := range d.Entries {
		if e.Name == name {
			out = append(out, e)
		}
	}
	return out
}

// one round; returns true when a violation was reported.
func (e *c19Env) concRound(cs c19Case) bool {
	c, t := e.c, e.t
	srv, err := c19NewServer(e.dir())
	if err != nil {
		c.Disagree("C19/server", err.Error(), "access to the web handlers", cs)
		return true
	}
	for _, st := range cs.Init {
		if status, body, pn := srv.get(st.request()); status != 200 || pn != "" {
			c.Disagree("C19/concurrent/init", fmt.Sprintf("sequential initial save failed: %d %s %s", status, body, pn), "concurrency oracle", cs)
			return true
		}
	}
	doc0 := c19ReadDoc(srv.file, t)
	if doc0.Err != "" {
		c.Violation("C19/seq/file-unparsable", "settings file does not parse after sequential saves: "+doc0.Err, cs)
		return true
	}
	start := make(chan bool)
	var wg sync.WaitGroup
	status := make([]int, len(cs.Reqs))
	panics := make([]string, len(cs.Reqs))
	for i, st := range cs.Reqs {
		wg.Add(1)
		go func(i int, req string) {
			defer wg.Done()
			<-start
			status[i], _, panics[i] = srv.get(req)
		}(i, st.request())
	}
	close(start)
	wg.Wait()
	for i, p := range panics {
		if p != "" {
			c.Violation("C19/concurrent/panic", "handler panics under concurrent requests: "+p+" ("+cs.Reqs[i].request()+")", cs)
			return true
		}
	}
	doc := c19ReadDoc(srv.file, t)
	if doc.Err != "" {
		c.Violation("C19/concurrent/file-unparsable",
			fmt.Sprintf("after %d concurrent save/delete requests settings.json no longer parses (%s; %d bytes): every saved configuration is lost", len(cs.Reqs), doc.Err, len(doc.Raw)), cs)
		return true
	}
	groups := map[string][]int{}
	for i, st := range cs.Reqs {
		groups[st.Name] = append(groups[st.Name], i)
	}
	// untouched names
	names := map[string]bool{}
	for _, en := range doc0.Entries {
		names[en.Name] = true
	}
	for _, en := range doc.Entries {
		names[en.Name] = true
	}
	var sorted []string
	for n := range names {
		sorted = append(sorted, n)
	}
	for n := range groups {
		if !names[n] {
			sorted = append(sorted, n)
		}
	}
	sort.Strings(sorted)
	bad := false
	for _, name := range sorted {
		a, b := c19Project(doc0, name), c19Project(doc, name)
		idx, touched := groups[name]
		if !touched {
			same := len(a) == len(b)
			for i := 0; same && i < len(a); i++ {
				same = c19SameEntry(a[i], b[i])
			}
			if !same {
				c.Violation("C19/concurrent/untouched-config-changed", fmt.Sprintf("configuration %q was not named by any request but changed", name), cs)
				bad = true
			}
			continue
		}
		// direct oracle for the unambiguous groups
		class := "mixed"
		if len(idx) == 1 {
			st := cs.Reqs[idx[0]]
			if st.Op == "save" && len(b) == 0 && status[idx[0]] == 200 {
				class = "lost-save"
			}
			if st.Op == "delete" && len(a) == 1 && len(b) == 1 && status[idx[0]] == 200 {
				class = "lost-delete"
			}
			if class != "mixed" {
				c.Violation("C19/concurrent/not-serialisable/"+class, fmt.Sprintf("request %s reported success but its effect on %q is missing from the final file (lost update)", st.request(), name), cs)
				bad = true
				continue
			}
		}
		// the model decides: is b the result of some order of the requests on this name, starting from a?
		var reqs string
		for _, i := range idx {
			reqs += " " + cs.Reqs[i].reqTok()
		}
		// floats: all float texts of these requests
		fl := t.floatsTokMulti(cs.Reqs, idx, doc0, doc)
		c.Res.ModelCompared++
		rep := c.Drv.Ask(fmt.Sprintf("settings.serial %s %s 1 %s %d%s 1 %s", fl, t.defaultsTok(), t.entriesTok(a), len(idx), reqs, t.entriesTok(b)))
		switch firstWordC19(rep) {
		case "yes":
			c.Res.Hit(fmt.Sprintf("conc-group:%d-requests:serialisable", len(idx)))
		case "no":
			c.Violation("C19/concurrent/not-serialisable/"+class, fmt.Sprintf("the entries of %q in the final file are not the result of ANY serial order of the %d concurrent requests on that name", name, len(idx)), cs)
			bad = true
		default:
			if c.Drv != nil {
				c.Disagree("C19/concurrent/driver", "settings.serial: "+c19Trunc(rep), "model driver (settings.serial)", cs)
				bad = true
			}
		}
	}
	return bad
}

// floatsTokMulti: float table covering the URL parameters of several requests.
func (t *c19Table) floatsTokMulti(reqs []c19Step, idx []int, docs ...c19Doc) string {
	extra := c19Doc{}
	for _, i := range idx {
		st := reqs[i]
		if st.Op != "save" {
			continue
		}
		en := c19Entry{Obj: map[string]c19Val{}}
		for _, f := range t.Fields {
			if f.Kind == "float" && f.URLParam != "" {
				if v, ok := st.Params[f.URLParam]; ok && v != "" {
					en.Obj[fmt.Sprintf("%s#%d", f.Name, i)] = c19Val{K: 'f', S: v}
				}
			}
		}
		extra.Entries = append(extra.Entries, en)
	}
	return t.floatsTok(url.Values{}, append(docs, extra)...)
}

func (e *c19Env) runConc(cs c19Case) {
	rounds := cs.Rounds
	if rounds < 1 {
		rounds = 1
	}
	if e.c.Replay != "" {
		rounds *= 4 // schedules vary: give a replay several chances
	}
	for i := 0; i < rounds; i++ {
		e.c.Res.Hit("conc-rounds")
		if e.concRound(cs) {
			return
		}
	}
}

func (e *c19Env) concurrent(r *Rng) {
	n := 3 * e.c.Scale
	for i := 0; i < n; i++ {
		cs := c19GenConc(r, e.t)
		cs.Rounds = 10
		e.runConc(cs)
		e.c.Res.Count("conc:"+c19SeqKey(c19Case{Steps: cs.Reqs}), true)
	}
}
