//go:build verif

package main

import (
	"bufio"
	"fmt"
	"io"
	"os/exec"
	"strings"
)

// Drv is a running pvdrv (the compiled Lean model driver); one request line, one reply line.
type Drv struct {
	cmd *exec.Cmd
	in  io.WriteCloser
	out *bufio.Reader
	N   int
}

func startDrv(path string) (*Drv, error) {
	cmd := exec.Command(path)
	in, err := cmd.StdinPipe()
	if err != nil {
		return nil, err
	}
	out, err := cmd.StdoutPipe()
	if err != nil {
		return nil, err
	}
	if err := cmd.Start(); err != nil {
		return nil, err
	}
	d := &Drv{cmd: cmd, in: in, out: bufio.NewReaderSize(out, 1<<20)}
	if r := d.Ask("ping"); r != "pong" {
		return nil, fmt.Errorf("driver does not answer ping: %q", r)
	}
	return d, nil
}

// Ask sends one request and returns the reply line (without newline). A dead driver yields
// "drv-dead", which never equals a Go-side observation, so it surfaces as a disagreement.
func (d *Drv) Ask(line string) string {
	if d == nil {
		return "drv-dead"
	}
	if strings.ContainsAny(line, "\n\r") {
		return "drv-bad-request"
	}
	d.N++
	if _, err := io.WriteString(d.in, line+"\n"); err != nil {
		return "drv-dead"
	}
	s, err := d.out.ReadString('\n')
	if err != nil {
		return "drv-dead"
	}
	return strings.TrimRight(s, "\n")
}

func (d *Drv) Close() {
	if d == nil {
		return
	}
	d.in.Close()
	d.cmd.Wait()
}
