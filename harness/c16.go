//go:build verif

package main

// C16 — multi-source fetch merges whatever succeeded, independent of timing.
//
// The REAL driver.PProf is driven purely through the public plug-in API (driver.Options): own
// FlagSet, a UI that captures the error lines, a Fetcher plug-in (and an http.RoundTripper for the
// URL sources) that decides per source whether it yields a valid profile, an error, nothing (so
// that pprof itself reads the file / URL), a garbage body or an invalid profile, and that DELAYS
// every source by a PRNG-derived amount to force different completion orders; a no-op symbolizer,
// an ObjTool that opens nothing and an in-memory Writer.
//
// Direct oracle (per run): PProf fails iff no source — or no base when bases were requested —
// succeeded; otherwise the -proto report, read back with profile.Parse, has for every stack
// exactly the sum of the values of the successful sources (minus the successful bases), the
// comments of exactly the successful sources in command-line order, the DocURL of the first
// successful source; -traces / -top show the same figures; one error line per failed source and
// none for the others; every source is fetched exactly once.  Per case: the output is
// byte-identical under ≥ 3 delay schedules and when failing sources fail in a different way.
//
// Correspondence: the Lean model (Model/Fetch.lean, via pvdrv-C16 `fetch.model`) is run on the
// same outcome vector, the OBSERVED completion order and the chunk size extracted from the
// source; its verdict, collected index list and error counts must equal the observed ones, and
// the observed fetch concurrency must respect the extracted chunking (barrier between chunks).

import (
	"bytes"
	"encoding/json"
	"errors"
	"fmt"
	"io"
	"net/http"
	"os"
	"os/exec"
	"path/filepath"
	"regexp"
	"sort"
	"strconv"
	"strings"
	"sync"
	"time"

	"github.com/google/pprof/driver"
	"github.com/google/pprof/internal/transport"
	"github.com/google/pprof/profile"
)

func init() { register("C16", runC16) }

// ---------------------------------------------------------------------------------------------
// cases

const (
	c16OK          = "ok"           // Fetcher returns a valid profile
	c16OKEmpty     = "ok-empty"     // Fetcher returns a valid profile without samples
	c16OKFile      = "ok-file"      // Fetcher returns (nil, "", nil); pprof reads a valid file
	c16OKHTTP      = "ok-http"      // Fetcher returns (nil, "", nil); pprof GETs a valid body
	c16Err         = "err"          // Fetcher returns an error
	c16Missing     = "missing"      // Fetcher returns (nil, "", nil); the file does not exist
	c16GarbageFile = "garbage-file" // … the file holds garbage
	c16Invalid     = "invalid"      // Fetcher returns a profile that fails CheckValid
	c16InvalidFile = "invalid-file" // … the file holds a serialized invalid profile
	c16HTTP500     = "http-500"     // … the URL answers 500
	c16HTTPGarbage = "http-garbage" // … the URL answers 200 with a garbage body
	c16HTTPNetErr  = "http-neterr"  // … the transport fails
)

var c16FailKinds = []string{c16Err, c16Missing, c16GarbageFile, c16Invalid, c16InvalidFile, c16HTTP500, c16HTTPGarbage, c16HTTPNetErr}
var c16OKKinds = []string{c16OK, c16OK, c16OK, c16OKFile, c16OKHTTP, c16OKEmpty}
var c16CLIFail = []string{c16Missing, c16GarbageFile, c16InvalidFile}

func c16Succeeds(kind string) bool {
	return strings.HasPrefix(kind, "ok") || c16RealSucceeds(kind) || kind == c16PerfOK
}
func c16IsHTTP(kind string) bool { return kind == c16OKHTTP || strings.HasPrefix(kind, "http-") }

type c16Src struct {
	Kind       string   `json:"kind"`
	Seed       uint64   `json:"seed"`
	MapFile    string   `json:"map_file,omitempty"`     // binary-location stream: file name of the profile's mapping
	MapBuildID string   `json:"map_build_id,omitempty"` // … and its build id ("" = none)
	Unit0      string   `json:"unit0,omitempty"`        // units stream: unit of sample type 0 (cpu) …
	Unit1      string   `json:"unit1,omitempty"`        // … and of sample type 1 (space)
	Types      []string `json:"types,omitempty"`        // sample-types stream: this source's sample types, in its own order
}

type c16Case struct {
	Name      string        `json:"name"`
	Sources   []c16Src      `json:"sources"`
	Bases     []c16Src      `json:"bases,omitempty"`
	DiffBase  bool          `json:"diff_base,omitempty"`
	Schedules [][]int       `json:"schedules"`            // per schedule: delay in µs for sources ++ bases
	AltKinds  []string      `json:"alt_kinds,omitempty"`  // other way of failing for failing sources ("" = same); run under Schedules[0]
	Text      bool          `json:"text,omitempty"`       // also check -traces and -top
	CLI       bool          `json:"cli,omitempty"`        // run through the pprof binary (file kinds only)
	Burst     bool          `json:"burst,omitempty"`      // all fetches that have arrived are released at the same instant (c16_burst.go)
	NoTool    bool          `json:"no_tool,omitempty"`    // PATH lacks perf_to_profile: every PERFILE2 file fails to convert
	StdUI     bool          `json:"default_ui,omitempty"` // Options.UI == nil, run in a child process whose stderr is checked line by line
	Rounds    int           `json:"rounds,omitempty"`
	Envs      []c16Env      `json:"envs,omitempty"`            // run in child processes under these environments (c16_env.go)
	Perf      bool          `json:"perf_conversion,omitempty"` // perf.data sources converted by the stand-in perf_to_profile (c16_perf.go)
	Types     bool          `json:"sample_types,omitempty"`    // sources list partially overlapping sample-type sets (c16_types.go)
	Units     bool          `json:"units,omitempty"`           // sources report their sample types in different compatible units (c16_units.go)
	Bin       bool          `json:"binary_location,omitempty"` // mappings are located under a generated $PPROF_BINARY_PATH tree (c16_bin.go)
	Tree      []c16BinEntry `json:"tree,omitempty"`
	Real      bool          `json:"real_transport,omitempty"` // URL sources go through the production internal/transport to local servers (c16_tls.go)
	UseCA     bool          `json:"use_ca,omitempty"`         // pass server B's certificate with -tls_ca
	Orders    [][]int       `json:"orders,omitempty"`         // Real: per run the rank at which each fetch (sources ++ bases) is released, one after the other
}

func (cs *c16Case) all() []c16Src { return append(append([]c16Src{}, cs.Sources...), cs.Bases...) }

func c16Token(group, id int) string {
	if group == 0 {
		return fmt.Sprintf("s%04d", id)
	}
	return fmt.Sprintf("b%04d", id)
}

func c16Addr(dir string, group, id int, kind string) string {
	if c16IsPerf(kind) {
		return c16PerfAddr(dir, c16Token(group, id))
	}
	if c16IsReal(kind) && c16Srv != nil {
		return c16Srv.addr(kind, c16Token(group, id))
	}
	if c16IsHTTP(kind) {
		return "http://pproftest.local/" + c16Token(group, id)
	}
	return filepath.Join(dir, c16Token(group, id)+".pb")
}

var c16TokRe = regexp.MustCompile(`/([sb]\d{4})(?:\.pb)?`)

// ---------------------------------------------------------------------------------------------
// profiles: every source has its own stack, shares stacks with a group of sources and with all.

var c16Garbage = []byte("\xff\xff\xff\xff\xff\xff\xff\xff\xff\xff\xff\xff not a profile \x00\x01\x02")

func c16Profile(group, id int, seed uint64, empty, invalid bool) *profile.Profile {
	r := NewRng(seed*2654435761 + uint64(id)*40503 + uint64(group)*7 + 11)
	tok := c16Token(group, id)
	p := &profile.Profile{
		SampleType:    []*profile.ValueType{{Type: "allocs", Unit: "count"}, {Type: "objs", Unit: "count"}},
		PeriodType:    &profile.ValueType{Type: "space", Unit: "bytes"},
		Period:        1 + int64(r.Intn(5)),
		TimeNanos:     c16Time(group, id),
		DurationNanos: 1000 + int64(id),
		Comments:      []string{tok},
		DocURL:        "http://doc.invalid/" + tok,
	}
	m := &profile.Mapping{ID: 1, Start: 0x1000, Limit: 0x400000, File: "/bin/c16prog", BuildID: "c16build",
		HasFunctions: true, HasFilenames: true, HasLineNumbers: true}
	p.Mapping = []*profile.Mapping{m}
	locs := map[string]*profile.Location{}
	loc := func(name string, addr uint64) *profile.Location {
		if l, ok := locs[name]; ok {
			return l
		}
		f := &profile.Function{ID: uint64(len(p.Function) + 1), Name: name, SystemName: name, Filename: "c16.go", StartLine: 1}
		p.Function = append(p.Function, f)
		l := &profile.Location{ID: uint64(len(p.Location) + 1), Mapping: m, Address: addr, Line: []profile.Line{{Function: f, Line: 10}}}
		p.Location = append(p.Location, l)
		locs[name] = l
		return l
	}
	k := r.Intn(5)
	main := loc("main", 0x1100)
	common := loc("common", 0x1200)
	grp := loc(fmt.Sprintf("grp%d", k), 0x2000+uint64(k)*16)
	own := loc("own_"+tok, 0x10000+uint64(group)*0x100000+uint64(id)*16)
	val := func() []int64 { return []int64{1 + int64(r.Intn(1<<26)), 1 + int64(r.Intn(1<<26))} }
	if !empty {
		p.Sample = append(p.Sample,
			&profile.Sample{Location: []*profile.Location{common, main}, Value: val()},
			&profile.Sample{Location: []*profile.Location{grp, main}, Value: val()},
			&profile.Sample{Location: []*profile.Location{own, grp, main}, Value: val()})
		if r.Bool() {
			p.Sample = append(p.Sample, &profile.Sample{Location: []*profile.Location{own, common, main}, Value: val()})
		}
		if r.Bool() {
			p.Sample = append(p.Sample, &profile.Sample{Location: []*profile.Location{common, main}, Value: val(),
				Label: map[string][]string{"tag": {fmt.Sprintf("t%d", r.Intn(3))}}})
		}
	}
	if invalid {
		p.Sample = append(p.Sample, &profile.Sample{Location: []*profile.Location{main}, Value: []int64{1}})
	}
	return p
}

// c16Time: collection time of a source — never 0, not monotonic in the index.
func c16Time(group, id int) int64 {
	return 1600000000000000000 + int64((id*7919+group*31)%1009) + 1
}

func c16ProfileOf(group, id int, s c16Src) *profile.Profile {
	p := c16Profile(group, id, s.Seed, s.Kind == c16OKEmpty, s.Kind == c16Invalid || s.Kind == c16InvalidFile)
	if s.MapFile != "" {
		p.Mapping[0].File, p.Mapping[0].BuildID = s.MapFile, s.MapBuildID
	}
	if len(s.Types) > 0 {
		p.SampleType = nil
		for _, t := range s.Types {
			p.SampleType = append(p.SampleType, &profile.ValueType{Type: t, Unit: "count"})
		}
		for _, sm := range p.Sample {
			base := sm.Value[0]
			sm.Value = make([]int64, len(s.Types))
			for k, t := range s.Types {
				sm.Value[k] = c16TypeVal(base, t)
			}
		}
		if (s.Kind == c16Invalid || s.Kind == c16InvalidFile) && len(p.Sample) > 0 {
			last := p.Sample[len(p.Sample)-1]
			last.Value = append(last.Value, 1) // one value too many: fails CheckValid
		}
	}
	if s.Unit0 != "" {
		p.SampleType = []*profile.ValueType{{Type: "cpu", Unit: s.Unit0}, {Type: "space", Unit: s.Unit1}}
		for _, sm := range p.Sample {
			for i := range sm.Value {
				sm.Value[i] = 1 + (sm.Value[i]-1)%(1<<18) // keeps value × 1e9 below 2^53
			}
		}
	}
	return p
}

func c16Bytes(p *profile.Profile) []byte {
	var b bytes.Buffer
	p.Write(&b)
	return b.Bytes()
}

// c16Key: semantic identity of a sample = function names leaf→root + sorted labels.
func c16Key(s *profile.Sample, extra string) string {
	var names []string
	for _, l := range s.Location {
		if l == nil {
			names = append(names, "<nil>")
			continue
		}
		for _, ln := range l.Line {
			if ln.Function != nil {
				names = append(names, ln.Function.Name)
			} else {
				names = append(names, "<nofunc>")
			}
		}
	}
	var labs []string
	for k, v := range s.Label {
		labs = append(labs, k+"="+strings.Join(v, ","))
	}
	if extra != "" {
		labs = append(labs, extra)
	}
	sort.Strings(labs)
	return strings.Join(names, ";") + "|" + strings.Join(labs, "|")
}

type c16W map[string][2]int64

func (w c16W) add(p *profile.Profile, sign int64, extra string) {
	for _, s := range p.Sample {
		k := c16Key(s, extra)
		v := w[k]
		for i := 0; i < 2 && i < len(s.Value); i++ {
			v[i] += sign * s.Value[i]
		}
		w[k] = v
	}
}

// addOff: like add for the value columns off and off+1.
func (w c16W) addOff(p *profile.Profile, sign int64, extra string, off int) {
	for _, s := range p.Sample {
		if len(s.Value) <= off {
			continue
		}
		k := c16Key(s, extra)
		v := w[k]
		for i := 0; i < 2 && off+i < len(s.Value); i++ {
			v[i] += sign * s.Value[off+i]
		}
		w[k] = v
	}
}

func (w c16W) dropZero() {
	for k, v := range w {
		if v[0] == 0 && v[1] == 0 {
			delete(w, k)
		}
	}
}

// c16Expect is the property's right-hand side, computed from the case alone.
type c16Expect struct {
	Fail         bool
	W            c16W
	Comments     []string
	DocURL       string
	OkSrc        []int
	OkBase       []int
	NFail        [2]int
	Time         int64    // earliest collection time among the successful sources and bases
	Common       []string // sample-types stream: types common to all fetched sources and bases, in the first one's order
	HasTypes     bool
	NoCommonType bool
	W2           c16W      // columns 2 and 3 (sample-types stream)
	Finest       [2]string // units stream: finest unit per sample type among the successful sources and bases
}

func c16Expected(cs *c16Case, kinds []string) *c16Expect {
	e := &c16Expect{W: c16W{}}
	n := len(cs.Sources)
	e.Finest = c16Finest(cs, kinds)
	e.Common, e.HasTypes = c16Common(cs, kinds)
	e.W2 = c16W{}
	scaled := func(g, id int, s c16Src) *profile.Profile {
		p := c16ProfileOf(g, id, s)
		if e.HasTypes { // keep the common types only, in the common order
			pos := map[string]int{}
			for k, t := range s.Types {
				pos[t] = k
			}
			for _, sm := range p.Sample {
				v := make([]int64, len(e.Common))
				for k, t := range e.Common {
					v[k] = sm.Value[pos[t]]
				}
				sm.Value = v
			}
		}
		ratio := c16UnitRatio(s, e.Finest)
		for _, sm := range p.Sample {
			for i := range sm.Value {
				if i < 2 {
					sm.Value[i] *= ratio[i]
				}
			}
		}
		return p
	}
	for i, s := range cs.Sources {
		s.Kind = kinds[i]
		if !c16Succeeds(s.Kind) {
			e.NFail[0]++
			continue
		}
		e.OkSrc = append(e.OkSrc, i)
		if t := c16Time(0, i); e.Time == 0 || t < e.Time {
			e.Time = t
		}
		sp := scaled(0, i, s)
		e.W.add(sp, 1, "")
		e.W2.addOff(sp, 1, "", 2)
		e.Comments = append(e.Comments, c16Token(0, i))
		if e.DocURL == "" {
			e.DocURL = "http://doc.invalid/" + c16Token(0, i)
		}
	}
	for j, s := range cs.Bases {
		s.Kind = kinds[n+j]
		if !c16Succeeds(s.Kind) {
			e.NFail[1]++
			continue
		}
		e.OkBase = append(e.OkBase, j)
		if t := c16Time(1, j); e.Time == 0 || t < e.Time {
			e.Time = t
		}
		extra := ""
		if cs.DiffBase {
			extra = "pprof::base=true"
		}
		bp := scaled(1, j, s)
		e.W.add(bp, -1, extra)
		e.W2.addOff(bp, -1, extra, 2)
		e.Comments = append(e.Comments, c16Token(1, j))
	}
	e.W.dropZero()
	e.W2.dropZero()
	e.Fail = len(e.OkSrc) == 0 || (len(cs.Bases) > 0 && len(e.OkBase) == 0)
	if e.HasTypes && !e.Fail && len(e.Common) == 0 {
		e.Fail, e.NoCommonType = true, true // documented error: no sample type common to all fetched profiles
	}
	return e
}

// ---------------------------------------------------------------------------------------------
// plug-ins

type c16Slot struct {
	group, id     int
	src           c16Src
	delay         time.Duration
	rank          int // gated runs: position at which this fetch is released
	fetches       int
	finishes      int
	startDone     int // completed fetches of its group when this fetch began
	activeAtStart int
}

type c16Run struct {
	mu         sync.Mutex
	byTok      map[string]*c16Slot
	done       [2]int
	active     [2]int
	maxActive  [2]int
	completion [2][]int
	unknown    int
	gate       *c16Gate  // non-nil: fetches are released one after the other by rank
	burst      *c16Burst // non-nil: fetches are released together
}

func (r *c16Run) begin(s *c16Slot) {
	r.mu.Lock()
	s.fetches++
	if s.fetches == 1 {
		s.startDone = r.done[s.group]
		r.active[s.group]++
		s.activeAtStart = r.active[s.group]
		if r.active[s.group] > r.maxActive[s.group] {
			r.maxActive[s.group] = r.active[s.group]
		}
	}
	r.mu.Unlock()
}

func (r *c16Run) finish(s *c16Slot) {
	r.mu.Lock()
	s.finishes++
	if s.finishes == 1 {
		r.done[s.group]++
		r.active[s.group]--
		r.completion[s.group] = append(r.completion[s.group], s.id)
	}
	r.mu.Unlock()
}

func c16Sleep(d time.Duration) {
	if d > 0 {
		time.Sleep(d)
	}
}

func (r *c16Run) slotOf(addr string) *c16Slot {
	m := c16TokRe.FindStringSubmatch(addr)
	if m == nil {
		return nil
	}
	return r.byTok[m[1]]
}

// Fetch implements driver.Fetcher.
func (r *c16Run) Fetch(src string, duration, timeout time.Duration) (*profile.Profile, string, error) {
	s := r.slotOf(src)
	if s == nil {
		r.mu.Lock()
		r.unknown++
		r.mu.Unlock()
		return nil, "", errors.New("c16: unknown source")
	}
	r.begin(s)
	if r.burst != nil {
		r.burst.arrive()
	}
	if c16IsHTTP(s.src.Kind) {
		return nil, "", nil // completion is recorded by the transport
	}
	if c16IsPerf(s.src.Kind) {
		r.finish(s)
		return nil, "", nil // pprof converts the file itself; the stand-in tool does the waiting
	}
	if c16IsReal(s.src.Kind) {
		if r.gate == nil { // default wiring, no wrapper: order by delay only
			c16Sleep(s.delay)
			r.finish(s)
		}
		return nil, "", nil // gated: the wrapper around the production transport waits and records
	}
	if r.gate != nil {
		r.gate.wait(s.rank)
		defer r.gate.release(s.rank)
	}
	c16Sleep(s.delay)
	r.finish(s)
	switch s.src.Kind {
	case c16OK, c16OKEmpty, c16Invalid:
		return c16ProfileOf(s.group, s.id, s.src), "", nil
	case c16Err:
		return nil, "", errors.New("injected fetch failure")
	}
	return nil, "", nil // file kinds: pprof reads (or fails to read) the file itself
}

// RoundTrip implements http.RoundTripper for the URL sources.
func (r *c16Run) RoundTrip(req *http.Request) (*http.Response, error) {
	s := r.slotOf(req.URL.Path)
	if s == nil {
		return nil, errors.New("c16: unknown url")
	}
	c16Sleep(s.delay)
	r.finish(s)
	resp := func(code int, body []byte) *http.Response {
		return &http.Response{StatusCode: code, Status: fmt.Sprintf("%d %s", code, http.StatusText(code)),
			Proto: "HTTP/1.1", ProtoMajor: 1, ProtoMinor: 1, Header: http.Header{}, Request: req,
			Body: io.NopCloser(bytes.NewReader(body)), ContentLength: int64(len(body))}
	}
	switch s.src.Kind {
	case c16OKHTTP:
		return resp(200, c16Bytes(c16ProfileOf(s.group, s.id, s.src))), nil
	case c16HTTP500:
		return resp(500, []byte("boom")), nil
	case c16HTTPGarbage:
		return resp(200, c16Garbage), nil
	}
	return nil, errors.New("injected transport failure")
}

type c16UI struct {
	mu     sync.Mutex
	errs   []string
	prints []string
}

func (u *c16UI) ReadLine(string) (string, error) { return "", io.EOF }
func (u *c16UI) Print(a ...interface{}) {
	u.mu.Lock()
	u.prints = append(u.prints, fmt.Sprint(a...))
	u.mu.Unlock()
}
func (u *c16UI) PrintErr(a ...interface{}) {
	u.mu.Lock()
	u.errs = append(u.errs, fmt.Sprint(a...))
	u.mu.Unlock()
}
func (u *c16UI) IsTerminal() bool                    { return false }
func (u *c16UI) WantBrowser() bool                   { return false }
func (u *c16UI) SetAutoComplete(func(string) string) {}

type c16Flags struct {
	bools map[string]bool
	strs  map[string]string
	lists map[string][]string
	args  []string
}

func (f *c16Flags) Bool(n string, d bool, _ string) *bool {
	if v, ok := f.bools[n]; ok {
		return &v
	}
	return &d
}
func (f *c16Flags) Int(n string, d int, _ string) *int             { return &d }
func (f *c16Flags) Float64(n string, d float64, _ string) *float64 { return &d }
func (f *c16Flags) String(n, d, _ string) *string {
	if v, ok := f.strs[n]; ok {
		return &v
	}
	return &d
}
func (f *c16Flags) StringList(n, d, _ string) *[]*string {
	var l []*string
	for _, v := range f.lists[n] {
		v := v
		l = append(l, &v)
	}
	return &l
}
func (f *c16Flags) ExtraUsage() string    { return "" }
func (f *c16Flags) AddExtraUsage(string)  {}
func (f *c16Flags) Parse(func()) []string { return f.args }

type c16Sym struct{}

func (c16Sym) Symbolize(string, driver.MappingSources, *profile.Profile) error { return nil }

type c16Obj struct{}

func (c16Obj) Open(string, uint64, uint64, uint64, string) (driver.ObjFile, error) {
	return nil, errors.New("c16: no object files")
}
func (c16Obj) Disasm(string, uint64, uint64, bool) ([]driver.Inst, error) {
	return nil, errors.New("c16: no disassembler")
}

type c16Writer struct {
	mu   sync.Mutex
	bufs map[string]*bytes.Buffer
}
type c16WC struct{ *bytes.Buffer }

func (c16WC) Close() error { return nil }
func (w *c16Writer) Open(name string) (io.WriteCloser, error) {
	w.mu.Lock()
	defer w.mu.Unlock()
	b := &bytes.Buffer{}
	w.bufs[name] = b
	return c16WC{b}, nil
}

// ---------------------------------------------------------------------------------------------
// one run of the real code

type c16Obs struct {
	Panic      string
	Hang       bool
	Failed     bool
	Err        string
	Out        []byte
	ErrLines   []string
	ErrCount   map[string]int // token → error lines attributed to it
	Completion [2][]int
	MaxActive  [2]int
	Slots      []*c16Slot
	Unknown    int
	TreeDir    string
}

func c16WriteFiles(dir string, cs *c16Case, kinds []string) {
	n := len(cs.Sources)
	for i, s := range cs.all() {
		g, id := 0, i
		if i >= n {
			g, id = 1, i-n
		}
		s.Kind = kinds[i]
		path := c16Addr(dir, g, id, s.Kind)
		switch s.Kind {
		case c16OKFile, c16InvalidFile:
			os.WriteFile(path, c16Bytes(c16ProfileOf(g, id, s)), 0o644)
		case c16GarbageFile:
			os.WriteFile(path, c16Garbage, 0o644)
		}
	}
}

func c16Kinds(cs *c16Case, alt bool) []string {
	var k []string
	for i, s := range cs.all() {
		kk := s.Kind
		if alt && i < len(cs.AltKinds) && cs.AltKinds[i] != "" {
			kk = cs.AltKinds[i]
		}
		k = append(k, kk)
	}
	return k
}

func c16Exec(root string, cs *c16Case, kinds []string, delays []int, format, sampleIndex string) *c16Obs {
	return c16ExecOrd(root, cs, kinds, delays, nil, format, sampleIndex)
}

// c16ExecOrd: order != nil ⇒ the fetches are released one after the other, fetch i at position order[i].
func c16ExecOrd(root string, cs *c16Case, kinds []string, delays, order []int, format, sampleIndex string) *c16Obs {
	dir, _ := os.MkdirTemp(root, "r")
	defer os.RemoveAll(dir)
	if cs.Real {
		if srv := c16StartServers(root); srv.err != nil {
			return &c16Obs{ErrCount: map[string]int{}, Panic: "harness: cannot start the local servers: " + srv.err.Error()}
		}
	}
	c16WriteFiles(dir, cs, kinds)
	if cs.Perf {
		c16WritePerf(dir, cs, kinds, delays, len(delays) > 0 && delays[0]%2 == 0)
	}
	n := len(cs.Sources)
	run := &c16Run{byTok: map[string]*c16Slot{}}
	obs := &c16Obs{ErrCount: map[string]int{}}
	if order != nil {
		run.gate = newC16Gate()
	}
	if cs.Burst {
		run.burst = newC16Burst()
		defer close(run.burst.stop)
	}
	if cs.NoTool && c16OrigPath != "" {
		cur := os.Getenv("PATH")
		os.Setenv("PATH", c16OrigPath)
		defer os.Setenv("PATH", cur)
	}
	bodies := map[string][]byte{}
	var args, bases []string
	for i, s := range cs.all() {
		g, id := 0, i
		if i >= n {
			g, id = 1, i-n
		}
		s.Kind = kinds[i]
		sl := &c16Slot{group: g, id: id, src: s}
		if i < len(delays) {
			sl.delay = time.Duration(delays[i]) * time.Microsecond
		}
		if i < len(order) {
			sl.rank = order[i]
		}
		if c16IsReal(s.Kind) && s.Kind != c16RealHTTP404 {
			bodies[c16Token(g, id)] = c16Bytes(c16ProfileOf(g, id, s))
		}
		run.byTok[c16Token(g, id)] = sl
		obs.Slots = append(obs.Slots, sl)
		if g == 0 {
			args = append(args, c16Addr(dir, g, id, s.Kind))
		} else {
			bases = append(bases, c16Addr(dir, g, id, s.Kind))
		}
	}
	if cs.Units {
		sampleIndex = map[string]string{"allocs": "cpu", "objs": "space"}[sampleIndex]
	}
	if cs.Types {
		sampleIndex = "" // the default: whatever the last common type is
	}
	fl := &c16Flags{bools: map[string]bool{format: true, "trim": false},
		strs:  map[string]string{"output": "c16out", "sample_index": sampleIndex, "symbolize": "none"},
		lists: map[string][]string{}, args: args}
	if cs.DiffBase {
		fl.lists["diff_base"] = bases
	} else {
		fl.lists["base"] = bases
	}
	ui := &c16UI{}
	w := &c16Writer{bufs: map[string]*bytes.Buffer{}}
	o := &driver.Options{Writer: w, Flagset: fl, Fetch: run, Sym: c16Sym{}, Obj: c16Obj{}, UI: ui, HTTPTransport: run}
	if cs.StdUI && os.Getenv("PVC16_STDUI_CASE") != "" {
		o.UI = nil // the driver's default UI: writes to this process' stderr
	}
	if cs.Bin {
		// the same directory for every run of the case: the located file names are part of the report
		tree := filepath.Join(root, "bintree")
		os.RemoveAll(tree)
		c16WriteTree(tree, cs.Tree)
		old := os.Getenv("PPROF_BINARY_PATH")
		os.Setenv("PPROF_BINARY_PATH", tree)
		defer os.Setenv("PPROF_BINARY_PATH", old)
		o.Obj = c16BinObj{}
		obs.TreeDir = tree
	}
	if cs.Real {
		srv := c16StartServers(root)
		srv.setBodies(bodies)
		if cs.UseCA {
			fl.strs["tls_ca"] = srv.caFile
		}
		if order != nil {
			// the production transport, created from the flag set as driver.setDefaults does,
			// behind a wrapper that only decides when a request may start
			o.HTTPTransport = &c16GateRT{run: run, inner: transport.New(fl)}
		} else {
			o.HTTPTransport = nil // the driver's own default wiring
		}
	}
	done := make(chan struct{})
	go func() {
		defer close(done)
		defer func() {
			if e := recover(); e != nil {
				obs.Panic = fmt.Sprint(e)
			}
		}()
		if err := driver.PProf(o); err != nil {
			obs.Failed, obs.Err = true, err.Error()
		}
	}()
	select {
	case <-done:
	case <-time.After(60 * time.Second):
		obs.Hang = true
		return obs
	}
	w.mu.Lock()
	if b := w.bufs["c16out"]; b != nil {
		obs.Out = b.Bytes()
	}
	w.mu.Unlock()
	ui.mu.Lock()
	obs.ErrLines = append([]string{}, ui.errs...)
	ui.mu.Unlock()
	for _, l := range obs.ErrLines {
		if m := c16TokRe.FindStringSubmatch(l); m != nil {
			obs.ErrCount[m[1]]++
		}
	}
	run.mu.Lock()
	obs.Completion = run.completion
	obs.MaxActive = run.maxActive
	obs.Unknown = run.unknown
	run.mu.Unlock()
	return obs
}

// ---------------------------------------------------------------------------------------------
// oracle

type c16Checker struct {
	c     *Ctx
	root  string
	chunk int // chunk size extracted from the source (0 = model driver unavailable)
}

func c16Ints(l []int) string {
	s := make([]string, len(l))
	for i, v := range l {
		s[i] = strconv.Itoa(v)
	}
	return strconv.Itoa(len(l)) + " " + strings.Join(s, " ")
}

func c16DiffW(got, want c16W, idx []int) (string, string) {
	keys := map[string]bool{}
	for k := range got {
		keys[k] = true
	}
	for k := range want {
		keys[k] = true
	}
	var ks []string
	for k := range keys {
		ks = append(ks, k)
	}
	sort.Strings(ks)
	for _, k := range ks {
		g, w := got[k], want[k]
		for _, i := range idx {
			if g[i] == w[i] {
				continue
			}
			class := "other"
			if strings.HasPrefix(k, "own_") && !strings.Contains(k, "common") {
				switch {
				case g[i] == 0 && w[i] != 0:
					class = "successful-source-missing"
				case w[i] != 0 && g[i] == 2*w[i]:
					class = "source-counted-twice"
				case w[i] == 0:
					class = "unexpected-source-present"
				}
			} else if w[i] != 0 && g[i] == 0 {
				class = "stack-missing"
			}
			return class, fmt.Sprintf("stack %q value[%d]: report has %d, sum over the successful sources is %d", k, i, g[i], w[i])
		}
	}
	return "", ""
}

// check evaluates the direct oracle on one run. Returns false when a violation was reported.
func (k *c16Checker) check(cs *c16Case, label string, kinds []string, exp *c16Expect, obs *c16Obs, format string, si int) bool {
	c := k.c
	viol := func(sig, what string) bool {
		c.Violation(sig, fmt.Sprintf("[%s %s -%s] %s", cs.Name, label, format, what), cs)
		return false
	}
	if obs.Hang {
		return viol("C16/hang", "driver.PProf did not return within 60 s")
	}
	if obs.Panic != "" {
		return viol("C16/panic", "driver.PProf panicked: "+trunc16(obs.Panic))
	}
	ok := true
	// verdict
	if obs.Failed != exp.Fail && exp.NoCommonType {
		ok = viol("C16/types/no-common-type-accepted", "PProf succeeded although the fetched sources have no sample type in common")
	} else if obs.Failed != exp.Fail && obs.Failed && exp.HasTypes && strings.Contains(obs.Err, "sample type") {
		ok = viol("C16/types/compatible-sources-rejected", fmt.Sprintf("PProf failed (%s) although all fetched sources share the sample types [%s]",
			trunc16(obs.Err), strings.Join(exp.Common, ",")))
	} else if obs.Failed != exp.Fail {
		if obs.Failed {
			ok = viol("C16/verdict/failed-although-groups-nonempty", fmt.Sprintf("PProf failed (%s) although %d source(s) and %d of %d base(s) were fetched",
				trunc16(obs.Err), len(exp.OkSrc), len(exp.OkBase), len(cs.Bases)))
		} else {
			ok = viol("C16/verdict/succeeded-with-empty-group", fmt.Sprintf("PProf succeeded although %d source(s) and %d of %d base(s) were fetched",
				len(exp.OkSrc), len(exp.OkBase), len(cs.Bases)))
		}
	}
	// one error line per failed source, none for the others; every source fetched exactly once
	n := len(cs.Sources)
	for i, sl := range obs.Slots {
		tok := c16Token(sl.group, sl.id)
		want := 0
		if !c16Succeeds(kinds[i]) {
			want = 1
		}
		if got := obs.ErrCount[tok]; got != want {
			grp := "source"
			if i >= n {
				grp = "base"
			}
			sig := "C16/errors/missing-line-for-failed-" + grp
			if got > want {
				sig = "C16/errors/extra-line-for-" + grp
			}
			ok = viol(sig, fmt.Sprintf("%s %s (%s): %d error line(s), want %d", grp, tok, kinds[i], got, want))
			break
		}
	}
	for i, sl := range obs.Slots {
		if sl.fetches != 1 {
			sig := "C16/fetch-count/source-fetched-twice"
			if sl.fetches == 0 {
				sig = "C16/fetch-count/source-never-fetched"
			}
			ok = viol(sig, fmt.Sprintf("%s (%s) was fetched %d times", c16Token(sl.group, sl.id), kinds[i], sl.fetches))
			break
		}
	}
	if obs.Failed || exp.Fail {
		return ok
	}
	switch format {
	case "proto":
		p, err := profile.Parse(bytes.NewReader(obs.Out))
		if err != nil {
			return viol("C16/report/unparseable-proto", "the -proto report does not parse: "+err.Error())
		}
		got := c16W{}
		got.add(p, 1, "")
		got.dropZero()
		if class, what := c16DiffW(got, exp.W, []int{0, 1}); class != "" {
			if cs.Units {
				ok = viol("C16/units/converted-sum", what+fmt.Sprintf(" (values converted to the finest units %s/%s)", exp.Finest[0], exp.Finest[1]))
			} else {
				ok = viol("C16/weights/"+class, what)
			}
		}
		if strings.Join(p.Comments, " ") != strings.Join(exp.Comments, " ") {
			gs, ws := append([]string{}, p.Comments...), append([]string{}, exp.Comments...)
			sort.Strings(gs)
			sort.Strings(ws)
			sig := "C16/order/not-command-line-order"
			if strings.Join(gs, " ") != strings.Join(ws, " ") {
				sig = "C16/order/wrong-set-of-sources"
			}
			ok = viol(sig, fmt.Sprintf("merged comments (one per source, in merge order) are %s, want %s", trunc16(strings.Join(p.Comments, " ")), trunc16(strings.Join(exp.Comments, " "))))
		} else if p.DocURL != exp.DocURL {
			ok = viol("C16/order/first-source-header", fmt.Sprintf("DocURL %q, want that of the first successful source %q", p.DocURL, exp.DocURL))
		}
		if exp.HasTypes {
			var names []string
			for _, st := range p.SampleType {
				names = append(names, st.Type)
			}
			if strings.Join(names, ",") != strings.Join(exp.Common, ",") {
				ok = viol("C16/types/not-the-common-types", fmt.Sprintf("report has the sample types [%s]; the types common to all fetched sources, in the first one's order, are [%s]",
					strings.Join(names, ","), strings.Join(exp.Common, ",")))
			} else if len(exp.Common) > 2 {
				got2 := c16W{}
				got2.addOff(p, 1, "", 2)
				got2.dropZero()
				if _, what := c16DiffW(got2, exp.W2, []int{0, 1}); what != "" {
					ok = viol("C16/types/values", "sample types 3/4: "+what)
				}
			}
		}
		if cs.Units && exp.Finest[0] != "" && len(p.SampleType) == 2 {
			if p.SampleType[0].Unit != exp.Finest[0] || p.SampleType[1].Unit != exp.Finest[1] {
				ok = viol("C16/units/not-the-finest-unit", fmt.Sprintf("merged sample types are in %s/%s, the finest units among the successful sources are %s/%s",
					p.SampleType[0].Unit, p.SampleType[1].Unit, exp.Finest[0], exp.Finest[1]))
			}
		}
		if cs.Bin {
			got, want := c16BinObserved(p, obs.TreeDir), c16BinExpected(cs, kinds)
			if sig, what := c16BinDiff(cs, got, want); sig != "" {
				ok = viol(sig, what)
			}
		}
		// all generated collection times are non-zero, so this holds with and without the
		// earliest-non-zero repair of combineHeaders (C03)
		if p.TimeNanos != exp.Time {
			ok = viol("C16/header/collection-time", fmt.Sprintf("TimeNanos %d, want the earliest time of the successful sources %d", p.TimeNanos, exp.Time))
		}
	case "traces":
		got, perr := c16ParseTraces(string(obs.Out))
		if perr != "" {
			return viol("C16/report/unparseable-traces", perr)
		}
		want := c16W{}
		for key, v := range exp.W {
			want[key] = [2]int64{v[si], 0}
		}
		if class, what := c16DiffW(got, want, []int{0}); class != "" {
			ok = viol("C16/weights/"+class, what)
		}
	case "top":
		got, perr := c16ParseTop(string(obs.Out))
		if perr != "" {
			return viol("C16/report/unparseable-top", perr)
		}
		want := map[string][2]int64{}
		for key, v := range exp.W {
			names := strings.Split(strings.SplitN(key, "|", 2)[0], ";")
			seen := map[string]bool{}
			for j, nm := range names {
				e := want[nm]
				if j == 0 {
					e[0] += v[si]
				}
				if !seen[nm] {
					e[1] += v[si]
					seen[nm] = true
				}
				want[nm] = e
			}
		}
		for nm, w := range want {
			g, present := got[nm]
			if !present && w[0] == 0 && w[1] == 0 {
				continue
			}
			if g != w {
				ok = viol("C16/weights/top-figures", fmt.Sprintf("-top row %q: flat/cum %v, want %v", nm, g, w))
				break
			}
		}
		for nm := range got {
			if _, present := want[nm]; !present {
				ok = viol("C16/weights/top-figures", fmt.Sprintf("-top has a row %q that no successful source contains", nm))
				break
			}
		}
	}
	return ok
}

func trunc16(s string) string {
	if len(s) > 300 {
		return s[:300] + "…"
	}
	return s
}

var c16TraceSep = "-----------+"

func c16ParseTraces(out string) (c16W, string) {
	w := c16W{}
	lines := strings.Split(out, "\n")
	i := 0
	for i < len(lines) && !strings.HasPrefix(lines[i], c16TraceSep) {
		i++
	}
	if i == len(lines) {
		return nil, "no separator line in -traces output"
	}
	var names, labs []string
	var val int64
	have := false
	flush := func() {
		if have {
			sort.Strings(labs)
			k := strings.Join(names, ";") + "|" + strings.Join(labs, "|")
			v := w[k]
			v[0] += val
			w[k] = v
		}
		names, labs, have = nil, nil, false
	}
	for ; i < len(lines); i++ {
		l := lines[i]
		switch {
		case strings.HasPrefix(l, c16TraceSep):
			flush()
		case strings.TrimSpace(l) == "":
		case strings.Contains(l, ":  "):
			j := strings.Index(l, ":  ")
			labs = append(labs, strings.TrimSpace(l[:j])+"="+strings.ReplaceAll(strings.TrimSpace(l[j+3:]), " ", ","))
		default:
			f := strings.Fields(l)
			if !have {
				if len(f) != 2 {
					return nil, fmt.Sprintf("unexpected first stack line %q", l)
				}
				v, err := strconv.ParseInt(f[0], 10, 64)
				if err != nil {
					return nil, fmt.Sprintf("value %q is not an integer", f[0])
				}
				val, have = v, true
				names = append(names, f[1])
			} else {
				if len(f) != 1 {
					return nil, fmt.Sprintf("unexpected stack line %q", l)
				}
				names = append(names, f[0])
			}
		}
	}
	w.dropZeroFirst()
	return w, ""
}

// traces print samples whose selected value is 0 as "0": ignore them on both sides.
func (w c16W) dropZeroFirst() {
	for k, v := range w {
		if v[0] == 0 {
			delete(w, k)
		}
	}
}

func c16ParseTop(out string) (map[string][2]int64, string) {
	rows := map[string][2]int64{}
	lines := strings.Split(out, "\n")
	i := 0
	for i < len(lines) && !(strings.Contains(lines[i], "flat%") && strings.Contains(lines[i], "cum%")) {
		i++
	}
	if i == len(lines) {
		return nil, "no header line in -top output"
	}
	for i++; i < len(lines); i++ {
		f := strings.Fields(lines[i])
		if len(f) == 0 {
			continue
		}
		if len(f) != 6 {
			return nil, fmt.Sprintf("unexpected -top row %q", lines[i])
		}
		flat, e1 := strconv.ParseInt(f[0], 10, 64)
		cum, e2 := strconv.ParseInt(f[3], 10, 64)
		if e1 != nil || e2 != nil {
			return nil, fmt.Sprintf("non-integer figures in -top row %q", lines[i])
		}
		rows[f[5]] = [2]int64{flat, cum}
	}
	return rows, ""
}

// model compares the run with the Lean model and the extracted chunking.
func (k *c16Checker) model(cs *c16Case, label string, kinds []string, obs *c16Obs, format string) {
	c := k.c
	n, m := len(cs.Sources), len(cs.Bases)
	bit := func(kk string) string {
		if c16Succeeds(kk) {
			return "1"
		}
		return "0"
	}
	var sb, bb []string
	for i := 0; i < n; i++ {
		sb = append(sb, bit(kinds[i]))
	}
	for j := 0; j < m; j++ {
		bb = append(bb, bit(kinds[n+j]))
	}
	op := "fetch.model"
	if cs.Real { // the model's scheme/trust table decides which sources can be fetched
		op = "fetch.descs"
		for i := 0; i < n; i++ {
			sb[i] = c16Desc(kinds[i], cs.UseCA)
		}
		for j := 0; j < m; j++ {
			bb[j] = c16Desc(kinds[n+j], cs.UseCA)
		}
	}
	req := strings.Join(strings.Fields(fmt.Sprintf("%s 0 %d %s %s %d %s %s", op, n, strings.Join(sb, " "), c16Ints(obs.Completion[0]),
		m, strings.Join(bb, " "), c16Ints(obs.Completion[1]))), " ")
	rep := c.Drv.Ask(req)
	c.Res.ModelCompared++
	// what the real code did, in the model's vocabulary
	verdict := "ok"
	if obs.Failed {
		verdict = "err"
	}
	var es, eb []int
	for i, sl := range obs.Slots {
		for x := 0; x < obs.ErrCount[c16Token(sl.group, sl.id)]; x++ {
			if i < n {
				es = append(es, sl.id)
			} else {
				eb = append(eb, sl.id)
			}
		}
	}
	f := strings.Fields(rep)
	parse := func(pos int) ([]int, int) {
		if pos >= len(f) {
			return nil, -1
		}
		cnt, err := strconv.Atoi(f[pos])
		if err != nil || pos+1+cnt > len(f) {
			return nil, -1
		}
		var l []int
		for _, t := range f[pos+1 : pos+1+cnt] {
			v, _ := strconv.Atoi(t)
			l = append(l, v)
		}
		return l, pos + 1 + cnt
	}
	bad := func(sig, what string) {
		c.Disagree(sig, fmt.Sprintf("[%s %s -%s] %s", cs.Name, label, format, what), "correspondence Model/Fetch.lean (grabSourcesAndBases) ↔ internal/driver/fetch.go", cs)
	}
	if len(f) < 3 || f[1] != "src" {
		bad("C16/model/no-answer", "model driver answered "+trunc16(rep))
		return
	}
	msrc, p := parse(2)
	if p < 0 || p >= len(f) || f[p] != "base" {
		bad("C16/model/no-answer", "model driver answered "+trunc16(rep))
		return
	}
	mbase, p := parse(p + 1)
	if p < 0 || p >= len(f) || f[p] != "errs" {
		bad("C16/model/no-answer", "model driver answered "+trunc16(rep))
		return
	}
	merrs, p := parse(p + 1)
	if p < 0 || p >= len(f) || f[p] != "berrs" {
		bad("C16/model/no-answer", "model driver answered "+trunc16(rep))
		return
	}
	mberrs, _ := parse(p + 1)
	if common, has := c16Common(cs, kinds); has && len(common) == 0 {
		// no common sample type: combineProfiles fails (MergeSpec's compatibility hypothesis does not
		// hold), which the free-monoid instance of the model cannot show
		return
	}
	if f[0] != verdict {
		bad("C16/model/verdict", fmt.Sprintf("model verdict %s, real code %s (%s)", f[0], verdict, trunc16(obs.Err)))
	}
	if len(merrs) != len(es) || len(mberrs) != len(eb) {
		bad("C16/model/error-count", fmt.Sprintf("model prints %d+%d error lines, real code %d+%d", len(merrs), len(mberrs), len(es), len(eb)))
	}
	if format == "proto" && !obs.Failed && f[0] == "ok" {
		if pr, err := profile.Parse(bytes.NewReader(obs.Out)); err == nil {
			var want []string
			for _, i := range msrc {
				want = append(want, c16Token(0, i))
			}
			for _, j := range mbase {
				want = append(want, c16Token(1, j))
			}
			if strings.Join(pr.Comments, " ") != strings.Join(want, " ") {
				bad("C16/model/collected-order", fmt.Sprintf("model collects %s, real code merged %s", trunc16(strings.Join(want, " ")), trunc16(strings.Join(pr.Comments, " "))))
			}
		}
	}
	// chunking: a source of a later chunk starts only after all earlier chunks completed, and
	// never more than one chunk's worth of fetches of a group is in flight
	if k.chunk > 0 {
		for g := 0; g < 2; g++ {
			if obs.MaxActive[g] > k.chunk {
				bad("C16/chunking/concurrency-exceeds-chunk", fmt.Sprintf("group %d: %d fetches in flight, extracted chunk size %d", g, obs.MaxActive[g], k.chunk))
			}
		}
		for _, sl := range obs.Slots {
			if sl.fetches >= 1 && sl.startDone < (sl.id/k.chunk)*k.chunk {
				bad("C16/chunking/no-barrier-between-chunks", fmt.Sprintf("%s started when only %d fetches of its group had completed; its chunk starts at %d (chunk size %d)",
					c16Token(sl.group, sl.id), sl.startDone, (sl.id/k.chunk)*k.chunk, k.chunk))
				break
			}
		}
	}
}

// modelUnits: the expected total of the stack common;main in the finest unit must be the model's
// converted sum (Fetch.unitSum) of the successful sources' values.
func (k *c16Checker) modelUnits(cs *c16Case, kinds []string, exp *c16Expect) {
	n := len(cs.Sources)
	for col := 0; col < 2; col++ {
		var toks []string
		cnt := 0
		for i, s := range cs.all() {
			if !c16Succeeds(kinds[i]) || i >= n { // sources only: bases are subtracted by fetchProfiles
				continue
			}
			g, id := 0, i
			var v int64
			for _, sm := range c16ProfileOf(g, id, s).Sample {
				if c16Key(sm, "") == "common;main|" {
					v += sm.Value[col]
				}
			}
			u := s.Unit0
			if col == 1 {
				u = s.Unit1
			}
			toks = append(toks, fmt.Sprintf("%d %d", c16UnitFactor[u], v))
			cnt++
		}
		if cnt == 0 {
			return
		}
		// the harness' expectation, re-based from the finest unit of sources+bases to that of the sources
		fin := exp.Finest[col]
		var srcFin int64
		for i, s := range cs.Sources {
			if c16Succeeds(kinds[i]) {
				u := s.Unit0
				if col == 1 {
					u = s.Unit1
				}
				if srcFin == 0 || c16UnitFactor[u] < srcFin {
					srcFin = c16UnitFactor[u]
				}
			}
		}
		var want int64
		for i, s := range cs.Sources {
			if !c16Succeeds(kinds[i]) {
				continue
			}
			u := s.Unit0
			if col == 1 {
				u = s.Unit1
			}
			for _, sm := range c16ProfileOf(0, i, s).Sample {
				if c16Key(sm, "") == "common;main|" {
					want += sm.Value[col] * (c16UnitFactor[u] / srcFin)
				}
			}
		}
		_ = fin
		rep := k.c.Drv.Ask(fmt.Sprintf("fetch.unitsum %d %s", cnt, strings.Join(toks, " ")))
		k.c.Res.ModelCompared++
		if rep != fmt.Sprintf("%d %d", srcFin, want) {
			k.c.Disagree("C16/model/unit-sum", fmt.Sprintf("[%s] sample type %d: model's converted sum %q, harness expectation \"%d %d\"", cs.Name, col, rep, srcFin, want),
				"Fetch.unitSum (Model/Fetch.lean) ↔ harness c16Expected", cs)
			return
		}
	}
}

// modelTypes: the expected common sample types must be the model's (Fetch.commonTypes).
func (k *c16Checker) modelTypes(cs *c16Case, kinds []string, exp *c16Expect) {
	code := map[string]int{}
	for i, t := range c16TypePool {
		code[t] = i + 1
	}
	var lists []string
	n := len(cs.Sources)
	// the model's list order: fetched sources first (the first one gives the order), then fetched bases
	for pass := 0; pass < 2; pass++ {
		for i, s := range cs.all() {
			if !c16Succeeds(kinds[i]) || (i < n) != (pass == 0) {
				continue
			}
			l := []string{fmt.Sprint(len(s.Types))}
			for _, t := range s.Types {
				l = append(l, fmt.Sprint(code[t]))
			}
			lists = append(lists, strings.Join(l, " "))
		}
	}
	if len(exp.OkSrc) == 0 {
		return
	}
	want := []string{fmt.Sprint(len(exp.Common))}
	for _, t := range exp.Common {
		want = append(want, fmt.Sprint(code[t]))
	}
	rep := k.c.Drv.Ask(strings.Join(strings.Fields(fmt.Sprintf("fetch.common %d %s", len(lists), strings.Join(lists, " "))), " "))
	k.c.Res.ModelCompared++
	if rep != strings.Join(want, " ") {
		k.c.Disagree("C16/model/common-types", fmt.Sprintf("[%s] model's common sample types %q, harness expectation %q", cs.Name, rep, strings.Join(want, " ")),
			"Fetch.commonTypes (Model/Fetch.lean) ↔ harness c16Common", cs)
	}
}

// modelLocate: the harness' expectation of which tree entry a mapping resolves to must be the model's.
func (k *c16Checker) modelLocate(cs *c16Case) {
	code := map[string]int{"": 0}
	num := func(x string) int {
		if v, ok := code[x]; ok {
			return v
		}
		code[x] = len(code)
		return code[x]
	}
	var tr []string
	for _, e := range cs.Tree {
		tr = append(tr, fmt.Sprintf("%d %d %d", num(e.Dir), num(e.Name), num(e.ID)))
	}
	for _, s := range cs.all() {
		if s.MapFile == "" {
			continue
		}
		want := "none"
		for i, e := range cs.Tree {
			if rel := c16BinLocate(cs.Tree, s.MapFile, s.MapBuildID); rel != "" && rel == filepath.Join(e.Dir, e.Name) {
				want = strconv.Itoa(i)
				break
			}
		}
		req := strings.Join(strings.Fields(fmt.Sprintf("fetch.locate %d %s %d %d", len(cs.Tree), strings.Join(tr, " "), num(filepath.Base(s.MapFile)), num(s.MapBuildID))), " ")
		k.c.Res.ModelCompared++
		if rep := k.c.Drv.Ask(req); rep != want {
			k.c.Disagree("C16/model/locate", fmt.Sprintf("[%s] mapping (%s, %q): model resolves to entry %s, harness expectation %s", cs.Name, s.MapFile, s.MapBuildID, rep, want),
				"Fetch.locate (Model/Fetch.lean) ↔ harness c16BinLocate", cs)
			return
		}
	}
}

// ---------------------------------------------------------------------------------------------
// running one case

func c16Inversions(l []int) int {
	inv := 0
	for i := range l {
		for j := i + 1; j < len(l); j++ {
			if l[i] > l[j] {
				inv++
			}
		}
	}
	return inv
}

func c16Bucket(n int) string {
	switch {
	case n == 0:
		return "0"
	case n == 1:
		return "1"
	case n <= 8:
		return "2-8"
	case n < 127:
		return "9-126"
	case n <= 129:
		return strconv.Itoa(n)
	case n < 255:
		return "130-254"
	case n <= 257:
		return strconv.Itoa(n)
	default:
		return "258-300"
	}
}

func (k *c16Checker) runCase(cs *c16Case) {
	c := k.c
	if pf := os.Getenv("PVC16_PROGRESS"); pf != "" {
		if b, err := json.Marshal(cs); err == nil {
			os.WriteFile(pf+".tmp", b, 0o644)
			os.Rename(pf+".tmp", pf)
		}
	}
	if cs.CLI {
		k.runCLI(cs)
		return
	}
	if cs.StdUI {
		k.runStdUI(cs)
		return
	}
	if len(cs.Envs) > 0 {
		k.runEnv(cs)
		return
	}
	n, m := len(cs.Sources), len(cs.Bases)
	kinds := c16Kinds(cs, false)
	exp := c16Expected(cs, kinds)
	var outs [][]byte
	var labels []string
	var verdicts []bool
	var errsets []string
	orders := map[string]bool{}
	nonIndexOrder := false
	good := true
	type runSpec struct {
		label         string
		delays, order []int
	}
	var specs []runSpec
	for oi, ord := range cs.Orders {
		if cs.Real {
			specs = append(specs, runSpec{fmt.Sprintf("order#%d", oi), nil, ord})
		}
	}
	for si, sched := range cs.Schedules {
		specs = append(specs, runSpec{fmt.Sprintf("schedule#%d", si), sched, nil})
	}
	for _, sp := range specs {
		obs := c16ExecOrd(k.root, cs, kinds, sp.delays, sp.order, "proto", "allocs")
		label := sp.label
		if !k.check(cs, label, kinds, exp, obs, "proto", 0) {
			good = false
		}
		k.model(cs, label, kinds, obs, "proto")
		if obs.Hang {
			return
		}
		outs = append(outs, obs.Out)
		labels = append(labels, label)
		verdicts = append(verdicts, obs.Failed)
		var es []string
		for t, cnt := range obs.ErrCount {
			es = append(es, fmt.Sprintf("%s×%d", t, cnt))
		}
		sort.Strings(es)
		errsets = append(errsets, strings.Join(es, " "))
		orders[fmt.Sprint(obs.Completion)] = true
		inv := c16Inversions(obs.Completion[0])
		if inv > 0 || c16Inversions(obs.Completion[1]) > 0 {
			nonIndexOrder = true
		}
		if n > 1 {
			pct := 100 * inv / (n * (n - 1) / 2)
			c.Res.Hit(fmt.Sprintf("completion-inversions-%d%%", pct/25*25))
		}
		for g := 0; g < 2; g++ {
			if obs.MaxActive[g] > 1 {
				c.Res.Hit("max-in-flight-" + c16Bucket(obs.MaxActive[g]))
			}
		}
	}
	// timing independence: byte-identical report, same verdict, same error lines under every schedule
	for i := 1; i < len(outs); i++ {
		if verdicts[i] != verdicts[0] {
			c.Violation("C16/schedule/verdict-differs", fmt.Sprintf("[%s] %s failed=%v, %s failed=%v", cs.Name, labels[0], verdicts[0], labels[i], verdicts[i]), cs)
			good = false
		} else if !bytes.Equal(outs[i], outs[0]) {
			c.Violation("C16/schedule/report-differs", fmt.Sprintf("[%s] the -proto report under %s differs from the one under %s (%d vs %d bytes)", cs.Name, labels[i], labels[0], len(outs[i]), len(outs[0])), cs)
			good = false
		}
		if errsets[i] != errsets[0] {
			c.Violation("C16/schedule/error-lines-differ", fmt.Sprintf("[%s] error lines under %s: %s; under %s: %s", cs.Name, labels[i], trunc16(errsets[i]), labels[0], trunc16(errsets[0])), cs)
			good = false
		}
	}
	// independence of HOW the other sources fail
	if len(cs.AltKinds) > 0 && len(cs.Schedules) > 0 {
		ak := c16Kinds(cs, true)
		obs := c16Exec(k.root, cs, ak, cs.Schedules[0], "proto", "allocs")
		if !k.check(cs, "alt-failure-kinds", ak, c16Expected(cs, ak), obs, "proto", 0) {
			good = false
		}
		k.model(cs, "alt-failure-kinds", ak, obs, "proto")
		if len(outs) > 0 && (obs.Failed != verdicts[0] || !bytes.Equal(obs.Out, outs[0])) {
			c.Violation("C16/failure-kind/report-differs", fmt.Sprintf("[%s] the report changes when the failing sources fail in a different way", cs.Name), cs)
			good = false
		}
		c.Res.Hit("alt-failure-kind-runs")
	}
	if cs.Text && len(cs.Schedules) > 0 {
		for fi, format := range []string{"traces", "top"} {
			sidx := []string{"allocs", "objs"}[fi%2]
			a := c16Exec(k.root, cs, kinds, cs.Schedules[0], format, sidx)
			if !k.check(cs, "text", kinds, exp, a, format, fi%2) {
				good = false
			}
			k.model(cs, "text", kinds, a, format)
			b := c16Exec(k.root, cs, kinds, cs.Schedules[len(cs.Schedules)-1], format, sidx)
			if a.Failed != b.Failed || !bytes.Equal(a.Out, b.Out) {
				c.Violation("C16/schedule/text-report-differs", fmt.Sprintf("[%s] the -%s report differs between two delay schedules", cs.Name, format), cs)
				good = false
			}
			c.Res.Hit("text-" + format)
		}
	}
	// bookkeeping
	nf := exp.NFail[0] + exp.NFail[1]
	nontrivial := n+m >= 2 && nf >= 1 && len(exp.OkSrc)+len(exp.OkBase) >= 1 && nonIndexOrder && len(orders) >= 2
	canon := fmt.Sprintf("%v|%v|%v|%v|%v", kinds, cs.DiffBase, cs.Schedules, cs.Orders, cs.UseCA)
	if cs.Perf {
		c.Res.Hit("perf-conversion-cases")
	}
	if cs.Burst {
		c.Res.Hit("burst-cases")
		if cs.NoTool {
			c.Res.Hit("burst-cases-without-tool")
		}
	}
	if cs.Types {
		c.Res.Hit("sample-types-cases")
		c.Res.Hit(fmt.Sprintf("sample-types-common-%d", len(exp.Common)))
		k.modelTypes(cs, kinds, exp)
	}
	if cs.Units {
		c.Res.Hit("units-cases")
		k.modelUnits(cs, kinds, exp)
	}
	if cs.Bin {
		c.Res.Hit("binary-location-cases")
		k.modelLocate(cs)
	}
	if cs.Real {
		c.Res.Hit("real-transport-cases")
		if cs.UseCA {
			c.Res.Hit("real-transport-with-tls_ca")
		}
	}
	c.Res.Count(canon, nontrivial)
	c.Res.Hit("sources-" + c16Bucket(n))
	if m > 0 {
		c.Res.Hit("bases-" + c16Bucket(m))
		if cs.DiffBase {
			c.Res.Hit("diff_base")
		} else {
			c.Res.Hit("base")
		}
	}
	if exp.Fail {
		if len(exp.OkSrc) == 0 {
			c.Res.Hit("verdict-fail-no-source")
		} else {
			c.Res.Hit("verdict-fail-no-base")
		}
	} else {
		c.Res.Hit("verdict-ok")
	}
	if len(orders) >= 2 {
		c.Res.Hit("distinct-completion-orders>=2")
	}
	if n > 0 && nf > 0 {
		c.Res.Hit(fmt.Sprintf("failing-%d%%", (100*nf/(n+m))/20*20))
	} else {
		c.Res.Hit("failing-none")
	}
	for _, kk := range kinds {
		c.Res.Hit("kind-" + kk)
	}
	if good {
		c.Res.Sample(map[string]any{"name": cs.Name, "sources": n, "bases": m, "failed": nf, "schedules": len(cs.Schedules), "overall_failure": exp.Fail})
	}
}

// runCLI: the same property through the pprof binary with real files (no delay control).
func (k *c16Checker) runCLI(cs *c16Case) {
	c := k.c
	if c.Pprof == "" {
		return
	}
	dir, _ := os.MkdirTemp(k.root, "cli")
	defer os.RemoveAll(dir)
	kinds := c16Kinds(cs, false)
	c16WriteFiles(dir, cs, kinds)
	exp := c16Expected(cs, kinds)
	n := len(cs.Sources)
	for _, format := range []string{"top", "traces"} {
		args := []string{"-" + format, "-sample_index=allocs", "-trim=false", "-symbolize=none"}
		for j := range cs.Bases {
			fl := "-base"
			if cs.DiffBase {
				fl = "-diff_base"
			}
			args = append(args, fl, c16Addr(dir, 1, j, kinds[n+j]))
		}
		for i := range cs.Sources {
			args = append(args, c16Addr(dir, 0, i, kinds[i]))
		}
		cmd := exec.Command(c.Pprof, args...)
		cmd.Env = append(os.Environ(), "PPROF_TMPDIR="+dir, "PPROF_BINARY_PATH="+dir, "HOME="+dir)
		var so, se bytes.Buffer
		cmd.Stdout, cmd.Stderr = &so, &se
		err := cmd.Run()
		obs := &c16Obs{ErrCount: map[string]int{}, Out: so.Bytes()}
		if err != nil {
			obs.Failed, obs.Err = true, strings.TrimSpace(lastLine16(se.String()))
			if _, isExit := err.(*exec.ExitError); !isExit {
				c.Res.Notes = append(c.Res.Notes, "C16 cli: cannot run pprof: "+err.Error())
				return
			}
		}
		for _, l := range strings.Split(se.String(), "\n") {
			// the final "pprof: failed to fetch any …" line names no source
			if m := c16TokRe.FindStringSubmatch(l); m != nil {
				obs.ErrCount[m[1]]++
			}
			// the binary's own UI: a line never carries the messages of two sources
			distinct := map[string]bool{}
			for _, t := range c16TokRe.FindAllStringSubmatch(l, -1) {
				distinct[t[1]] = true
			}
			if len(distinct) > 1 {
				c.Violation("C16/stderr/merged-lines", fmt.Sprintf("[%s cli -%s] a stderr line of the pprof binary carries the messages of several sources: %s", cs.Name, format, trunc16(l)), cs)
			}
		}
		for i, s := range cs.all() {
			g, id := 0, i
			if i >= n {
				g, id = 1, i-n
			}
			obs.Slots = append(obs.Slots, &c16Slot{group: g, id: id, src: s, fetches: 1})
		}
		k.check(cs, "cli", kinds, exp, obs, format, 0)
	}
	c.Res.Count(fmt.Sprintf("cli|%v|%v", kinds, cs.DiffBase), len(cs.Sources) >= 2 && exp.NFail[0]+exp.NFail[1] >= 1 && len(exp.OkSrc) >= 1)
	c.Res.Hit("cli-cases")
	c.Res.Hit("cli-sources-" + c16Bucket(n))
}

func lastLine16(s string) string {
	l := strings.Split(strings.TrimSpace(s), "\n")
	return l[len(l)-1]
}

// ---------------------------------------------------------------------------------------------
// generators

func c16Perm(r *Rng, n int) []int {
	p := make([]int, n)
	for i := range p {
		p[i] = i
	}
	for i := n - 1; i > 0; i-- {
		j := r.Intn(i + 1)
		p[i], p[j] = p[j], p[i]
	}
	return p
}

// c16Sched builds a delay vector (µs) for N fetches; rank[i] = position at which fetch i should finish.
func c16Sched(rank []int) []int {
	N := len(rank)
	step := 250
	if N > 6 {
		step = 1500 / N
		if step < 4 {
			step = 4
		}
	}
	d := make([]int, N)
	for i, rk := range rank {
		d[i] = rk * step
	}
	return d
}

func c16Schedules(r *Rng, cs *c16Case, count int) [][]int {
	all := cs.all()
	N := len(all)
	var out [][]int
	for s := 0; s < count; s++ {
		rank := make([]int, N)
		switch s {
		case 0: // random order
			rank = c16Perm(r, N)
		case 1: // reverse command-line order: the last source finishes first
			for i := range rank {
				rank[i] = N - 1 - i
			}
		case 2: // failures first (or last), each class in random order
			p := c16Perm(r, N)
			failFirst := r.Bool()
			for i := range rank {
				rank[i] = p[i] / 2
				if c16Succeeds(all[i].Kind) == failFirst {
					rank[i] += N / 2
				}
			}
		default:
			if r.Bool() {
				rank = c16Perm(r, N)
			} // else all zero: the Go scheduler decides
		}
		out = append(out, c16Sched(rank))
	}
	return out
}

func c16GenSrcs(r *Rng, n int, failPct int, failKinds, okKinds []string) []c16Src {
	s := make([]c16Src, n)
	for i := range s {
		if r.Chance(failPct) {
			s[i] = c16Src{Kind: r.Pick(failKinds), Seed: r.U64() >> 16}
		} else {
			s[i] = c16Src{Kind: r.Pick(okKinds), Seed: r.U64() >> 16}
		}
	}
	return s
}

func c16Alt(r *Rng, cs *c16Case) {
	all := cs.all()
	cs.AltKinds = make([]string, len(all))
	any := false
	for i, s := range all {
		if !c16Succeeds(s.Kind) {
			for {
				k := r.Pick(c16FailKinds)
				if k != s.Kind {
					cs.AltKinds[i] = k
					any = true
					break
				}
			}
		}
	}
	if !any {
		cs.AltKinds = nil
	}
}

// runC16 is a supervisor: the cases run in a child process (same binary, PVC16_CHILD=1), because a
// panic in one of pprof's own fetch goroutines cannot be recovered and would take the harness
// down with it. When the child dies, the case it was running is reported with the crash.
func runC16(c *Ctx) {
	if os.Getenv("PVC16_CHILD") != "" {
		c16Worker(c)
		return
	}
	exe, err := os.Executable()
	if err != nil {
		c16Worker(c)
		return
	}
	tmp, err := os.MkdirTemp("", "pvc16sup-")
	if err != nil {
		c.Res.HarnessError = "cannot create scratch directory: " + err.Error()
		return
	}
	defer os.RemoveAll(tmp)
	out, prog := filepath.Join(tmp, "result.json"), filepath.Join(tmp, "current-case.json")
	args := append([]string{}, os.Args[1:]...)
	args = append(args, "-out", out, "-corpus", "")
	if c.Replay != "" {
		args = append(args, "-replay", c.Replay)
	}
	cmd := exec.Command(exe, args...)
	cmd.Env = append(os.Environ(), "PVC16_CHILD=1", "PVC16_PROGRESS="+prog)
	var se bytes.Buffer
	cmd.Stdout, cmd.Stderr = &se, &se
	runErr := cmd.Run()
	if b, err := os.ReadFile(out); err == nil && runErr == nil {
		var r Result
		if err := json.Unmarshal(b, &r); err != nil {
			c.Res.HarnessError = "cannot read the worker's result: " + err.Error()
			return
		}
		c.Res.Evaluations += r.Evaluations
		c.Res.Nontrivial += r.Nontrivial
		c.Res.ModelCompared += r.ModelCompared
		c.Res.Rule = r.Rule
		for k, v := range r.Dist {
			c.Res.Dist[k] += v
		}
		for _, v := range r.Samples {
			c.Res.Sample(v)
		}
		c.Res.Notes = append(c.Res.Notes, r.Notes...)
		for _, f := range r.Findings {
			if !c.Res.sigSeen[f.Kind+f.Signature] {
				c.Res.sigSeen[f.Kind+f.Signature] = true
				c.Res.Findings = append(c.Res.Findings, f)
			}
		}
		if r.HarnessError != "" {
			c.Res.HarnessError = r.HarnessError
		}
		return
	}
	// the worker died: which case was it running?
	msg := se.String()
	what := "the harness process died"
	if i := strings.Index(msg, "panic:"); i >= 0 {
		what = strings.SplitN(msg[i:], "\n", 2)[0]
	} else if i := strings.Index(msg, "fatal error:"); i >= 0 {
		what = strings.SplitN(msg[i:], "\n", 2)[0]
	}
	where := ""
	for _, fn := range []string{"grabProfile", "concurrentGrab", "chunkedGrab", "grabSourcesAndBases", "combineProfiles", "fetchProfiles"} {
		if strings.Contains(msg, "driver."+fn) {
			where = "/" + fn
			break
		}
	}
	var cs c16Case
	if b, err := os.ReadFile(prog); err == nil && json.Unmarshal(b, &cs) == nil {
		c.Violation("C16/crash"+where, fmt.Sprintf("[%s] pprof crashed the process while fetching: %s", cs.Name, trunc16(what)), &cs)
		c.Res.Evaluations++
		return
	}
	c.Res.HarnessError = "worker died before running a case: " + trunc16(msg)
}

func c16Worker(c *Ctx) {
	c.Res.Rule = "cases: 1…300 sources (all sizes 1-8 with every outcome vector and EVERY completion order for n=3, sizes around the 127/128/129 and 255/256/257 chunk boundaries, random sizes) × 0…130 -base/-diff_base sources, each source independently a valid profile (from the Fetcher plug-in, a file, or an HTTP body), or failing (Fetcher error, missing file, garbage file/body, invalid profile, HTTP 500, transport error); a stream of 2…8 sources (+ bases) mixing https:// (untrusted server: must fail; server trusted through -tls_ca: must succeed), https+insecure://, http:// and file/plug-in sources fetched through the PRODUCTION internal/transport against servers on 127.0.0.1, released one after the other in PRNG permutations, all-insecure-first and all-strict-first orders, plus one delay-scheduled run through the driver's default transport wiring; a stream of 2…7 sources (+ bases) whose mappings (same file name under several build ids, some without build id) are located under a generated $PPROF_BINARY_PATH tree (<buildid>/<name>, plain <name>, stale and missing entries) through a mock ObjTool, with failing neighbours, under ≥3 delay schedules; a stream of perf.data sources with EQUAL base names in different directories, converted concurrently by a stand-in perf_to_profile (this binary re-executed) whose writes and exits are staggered so that the conversions overlap; a stream of bursts (40…200 local profile files mixed with PERFILE2-prefixed files — convertible, failing, and unconvertible because PATH lacks the tool — all released into pprof's fetch code at the same instant, 4 rounds each); a stream through driver.PProf with the DEFAULT UI (Options.UI == nil) in a child process whose stderr is a one-page pipe with a slow reader, ≥100 failing sources and ≥100 failing bases, 8 rounds: every stderr line is exactly one complete message; a stream of URL-source cases run in child processes under 6 environments each (HOME unset/empty/unusable/usable × PPROF_TMPDIR unset/usable/unusable × TMPDIR unset/usable/unusable × cwd writable or not, always with a successfully fetched remote source so that the save step runs): verdict, report and per-source error lines equal the expectation in every environment; a stream of ≥3 sources (+ bases) with PARTIALLY OVERLAPPING sample-type sets (random non-empty subsets of 4 types in permuted order, usually one type common to all, every fifth case all-disjoint = documented error) with failing neighbours in every position: the report has exactly the types common to all fetched sources in the first one's order and the sums for them; a stream of sources reporting the same sample types in different compatible units (ns/us/ms/s, bytes/kB/MB) in every position with failing neighbours (merged values = sum of the per-source values converted to the finest unit among the successful ones); each case runs the real driver.PProf under ≥3 PRNG-derived delay schedules (random, reverse, failures-first) and with the failing sources failing differently. non-trivial = ≥2 sources, at least one success and one failure, an observed completion order that is not the command-line order and ≥2 distinct observed completion orders."
	root, err := os.MkdirTemp("", "pvc16-")
	if err != nil {
		c.Res.HarnessError = "cannot create scratch directory: " + err.Error()
		return
	}
	defer os.RemoveAll(root)
	os.Setenv("PPROF_TMPDIR", filepath.Join(root, "tmp"))
	os.Setenv("PPROF_BINARY_PATH", filepath.Join(root, "bin"))
	perfErr := c16PerfSetup(root) // stand-in perf_to_profile on PATH (also needed by replayed cases)
	k := &c16Checker{c: c, root: root}
	if v, err := strconv.Atoi(c.Drv.Ask("fetch.chunk")); err == nil && v > 0 {
		k.chunk = v
		c.Res.Hit(fmt.Sprintf("extracted-chunk-size-%d", v))
	} else {
		c.Res.Hit("extracted-chunk-size-unknown")
		c.Res.Notes = append(c.Res.Notes, "chunk size not recognised by the translator: the chunking tie (barrier between chunks, fetches in flight ≤ chunk size) is not checked in this run; order, weights and fetch counts still are")
	}
	if f := strings.Fields(c.Drv.Ask("fetch.facts")); len(f) == 3 {
		c.Res.Hit("fact-chunk-loop-" + f[0])
		c.Res.Hit("fact-barrier-" + f[1])
		c.Res.Hit("fact-collect-" + f[2])
		if f[0] == "unknown" || f[1] == "unknown" || f[2] == "unknown" {
			c.Res.Notes = append(c.Res.Notes, fmt.Sprintf("translator did not recognise: chunk loop %s, barrier %s, collection %s — these facts rest on the dynamic checks of this run only", f[0], f[1], f[2]))
		}
	}
	// the failure kinds must really be failures for the real parser, the ok kinds really valid
	if _, err := profile.ParseData(c16Garbage); err == nil {
		c.Res.HarnessError = "the garbage body parses as a profile"
		return
	}
	if _, err := profile.ParseData(c16Bytes(c16Profile(0, 1, 1, false, true))); err == nil {
		c.Res.HarnessError = "the invalid profile parses"
		return
	}
	if err := c16Profile(0, 1, 1, false, false).CheckValid(); err != nil {
		c.Res.HarnessError = "the generated profile is invalid: " + err.Error()
		return
	}
	if c.Replay != "" {
		var cs c16Case
		if err := c.LoadReplay(&cs); err != nil {
			c.Res.HarnessError = "cannot load replay: " + err.Error()
			return
		}
		k.runCase(&cs)
		return
	}
	r := NewRng(c.Seed)
	deadline := c.Start.Add(time.Duration(40*c.Scale) * time.Second)

	// CLI cases (run after the boundary cases)
	var cliCases []*c16Case
	{ // many failing sources and a failing base through the binary's own UI
		rr := r.Fork()
		cs := &c16Case{Name: "cli-many-failing", CLI: true}
		cs.Sources = c16GenSrcs(rr, 150, 95, c16CLIFail, []string{c16OKFile})
		cs.Sources[77] = c16Src{Kind: c16OKFile, Seed: rr.U64() >> 16}
		cs.Bases = c16GenSrcs(rr, 1, 100, c16CLIFail, []string{c16OKFile})
		cliCases = append(cliCases, cs)
	}
	for i, n := range []int{1, 2, 3, 7, 127, 128, 129, 200, 257} {
		rr := r.Fork()
		cs := &c16Case{Name: fmt.Sprintf("cli-%d", n), CLI: true}
		pct := []int{0, 30, 100, 60}[i%4]
		if n == 1 {
			pct = 0
		}
		cs.Sources = c16GenSrcs(rr, n, pct, c16CLIFail, []string{c16OKFile})
		if i%3 == 1 {
			// the stock command-line flag set keeps a single -base/-diff_base value
			cs.Bases = c16GenSrcs(rr, 1, 40, c16CLIFail, []string{c16OKFile})
			cs.DiffBase = rr.Bool()
		}
		cliCases = append(cliCases, cs)
	}

	// (1) n = 3: every outcome vector under EVERY completion order
	perms3 := [][]int{{0, 1, 2}, {0, 2, 1}, {1, 0, 2}, {1, 2, 0}, {2, 0, 1}, {2, 1, 0}}
	for mask := 0; mask < 8; mask++ {
		cs := &c16Case{Name: fmt.Sprintf("n3-mask%d-allorders", mask)}
		for i := 0; i < 3; i++ {
			if mask&(1<<i) != 0 {
				cs.Sources = append(cs.Sources, c16Src{Kind: c16OK, Seed: r.U64() >> 16})
			} else {
				cs.Sources = append(cs.Sources, c16Src{Kind: r.Pick(c16FailKinds), Seed: r.U64() >> 16})
			}
		}
		for _, p := range perms3 {
			rank := make([]int, 3)
			for pos, i := range p {
				rank[i] = pos
			}
			cs.Schedules = append(cs.Schedules, c16Sched(rank))
		}
		k.runCase(cs)
	}
	// (1b) URL sources through the production transport to local TLS / http servers, forced orders
	for i := 0; i < 8*c.Scale; i++ {
		k.runCase(c16GenReal(r.Fork(), i))
	}
	// (1c) mappings located under a $PPROF_BINARY_PATH tree: same file name under several build ids
	for i := 0; i < 9*c.Scale; i++ {
		k.runCase(c16GenBin(r.Fork(), i))
	}
	// (1d) perf.data sources with equal base names, converted concurrently by the stand-in tool
	if perfErr != nil {
		c.Res.Notes = append(c.Res.Notes, "perf.data stream skipped: "+perfErr.Error())
	} else {
		for i := 0; i < 5*c.Scale; i++ {
			k.runCase(c16GenPerf(r.Fork(), i))
		}
	}
	// (1f) bursts: many local profile files and PERFILE2 look-alikes fetched at the same instant
	if perfErr == nil {
		for i := 0; i < 6*c.Scale; i++ {
			k.runCase(c16GenBurst(r.Fork(), i))
		}
	}
	// (1g) the driver's default UI: error lines of the two groups printed concurrently
	for i := 0; i < 3*c.Scale; i++ {
		k.runCase(c16GenStdUI(r.Fork(), i))
	}
	// (1h) URL sources under varying process environments (HOME / PPROF_TMPDIR / TMPDIR / cwd)
	for i := 0; i < 4*c.Scale; i++ {
		k.runCase(c16GenEnv(r.Fork(), i))
	}
	// (1i) partially overlapping sample-type sets
	for i := 0; i < 10*c.Scale; i++ {
		k.runCase(c16GenTypes(r.Fork(), i))
	}
	// (1e) the same sample types in different compatible units
	for i := 0; i < 10*c.Scale; i++ {
		k.runCase(c16GenUnits(r.Fork(), i))
	}
	// (2) sizes 1…8, with and without bases
	for n := 1; n <= 8; n++ {
		for v := 0; v < 3; v++ {
			cs := &c16Case{Name: fmt.Sprintf("small-n%d-v%d", n, v), Text: v == 0}
			cs.Sources = c16GenSrcs(r, n, []int{30, 60, 100}[v], c16FailKinds, c16OKKinds)
			if v == 2 && n > 1 { // exactly one success, at a random position
				cs.Sources[r.Intn(n)] = c16Src{Kind: r.Pick(c16OKKinds), Seed: r.U64() >> 16}
			}
			if (n+v)%2 == 0 {
				cs.Bases = c16GenSrcs(r, 1+r.Intn(3), []int{0, 50, 100}[(n/2)%3], c16FailKinds, c16OKKinds)
				cs.DiffBase = r.Bool()
			}
			cs.Schedules = c16Schedules(r, cs, 3)
			c16Alt(r, cs)
			k.runCase(cs)
		}
	}
	// (3) the chunk boundaries
	type spec struct{ n, pct, m, mpct int }
	var specs []spec
	for _, n := range []int{127, 128, 129, 130, 255, 256, 257, 300} {
		specs = append(specs, spec{n, 20, 0, 0})
	}
	specs = append(specs,
		spec{129, 0, 0, 0}, spec{129, 100, 0, 0}, spec{129, 50, 2, 50}, spec{300, 50, 0, 0}, spec{257, 20, 129, 20},
		spec{128, 20, 1, 100}, spec{200, 90, 3, 0}, spec{64, 20, 65, 30}, spec{129, 20, 130, 100})
	for i, sp := range specs {
		if time.Now().After(deadline) {
			c.Res.Notes = append(c.Res.Notes, "time budget reached during the boundary cases")
			break
		}
		cs := &c16Case{Name: fmt.Sprintf("boundary-%d-n%d-m%d", i, sp.n, sp.m), Text: i%4 == 0}
		cs.Sources = c16GenSrcs(r, sp.n, sp.pct, c16FailKinds, c16OKKinds)
		if sp.m > 0 {
			cs.Bases = c16GenSrcs(r, sp.m, sp.mpct, c16FailKinds, c16OKKinds)
			cs.DiffBase = i%2 == 0
		}
		cs.Schedules = c16Schedules(r, cs, 3)
		c16Alt(r, cs)
		k.runCase(cs)
	}
	// (3b) only the sources next to a chunk boundary succeed / fail
	for _, n := range []int{129, 257, 300} {
		for v := 0; v < 2; v++ {
			cs := &c16Case{Name: fmt.Sprintf("edge-n%d-v%d", n, v)}
			cs.Sources = c16GenSrcs(r, n, []int{100, 0}[v], c16FailKinds, c16OKKinds)
			for _, at := range []int{0, 126, 127, 128, 129, 255, 256, 257, n - 1} {
				if at < n && (v == 1 || r.Chance(60) || at == 128) {
					if v == 0 {
						cs.Sources[at] = c16Src{Kind: r.Pick(c16OKKinds), Seed: r.U64() >> 16}
					} else {
						cs.Sources[at] = c16Src{Kind: r.Pick(c16FailKinds), Seed: r.U64() >> 16}
					}
				}
			}
			cs.Schedules = c16Schedules(r, cs, 3)
			c16Alt(r, cs)
			k.runCase(cs)
		}
	}
	// (4) CLI cases (real files, real pprof binary, separate processes)
	for _, cs := range cliCases {
		if time.Now().After(deadline) {
			break
		}
		k.runCase(cs)
	}
	// (5) random cases until the budget is used
	maxRandom := 60 * c.Scale
	for i := 0; i < maxRandom && time.Now().Before(deadline); i++ {
		n := 1 + r.Intn(300)
		switch r.Intn(4) {
		case 0:
			n = 1 + r.Intn(12)
		case 1:
			n = []int{126, 127, 128, 129, 130, 254, 255, 256, 257, 258}[r.Intn(10)]
		}
		cs := &c16Case{Name: fmt.Sprintf("random-%d-n%d", i, n), Text: i%5 == 0}
		cs.Sources = c16GenSrcs(r, n, []int{0, 10, 20, 50, 80, 100}[r.Intn(6)], c16FailKinds, c16OKKinds)
		if r.Chance(40) {
			m := 1 + r.Intn(4)
			if r.Chance(20) {
				m = 120 + r.Intn(20)
			}
			cs.Bases = c16GenSrcs(r, m, []int{0, 20, 50, 100}[r.Intn(4)], c16FailKinds, c16OKKinds)
			cs.DiffBase = r.Bool()
		}
		cs.Schedules = c16Schedules(r, cs, 3+r.Intn(2))
		c16Alt(r, cs)
		k.runCase(cs)
	}
}
