//go:build verif

package main

// C13, thorough tier: real binaries linked with gcc/ld variants.
//   (1) simulated loader: the binary's own PT_LOAD headers, 4 KiB pages, several biases and
//       splits; every function/data symbol printed by the real `nm` must translate back to its
//       link-time address, and the nm lookup must name a symbol starting there;
//   (2) the system loader itself: the binary is executed, prints /proc/self/maps and the run-time
//       addresses of its functions; the same oracle on the kernel's own mappings (random ASLR bias).

import (
	"bufio"
	"bytes"
	"debug/elf"
	"fmt"
	"os"
	"os/exec"
	"path/filepath"
	"strconv"
	"strings"

	"github.com/google/pprof/internal/binutils"
	"github.com/google/pprof/internal/plugin"
)

const c13RealSrc = `
#include <stdio.h>
#include <string.h>
#define F(n) __attribute__((noinline)) int fn##n(int x){ volatile int y = x*n+1; if (x > 100) y += fn##n(x-1); return y; }
F(1) F(2) F(3) F(4) F(5) F(6) F(7) F(8) F(9) F(10) F(11) F(12)
__attribute__((noinline)) static int sfn(int x){ volatile int y = x + 7; return y; }
int data1[100] = {1, 2, 3};
int data2[3000] = {4};
const int ro1[64] = {3};
int bss1[5000];
#ifndef NOMAIN
int main(int argc, char **argv) {
  int r = fn1(1)+fn2(1)+fn3(1)+fn4(1)+fn5(1)+fn6(1)+fn7(1)+fn8(1)+fn9(1)+fn10(1)+fn11(1)+fn12(1)+sfn(2)+ro1[0]+bss1[1];
  if (argc > 1) {
#define P(n) printf("sym fn" #n " %p\n", (void*)fn##n);
    P(1) P(2) P(3) P(4) P(5) P(6) P(7) P(8) P(9) P(10) P(11) P(12)
    printf("sym sfn %p\n", (void*)sfn);
    printf("sym data1 %p\n", (void*)data1);
    printf("sym data2 %p\n", (void*)data2);
    printf("sym ro1 %p\n", (void*)ro1);
    FILE *f = fopen("/proc/self/maps", "r");
    char line[1024];
    while (f && fgets(line, sizeof line, f)) printf("maps %s", line);
  }
  return r == 12345;
}
#endif
`

var c13Variants = []string{
	"-pie -fPIE",
	"-no-pie",
	"-pie -fPIE -Wl,-z,separate-code",
	"-pie -fPIE -Wl,-z,noseparate-code",
	"-no-pie -Wl,-z,noseparate-code",
	"-pie -fPIE -Wl,-z,max-page-size=65536",
	"-pie -fPIE -Wl,-z,max-page-size=2097152",
	"-no-pie -Wl,-z,max-page-size=2097152",
	"-no-pie -Wl,-z,noseparate-code -Wl,-z,max-page-size=65536",
	"-pie -fPIE -Wl,-z,norelro",
	"-pie -fPIE -Wl,-Ttext-segment=0x200000",
	"-pie -fPIE -fuse-ld=gold",
	"-no-pie -fuse-ld=gold",
	"-static",
	"-static-pie",
	"-O2 -pie -fPIE -ffunction-sections -Wl,--gc-sections",
	"-shared -fPIC -DNOMAIN",
	"-shared -fPIC -DNOMAIN -Wl,-z,noseparate-code",
	"-shared -fPIC -DNOMAIN -fuse-ld=gold",
}

type c13Real struct {
	variant string
	file    string
	etype   uint16
	segs    []c13Seg
	syms    []c13Sym   // sized symbols as nm prints them, sorted by address (drives the case generation)
	tabs    [][]c13Sym // the table per available nm flavour (oracle: consistent with any of them)
	real    *binutils.Binutils
}

// buildReal compiles the test program with the given flags (deterministic for a fixed toolchain).
func (e *c13Env) buildReal(variant string) (*c13Real, error) {
	dir := filepath.Join(e.dir, "real")
	os.MkdirAll(dir, 0o755)
	src := filepath.Join(dir, "prog.c")
	if err := os.WriteFile(src, []byte(c13RealSrc), 0o644); err != nil {
		return nil, err
	}
	e.nseq++
	out := filepath.Join(dir, fmt.Sprintf("prog%d", e.nseq))
	args := append(strings.Fields(variant), "-o", out, src)
	if b, err := exec.Command("gcc", args...).CombinedOutput(); err != nil {
		return nil, fmt.Errorf("gcc %s: %v: %s", variant, err, trunc13(string(b)))
	}
	ef, err := elf.Open(out)
	if err != nil {
		return nil, err
	}
	defer ef.Close()
	rb := &c13Real{variant: variant, file: out, etype: uint16(ef.Type)}
	for _, p := range ef.Progs {
		if p.Type == elf.PT_LOAD {
			rb.segs = append(rb.segs, c13Seg{Type: uint32(p.Type), Flags: uint32(p.Flags), Off: hx(p.Off), Vaddr: hx(p.Vaddr), Filesz: hx(p.Filesz), Memsz: hx(p.Memsz), Align: hx(p.Align)})
		}
	}
	// symbol tables as the available nm flavours print them (GNU nm omits the size of zero-size
	// symbols, llvm-nm prints 0: the tables differ; pprof may use either)
	for _, tool := range []string{"llvm-nm", "nm"} {
		if _, err := exec.LookPath(tool); err != nil {
			continue
		}
		nmOut, err := exec.Command(tool, "--numeric-sort", "--print-size", "--format=posix", out).Output()
		if err != nil {
			continue
		}
		var tab []c13Sym
		sc := bufio.NewScanner(bytes.NewReader(nmOut))
		sc.Buffer(make([]byte, 1<<20), 1<<20)
		for sc.Scan() {
			f := strings.Split(strings.TrimSpace(sc.Text()), " ")
			if len(f) != 4 {
				continue
			}
			a, e1 := strconv.ParseUint(f[2], 16, 64)
			s, e2 := strconv.ParseUint(f[3], 16, 64)
			if e1 != nil || e2 != nil {
				continue
			}
			tab = append(tab, c13Sym{Name: f[0], Type: f[1], Addr: hx(a), Size: hx(s)})
		}
		rb.tabs = append(rb.tabs, tab)
		if tool == "nm" || rb.syms == nil {
			rb.syms = tab
		}
	}
	if len(rb.tabs) == 0 {
		return nil, fmt.Errorf("no nm tool")
	}
	rb.real = &binutils.Binutils{}
	rb.real.SetFastSymbolization(true)
	return rb, nil
}

func trunc13(s string) string {
	if len(s) > 300 {
		return s[:300] + "…"
	}
	return s
}

// owner returns the index of the loadable segment containing link-time address a.
func (rb *c13Real) owner(a uint64) int {
	for i, s := range rb.segs {
		if a >= uint64(s.Vaddr) && a < uint64(s.Vaddr+s.Memsz) {
			return i
		}
	}
	return -1
}

// checkAddr: the oracle for one (mapping, address) on a real binary.
func (e *c13Env) checkAddr(rb *c13Real, cs *c13Case, wantName string) {
	c := e.c
	x := uint64(cs.Addrs[0])
	want := x - uint64(cs.Bias)
	var of plugin.ObjFile
	var err error
	if pn := c13Safely(func() { of, err = rb.real.Open(rb.file, uint64(cs.Start), uint64(cs.Limit), uint64(cs.Offset), "") }); pn != "" {
		c.Violation("C13/real/panic", "Open panics on a real binary: "+pn, cs)
		return
	}
	if err != nil {
		c.Violation("C13/real/open-error", "Open fails on a real binary: "+err.Error(), cs)
		return
	}
	defer of.Close()
	var got uint64
	if pn := c13Safely(func() { got, err = of.ObjAddr(x) }); pn != "" {
		c.Violation("C13/real/panic", "ObjAddr panics on a real binary: "+pn, cs)
		return
	}
	c.Res.ModelCompared++
	m := c.Drv.Ask(fmt.Sprintf("elf.objaddr %d %s 0 0 %d %d %d %d", rb.etype, segsTok(rb.segs), uint64(cs.Start), uint64(cs.Limit), uint64(cs.Offset), x))
	if g := resTok(got, err, ""); m != g {
		c.Disagree("C13/model/ObjAddr", fmt.Sprintf("real binary (%s) ObjAddr(%#x): go=%s model=%s", rb.variant, x, g, m), "correspondence Elf.objAddr ~ binutils Open+ObjAddr", cs)
	}
	if err != nil {
		// allowed only when another loadable segment claims the file offset
		fo := x - uint64(cs.Start) + uint64(cs.Offset)
		own := rb.owner(want)
		amb := false
		for i, s := range rb.segs {
			if i != own && s.Filesz > 0 && fo >= uint64(s.Off) && fo < uint64(s.Off+s.Memsz) {
				amb = true
			}
		}
		c.Res.Hit("real:objaddr=error")
		if !amb {
			c.Violation("C13/real/spurious-error", fmt.Sprintf("%s: ObjAddr(%#x) fails although one segment owns it: %v", rb.variant, x, err), cs)
		}
		return
	}
	if got != want {
		c.Res.Hit("real:objaddr=WRONG")
		c.Violation("C13/real/wrong-address", fmt.Sprintf("%s: ObjAddr(%#x) = %#x, nm says %#x (bias %#x, mapping [%#x,%#x) off %#x)", rb.variant, x, got, want, uint64(cs.Bias), uint64(cs.Start), uint64(cs.Limit), uint64(cs.Offset)), cs)
		return
	}
	c.Res.Hit("real:objaddr=bias-correct")
	// the symbol found is the one that really contains the sample
	var frames []plugin.Frame
	if pn := c13Safely(func() { frames, err = of.SourceLine(x) }); pn != "" || err != nil {
		c.Violation("C13/real/nm-error", fmt.Sprintf("%s: SourceLine(%#x): %v %v", rb.variant, x, pn, err), cs)
		return
	}
	// oracle from the real nm output: greatest start <= want, in the table of any nm flavour
	gotName := ""
	if len(frames) > 0 {
		gotName = frames[0].Func
	}
	okName := false
	var g uint64
	for _, tab := range rb.tabs {
		found := false
		for _, s := range tab {
			if uint64(s.Addr) <= want {
				g, found = uint64(s.Addr), true
			}
		}
		for _, s := range tab {
			if found && uint64(s.Addr) == g {
				if s.Name == gotName || (gotName == "" && nmIsData(s.Type) && want >= uint64(s.Addr+s.Size)) {
					okName = true
				}
			}
		}
		if !found && gotName == "" {
			okName = true
		}
	}
	if !okName {
		c.Violation("C13/real/nm-wrong-symbol", fmt.Sprintf("%s: lookup of %#x (link-time %#x) returned %q; nm's greatest start <= address is %#x", rb.variant, x, want, gotName, g), cs)
	} else if wantName != "" && gotName != wantName && gotName != "" {
		// aliases at the same address are fine; anything else was caught above
		c.Res.Hit("real:nm-alias")
	} else {
		c.Res.Hit("real:nm-symbol-ok")
	}
}

// simulated loader over the real headers
func (e *c13Env) realSimulated(rb *c13Real, r *Rng) {
	c := e.c
	for _, sym := range rb.syms {
		if sym.Size == 0 || !strings.ContainsAny(sym.Type, "TtDdRr") {
			continue
		}
		k := rb.owner(uint64(sym.Addr))
		if k < 0 || rb.segs[k].Filesz == 0 {
			continue
		}
		for rep := 0; rep < 3; rep++ {
			cs := &c13Case{Kind: "real", Stream: "real", Variant: rb.variant, EType: rb.etype, Segs: rb.segs, Page: 4096, Seg: k}
			s := rb.segs[k]
			d := uint64(r.Intn(int(sym.Size)))
			a := uint64(sym.Addr) + d
			if a >= uint64(s.Vaddr+s.Filesz) {
				continue // bss part: anonymous memory
			}
			lo, hi := pageStart(uint64(s.Vaddr), 4096), pageAlign(uint64(s.Vaddr+s.Filesz), 4096)
			pg := pageStart(a, 4096)
			v0, v1 := lo, hi
			switch rep {
			case 1:
				v0 = pg
			case 2:
				v0, v1 = pg, pg+4096
			}
			cs.V0, cs.V1 = hx(v0), hx(v1)
			last := rb.segs[len(rb.segs)-1]
			cs.Bias = hx(genBias(r, rb.etype, 4096, uint64(last.Vaddr+last.Memsz)))
			if rb.etype == uint16(elf.ET_EXEC) {
				cs.Bias = 0
			}
			cs.deriveMapping()
			if cs.kernelLookalike() && cs.V0 != s.Vaddr {
				continue
			}
			cs.Addrs = []hx{cs.Bias + hx(a)}
			c.Res.Count(cs.canon()+fmt.Sprint(cs.Addrs), len(rb.segs) >= 2)
			c.Res.Hit("real:simulated")
			e.checkAddr(rb, cs, sym.Name)
		}
	}
}

// the system loader: run the binary, use the kernel's mappings
func (e *c13Env) realLoader(rb *c13Real) {
	c := e.c
	if strings.Contains(rb.variant, "-shared") {
		return
	}
	for run := 0; run < 3; run++ {
		out, err := exec.Command(rb.file, "dump").Output()
		if err != nil && len(out) == 0 {
			c.Res.Notes = append(c.Res.Notes, "real: cannot run "+rb.variant+": "+err.Error())
			return
		}
		type mp struct{ start, limit, off uint64 }
		var maps []mp
		syms := map[string]uint64{}
		for _, line := range strings.Split(string(out), "\n") {
			f := strings.Fields(line)
			if len(f) >= 3 && f[0] == "sym" {
				v, _ := strconv.ParseUint(strings.TrimPrefix(f[2], "0x"), 16, 64)
				syms[f[1]] = v
			}
			if len(f) >= 7 && f[0] == "maps" && f[6] == rb.file {
				se := strings.Split(f[1], "-")
				a, _ := strconv.ParseUint(se[0], 16, 64)
				b, _ := strconv.ParseUint(se[1], 16, 64)
				o, _ := strconv.ParseUint(f[3], 16, 64)
				maps = append(maps, mp{a, b, o})
			}
		}
		link := map[string]uint64{}
		for _, s := range rb.syms {
			if _, ok := link[s.Name]; !ok {
				link[s.Name] = uint64(s.Addr)
			}
		}
		for name, x := range syms {
			la, ok := link[name]
			if !ok {
				continue
			}
			for _, m := range maps {
				if x >= m.start && x < m.limit {
					cs := &c13Case{Kind: "real", Stream: "real", Variant: rb.variant, EType: rb.etype, Segs: rb.segs, Page: 4096,
						Start: hx(m.start), Limit: hx(m.limit), Offset: hx(m.off), Bias: hx(x - la), Addrs: []hx{hx(x)}, Why: "system loader (/proc/self/maps)"}
					c.Res.Count(fmt.Sprint("loader ", rb.variant, name, m), true)
					c.Res.Hit("real:system-loader")
					e.checkAddr(rb, cs, name)
				}
			}
		}
	}
}

func (e *c13Env) runRealAll(r *Rng) {
	c := e.c
	if _, err := exec.LookPath("gcc"); err != nil {
		c.Res.Notes = append(c.Res.Notes, "real: gcc not available, real-binary stream skipped")
		return
	}
	for _, v := range c13Variants {
		rb, err := e.buildReal(v)
		if err != nil {
			c.Res.Notes = append(c.Res.Notes, "real: variant skipped: "+trunc13(err.Error()))
			continue
		}
		c.Res.Hit("real:variants-built")
		e.realSimulated(rb, r)
		e.realLoader(rb)
	}
}

// runReal replays one recorded (variant, mapping, address, bias).
func (e *c13Env) runReal(cs *c13Case) {
	rb, err := e.buildReal(cs.Variant)
	if err != nil {
		e.c.Res.Notes = append(e.c.Res.Notes, "real replay: "+err.Error())
		return
	}
	if cs.Start == 0 && cs.Limit == 0 {
		cs.deriveMapping()
	}
	e.checkAddr(rb, cs, "")
}
