//go:build verif

package main

// C18 — the direct oracle: the ACTUAL output is handed to the Lean-verified DOT parser /
// callgrind checker (pvdrv-C18).  The Go code here only decodes the replies, names the emitting
// site of a failure (for stable signatures) and compares decoded callgrind entries with the
// graph the report was generated from.

import (
	"fmt"
	"regexp"
	"sort"
	"strings"

	"github.com/google/pprof/internal/graph"
)

type c18DotNode struct {
	ID    string
	Attrs [][2]string
}

type c18DotResult struct {
	OK         bool
	Stage      string // "lex" | "parse" when !OK
	Name       string
	Nodes      []c18DotNode
	Edges      [][2]string
	Undeclared []string
	Raw        string
}

func c18AskDot(c *Ctx, out []byte) c18DotResult {
	rep := c.Drv.Ask("dot.check " + hexTok(out))
	res := c18DotResult{Raw: rep}
	if strings.HasPrefix(rep, "err ") {
		res.Stage = strings.TrimPrefix(rep, "err ")
		return res
	}
	if !strings.HasPrefix(rep, "ok ") {
		res.Stage = "driver:" + trunc(rep)
		return res
	}
	r := newTR(rep[3:])
	if r.n() == 1 {
		res.Name = r.str()
	}
	nn := r.n()
	for i := 0; i < nn && r.err == nil; i++ {
		n := c18DotNode{ID: r.str()}
		na := r.n()
		for j := 0; j < na && r.err == nil; j++ {
			k := r.str()
			v := r.str()
			n.Attrs = append(n.Attrs, [2]string{k, v})
		}
		res.Nodes = append(res.Nodes, n)
	}
	ne := r.n()
	for i := 0; i < ne && r.err == nil; i++ {
		s := r.str()
		d := r.str()
		res.Edges = append(res.Edges, [2]string{s, d})
	}
	nu := r.n()
	for i := 0; i < nu && r.err == nil; i++ {
		res.Undeclared = append(res.Undeclared, r.str())
	}
	if r.err != nil {
		res.Stage = "driver-reply:" + r.err.Error()
		return res
	}
	res.OK = true
	return res
}

// ---- naming the DOT site of a failure (diagnostics only; the verdict is Lean's) ----

var c18StmtKinds = []struct {
	re   *regexp.Regexp
	kind string
}{
	{regexp.MustCompile(`^digraph `), "title"},
	{regexp.MustCompile(`^subgraph cluster_L \{`), "legend"},
	{regexp.MustCompile(`^N\d+ \[`), "node"},
	{regexp.MustCompile(`^N\d+_\d+ \[`), "nodelet"},
	{regexp.MustCompile(`^NN[\d_]+ \[`), "numeric-nodelet"},
	{regexp.MustCompile(`^N\d+ -> N\d+_\d+ \[`), "nodelet-edge"},
	{regexp.MustCompile(`^N[N\d_]* -> NN[\d_]+ \[`), "numeric-nodelet-edge"},
	{regexp.MustCompile(`^N\d+ -> N\d+ \[`), "edge"},
	{regexp.MustCompile(`^node \[`), "defaults"},
	{regexp.MustCompile(`^\}$`), "end"},
}

func c18StmtKind(line string) string {
	for _, k := range c18StmtKinds {
		if k.re.MatchString(line) {
			return k.kind
		}
	}
	return ""
}

var c18DotAttrs = map[string]bool{"label": true, "id": true, "fontsize": true, "shape": true, "tooltip": true, "color": true,
	"fillcolor": true, "style": true, "peripheries": true, "URL": true, "target": true, "weight": true, "penwidth": true,
	"labeltooltip": true, "minlen": true}

var c18AttrOrder = map[string][]string{
	"legend":               {"shape", "fontsize", "label", "URL", "target", "tooltip"},
	"node":                 {"label", "id", "fontsize", "shape", "tooltip", "color", "fillcolor", "style", "peripheries", "URL", "target"},
	"nodelet":              {"label", "id", "fontsize", "shape", "tooltip"},
	"numeric-nodelet":      {"label", "id", "fontsize", "shape", "tooltip"},
	"nodelet-edge":         {"label", "weight", "tooltip", "labeltooltip", "style"},
	"numeric-nodelet-edge": {"label", "weight", "tooltip", "labeltooltip", "style"},
	"edge":                 {"label", "weight", "penwidth", "color", "tooltip", "labeltooltip", "style", "minlen"},
}

// c18ScanAttrs walks `key=value` pairs of one statement line; returns the key at which the line
// stops being well-formed ("" if the whole line is fine) and the last key seen.
func c18ScanAttrs(line string) (badKey, lastKey string) {
	order := c18AttrOrder[c18StmtKind(line)]
	oi := 0
	i := strings.IndexByte(line, '[')
	if strings.HasPrefix(line, "digraph ") {
		// digraph "title" {
		rest := strings.TrimPrefix(line, "digraph ")
		if n := c18QuotedLen(rest); n < 0 || strings.TrimSpace(rest[n:]) != "{" {
			return "name", "name"
		}
		return "", "name"
	}
	if strings.HasPrefix(line, "subgraph cluster_L {") {
		rest := strings.TrimPrefix(line, "subgraph cluster_L { ")
		n := c18QuotedLen(rest)
		if n < 0 || !strings.HasPrefix(rest[n:], " [") {
			return "id", "id"
		}
		i = len(line) - len(rest) + n + 1
	}
	if i < 0 {
		return "", ""
	}
	s := line[i+1:]
	for {
		s = strings.TrimLeft(s, " ")
		if s == "" {
			return lastKey, lastKey // no closing bracket
		}
		if s[0] == ']' {
			t := strings.TrimSpace(s[1:])
			if t == "" || t == "}" {
				return "", lastKey
			}
			return lastKey, lastKey
		}
		j := 0
		for j < len(s) && (s[j] == '_' || s[j] >= 'a' && s[j] <= 'z' || s[j] >= 'A' && s[j] <= 'Z' || s[j] >= '0' && s[j] <= '9') {
			j++
		}
		if j == 0 {
			return lastKey, lastKey
		}
		key := s[:j]
		if !c18DotAttrs[key] {
			// not an attribute pprof emits: text of the previous value leaking out of its quotes
			if lastKey == "" {
				lastKey = "id"
			}
			return lastKey, lastKey
		}
		if order != nil {
			// pprof writes the attributes of a statement in a fixed order: a key out of order is
			// text that escaped from the previous value
			k := oi
			for k < len(order) && order[k] != key {
				k++
			}
			if k == len(order) {
				if lastKey == "" {
					lastKey = "id"
				}
				return lastKey, lastKey
			}
			oi = k + 1
		}
		s = strings.TrimLeft(s[j:], " ")
		if s == "" || s[0] != '=' {
			if lastKey == "" {
				lastKey = key
			}
			return lastKey, lastKey
		}
		lastKey = key
		s = strings.TrimLeft(s[1:], " ")
		if s == "" {
			return key, key
		}
		if s[0] == '"' {
			n := c18QuotedLen(s)
			if n < 0 {
				return key, key
			}
			s = s[n:]
			if s != "" && s[0] != ' ' && s[0] != ']' {
				return key, key
			}
		} else {
			j = 0
			for j < len(s) && s[j] != ' ' && s[j] != ']' {
				c := s[j]
				if !(c == '_' || c >= 'a' && c <= 'z' || c >= 'A' && c <= 'Z' || c >= '0' && c <= '9' || c >= 0x80) {
					return key, key
				}
				j++
			}
			if j == 0 {
				return key, key
			}
			s = s[j:]
		}
	}
}

// c18QuotedLen returns the length of the quoted string at the head of s (quotes included), -1
// when there is none or it is unterminated on this line.
func c18QuotedLen(s string) int {
	if s == "" || s[0] != '"' {
		return -1
	}
	for i := 1; i < len(s); i++ {
		switch s[i] {
		case '\\':
			i++
		case '"':
			return i + 1
		}
	}
	return -1
}

// c18DotSite names the emitting site of the first malformed statement: <statement kind>-<attribute>.
// The first bad line is located with the Lean parser itself (smallest prefix of lines that,
// closed with "}", is rejected); the attribute inside it with the scanner above.
func c18DotSite(c *Ctx, out []byte) string {
	lines := strings.Split(string(out), "\n")
	ok := func(k int) bool {
		text := strings.Join(lines[:k], "\n") + "\n}\n"
		return strings.HasPrefix(c.Drv.Ask("dot.check "+hexTok([]byte(text))), "ok ")
	}
	lo, hi := 1, len(lines) // invariant: prefixes shorter than lo are fine; the prefix of length hi is not (whole text failed)
	if !ok(1) {
		hi = 1
	} else {
		lo = 1
		for lo+1 < hi {
			mid := (lo + hi) / 2
			if ok(mid) {
				lo = mid
			} else {
				hi = mid
			}
		}
	}
	bad := hi - 1 // index of the first line that breaks the document
	if bad < 0 || bad >= len(lines) {
		return "unknown"
	}
	// the statement the bad line belongs to: itself, or the nearest statement start above it
	// (a raw newline inside a string continues the statement on the next line)
	start := bad
	for start > 0 && c18StmtKind(lines[start]) == "" {
		start--
	}
	kind := c18StmtKind(lines[start])
	if kind == "" {
		return "header"
	}
	if kind == "end" || kind == "defaults" {
		// damage from an earlier statement only shows here
		for start > 0 {
			start--
			if k := c18StmtKind(lines[start]); k != "" && k != "end" && k != "defaults" {
				kind = k
				break
			}
		}
	}
	badKey, last := c18ScanAttrs(lines[start])
	if badKey == "" {
		badKey = last
	}
	if badKey == "" {
		badKey = "id"
	}
	return kind + "-" + badKey
}

// ---- callgrind ----

type c18Cost struct {
	Ob, Fl, Fn string
	Pos        []uint64
	Costs      []uint64
}

type c18Call struct {
	Fl, Fn, Cfl, Cfn string
	Count            uint64
	Tpos, Spos       []uint64
	Costs            []uint64
}

type c18CgResult struct {
	OK         bool
	ErrLine    int
	ErrKind    string
	Costs      []c18Cost
	Calls      []c18Call
	Undeclared []c18Call
	Raw        string
}

func c18ReadNats(r *tr) []uint64 {
	n := r.n()
	var out []uint64
	for i := 0; i < n && r.err == nil; i++ {
		out = append(out, r.nat())
	}
	return out
}

func c18ReadCall(r *tr) c18Call {
	c := c18Call{Fl: r.str(), Fn: r.str(), Cfl: r.str(), Cfn: r.str(), Count: r.nat()}
	c.Tpos = c18ReadNats(r)
	c.Spos = c18ReadNats(r)
	c.Costs = c18ReadNats(r)
	return c
}

func c18AskCallgrind(c *Ctx, out []byte) c18CgResult {
	rep := c.Drv.Ask("callgrind.check " + hexTok(out))
	res := c18CgResult{Raw: rep}
	if strings.HasPrefix(rep, "err ") {
		f := strings.Fields(rep)
		if len(f) >= 3 {
			fmt.Sscan(f[1], &res.ErrLine)
			res.ErrKind = f[2]
			if len(f) >= 5 { // name errors: kind id x<spec>
				tr := newTR(f[4])
				if spec := tr.str(); tr.err == nil {
					res.ErrKind += "/" + spec
				}
			}
		}
		return res
	}
	if !strings.HasPrefix(rep, "ok ") {
		res.ErrKind = "driver:" + trunc(rep)
		return res
	}
	r := newTR(rep[3:])
	nc := r.n()
	for i := 0; i < nc && r.err == nil; i++ {
		k := c18Cost{Ob: r.str(), Fl: r.str(), Fn: r.str()}
		k.Pos = c18ReadNats(r)
		k.Costs = c18ReadNats(r)
		res.Costs = append(res.Costs, k)
	}
	nl := r.n()
	for i := 0; i < nl && r.err == nil; i++ {
		res.Calls = append(res.Calls, c18ReadCall(r))
	}
	nu := r.n()
	for i := 0; i < nu && r.err == nil; i++ {
		res.Undeclared = append(res.Undeclared, c18ReadCall(r))
	}
	if r.err != nil {
		res.ErrKind = "driver-reply:" + r.err.Error()
		return res
	}
	res.OK = true
	return res
}

var c18SpecRe = regexp.MustCompile(`^(ob|fl|fi|fe|fn|cob|cfi|cfl|cfn)=`)
var c18SuffixRe = regexp.MustCompile(`(?:^| )\[\d+/\d+\]$`)

// c18CgSite names the emitting site of a callgrind line error.
func c18CgSite(out []byte, res c18CgResult) string {
	lines := strings.Split(string(out), "\n")
	kind := res.ErrKind
	if strings.HasPrefix(kind, "backref-undefined") || strings.HasPrefix(kind, "id-redefined") || strings.HasPrefix(kind, "name-malformed") {
		return kind
	}
	ln := res.ErrLine - 1
	if kind == "bad-subposition" && ln >= 0 && ln < len(lines) {
		if l := lines[ln]; strings.HasPrefix(l, "*") || strings.HasPrefix(l, "+") || strings.HasPrefix(l, "-") ||
			(strings.HasPrefix(l, "calls=") && strings.ContainsAny(strings.TrimPrefix(l, "calls="), "*+-")) {
			if res.ErrLine <= 12 || !c18HasCostLineBefore(lines, ln) {
				return "relative-subposition-without-cost-line"
			}
		}
	}
	if kind == "bad-line" || kind == "bad-header" || kind == "bad-subposition" || kind == "bad-cost" || kind == "call-without-cost-line" {
		// a line that is no callgrind line: which line above was cut in two by a newline?
		for j := ln - 1; j >= 0 && j >= ln-3; j-- {
			if j < len(lines) {
				if m := c18SpecRe.FindStringSubmatch(lines[j]); m != nil {
					return "line-break-in-name/" + m[1]
				}
				if strings.HasPrefix(lines[j], "events:") {
					return "line-break-in-events-header"
				}
			}
		}
		if ln >= 0 && ln < len(lines) && strings.HasPrefix(lines[ln], "events:") {
			return "events-header"
		}
	}
	return kind
}

func c18HasCostLineBefore(lines []string, ln int) bool {
	for j := 0; j < ln && j < len(lines); j++ {
		if l := lines[j]; l != "" && (l[0] >= '0' && l[0] <= '9') {
			return true
		}
	}
	return false
}

func c18NormName(s string) string {
	s = c18SuffixRe.ReplaceAllString(s, "")
	return strings.Map(func(r rune) rune {
		if r == ' ' || r == '\t' || r == '\n' || r == '\r' {
			return -1
		}
		return r
	}, s)
}

type c18Finding struct{ sig, what string }

// c18CompareGraph compares the decoded entries with the nodes and edges of the graph the report
// was generated from, as multisets of (file, function, address, line) — names modulo blanks and
// the " [i/n]" disambiguation suffix (how a name is made one line is not promised).  Each
// aspect has its own signature so that a known finding in one cannot mask another.
func c18CompareGraph(res c18CgResult, g *graph.Graph) (out []c18Finding) {
	key := func(fl, fn string, addr uint64, line uint64) string {
		return fmt.Sprintf("%q %q %#x %d", c18NormName(fl), c18NormName(fn), addr, line)
	}
	var wantCost, gotCost, wantCall, gotCall, wantNames, gotNames, wantSrc, gotSrc []string
	for _, n := range g.Nodes {
		wantCost = append(wantCost, key(n.Info.File, n.Info.Name, n.Info.Address, uint64(n.Info.Lineno)))
		for _, e := range n.Out {
			d := e.Dest
			src := key(n.Info.File, n.Info.Name, n.Info.Address, uint64(n.Info.Lineno))
			wantCall = append(wantCall, src+" -> "+key(d.Info.File, d.Info.Name, d.Info.Address, uint64(d.Info.Lineno)))
			wantSrc = append(wantSrc, src+" -> "+key(d.Info.File, d.Info.Name, 0, uint64(d.Info.Lineno)))
			wantNames = append(wantNames, key(n.Info.File, n.Info.Name, 0, 0)+" -> "+key(d.Info.File, d.Info.Name, 0, 0))
		}
	}
	pos2 := func(p []uint64) (uint64, uint64) {
		if len(p) == 2 {
			return p[0], p[1]
		}
		return 0, 0
	}
	for _, k := range res.Costs {
		a, l := pos2(k.Pos)
		gotCost = append(gotCost, key(k.Fl, k.Fn, a, l))
	}
	for _, k := range res.Calls {
		sa, sl := pos2(k.Spos)
		ta, tl := pos2(k.Tpos)
		src := key(k.Fl, k.Fn, sa, sl)
		gotCall = append(gotCall, src+" -> "+key(k.Cfl, k.Cfn, ta, tl))
		gotSrc = append(gotSrc, src+" -> "+key(k.Cfl, k.Cfn, 0, tl))
		gotNames = append(gotNames, key(k.Fl, k.Fn, 0, 0)+" -> "+key(k.Cfl, k.Cfn, 0, 0))
	}
	diff := func(want, got []string) string {
		sort.Strings(want)
		sort.Strings(got)
		if len(want) != len(got) {
			return fmt.Sprintf("%d entries expected, %d decoded", len(want), len(got))
		}
		for i := range want {
			if want[i] != got[i] {
				return fmt.Sprintf("expected %s, decoded %s", want[i], got[i])
			}
		}
		return ""
	}
	if d := diff(wantCost, gotCost); d != "" {
		what := "cost lines do not decode to the nodes' (file, function, address, line): "
		if len(wantCost) != len(gotCost) {
			what = "every node of the graph must have its own self-cost line (later relative subpositions are based on it): "
		}
		out = append(out, c18Finding{"cost-line-position", what + d})
	}
	if d := diff(wantNames, gotNames); d != "" {
		out = append(out, c18Finding{"call-names", "calls= entries do not name the graph's edges: " + d})
	} else if d := diff(wantSrc, gotSrc); d != "" {
		out = append(out, c18Finding{"calls-source-position-or-target-line", "calls= source positions / target lines do not decode to the edge endpoints': " + d})
	} else if d := diff(wantCall, gotCall); d != "" {
		out = append(out, c18Finding{"calls-target-position", "calls= target addresses do not decode to the callees' addresses (relative subpositions are based on the last cost line): " + d})
	}
	return out
}

// c18UndeclaredSigs classifies the calls whose target has no cost line of its own.
func c18UndeclaredSigs(res c18CgResult) (out []c18Finding) {
	samePos := func(a, b []uint64) bool { return fmt.Sprint(a) == fmt.Sprint(b) }
	strip := func(s string) string { return c18SuffixRe.ReplaceAllString(s, "") }
	seen := map[string]bool{}
	for _, u := range res.Undeclared {
		sig, what := "call-target-undeclared", fmt.Sprintf("call target cfl=%q cfn=%q pos=%v has no cost line", u.Cfl, u.Cfn, u.Tpos)
		exactName, loose, looseName, loosePos := false, false, "", false
		var somePos []uint64
		for _, k := range res.Costs {
			if k.Fl != u.Cfl {
				continue
			}
			if k.Fn == u.Cfn {
				exactName = true
				somePos = k.Pos
			} else if strip(k.Fn) == strip(u.Cfn) {
				loose, looseName = true, k.Fn
				if samePos(k.Pos, u.Tpos) {
					loosePos = true
				}
			}
		}
		switch {
		case exactName:
			sig, what = "calls-target-position", fmt.Sprintf("calls= target of cfn=%q decodes to position %v, but no cost line of that function has it (e.g. %v): relative subpositions must be based on the last cost line", u.Cfn, u.Tpos, somePos)
		case loose:
			sig, what = "cfn-differs-from-fn", fmt.Sprintf("call target cfn=%q is only declared as fn=%q (target position matches a cost line: %v)", u.Cfn, looseName, loosePos)
		}
		if !seen[sig] {
			seen[sig] = true
			out = append(out, c18Finding{sig, what})
		}
	}
	return out
}
