//go:build verif

package main

// The direct oracle of C17: the property's own statements, evaluated on the stack set the real
// code produced (in memory or decoded from the JSON of the /flamegraph page).

import (
	"fmt"
	"strconv"
	"strings"

	"github.com/google/pprof/profile"
)

type c17Frame struct {
	Name, File string
	FnID       uint64
	Line, Col  int64
	Inlined    bool
}

type c17Key struct {
	Name, File string
	Line, Col  int64
	Inlined    bool
}

func (f c17Frame) key() c17Key { return c17Key{f.Name, f.File, f.Line, f.Col, f.Inlined} }

type c17SampleFrames struct {
	Value  int64
	Frames []c17Frame // caller first
}

// c17Frames: "the sample's frames from caller to callee with inlined frames expanded and flagged".
// Sample.Location is leaf first and Location.Line is innermost-inlined-callee first; every line but
// the last of a location was inlined into its caller. A location without lines has no frame.
func c17Frames(p *profile.Profile, idx int) []c17SampleFrames {
	var out []c17SampleFrames
	for _, s := range p.Sample {
		sf := c17SampleFrames{Value: s.Value[idx]}
		var leafFirst []c17Frame
		for _, loc := range s.Location {
			for j, ln := range loc.Line {
				leafFirst = append(leafFirst, c17Frame{Name: ln.Function.Name, File: ln.Function.Filename, FnID: ln.Function.ID,
					Line: ln.Line, Col: ln.Column, Inlined: j+1 < len(loc.Line)})
			}
		}
		for i := len(leafFirst) - 1; i >= 0; i-- {
			sf.Frames = append(sf.Frames, leafFirst[i])
		}
		out = append(out, sf)
	}
	return out
}

// c17FramesText prints frames exactly like the reply of `stacks.frames` (Driver/Ops/C17.lean).
func c17FramesText(fs []c17SampleFrames) string {
	var w tw
	w.tok("ok")
	w.n(len(fs))
	for _, sf := range fs {
		w.int(sf.Value)
		w.n(len(sf.Frames))
		for _, f := range sf.Frames {
			w.str(f.Name)
			w.str(f.File)
			w.nat(f.FnID)
			w.int(f.Line)
			w.int(f.Col)
			w.bool(f.Inlined)
		}
	}
	return w.String()
}

// c17Oracle returns true when no statement of the property failed.
func c17Oracle(c *Ctx, cs c17Case, s *c17Set, frames []c17SampleFrames, withFrames bool) bool {
	ok := true
	bad := func(sig, what string) {
		ok = false
		c.Violation(sig, c17Trunc(what), cs)
	}
	// all arrays non-nil (in memory: the nil slices are what JSON prints as null)
	if !s.StacksNonNil {
		bad("C17/nil/Stacks", "StackSet.Stacks is nil")
	}
	if !s.SourcesNonNil {
		bad("C17/nil/Sources", "StackSet.Sources is nil")
	}
	for i, st := range s.Stacks {
		if !st.NonNil {
			bad("C17/nil/Stack.Sources", fmt.Sprintf("Stacks[%d].Sources is nil", i))
			break
		}
	}
	for i, x := range s.Sources {
		if !x.PlacesNonNil {
			bad("C17/nil/Places", fmt.Sprintf("Sources[%d].Places is nil", i))
			break
		}
	}
	for i, x := range s.Sources {
		if !x.DisplayOK {
			bad("C17/nil/Display", fmt.Sprintf("Sources[%d].Display is nil or empty", i))
			break
		}
	}
	// every index in range
	inRange := true
	for a, st := range s.Stacks {
		for b, i := range st.Srcs {
			if i < 0 || i >= len(s.Sources) {
				bad("C17/index/source-out-of-range", fmt.Sprintf("Stacks[%d].Sources[%d] = %d, %d sources", a, b, i, len(s.Sources)))
				inRange = false
			}
		}
	}
	for k, x := range s.Sources {
		for _, pl := range x.Places {
			if pl.Stack < 0 || pl.Stack >= len(s.Stacks) || pl.Pos < 0 || pl.Pos >= len(s.Stacks[pl.Stack].Srcs) {
				bad("C17/index/place-out-of-range", fmt.Sprintf("Sources[%d].Places has (%d,%d)", k, pl.Stack, pl.Pos))
				inRange = false
			}
		}
	}
	if !inRange {
		return false
	}
	// one stack per sample, in order, with the sample's selected value
	if withFrames {
		if len(s.Stacks) != len(frames) {
			bad("C17/stacks/count", fmt.Sprintf("%d stacks for %d samples", len(s.Stacks), len(frames)))
			return false
		}
		var sumStacks, sumSamples int64
		idsOf := map[int]map[uint64]bool{} // source index -> ids of the functions whose frames it stands for
		keyOf := map[int]c17Key{}          // source index -> the frame identity it stands for
		idxOf := map[c17Key]int{}          // frame identity -> source index
		for a, st := range s.Stacks {
			sf := frames[a]
			sumStacks += st.Value
			sumSamples += sf.Value
			if st.Value != sf.Value {
				bad("C17/stack/value", fmt.Sprintf("Stacks[%d].Value = %d, sample value %d", a, st.Value, sf.Value))
			}
			if len(st.Srcs) == 0 || st.Srcs[0] != 0 {
				bad("C17/stack/root", fmt.Sprintf("Stacks[%d] does not start at the root source 0", a))
				continue
			}
			if len(st.Srcs) != 1+len(sf.Frames) {
				bad("C17/stack/frames-length", fmt.Sprintf("Stacks[%d] has %d frames, the sample has %d", a, len(st.Srcs)-1, len(sf.Frames)))
				continue
			}
			for b, f := range sf.Frames {
				i := st.Srcs[b+1]
				x := s.Sources[i]
				if i == 0 {
					bad("C17/frame/is-root", fmt.Sprintf("Stacks[%d].Sources[%d] is the synthetic root", a, b+1))
					continue
				}
				if x.Inlined != f.Inlined {
					bad("C17/frame/inlined-flag", fmt.Sprintf("Stacks[%d] frame %d (%q): Inlined=%v, the line is inlined=%v", a, b, f.Name, x.Inlined, f.Inlined))
				}
				if f.Name != "" && !(x.Full == f.Name || strings.HasPrefix(x.Full, f.Name+":")) && c17PlainASCII(f.Name) {
					bad("C17/frame/name", fmt.Sprintf("Stacks[%d] frame %d: source %q for function %q", a, b, x.Full, f.Name))
				}
				// FileName: the function's file name after the documented trimming for the given options —
				// (-trim_path, -source_path; with neither, only the two built-in prefixes go)
				if want := c17Trim(f.File, cs.TrimPath, cs.SourcePath); x.File != want && (c17PlainASCII(f.File) || !s.HasType) {
					bad("C17/frame/file-name", fmt.Sprintf("Stacks[%d] frame %d (%+q): FileName %+q, the function's file %+q trims to %+q", a, b, f.Name, x.File, f.File, want))
				}
				if idsOf[i] == nil {
					idsOf[i] = map[uint64]bool{}
				}
				idsOf[i][f.FnID] = true
				k := f.key()
				if k0, seen := keyOf[i]; seen && k0 != k {
					bad("C17/frame/identity-merged", fmt.Sprintf("source %d stands for two different frames %+v and %+v", i, k0, k))
				}
				keyOf[i] = k
				if i0, seen := idxOf[k]; seen && i0 != i {
					bad("C17/frame/identity-split", fmt.Sprintf("frame %+v is source %d and source %d", k, i0, i))
				}
				idxOf[k] = i
			}
		}
		if sumStacks != sumSamples {
			bad("C17/values/sum", fmt.Sprintf("stack values sum to %d, selected sample values to %d", sumStacks, sumSamples))
		}
		c17UniqueOracle(c, cs, s, idsOf, bad)
	} // withFrames
	if len(s.Sources) == 0 {
		bad("C17/sources/no-root", "no root source")
		return false
	}
	if s.Sources[0].Full != "root" {
		bad("C17/sources/root-name", "source 0 is not the synthetic root")
	}
	// Self: sum of the stacks the source terminates
	self := make([]int64, len(s.Sources))
	for _, st := range s.Stacks {
		if n := len(st.Srcs); n > 0 {
			self[st.Srcs[n-1]] += st.Value
		}
	}
	for k, x := range s.Sources {
		if x.Self != self[k] {
			bad("C17/self/mismatch", fmt.Sprintf("Sources[%d] (%q).Self = %d, the stacks it terminates sum to %d", k, x.Full, x.Self, self[k]))
			break
		}
	}
	// Places: every stack containing the source exactly once, at its outermost occurrence
	for k, x := range s.Sources {
		first := map[int]int{}
		for a, st := range s.Stacks {
			for b, i := range st.Srcs {
				if i == k {
					if _, seen := first[a]; !seen {
						first[a] = b
					}
				}
			}
		}
		listed := map[int]bool{}
		for _, pl := range x.Places {
			if s.Stacks[pl.Stack].Srcs[pl.Pos] != k {
				bad("C17/places/wrong-slot", fmt.Sprintf("Sources[%d].Places has (%d,%d) but that slot holds source %d", k, pl.Stack, pl.Pos, s.Stacks[pl.Stack].Srcs[pl.Pos]))
				continue
			}
			if listed[pl.Stack] {
				bad("C17/places/stack-listed-twice", fmt.Sprintf("Sources[%d] (%q).Places lists stack %d twice", k, x.Full, pl.Stack))
				continue
			}
			listed[pl.Stack] = true
			if pl.Pos != first[pl.Stack] {
				bad("C17/places/not-outermost", fmt.Sprintf("Sources[%d] (%q).Places has (%d,%d), outermost occurrence is %d", k, x.Full, pl.Stack, pl.Pos, first[pl.Stack]))
			}
		}
		for a := range first {
			if !listed[a] {
				bad("C17/places/missing-stack", fmt.Sprintf("Sources[%d] (%q) occurs in stack %d which its Places does not list", k, x.Full, a))
				break
			}
		}
	}
	return ok
}

func c17PlainASCII(s string) bool {
	for i := 0; i < len(s); i++ {
		if s[i] < 0x20 || s[i] > 0x7e {
			return false
		}
	}
	return true
}

// c17Trim: the documented semantics of trimPath(path, trim_path, source_path)
// (internal/report/source.go; = trimPath in Model/Stacks.lean, compared on every case):
// without a trim path, the first directory of the source path (a ':'-separated list) whose base
// name occurs in the path as a component "/<base>/" cuts the path after that component;
// otherwise the first of the trim-path entries (each made to end in "/") and of the built-in
// "/proc/self/cwd/./", "/proc/self/cwd/" that is a PREFIX of the path is removed; else unchanged.
func c17Trim(path, trim, source string) string {
	split := func(s string) []string {
		if s == "" {
			return nil
		}
		return strings.Split(s, ":")
	}
	base := func(d string) string {
		if d == "" {
			return "."
		}
		d = strings.TrimRight(d, "/")
		if d == "" {
			return "/"
		}
		return d[strings.LastIndex(d, "/")+1:]
	}
	if trim == "" {
		for _, d := range split(source) {
			want := "/" + base(d) + "/"
			if i := strings.Index(path, want); i >= 0 {
				return path[i+len(want):]
			}
		}
	}
	for _, t := range append(split(trim), "/proc/self/cwd/./", "/proc/self/cwd/") {
		if !strings.HasSuffix(t, "/") {
			t += "/"
		}
		if strings.HasPrefix(path, t) {
			return path[len(t):]
		}
	}
	return path
}

// c17UniqueOracle: UniqueName ("disambiguates functions with same names"; the client pivots by
// regexp over it). Order independent: among the sources sharing a full name exactly one keeps it as
// unique name, every other one is FullName#<id of a function it stands for>; and different sources
// have different unique names. The two ways the naming scheme of the code as it is breaks the
// last statement are known findings with their own signatures (reported without failing the case,
// so they cannot mask another finding); any other collision is a plain violation.
func c17UniqueOracle(c *Ctx, cs c17Case, s *c17Set, idsOf map[int]map[uint64]bool, bad func(sig, what string)) {
	hashForm := func(k int) bool { // Unique == Full#id for an id of the source
		x := s.Sources[k]
		for id := range idsOf[k] {
			if x.Unique == x.Full+"#"+strconv.FormatUint(id, 10) {
				return true
			}
		}
		return false
	}
	plain := map[string][]int{}
	groups := map[string][]int{}
	for k := 1; k < len(s.Sources); k++ {
		x := s.Sources[k]
		if idsOf[k] == nil || !c17PlainASCII(x.Full) {
			continue // a source no stack uses is reported elsewhere; non-ASCII names are mangled by JSON
		}
		groups[x.Full] = append(groups[x.Full], k)
		switch {
		case x.Unique == x.Full:
			plain[x.Full] = append(plain[x.Full], k)
		case hashForm(k):
		default:
			bad("C17/unique/form", fmt.Sprintf("Sources[%d]: UniqueName %+q is neither the full name %+q nor that name#<function id> (ids %v)", k, x.Unique, x.Full, idsOf[k]))
		}
	}
	for full, g := range groups {
		if n := len(plain[full]); n != 1 {
			bad("C17/unique/plain-name-not-kept-by-exactly-one", fmt.Sprintf("%d sources have the full name %+q, %d of them (%v) have it as UniqueName", len(g), full, n, plain[full]))
			break
		}
	}
	byUnique := map[string]int{}
	for k := 1; k < len(s.Sources); k++ {
		x := s.Sources[k]
		if idsOf[k] == nil || !c17PlainASCII(x.Full) {
			continue
		}
		k0, dup := byUnique[x.Unique]
		if !dup {
			byUnique[x.Unique] = k
			continue
		}
		y := s.Sources[k0]
		shared := false
		for id := range idsOf[k] {
			if idsOf[k0][id] {
				shared = true
			}
		}
		what := fmt.Sprintf("Sources[%d] (%+q, file %+q, inlined=%v) and Sources[%d] (%+q, file %+q, inlined=%v) share the UniqueName %+q", k0, y.Full, y.File, y.Inlined, k, x.Full, x.File, x.Inlined, x.Unique)
		switch {
		case x.Full == y.Full && x.Unique != x.Full && y.Unique != y.Full && shared && x.Inlined != y.Inlined:
			// FullName#id is handed out twice: to the plain and to the inlined copy of one function
			c.Violation("C17/unique/collision/inlined-and-plain-copy-of-a-homonym", c17Trunc(what), cs)
		case x.Full != y.Full && (x.Unique == x.Full) != (y.Unique == y.Full):
			// a function literally named like another one's FullName#id
			c.Violation("C17/unique/collision/literal-hash-in-name", c17Trunc(what), cs)
		default:
			bad("C17/unique/collision", what)
		}
	}
}
