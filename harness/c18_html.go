//go:build verif

package main

// C18 — HTML views: the web UI handlers are obtained through the HTTPServer plug-in hook (as
// internal/driver/webui_test.go does) and queried in-process; profile-derived text must never
// reach an HTML response unescaped.

import (
	"fmt"
	"net/http"
	"net/http/httptest"
	"strings"
	"time"

	"github.com/google/pprof/internal/driver"
	"github.com/google/pprof/internal/plugin"
	"github.com/google/pprof/profile"
)

type c18Flags struct {
	bools   map[string]bool
	strings map[string]string
	args    []string
}

func (c18Flags) ExtraUsage() string      { return "" }
func (c18Flags) AddExtraUsage(eu string) {}
func (f c18Flags) Bool(s string, d bool, c string) *bool {
	if b, ok := f.bools[s]; ok {
		return &b
	}
	return &d
}
func (f c18Flags) Int(s string, d int, c string) *int             { return &d }
func (f c18Flags) Float64(s string, d float64, c string) *float64 { return &d }
func (f c18Flags) String(s, d, c string) *string {
	if t, ok := f.strings[s]; ok {
		return &t
	}
	return &d
}
func (f c18Flags) StringList(s, d, c string) *[]*string { return &[]*string{} }
func (f c18Flags) Parse(func()) []string                { return f.args }

type c18Fetcher struct{ p *profile.Profile }

func (f c18Fetcher) Fetch(s string, d, t time.Duration) (*profile.Profile, string, error) {
	return f.p, "c18src", nil
}

type c18Sym struct{}

func (c18Sym) Symbolize(mode string, srcs plugin.MappingSources, prof *profile.Profile) error {
	return nil
}

type c18UI struct{}

func (c18UI) ReadLine(prompt string) (string, error)       { return "", fmt.Errorf("no input") }
func (c18UI) Print(...interface{})                         {}
func (c18UI) PrintErr(...interface{})                      {}
func (c18UI) IsTerminal() bool                             { return false }
func (c18UI) WantBrowser() bool                            { return false }
func (c18UI) SetAutoComplete(complete func(string) string) {}

var c18HTMLPages = []string{"/top", "/flamegraph", "/source?f=.", "/peek?f=.", "/disasm?f=.", "/", "/top?f=x&si=0", "/flamegraph?g=lines"}

type c18Page struct {
	Path        string
	Status      int
	ContentType string
	Body        string
}

// c18WebPages starts the web interface on the profile through driver.PProf with an HTTPServer
// hook that only captures the handlers, then queries the pages.
func c18WebPages(p *profile.Profile) (pages []c18Page, errText string) {
	var handlers map[string]http.Handler
	opts := &plugin.Options{
		Flagset: c18Flags{bools: map[string]bool{"no_browser": true}, strings: map[string]string{"http": "localhost:0", "symbolize": "none"}, args: []string{"c18src"}},
		Fetch:   c18Fetcher{p},
		Sym:     c18Sym{},
		UI:      c18UI{},
		HTTPServer: func(a *plugin.HTTPServerArgs) error {
			handlers = a.Handlers
			return nil
		},
	}
	var err error
	if pn := safely(func() { err = driver.PProf(opts) }); pn != "" {
		return nil, "panic: " + pn
	}
	if err != nil {
		return nil, "error: " + err.Error()
	}
	if handlers == nil {
		return nil, "no handlers captured"
	}
	for _, path := range c18HTMLPages {
		base := path
		if i := strings.IndexByte(base, '?'); i >= 0 {
			base = base[:i]
		}
		h := handlers[base]
		if h == nil {
			continue
		}
		rec := httptest.NewRecorder()
		req := httptest.NewRequest("GET", "http://localhost"+path, nil)
		if pn := safely(func() { h.ServeHTTP(rec, req) }); pn != "" {
			pages = append(pages, c18Page{Path: path, Status: -1, Body: "panic: " + pn})
			continue
		}
		pages = append(pages, c18Page{Path: path, Status: rec.Code, ContentType: rec.Header().Get("Content-Type"), Body: rec.Body.String()})
	}
	return pages, ""
}

// c18HTMLCheck: in every response a browser may interpret as HTML, none of the raw payloads occurs.
func c18HTMLCheck(pages []c18Page, marker string) (sig, what string, htmlPages, hits int) {
	forb := c18HTMLForbidden(marker)
	for _, pg := range pages {
		ct := strings.ToLower(pg.ContentType)
		isHTML := strings.Contains(ct, "html") || ct == "" || strings.Contains(ct, "svg") || strings.Contains(ct, "xml")
		if !isHTML {
			continue
		}
		htmlPages++
		if strings.Contains(pg.Body, marker) {
			hits++
		}
		for _, f := range forb {
			if i := strings.Index(pg.Body, f); i >= 0 {
				lo := i - 60
				if lo < 0 {
					lo = 0
				}
				base := pg.Path
				if j := strings.IndexByte(base, '?'); j >= 0 {
					base = base[:j]
				}
				return "page=" + base, fmt.Sprintf("page %s (Content-Type %q) contains profile-derived text unescaped: …%s…", pg.Path, pg.ContentType, trunc(pg.Body[lo:])), htmlPages, hits
			}
		}
	}
	return "", "", htmlPages, hits
}
