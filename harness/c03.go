//go:build verif

package main

import (
	"fmt"
	"sort"
	"strconv"
	"strings"

	"github.com/google/pprof/profile"
)

// C03 — merging conserves every stack's weight and symbol information.
//
// Every case is a list of profiles (canonical token form). For each case:
//   1. run the real profile.Merge (or (*Profile).Compact for single-profile "compact" cases);
//   2. direct oracle on the real output: validity; weight table (computed by the Lean Spec from
//      the semantic stack keys) == element-wise sum of the inputs' tables with all-zero rows
//      removed; each stack once; per-type totals; header rules; order independence; Compact
//      idempotence; inputs unchanged; no cell of the output reachable from an input;
//   3. correspondence: the Lean model's Merge on the same inputs has the same weight table and
//      header as the real output (ids and table order are not compared; exact equality of the
//      canonical outputs is only measured).
// A last stream (c03_cli.go) observes the same oracle at the command line: pprof -proto a b ….

func init() { register("C03", runC03) }

type c03Case struct {
	Kind     string   `json:"kind"`
	Tag      string   `json:"tag,omitempty"`
	Profiles []string `json:"profiles"`
	Pasts    []string `json:"pasts,omitempty"` // per input: what it went through before the merge (c03_past.go)
	Perm     []int    `json:"perm,omitempty"` // order used for the order-independence check
	Compact  bool     `json:"compact,omitempty"`
}

const c03Corr = "correspondence Model.Merge.merge ~ profile.Merge (theorems of Props/C03 are about the model)"

func joinProfiles(ps []string) string {
	return strconv.Itoa(len(ps)) + " " + strings.Join(ps, " ")
}

// checkValidClosed: CheckValid plus "every referenced entity is the table entry" for samples.
func checkValidClosed(p *profile.Profile) error {
	if err := p.CheckValid(); err != nil {
		return err
	}
	locs := map[*profile.Location]bool{}
	for _, l := range p.Location {
		locs[l] = true
	}
	for _, s := range p.Sample {
		for _, l := range s.Location {
			if !locs[l] {
				return fmt.Errorf("sample references a location that is not in the table")
			}
		}
	}
	return nil
}

func headerTokens(p *profile.Profile) string {
	var w tw
	w.n(len(p.SampleType))
	for _, st := range p.SampleType {
		w.valueType(st)
	}
	if p.PeriodType == nil {
		w.n(0)
	} else {
		w.n(1)
		w.valueType(p.PeriodType)
	}
	w.str(p.DropFrames)
	w.str(p.KeepFrames)
	w.int(p.TimeNanos)
	w.int(p.DurationNanos)
	w.int(p.Period)
	w.n(len(p.Comments))
	for _, c := range p.Comments {
		w.str(c)
	}
	w.str(p.DefaultSampleType)
	w.str(p.DocURL)
	return w.String()
}

// headerFields splits header tokens (W.header in Driver/Ops/C03.lean) into named fields.
func headerFields(h string) map[string]string {
	r := newTR(h)
	f := map[string]string{}
	take := func(name string, n int) {
		var parts []string
		for i := 0; i < n; i++ {
			parts = append(parts, r.tok())
		}
		f[name] = strings.Join(parts, " ")
	}
	n := r.n()
	take("sampleType", 2*n)
	f["sampleType"] = strconv.Itoa(n) + " " + f["sampleType"]
	if r.n() != 0 {
		take("periodType", 2)
	} else {
		f["periodType"] = "nil"
	}
	take("dropFrames", 1)
	take("keepFrames", 1)
	take("timeNanos", 1)
	take("durationNanos", 1)
	take("period", 1)
	n = r.n()
	take("comments", n)
	take("defaultSampleType", 1)
	take("docURL", 1)
	if r.err != nil || r.pos != len(r.toks) {
		f["_bad"] = "1"
	}
	return f
}

var headerOrder = []string{"sampleType", "periodType", "dropFrames", "keepFrames", "timeNanos", "durationNanos", "period", "comments", "defaultSampleType", "docURL"}

func firstHeaderDiff(a, b string) string {
	fa, fb := headerFields(a), headerFields(b)
	for _, k := range headerOrder {
		if fa[k] != fb[k] {
			return k
		}
	}
	if a != b {
		return "unparsable"
	}
	return ""
}

func totals(ps []*profile.Profile) []int64 {
	var t []int64
	for _, p := range ps {
		for _, s := range p.Sample {
			for i, v := range s.Value {
				for len(t) <= i {
					t = append(t, 0)
				}
				t[i] += v // int64 wrap-around, like the code under test
			}
		}
	}
	return t
}

func nonZeroSamples(ps []*profile.Profile) int {
	n := 0
	for _, p := range ps {
		for _, s := range p.Sample {
			for _, v := range s.Value {
				if v != 0 {
					n++
					break
				}
			}
		}
	}
	return n
}

// compareTables evaluates the conservation statement: obs (table of the real output) against
// exp (Spec sum over the inputs). Returns "" or (signature suffix, description).
func compareTables(obs, exp *wTable, tag string) (string, string) {
	for _, k := range obs.order {
		if obs.rows[k].count > 1 {
			return "duplicate-stack", fmt.Sprintf("the same stack (by frames and labels) occurs in %d samples of the result", obs.rows[k].count)
		}
	}
	for _, k := range obs.order {
		if obs.rows[k].allZero() {
			if _, ok := exp.rows[k]; !ok {
				return "zero-sample-kept", "the result contains a sample whose values are all zero"
			}
		}
	}
	var missing, altered, added []string
	for _, k := range exp.order {
		o, ok := obs.rows[k]
		if !ok {
			missing = append(missing, k)
		} else if !sameValues(o.values, exp.rows[k].values) {
			altered = append(altered, k)
		}
	}
	for _, k := range obs.order {
		if _, ok := exp.rows[k]; !ok {
			added = append(added, k)
		}
	}
	if len(missing) == 0 && len(altered) == 0 && len(added) == 0 {
		return "", ""
	}
	// conflation: a stack disappeared and another one's weight changed, or a stack appeared with
	// the weight of inputs that should have cancelled against a now-distinct stack
	if len(missing) > 0 && len(altered)+len(added) > 0 {
		best, bestN, bestAttr := "", 1<<30, ""
		for _, m := range missing {
			for _, a := range append(append([]string{}, altered...), added...) {
				attr, n := keyDiff(m, a)
				if n < bestN {
					best, bestN, bestAttr = a, n, attr
				}
			}
		}
		_ = best
		if bestN > 2 { // not near-duplicates: plain loss, not a conflation of two look-alikes
			return "conservation/stack-dropped", fmt.Sprintf("%d stack(s) with non-zero total weight are missing from the result (%d altered, %d unexpected)", len(missing), len(altered), len(added))
		}
		return "conflated/" + bestAttr, fmt.Sprintf("two stacks that differ in %s were merged into one sample (their values were summed); %d stack(s) missing, %d altered, %d unexpected", bestAttr, len(missing), len(altered), len(added))
	}
	if len(missing) >= 2 && len(added) == 0 && len(altered) == 0 {
		// two distinct stacks whose weights cancel were merged and then dropped as a zero sample
		bestN, bestAttr := 1<<30, ""
		for i, a := range missing {
			for _, b := range missing[i+1:] {
				if cancels(exp.rows[a].values, exp.rows[b].values) {
					if attr, n := keyDiff(a, b); n < bestN {
						bestN, bestAttr = n, attr
					}
				}
			}
		}
		if bestAttr != "" {
			return "conflated/" + bestAttr, fmt.Sprintf("two stacks that differ in %s and whose values cancel were merged into one sample and dropped; %d stack(s) missing", bestAttr, len(missing))
		}
	}
	if len(missing) > 0 {
		return "conservation/stack-dropped", fmt.Sprintf("%d stack(s) with non-zero total weight are missing from the result", len(missing))
	}
	if len(added) > 0 && len(altered) > 0 {
		attr, nd := keyDiff(added[0], altered[0])
		if nd > 2 {
			return "conservation/weight-altered", fmt.Sprintf("%d stack(s) whose value vector is not the element-wise sum over the inputs; %d stack(s) that should not be in the result", len(altered), len(added))
		}
		return "split/" + attr, fmt.Sprintf("%d stack(s) in the result that no input has with that total; %d altered", len(added), len(altered))
	}
	if len(added) > 0 {
		return "conservation/stack-added", fmt.Sprintf("%d stack(s) in the result that should not be there (not in any input, or total weight zero)", len(added))
	}
	return "conservation/weight-altered", fmt.Sprintf("%d stack(s) whose value vector is not the element-wise sum over the inputs", len(altered))
}

// cancels: a + b = 0 element-wise in int64 arithmetic.
func cancels(a, b []string) bool {
	if len(a) != len(b) {
		return false
	}
	for i := range a {
		x, e1 := strconv.ParseInt(a[i], 10, 64)
		y, e2 := strconv.ParseInt(b[i], 10, 64)
		if e1 != nil || e2 != nil || x+y != 0 {
			return false
		}
	}
	return true
}

type c03Run struct {
	out    *profile.Profile
	err    error
	panic_ string
}

func runMerge(ps []*profile.Profile, compact bool) c03Run {
	var r c03Run
	r.panic_ = c3safely(func() {
		if compact {
			r.out = ps[0].Compact()
		} else {
			r.out, r.err = profile.Merge(ps)
		}
	})
	return r
}

func parseAll(c *Ctx, canons []string) []*profile.Profile {
	var ps []*profile.Profile
	for _, s := range canons {
		p, err := ParseCanon(s)
		if err != nil {
			c.Res.HarnessError = "ParseCanon: " + err.Error()
			return nil
		}
		c03PadCapacity(p)
		ps = append(ps, p)
	}
	return ps
}

// c03PadCapacity gives every slice of an input profile spare capacity (more than its length),
// as slices built by append or read by a decoder usually have: code that grows a result slice
// out of an input's backing array (`append(in.X[len(in.X):], …)`, `in.X[:0]`) then really lands
// in the input's memory, where the reachability check sees it.
func c03PadCapacity(p *profile.Profile) {
	p.SampleType = padCap(p.SampleType)
	p.Sample = padCap(p.Sample)
	p.Mapping = padCap(p.Mapping)
	p.Location = padCap(p.Location)
	p.Function = padCap(p.Function)
	p.Comments = padCap(p.Comments)
	for _, l := range p.Location {
		l.Line = padCap(l.Line)
	}
	for _, s := range p.Sample {
		s.Location = padCap(s.Location)
		s.Value = padCap(s.Value)
		for k, v := range s.Label {
			s.Label[k] = padCap(v)
		}
		for k, v := range s.NumLabel {
			s.NumLabel[k] = padCap(v)
		}
		for k, v := range s.NumUnit {
			s.NumUnit[k] = padCap(v)
		}
	}
}

// padCap: same elements, capacity 2*len+2; nil stays nil (Canon distinguishes nothing else).
func padCap[T any](s []T) []T {
	if s == nil {
		return nil
	}
	return append(make([]T, 0, 2*len(s)+2), s...)
}

func (c *Ctx) absTable(p *profile.Profile) (*wTable, string) {
	reply := c.Drv.Ask("merge.abs " + Canon(p))
	t, err := parseTable(reply)
	if err != nil {
		return nil, reply
	}
	return t, reply
}

// c03Check runs the whole battery on one case. full=false skips the secondary obligations
// (order independence, compact idempotence) to save time on the bulk stream.
func c03Check(c *Ctx, cs c03Case, full bool) (nontrivial bool) {
	sig := func(s string) string { return "C03/" + s }
	rep := cs // the case as generated (inputs before their pasts): this is what replay files hold
	ps, canons := c03Inputs(c, rep)
	if ps == nil || len(ps) == 0 {
		return false
	}
	cs.Profiles, cs.Pasts = canons, nil // from here on: the inputs as they are when Merge is called
	for _, pa := range rep.Pasts {
		if pa != "" {
			c.Res.Hit("past:" + pa)
		}
	}
	compact := cs.Compact && len(ps) == 1
	args := joinProfiles(cs.Profiles)
	specReply := c.Drv.Ask("merge.spec " + args)
	inReach := reachable(ps)
	run := runMerge(ps, compact)

	// --- outcome class
	if run.panic_ != "" {
		if specReply == "incompatible" || strings.HasPrefix(specReply, "ok ") {
			c.Violation(sig("merge/panic"), "Merge panics on valid profiles: "+c3trunc(run.panic_), rep)
		} else {
			c.Res.HarnessError = "merge.spec: " + c3trunc(specReply)
		}
		return false
	}
	if specReply == "incompatible" {
		c.Res.Hit("outcome:incompatible")
		if run.err == nil {
			c.Violation(sig("compat/accepted-incompatible/"+cs.Tag), "Merge accepts profiles whose sample/period types differ", rep)
		}
		c.Res.ModelCompared++
		if m := c.Drv.Ask("merge.model " + args); m != "err" {
			c.Disagree(sig("model/outcome-class"), "model does not reject incompatible inputs: "+c3trunc(m), c03Corr, rep)
		}
		return false
	}
	exp, err := parseTable(specReply)
	if err != nil {
		c.Res.HarnessError = "merge.spec: " + err.Error()
		return false
	}
	if run.err != nil || run.out == nil {
		c.Violation(sig("merge/error-on-compatible"), fmt.Sprintf("Merge fails on compatible valid profiles: %v", run.err), rep)
		return false
	}
	out := run.out
	c.Res.Hit("outcome:ok")
	oracleFailed := false
	viol := func(s, what string) {
		oracleFailed = true
		c.Violation(sig(s), what, rep)
	}

	// --- inputs unchanged, output independent of the inputs
	for i, p := range ps {
		if Canon(p) != cs.Profiles[i] {
			viol("purity/input-modified/"+c3diffField(Canon(p), cs.Profiles[i]), fmt.Sprintf("Merge modified input %d", i))
		}
	}
	outReach := reachable(out)
	if al := aliasPaths(outReach, inReach); len(al) > 0 {
		viol("aliasing/"+al[0], "the result shares memory with an input (not independent of the input profiles) via: "+strings.Join(al, ", "))
	}
	// measured: which field kinds could have been shared in this case (cells on both sides)
	ink, outk := inReach.cellKinds(), outReach.cellKinds()
	for _, k := range c03AliasSurface {
		if ink[k] && outk[k] {
			c.Res.Hit("alias-surface:" + k)
		}
	}

	// --- validity
	if err := checkValidClosed(out); err != nil {
		viol("valid/"+c3firstWord(err.Error()), "the result is not a valid profile: "+err.Error())
		return false
	}
	obs, obsReply := c.absTable(out)
	if obs == nil {
		if obsReply == "unresolvable" {
			viol("valid/unresolvable", "the result has dangling references")
		} else {
			c.Res.HarnessError = "merge.abs: " + c3trunc(obsReply)
		}
		return false
	}

	// --- conservation, each stack once, no all-zero sample
	if s, what := compareTables(obs, exp, cs.Tag); s != "" {
		viol(s, what)
	}
	tin, tout := totals(ps), totals([]*profile.Profile{out})
	for i := range tin {
		var o int64
		if i < len(tout) {
			o = tout[i]
		}
		if o != tin[i] {
			viol("totals", fmt.Sprintf("total of sample type %d changed from %d to %d", i, tin[i], o))
			break
		}
	}
	for _, s := range out.Sample {
		z := true
		for _, v := range s.Value {
			z = z && v == 0
		}
		if z {
			viol("zero-sample-kept", "the result contains a sample whose values are all zero")
			break
		}
	}

	// --- header rules
	if d := firstHeaderDiff(headerTokens(out), exp.header); d != "" {
		viol("header/"+d, fmt.Sprintf("header field %s is not combined as documented: got %q, want %q", d, headerFields(headerTokens(out))[d], headerFields(exp.header)[d]))
	}

	// --- measured: did any memo table hit?
	inSamples := nonZeroSamples(ps)
	inF, inL, inM := 0, 0, 0
	for _, p := range ps {
		inF += len(p.Function)
		inL += len(p.Location)
		inM += len(p.Mapping)
	}
	if len(out.Sample) < inSamples {
		c.Res.Hit("memo-hit:sample")
		nontrivial = true
	}
	if len(out.Location) < inL && len(out.Location) > 0 {
		c.Res.Hit("memo-hit:location")
		nontrivial = true
	}
	if len(out.Function) < inF && len(out.Function) > 0 {
		c.Res.Hit("memo-hit:function")
	}
	if len(out.Mapping) < inM && len(out.Mapping) > 0 {
		c.Res.Hit("memo-hit:mapping")
	}
	if full && len(exp.order) < len(distinctInputStacks(c, cs)) {
		c.Res.Hit("zero-sum-stack-eliminated")
	}

	// --- correspondence with the Lean model
	c.Res.ModelCompared++
	op := "merge.model " + args
	if compact {
		op = "compact.model " + cs.Profiles[0]
	}
	mreply := c.Drv.Ask(op)
	if !strings.HasPrefix(mreply, "ok ") {
		if !oracleFailed {
			c.Disagree(sig("model/outcome-class/"+c3firstWord(mreply)), "model does not produce a profile where the code does: "+c3trunc(mreply), c03Corr, rep)
		}
	} else {
		mcanon := mreply[3:]
		if mcanon == Canon(out) {
			c.Res.Hit("model-output-identical")
		} else {
			c.Res.Hit("model-output-differs-in-ids-or-order")
		}
		mabs := c.Drv.Ask("merge.abs " + mcanon)
		if mt, err := parseTable(mabs); err != nil {
			c.Disagree(sig("model/invalid-output"), "the model's output does not resolve: "+c3trunc(mabs), c03Corr, rep)
		} else if !oracleFailed {
			if s, what := compareTables(obs, mt, cs.Tag); s != "" {
				c.Disagree(sig("model/"+s), "model and code disagree on the weight table: "+what, c03Corr, rep)
			} else if d := firstHeaderDiff(headerTokens(out), mt.header); d != "" {
				c.Disagree(sig("model/header/"+d), "model and code disagree on header field "+d, c03Corr, rep)
			}
		}
	}

	if !full {
		return nontrivial
	}

	// --- measured: the real result is a fixed point of the MODEL's Compact, id for id (what
	// merge_result_is_fixpoint proves of the model's own results; ids are not promised, so a
	// difference is not an alarm)
	if !oracleFailed {
		if m := c.Drv.Ask("compact.model " + Canon(out)); m == "ok "+Canon(out) {
			c.Res.Hit("real-result-is-fixpoint-of-model-compact")
		} else {
			c.Res.Hit("real-result-not-a-fixpoint-of-model-compact")
		}
	}

	// --- order independence (weights; the order-insensitive header fields)
	if len(ps) > 1 && len(cs.Perm) == len(ps) {
		qs, _ := c03Inputs(c, rep)
		perm := make([]*profile.Profile, len(qs))
		for i, j := range cs.Perm {
			perm[i] = qs[j]
		}
		r2 := runMerge(perm, false)
		if r2.panic_ != "" || r2.err != nil || r2.out == nil {
			viol("order/outcome", fmt.Sprintf("Merge of a permutation of the inputs fails (%v %s)", r2.err, r2.panic_))
		} else if t2, _ := c.absTable(r2.out); t2 == nil {
			viol("order/invalid", "Merge of a permutation gives an unresolvable result")
		} else {
			c.Res.Hit("order-independence-checked")
			if s, what := compareTables(t2, obs, cs.Tag); s != "" {
				viol("order/"+s, "the weight table depends on the order of the inputs: "+what)
			}
			h1, h2 := headerFields(headerTokens(out)), headerFields(headerTokens(r2.out))
			for _, k := range []string{"timeNanos", "durationNanos", "period"} {
				if h1[k] != h2[k] {
					viol("order/header/"+k, "header field "+k+" depends on the order of the inputs")
				}
			}
			if sortedWords(h1["comments"]) != sortedWords(h2["comments"]) {
				viol("order/header/comments", "the set of comments depends on the order of the inputs")
			}
		}
	}

	// --- Compact: conserves, and compacting twice equals compacting once
	for i := range cs.Profiles {
		if i > 1 {
			break
		}
		p, _ := ParseCanon(cs.Profiles[i])
		var c1, c2 *profile.Profile
		if pn := c3safely(func() { c1 = p.Compact(); c2 = c1.Compact() }); pn != "" || c1 == nil || c2 == nil {
			viol("compact/panic", "Compact panics or returns nil: "+pn)
			continue
		}
		c.Res.Hit("compact-idempotence-checked")
		pe, _ := parseTable(c.Drv.Ask("merge.spec 1 " + cs.Profiles[i]))
		t1, _ := c.absTable(c1)
		t2, _ := c.absTable(c2)
		if pe == nil || t1 == nil || t2 == nil {
			viol("compact/invalid", "Compact gives an unresolvable result")
			continue
		}
		if s, what := compareTables(t1, pe, cs.Tag); s != "" {
			viol("compact/"+s, "Compact changes the weight table: "+what)
		}
		if s, what := compareTables(t2, t1, cs.Tag); s != "" {
			viol("compact/idempotence/"+s, "compacting twice differs from compacting once: "+what)
		}
		if d := firstHeaderDiff(headerTokens(c2), headerTokens(c1)); d != "" {
			viol("compact/idempotence/header/"+d, "compacting twice changes header field "+d)
		}
		if len(c1.Sample) != len(c2.Sample) || len(c1.Location) != len(c2.Location) || len(c1.Function) != len(c2.Function) || len(c1.Mapping) != len(c2.Mapping) {
			viol("compact/idempotence/table-sizes", "the second Compact still adds or removes table entries")
		}
		if Canon(c1) == Canon(c2) {
			c.Res.Hit("compact-twice-identical")
		} else {
			c.Res.Hit("compact-twice-differs-in-ids-or-order")
		}
	}
	return nontrivial
}

// c03Outside: inputs outside the property's quantifier (a nil PeriodType cannot be compared);
// only the outcome class of model and code is compared (never a violation).
func c03Outside(c *Ctx, cs c03Case) {
	ps := parseAll(c, cs.Profiles)
	if ps == nil {
		return
	}
	run := runMerge(ps, false)
	goClass := "ok"
	if run.panic_ != "" {
		goClass = "panic"
	} else if run.err != nil {
		goClass = "err"
	}
	c.Res.ModelCompared++
	m := c3firstWord(c.Drv.Ask("merge.model " + joinProfiles(cs.Profiles)))
	c.Res.Hit("outside-quantifier:" + goClass)
	if m != goClass {
		c.Disagree("C03/model/outcome-class/outside/"+goClass+"-vs-"+m, "model and code disagree on the outcome class for a nil PeriodType: go="+goClass+" model="+m, c03Corr, cs)
	}
}

func sortedWords(s string) string {
	w := strings.Fields(s)
	sort.Strings(w)
	// set semantics
	var out []string
	for i, x := range w {
		if i == 0 || x != w[i-1] {
			out = append(out, x)
		}
	}
	return strings.Join(out, " ")
}

// distinctInputStacks: keys over all inputs (Spec tables of the single inputs).
func distinctInputStacks(c *Ctx, cs c03Case) map[string]bool {
	keys := map[string]bool{}
	for _, p := range cs.Profiles {
		if t, err := parseTable(c.Drv.Ask("merge.abs " + p)); err == nil {
			for _, k := range t.order {
				if !t.rows[k].allZero() {
					keys[k] = true
				}
			}
		}
	}
	return keys
}

func mkCase(r *Rng, g c03Gen) c03Case {
	cs := c03Case{Kind: g.kind, Tag: g.tag}
	for _, p := range g.profiles {
		cs.Profiles = append(cs.Profiles, Canon(p))
	}
	if len(g.profiles) > 1 {
		cs.Perm = shuffleInts(r, len(g.profiles))
	}
	// every input gets a past; the targeted streams only pasts that leave the content untouched
	if strings.HasPrefix(g.kind, "family") || strings.HasPrefix(g.kind, "cancel") || strings.HasPrefix(g.kind, "header-grid") || g.kind == "compact" {
		if r.Chance(60) {
			cs.Pasts = randPasts(r, len(g.profiles), c03Pasts)
		}
	} else if r.Chance(30) {
		cs.Pasts = randPasts(r, len(g.profiles), c03QuietPasts)
	}
	return cs
}

func runC03(c *Ctx) {
	c.Res.Rule = "cases = lists of 1..4 valid compatible profiles: (a) random families over a shared universe of entities (variants: renumbered/colliding ids, re-mapped binaries, negated/zeroed values, one-attribute tweaks, shuffled tables, self-duplicates), (b) enumerated near-duplicate pairs — for every field of Function/Line/Location/Mapping/labels two variants of that one field (original, empty/zero, equal to a sibling field such as SystemName=Name or BuildID=File, equal to the other entity's value, near miss), all pairs in both orders, plus hand-written pairs: one attribute of function/line/location/mapping/label/stack changed — in three placements (two inputs with colliding ids, one input, two inputs with ASLR) x two value signs, (c) label soups over tiny byte/number alphabets and digit soups (inline chains whose line/column numbers share hex digits) — inputs on which an encoding that loses a field boundary collides; segmentation soups: every way of reading one word of small numbers as an inline chain (lines taking 3, 2 or 1 numbers, merged function ids pinned to 1..5) or as stack ids | string label | numeric label | units, within one profile and across inputs, (d) header grids, (e) cancelling inputs (re-merge path), (f) incompatible inputs, (g) families of 2-4 files merged by the pprof binary (pprof -proto a b ...; profiles for which parsing, symbolization, demangling and frame pruning are the identity: mappings with HasFunctions, plain function names, no drop/keep frames, inputs fixed points of Write/Parse); non-trivial = the real Merge hit a memo table (result has fewer samples or locations than the non-zero inputs put in); distinct by canonical text of the inputs"
	if c.Replay != "" {
		var cs c03Case
		if err := c.LoadReplay(&cs); err != nil {
			c.Res.HarnessError = err.Error()
			return
		}
		if cs.Kind == "outside/nil-period-type" {
			c03Outside(c, cs)
		} else if strings.HasPrefix(cs.Kind, "cli/") {
			c03CLIEval(c, cs, c03CLIExec(c, cs, 0))
		} else {
			c03Check(c, cs, true)
		}
		c.Res.Evaluations++
		return
	}
	if v := c.Drv.Ask("merge.valid " + Canon(ndBase())); v != "1" {
		c.Res.HarnessError = "driver does not answer merge.valid: " + v
		return
	}
	r := NewRng(c.Seed).Fork() // Fork: consecutive seeds of NewRng are shifted copies of one stream
	one := func(g c03Gen, full bool) {
		cs := mkCase(r, g)
		// generators must stay inside the property's quantifier: valid profiles
		for _, p := range g.profiles {
			if err := checkValidClosed(p); err != nil {
				c.Res.HarnessError = "generator produced an invalid profile: " + err.Error()
				return
			}
		}
		nf := len(c.Res.Findings)
		nt := c03Check(c, cs, full)
		if len(c.Res.Findings) > nf && strings.HasPrefix(g.kind, "family") || strings.HasPrefix(g.kind, "cancel") && len(c.Res.Findings) > nf {
			c03ShrinkNew(c, nf, cs)
		}
		c.Res.Count(strings.Join(cs.Profiles, "|"), nt)
		c.Res.Hit("kind:" + strings.SplitN(g.kind, "/", 2)[0])
		c.Res.Hit(fmt.Sprintf("inputs:%d", len(g.profiles)))
		if c.Res.Evaluations%97 == 1 {
			c.Res.Sample(map[string]any{"kind": g.kind, "tag": g.tag, "inputs": len(g.profiles), "first": c3trunc(cs.Profiles[0])})
		}
	}
	// (b) enumerated near-duplicates: all of them, every run
	for i := 0; i < ndCount(); i++ {
		one(genNearDup(i), i%6 == 0)
	}
	// (b') every field of every entity, one at a time: pairs of variants (original, empty/zero,
	// equal to a sibling field, equal to the other entity's, near miss), both orders, 3 placements
	for i, fc := range c03FieldCases() {
		one(genFieldCase(fc), fc.placement == 1 && i%4 == 0)
	}
	// (g) histories: every ordered pair of pasts on the same / a related profile
	for _, hc := range c03HistoryCases(r) {
		nt := c03Check(c, hc, true)
		c.Res.Count(strings.Join(hc.Profiles, "|")+strings.Join(hc.Pasts, ","), nt)
		c.Res.Hit("kind:history")
	}
	// (d) header grid
	for i := 0; i < 70; i++ {
		one(genHeaderGrid(r, i), i%5 == 0)
	}
	// (d') comments: pairs of whitespace/case variants of one text, one profile and two inputs, both orders
	for i, g := range c03CommentPairCases() {
		one(g, i%4 == 0)
	}
	// (f)
	for i := 0; i < 12; i++ {
		one(genIncompatible(r), false)
	}
	// outside the quantifier: nil PeriodType (1 profile: accepted; 2 profiles: nil dereference)
	for k := 1; k <= 3; k++ {
		var ps []string
		for j := 0; j < k; j++ {
			p := ndBase()
			if j != 1 || k == 2 {
				p.PeriodType = nil
			}
			ps = append(ps, Canon(p))
		}
		c03Outside(c, c03Case{Kind: "outside/nil-period-type", Profiles: ps})
	}
	n := 1000 * c.Scale
	for i := 0; i < n; i++ {
		ps, note := genFamily(r, i)
		one(c03Gen{kind: "family/" + c03Bases[i%len(c03Bases)].name, tag: "", profiles: ps}, i%3 == 0)
		_ = note
		if i%4 == 0 {
			one(genCancel(r, i/4), i%8 == 0)
		}
		if i%2 == 0 {
			one(genLabelSoup(r), false)
		}
		if i%4 == 1 {
			one(genDigitSoup(r), false)
		}
		if i%8 == 2 { // ambiguous concatenation: every segmentation of a word as inline chains / as sample-key parts
			one(genLineSegSoup(r, i%16 == 2), i%32 == 2)
		}
		if i%8 == 6 {
			one(genKeySegSoup(r, i%16 == 6), i%32 == 6)
		}
		if i%10 == 0 { // Compact of a single profile (with garbage: unreferenced entities)
			g := GenProfile(r, &c03Bases[i%len(c03Bases)].o)
			selfDuplicate(r, g)
			cs := mkCase(r, c03Gen{kind: "compact", profiles: []*profile.Profile{g}})
			cs.Compact = true
			nt := c03Check(c, cs, true)
			c.Res.Count(cs.Profiles[0], nt)
			c.Res.Hit("kind:compact")
		}
	}
	// (g) the same oracle at the command line: pprof -proto a b … > out, one process per case
	c03CLIStream(c, r.Fork(), 160*c.Scale)
	// the aliasing verdict must not be vacuous for any field kind
	for _, k := range c03AliasSurface {
		if c.Res.Dist["alias-surface:"+k] == 0 && c.Res.HarnessError == "" {
			c.Res.HarnessError = "no generated case had memory cells of kind " + k + " both in an input and in the result: the aliasing check never looked at that field"
		}
	}
}
