//go:build verif

package main

import (
	"bytes"
	"crypto/sha256"
	"encoding/hex"
	"fmt"
	"io"
	"net/http"
	"net/http/httptest"
	"net/url"
	"os"
	"path/filepath"
	"regexp"
	"runtime"
	"runtime/debug"
	"strconv"
	"strings"
	"sync"
	"time"

	"github.com/google/pprof/internal/driver"
	"github.com/google/pprof/internal/plugin"
	"github.com/google/pprof/profile"
)

// ---- plug-ins: flag set, fetcher, symbolizer, object tool, UI (all through the public plug-in API) ----

type c10Flags struct {
	set   map[string]string
	extra []string
}

func (f *c10Flags) Bool(n string, d bool, _ string) *bool {
	if v, ok := f.set[n]; ok {
		d = v == "true"
	}
	return &d
}
func (f *c10Flags) Int(n string, d int, _ string) *int {
	if v, ok := f.set[n]; ok {
		if i, err := strconv.Atoi(v); err == nil {
			d = i
		}
	}
	return &d
}
func (f *c10Flags) Float64(n string, d float64, _ string) *float64 {
	if v, ok := f.set[n]; ok {
		if x, err := strconv.ParseFloat(v, 64); err == nil {
			d = x
		}
	}
	return &d
}
func (f *c10Flags) String(n, d, _ string) *string {
	if v, ok := f.set[n]; ok {
		d = v
	}
	return &d
}
func (f *c10Flags) StringList(n, d, _ string) *[]*string { return &[]*string{} }
func (f *c10Flags) ExtraUsage() string                   { return strings.Join(f.extra, "\n") }
func (f *c10Flags) AddExtraUsage(eu string)              { f.extra = append(f.extra, eu) }
func (f *c10Flags) Parse(func()) []string                { return []string{"c10-profile"} }

type c10Fetcher struct{ p *profile.Profile }

func (f c10Fetcher) Fetch(string, time.Duration, time.Duration) (*profile.Profile, string, error) {
	return f.p, "c10-profile", nil
}

type c10Sym struct{}

func (c10Sym) Symbolize(string, plugin.MappingSources, *profile.Profile) error { return nil }

type c10UI struct {
	mu  sync.Mutex
	log []string
}

func (u *c10UI) ReadLine(string) (string, error) { return "", io.EOF }
func (u *c10UI) Print(a ...interface{}) {
	u.mu.Lock()
	u.log = append(u.log, fmt.Sprint(a...))
	u.mu.Unlock()
}
func (u *c10UI) PrintErr(a ...interface{})           { u.Print(a...) }
func (u *c10UI) IsTerminal() bool                    { return false }
func (u *c10UI) WantBrowser() bool                   { return false }
func (u *c10UI) SetAutoComplete(func(string) string) {}

// a deterministic fake object tool: every function of the profile occupies 0x100 bytes of its mapping
// (the layout c10GenProfile uses), one instruction every 0x10 bytes.
type c10ObjTool struct{ p *profile.Profile }

type c10ObjFile struct {
	p    *profile.Profile
	name string
	base uint64
}

func (o c10ObjTool) Open(file string, start, limit, offset uint64, _ string) (plugin.ObjFile, error) {
	for _, m := range o.p.Mapping {
		if m.File == file {
			return c10ObjFile{p: o.p, name: file, base: m.Start}, nil
		}
	}
	return nil, fmt.Errorf("no such object %s", file)
}

func (o c10ObjTool) Disasm(file string, start, end uint64, intel bool) ([]plugin.Inst, error) {
	var out []plugin.Inst
	for a := start &^ 0xf; a < end && len(out) < 64; a += 0x10 {
		txt := fmt.Sprintf("mov %%r%d,%%rax", (a>>4)%8)
		if intel {
			txt = fmt.Sprintf("mov rax,r%d", (a>>4)%8)
		}
		out = append(out, plugin.Inst{Addr: a, Text: txt, Line: int(a>>4) % 50})
	}
	return out, nil
}

func (f c10ObjFile) Name() string                        { return f.name }
func (f c10ObjFile) ObjAddr(addr uint64) (uint64, error) { return addr, nil }
func (f c10ObjFile) BuildID() string                     { return "" }
func (f c10ObjFile) SourceLine(uint64) ([]plugin.Frame, error) {
	return nil, fmt.Errorf("no source line")
}
func (f c10ObjFile) Close() error { return nil }
func (f c10ObjFile) Symbols(r *regexp.Regexp, addr uint64) ([]*plugin.Sym, error) {
	var out []*plugin.Sym
	for i, fn := range f.p.Function {
		s := f.base + uint64(0x100*i)
		if r != nil && !r.MatchString(fn.Name) {
			continue
		}
		if addr != 0 && (addr < s || addr >= s+0x100) {
			continue
		}
		out = append(out, &plugin.Sym{Name: []string{fn.Name}, File: f.name, Start: s, End: s + 0x100})
	}
	return out, nil
}

// c10Server starts the web UI of the real code on p and returns its handlers (HTTPServer hook).
func c10Server(p *profile.Profile, flags map[string]string) (map[string]http.Handler, *c10UI, error) {
	ui := &c10UI{}
	var handlers map[string]http.Handler
	set := map[string]string{"http": "localhost:0", "symbolize": "none", "no_browser": "true"}
	for k, v := range flags {
		set[k] = v
	}
	var obj plugin.ObjTool = c10ObjTool{p}
	if c10RealObj {
		obj = nil // the driver's default: binutils.Binutils with the tools found on PATH
	}
	err := driver.PProf(&plugin.Options{
		Flagset: &c10Flags{set: set},
		Fetch:   c10Fetcher{p},
		Sym:     c10Sym{},
		Obj:     obj,
		UI:      ui,
		HTTPServer: func(a *plugin.HTTPServerArgs) error {
			handlers = a.Handlers
			return nil
		},
	})
	if err != nil {
		return nil, ui, err
	}
	if handlers == nil {
		return nil, ui, fmt.Errorf("HTTPServer hook was not called")
	}
	return handlers, ui, nil
}

type c10Resp struct {
	Status int
	Body   string
}

func c10Get(h map[string]http.Handler, target string) (r c10Resp) {
	u, err := url.Parse(target)
	if err != nil {
		return c10Resp{Status: -1, Body: err.Error()}
	}
	hd := h[u.Path]
	if hd == nil {
		return c10Resp{Status: 404}
	}
	rec := httptest.NewRecorder()
	if pn := c10Safely(func() { hd.ServeHTTP(rec, httptest.NewRequest("GET", target, nil)) }); pn != "" {
		return c10Resp{Status: -2, Body: "panic: " + pn}
	}
	return c10Resp{Status: rec.Code, Body: c10NormBody(rec.Body.String())}
}

// c10NormBody removes what is not part of the property's observation from a page: the scratch directory
// of the source trees, and the saved-configuration menu + name list (they legitimately list what
// /saveconfig stored — that is C19's subject; what the REPORT shows must not depend on it).
var c10MenuRE = regexp.MustCompile(`(?s)<div id="config" class="menu-item">.*?<div id="download" class="menu-item">`)
var c10DatalistRE = regexp.MustCompile(`(?s)<datalist id="config-list">.*?</datalist>`)

func c10NormBody(body string) string {
	if c10TreesDir != "" {
		body = strings.ReplaceAll(body, c10TreesDir, "<TREES>")
	}
	body = c10MenuRE.ReplaceAllString(body, "<CONFIG-MENU/><div id=\"download\" class=\"menu-item\">")
	return c10DatalistRE.ReplaceAllString(body, "<CONFIG-LIST/>")
}

func c10RespDiff(a, b c10Resp) string {
	if a.Status != b.Status {
		return fmt.Sprintf("status %d vs %d", a.Status, b.Status)
	}
	la, lb := strings.Split(a.Body, "\n"), strings.Split(b.Body, "\n")
	for i := 0; i < len(la) || i < len(lb); i++ {
		var x, y string
		if i < len(la) {
			x = la[i]
		}
		if i < len(lb) {
			y = lb[i]
		}
		if x != y {
			return fmt.Sprintf("first differing body line %d: %q vs fresh %q", i, c10Trunc(x), c10Trunc(y))
		}
	}
	return "equal"
}

func (r c10Resp) bag() string { return fmt.Sprintf("%d/%s", r.Status, c10TokenBag(r.Body)) }

// exact: the response byte for byte.
func (r c10Resp) exact() string {
	h := sha256.Sum256([]byte(r.Body))
	return fmt.Sprintf("E%d/%d/%s", r.Status, len(r.Body), hex.EncodeToString(h[:8]))
}

func c10Endpoint(path string) string {
	switch path {
	case "/":
		return "dot"
	case "/top", "/disasm", "/source", "/peek", "/flamegraph":
		return path[1:]
	}
	return ""
}

func c10EndpointOf(target string) string {
	if u, err := url.Parse(target); err == nil {
		if n := c10Endpoint(u.Path); n != "" {
			return n
		}
	}
	return "other"
}

// c10WebEnv: what a web child process works with. References ALWAYS come from another process (phase
// "ref"): a process-wide table filled in order of first use (colour numbers, memo tables, lazily built
// template sets) would make a reference taken earlier in the same process agree with everything that
// follows it.
type c10WebEnv struct {
	c     *Ctx
	cs    *c10Case
	parse [3]func() *profile.Profile // A (the case's profile), B (small), C (large)
	flags map[string]string
	refs  map[string]map[string]bool // "<profile index>|<url>" → token bags of fresh-process answers
	notes []string
}

func (e *c10WebEnv) key(pi int, u string) string { return fmt.Sprintf("%d|%s", pi, u) }

// check compares an answer with the fresh-process references of (profile pi, url u).
func (e *c10WebEnv) check(pi int, u string, got c10Resp, sig, what string) {
	set := e.refs[e.key(pi, u)]
	if len(set) == 0 {
		e.c.Res.HarnessError = "no fresh-process reference for " + e.key(pi, u)
		return
	}
	// the fresh answers are recorded byte for byte (E…) and with order erased (token bags). If all fresh
	// answers are byte-identical the page is deterministic and must be reproduced exactly; otherwise its
	// order varies from run to run (C08) and the token bag decides.
	exacts, bags := 0, 0
	for k := range set {
		if strings.HasPrefix(k, "E") {
			exacts++
		} else {
			bags++
		}
	}
	if set[got.exact()] || (exacts != 1 && set[got.bag()]) {
		return
	}
	name := c10EndpointOf(u)
	if exacts == 1 && set[got.bag()] {
		// same lines in another order than EVERY fresh answer: a stable order difference
	} else if bags > 1 {
		e.c.Res.Hit("C08-run-to-run-nondeterministic-output:web-" + name) // the fresh answers themselves disagree
		return
	}
	body := got.Body
	if len(body) > 160 {
		body = body[:160]
	}
	e.c.Violation(sig+"/"+name, fmt.Sprintf("%s: the response to %s (profile %c) is not the response of a fresh process serving only that request (status %d, %d bytes, starts %q)",
		what, u, 'A'+rune(pi), got.Status, len(got.Body), body), e.cs)
}

func (e *c10WebEnv) server(pi int) map[string]http.Handler {
	h, _, err := c10Server(e.parse[pi](), e.flags)
	if err != nil {
		e.c.Disagree("C10/harness/web-server", "cannot start the web UI through the plug-in API: "+err.Error(), "correspondence harness ~ web handlers", e.cs)
		return nil
	}
	return h
}

func (e *c10WebEnv) stallURLs() []string {
	urls := []string{e.cs.Request}
	seen := map[string]bool{e.cs.Request: true}
	for _, o := range e.cs.Others {
		if len(urls) < 4 && !seen[o] && c10EndpointOf(o) != "other" {
			seen[o] = true
			urls = append(urls, o)
		}
	}
	return urls
}

var c10RealObj bool // this case uses the real default ObjTool on a real ELF binary

var c10TreesDir string // scratch directory of the source trees; replaced by <TREES> in every observed body

// c10WebCase runs ONE phase of a web case in a process of its own (see c10WebRun).
func c10WebCase(c *Ctx, cs *c10Case) {
	e := &c10WebEnv{c: c, cs: cs, refs: map[string]map[string]bool{}}
	c10RealObj = cs.RealObj
	for i, hx := range []string{cs.Profile, cs.Profile2, cs.Profile3} {
		if hx == "" {
			hx = cs.Profile
		}
		b, err := hex.DecodeString(hx)
		if err != nil {
			c.Res.HarnessError = err.Error()
			return
		}
		if _, err := profile.ParseUncompressed(b); err != nil {
			c.Res.HarnessError = err.Error()
			return
		}
		e.parse[i] = func() *profile.Profile { p, _ := profile.ParseUncompressed(b); return p }
	}
	for k, vs := range cs.Refs {
		e.refs[k] = map[string]bool{}
		for _, v := range vs {
			e.refs[k][v] = true
		}
	}
	if os.Getenv("XDG_CONFIG_HOME") == "" {
		d, _ := os.MkdirTemp("", "c10cfg-")
		os.Setenv("XDG_CONFIG_HOME", d)
		defer os.RemoveAll(d)
	}
	// process options that have no URL parameter are given as command-line flags (the same for every
	// server of the case); @TREES@ is the scratch directory holding the case's source trees
	trees, _ := os.MkdirTemp("", "c10trees-")
	defer os.RemoveAll(trees)
	c10TreesDir = trees
	for name, text := range c10SourceTrees(e.parse[0]()) {
		f := filepath.Join(trees, name)
		os.MkdirAll(filepath.Dir(f), 0o755)
		os.WriteFile(f, []byte(text), 0o644)
	}
	e.flags = map[string]string{}
	for k, v := range cs.Flags {
		e.flags[k] = strings.ReplaceAll(v, "@TREES@", trees)
	}
	switch cs.Phase {
	case "ref":
		c10WebRefPhase(e)
		c.Res.Notes = append(c.Res.Notes, e.notes...)
		return
	case "seq":
		c10WebSeqPhase(e)
	case "conc":
		c10WebConcPhase(e)
	case "stall":
		c10WebStallPhase(c, cs, e.stallURLs(), e)
	case "multi":
		c10WebMultiPhase(e)
	default:
		c.Res.HarnessError = "web case without a phase reached a child process"
	}
	c.Res.Hit("web-phase:" + cs.Phase)
}

// phase "ref": the fresh-process answers. Profile A first (pristine process), each URL on servers that
// have served nothing else; then B and C, each read before the next server is created.
func c10WebRefPhase(e *c10WebEnv) {
	c, cs := e.c, e.cs
	add := func(pi int, u string, n int) c10Resp {
		var first c10Resp
		for i := 0; i < n; i++ {
			h := e.server(pi)
			if h == nil {
				return first
			}
			r := c10Get(h, u)
			if i == 0 {
				first = r
			}
			e.notes = append(e.notes, "ref\t"+e.key(pi, u)+"\t"+r.bag(), "ref\t"+e.key(pi, u)+"\t"+r.exact())
		}
		return first
	}
	ref := add(0, cs.Request, 3)
	c.Res.Hit(fmt.Sprintf("web-ref-status:%d", ref.Status))
	for _, u := range e.stallURLs()[1:] {
		add(0, u, 2)
	}
	if h := e.server(0); h != nil {
		dl := c10Get(h, "/download")
		if p, err := profile.Parse(bytes.NewReader([]byte(dl.Body))); err == nil {
			e.notes = append(e.notes, "ref\t"+e.key(0, "/download")+"\t"+c10TokenBag(Canon(p)))
		} else {
			e.notes = append(e.notes, "ref\t"+e.key(0, "/download")+"\tunparsable")
		}
	}
	for _, f := range sortedKeys(cs.Flags) {
		c.Res.Hit("web-flag:" + f)
	}
	// model: a request whose URL parameters the option table rejects is a 400
	name := c10EndpointOf(cs.Request)
	if ru, err := url.Parse(cs.Request); err == nil && name != "other" && c.Drv != nil {
		q := ru.Query()
		var ps, vals []string
		n := 0
		for _, k := range sortedKeys(q) {
			if vs := q[k]; len(vs) > 0 {
				ps = append(ps, hexTok([]byte(k))+" "+hexTok([]byte(vs[0])))
				vals = append(vals, vs[0])
				n++
			}
		}
		ans := c.Drv.Ask(fmt.Sprintf("web.view %s %s %d %s", c10FloatTab(vals), name, n, strings.Join(ps, " ")))
		c.Res.ModelCompared++
		switch {
		case ans == "bad" && ref.Status != http.StatusBadRequest:
			c.Disagree("C10/model/web-bad-request/"+name, fmt.Sprintf("model: applyURL rejects %s, real handler answers %d", cs.Request, ref.Status),
				"correspondence Session.applyURL ~ (*config).applyURL", cs)
		case !strings.HasPrefix(ans, "ok") && ans != "bad":
			c.Disagree("C10/model/web-no-answer", "model driver: "+c10Trunc(ans), "driver pvdrv-C10 web.view", cs)
		case ans == "bad":
			c.Res.Hit("web-model-bad-request")
		}
	}
	add(1, cs.Request, 2)
	add(2, cs.Request, 2)
}

func (e *c10WebEnv) checkDownload(h map[string]http.Handler) {
	dl := c10Get(h, "/download")
	got := "unparsable"
	if p, err := profile.Parse(bytes.NewReader([]byte(dl.Body))); err == nil {
		got = c10TokenBag(Canon(p))
	}
	if set := e.refs[e.key(0, "/download")]; len(set) > 0 && !set[got] {
		e.c.Violation("C10/web/download-changed", "/download after the requests differs from /download of a fresh process: the loaded profile was modified", e.cs)
	}
}

// phase "seq": a fresh process serves the other requests first and r — never served here before — last.
func c10WebSeqPhase(e *c10WebEnv) {
	h := e.server(0)
	if h == nil {
		return
	}
	for _, o := range e.cs.Others {
		rr := c10Get(h, o)
		e.c.Res.Hit(fmt.Sprintf("web-other-status:%d", rr.Status))
	}
	e.check(0, e.cs.Request, c10Get(h, e.cs.Request), "C10/web/sequence-dependent", fmt.Sprintf("after %d other requests", len(e.cs.Others)))
	e.check(0, e.cs.Request, c10Get(h, e.cs.Request), "C10/web/sequence-dependent", "asked a second time")
	e.checkDownload(h)
	e.c.Res.Hit("web-cases")
}

// phase "conc": the VERY FIRST page renders of the process are a burst of simultaneous requests (lazy
// process-wide initialisation must not be observable), then r alone, then r in the middle of the others.
func c10WebConcPhase(e *c10WebEnv) {
	// a third of the cases each with 1, 2 and all CPUs, set BEFORE the server exists; the burst below has
	// 12 ≥ 4×GOMAXPROCS simultaneous requests in the first two
	procs := []int{1, 2, 0}[len(e.cs.Others)%3]
	if e.cs.Procs != 0 {
		procs = e.cs.Procs
	}
	if procs > 0 {
		defer runtime.GOMAXPROCS(runtime.GOMAXPROCS(procs))
		e.c.Res.Hit(fmt.Sprintf("web-conc-GOMAXPROCS=%d", procs))
	}
	h := e.server(0)
	if h == nil {
		return
	}
	cs := e.cs
	urls := e.stallURLs()
	burst := append([]string{cs.Request, cs.Request}, urls...)
	for i := 0; len(burst) < 12; i++ {
		burst = append(burst, urls[i%len(urls)])
	}
	got := make([]c10Resp, len(burst))
	start := make(chan struct{})
	var wg sync.WaitGroup
	for i, u := range burst {
		wg.Add(1)
		go func(i int, u string) { defer wg.Done(); <-start; got[i] = c10Get(h, u) }(i, u)
	}
	close(start)
	wg.Wait()
	for i, u := range burst {
		e.check(0, u, got[i], "C10/web/first-burst-dependent", fmt.Sprintf("served as one of the first %d simultaneous requests of a fresh process", len(burst)))
	}
	e.check(0, cs.Request, c10Get(h, cs.Request), "C10/web/first-burst-dependent", "served alone after the process started with a burst of simultaneous requests")
	for round := 0; round < 2 && !(cs.Light && round > 0); round++ {
		var wg sync.WaitGroup
		rs := make([]c10Resp, 3)
		for i := range rs {
			wg.Add(1)
			go func(i int) { defer wg.Done(); rs[i] = c10Get(h, cs.Request) }(i)
		}
		for _, o := range cs.Others {
			wg.Add(1)
			go func(o string) { defer wg.Done(); c10Get(h, o) }(o)
		}
		wg.Wait()
		for _, g := range rs {
			e.check(0, cs.Request, g, "C10/web/concurrency-dependent", fmt.Sprintf("served concurrently with %d other requests", len(cs.Others)))
		}
	}
	e.checkDownload(h)
}

// phase "multi": several sessions over DIFFERENT profiles alive in one process; every answer of every
// session must be the fresh-process answer for that session's profile.
func c10WebMultiPhase(e *c10WebEnv) {
	r := e.cs.Request
	const sig = "C10/web/other-session-dependent"
	// one P: what a later session does to process-wide pools / scratch memory then reaches the earlier
	// session deterministically (the other phases run with all Ps)
	defer runtime.GOMAXPROCS(runtime.GOMAXPROCS(1))
	defer debug.SetGCPercent(debug.SetGCPercent(-1)) // a collection would empty sync.Pools between the sessions
	A := e.server(0)
	if A == nil {
		return
	}
	e.check(0, r, c10Get(A, r), sig, "session A alone")
	B := e.server(1)
	if B == nil {
		return
	}
	e.check(0, r, c10Get(A, r), sig, "session A after session B (smaller profile) was started in the same process")
	e.check(1, r, c10Get(B, r), sig, "session B next to session A")
	C := e.server(2)
	if C == nil {
		return
	}
	e.check(0, r, c10Get(A, r), sig, "session A after sessions B and C (larger profile) were started")
	e.check(1, r, c10Get(B, r), sig, "session B after session C was started")
	e.check(2, r, c10Get(C, r), sig, "session C next to sessions A and B")
	for i, o := range e.cs.Others { // interleaved traffic
		c10Get([]map[string]http.Handler{A, B, C}[i%3], o)
	}
	e.check(0, r, c10Get(A, r), sig, "session A after interleaved requests to A, B and C")
	e.check(1, r, c10Get(B, r), sig, "session B after interleaved requests to A, B and C")
	e.check(2, r, c10Get(C, r), sig, "session C after interleaved requests to A, B and C")
	e.checkDownload(A)
}

// ---- stall phase: responses still being WRITTEN while other requests are rendered ----

// c10StallWriter is an http.ResponseWriter of a slow client: its first Write announces itself and then
// blocks until the gate opens; only then are the bytes it was handed copied. A handler that hands out
// memory it does not own any more (a pooled buffer already returned, a shared scratch slice) shows up as
// a body that is not the page of this request.
type c10StallWriter struct {
	h       http.Header
	code    int
	body    bytes.Buffer
	entered chan struct{}
	gate    chan struct{}
	once    sync.Once
}

func (w *c10StallWriter) Header() http.Header { return w.h }
func (w *c10StallWriter) WriteHeader(code int) {
	if w.code == 0 {
		w.code = code
	}
}
func (w *c10StallWriter) Write(p []byte) (int, error) {
	w.once.Do(func() { close(w.entered) })
	select {
	case <-w.gate:
	case <-time.After(20 * time.Second):
	}
	if w.code == 0 {
		w.code = http.StatusOK
	}
	// a slow reader: the body is taken in pieces, yielding in between
	for off := 0; off < len(p); off += 16 << 10 {
		end := off + 16<<10
		if end > len(p) {
			end = len(p)
		}
		w.body.Write(p[off:end])
		runtime.Gosched()
	}
	return len(p), nil
}

func c10WebStallPhase(c *Ctx, cs *c10Case, urls []string, e *c10WebEnv) {
	procsList := []int{1, 2, runtime.NumCPU()}
	if cs.Light {
		procsList = []int{2}
	}
	for _, procs := range procsList {
		old := runtime.GOMAXPROCS(procs)
		// the server is created AFTER GOMAXPROCS is set: whatever it sizes by the CPU count (worker pools,
		// admission limits) is then smaller than the number of requests kept in flight below
		h := e.server(0)
		if h == nil {
			runtime.GOMAXPROCS(old)
			return
		}
		for _, o := range cs.Others {
			c10Get(h, o)
		}
		gate := make(chan struct{})
		type inflight struct {
			url  string
			w    *c10StallWriter
			done chan struct{}
			pn   string
		}
		var fl []*inflight
		// the stalled requests: every reference URL once, r twice (different URLs overlap each other, too)
		for _, u := range append(append([]string{}, urls...), cs.Request) {
			pu, err := url.Parse(u)
			if err != nil || h[pu.Path] == nil {
				continue
			}
			f := &inflight{url: u, w: &c10StallWriter{h: http.Header{}, entered: make(chan struct{}), gate: gate}, done: make(chan struct{})}
			fl = append(fl, f)
			go func(f *inflight, hd http.Handler) {
				defer close(f.done)
				f.pn = c10Safely(func() { hd.ServeHTTP(f.w, httptest.NewRequest("GET", f.url, nil)) })
			}(f, h[pu.Path])
			// let it reach its Write (or finish) before the next one starts: the overlap is then the same
			// whatever the scheduler does
			select {
			case <-f.w.entered:
			case <-f.done:
			case <-time.After(20 * time.Second):
			}
		}
		// traffic rendered while those responses are in flight: all the others and the reference URLs,
		// one after the other and then all at once
		traffic := append(append([]string{}, cs.Others...), urls...)
		for _, o := range traffic {
			c10Get(h, o)
		}
		var wg sync.WaitGroup
		for _, o := range traffic {
			wg.Add(1)
			go func(o string) { defer wg.Done(); c10Get(h, o) }(o)
		}
		wg.Wait()
		close(gate)
		for _, f := range fl {
			select {
			case <-f.done:
			case <-time.After(30 * time.Second):
				c.Res.HarnessError = "stall phase: handler did not finish for " + f.url
				runtime.GOMAXPROCS(old)
				return
			}
		}
		runtime.GOMAXPROCS(old)
		c.Res.Hit(fmt.Sprintf("web-stalled-responses(GOMAXPROCS=%d)", procs))
		for _, f := range fl {
			got := c10Resp{Status: f.w.code, Body: c10NormBody(f.w.body.String())}
			if f.pn != "" {
				got = c10Resp{Status: -2, Body: "panic: " + f.pn}
			}
			if len(got.Body) > 64<<10 {
				c.Res.Hit("web-stalled-body>64KiB")
			}
			e.check(0, f.url, got, "C10/web/overlap-dependent", fmt.Sprintf("still being written (slow client) while %d other requests were rendered with GOMAXPROCS=%d", 2*len(traffic), procs))
		}
	}
}
