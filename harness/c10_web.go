//go:build verif

package main

import (
	"bytes"
	"encoding/hex"
	"fmt"
	"io"
	"net/http"
	"net/http/httptest"
	"net/url"
	"os"
	"path/filepath"
	"regexp"
	"runtime"
	"strconv"
	"strings"
	"sync"
	"time"

	"github.com/google/pprof/internal/driver"
	"github.com/google/pprof/internal/plugin"
	"github.com/google/pprof/profile"
)

// ---- plug-ins: flag set, fetcher, symbolizer, object tool, UI (all through the public plug-in API) ----

type c10Flags struct {
	set   map[string]string
	extra []string
}

func (f *c10Flags) Bool(n string, d bool, _ string) *bool {
	if v, ok := f.set[n]; ok {
		d = v == "true"
	}
	return &d
}
func (f *c10Flags) Int(n string, d int, _ string) *int {
	if v, ok := f.set[n]; ok {
		if i, err := strconv.Atoi(v); err == nil {
			d = i
		}
	}
	return &d
}
func (f *c10Flags) Float64(n string, d float64, _ string) *float64 {
	if v, ok := f.set[n]; ok {
		if x, err := strconv.ParseFloat(v, 64); err == nil {
			d = x
		}
	}
	return &d
}
func (f *c10Flags) String(n, d, _ string) *string {
	if v, ok := f.set[n]; ok {
		d = v
	}
	return &d
}
func (f *c10Flags) StringList(n, d, _ string) *[]*string { return &[]*string{} }
func (f *c10Flags) ExtraUsage() string                  { return strings.Join(f.extra, "\n") }
func (f *c10Flags) AddExtraUsage(eu string)             { f.extra = append(f.extra, eu) }
func (f *c10Flags) Parse(func()) []string               { return []string{"c10-profile"} }

type c10Fetcher struct{ p *profile.Profile }

func (f c10Fetcher) Fetch(string, time.Duration, time.Duration) (*profile.Profile, string, error) {
	return f.p, "c10-profile", nil
}

type c10Sym struct{}

func (c10Sym) Symbolize(string, plugin.MappingSources, *profile.Profile) error { return nil }

type c10UI struct {
	mu  sync.Mutex
	log []string
}

func (u *c10UI) ReadLine(string) (string, error) { return "", io.EOF }
func (u *c10UI) Print(a ...interface{}) {
	u.mu.Lock()
	u.log = append(u.log, fmt.Sprint(a...))
	u.mu.Unlock()
}
func (u *c10UI) PrintErr(a ...interface{})          { u.Print(a...) }
func (u *c10UI) IsTerminal() bool                   { return false }
func (u *c10UI) WantBrowser() bool                  { return false }
func (u *c10UI) SetAutoComplete(func(string) string) {}

// a deterministic fake object tool: every function of the profile occupies 0x100 bytes of its mapping
// (the layout c10GenProfile uses), one instruction every 0x10 bytes.
type c10ObjTool struct{ p *profile.Profile }

type c10ObjFile struct {
	p    *profile.Profile
	name string
	base uint64
}

func (o c10ObjTool) Open(file string, start, limit, offset uint64, _ string) (plugin.ObjFile, error) {
	for _, m := range o.p.Mapping {
		if m.File == file {
			return c10ObjFile{p: o.p, name: file, base: m.Start}, nil
		}
	}
	return nil, fmt.Errorf("no such object %s", file)
}

func (o c10ObjTool) Disasm(file string, start, end uint64, intel bool) ([]plugin.Inst, error) {
	var out []plugin.Inst
	for a := start &^ 0xf; a < end && len(out) < 64; a += 0x10 {
		txt := fmt.Sprintf("mov %%r%d,%%rax", (a>>4)%8)
		if intel {
			txt = fmt.Sprintf("mov rax,r%d", (a>>4)%8)
		}
		out = append(out, plugin.Inst{Addr: a, Text: txt, Line: int(a>>4) % 50})
	}
	return out, nil
}

func (f c10ObjFile) Name() string                                 { return f.name }
func (f c10ObjFile) ObjAddr(addr uint64) (uint64, error)          { return addr, nil }
func (f c10ObjFile) BuildID() string                              { return "" }
func (f c10ObjFile) SourceLine(uint64) ([]plugin.Frame, error)    { return nil, fmt.Errorf("no source line") }
func (f c10ObjFile) Close() error                                 { return nil }
func (f c10ObjFile) Symbols(r *regexp.Regexp, addr uint64) ([]*plugin.Sym, error) {
	var out []*plugin.Sym
	for i, fn := range f.p.Function {
		s := f.base + uint64(0x100*i)
		if r != nil && !r.MatchString(fn.Name) {
			continue
		}
		if addr != 0 && (addr < s || addr >= s+0x100) {
			continue
		}
		out = append(out, &plugin.Sym{Name: []string{fn.Name}, File: f.name, Start: s, End: s + 0x100})
	}
	return out, nil
}

// c10Server starts the web UI of the real code on p and returns its handlers (HTTPServer hook).
func c10Server(p *profile.Profile, flags map[string]string) (map[string]http.Handler, *c10UI, error) {
	ui := &c10UI{}
	var handlers map[string]http.Handler
	set := map[string]string{"http": "localhost:0", "symbolize": "none", "no_browser": "true"}
	for k, v := range flags {
		set[k] = v
	}
	err := driver.PProf(&plugin.Options{
		Flagset: &c10Flags{set: set},
		Fetch:   c10Fetcher{p},
		Sym:     c10Sym{},
		Obj:     c10ObjTool{p},
		UI:      ui,
		HTTPServer: func(a *plugin.HTTPServerArgs) error {
			handlers = a.Handlers
			return nil
		},
	})
	if err != nil {
		return nil, ui, err
	}
	if handlers == nil {
		return nil, ui, fmt.Errorf("HTTPServer hook was not called")
	}
	return handlers, ui, nil
}

type c10Resp struct {
	Status int
	Body   string
}

func c10Get(h map[string]http.Handler, target string) (r c10Resp) {
	u, err := url.Parse(target)
	if err != nil {
		return c10Resp{Status: -1, Body: err.Error()}
	}
	hd := h[u.Path]
	if hd == nil {
		return c10Resp{Status: 404}
	}
	rec := httptest.NewRecorder()
	if pn := c10Safely(func() { hd.ServeHTTP(rec, httptest.NewRequest("GET", target, nil)) }); pn != "" {
		return c10Resp{Status: -2, Body: "panic: " + pn}
	}
	return c10Resp{Status: rec.Code, Body: rec.Body.String()}
}

func c10RespDiff(a, b c10Resp) string {
	if a.Status != b.Status {
		return fmt.Sprintf("status %d vs %d", a.Status, b.Status)
	}
	la, lb := strings.Split(a.Body, "\n"), strings.Split(b.Body, "\n")
	for i := 0; i < len(la) || i < len(lb); i++ {
		var x, y string
		if i < len(la) {
			x = la[i]
		}
		if i < len(lb) {
			y = lb[i]
		}
		if x != y {
			return fmt.Sprintf("first differing body line %d: %q vs fresh %q", i, c10Trunc(x), c10Trunc(y))
		}
	}
	return "equal"
}

func (r c10Resp) bag() string { return fmt.Sprintf("%d/%s", r.Status, c10TokenBag(r.Body)) }

// c10WebStable: a response differing from the reference counts only if it is not explained by run-to-run
// nondeterminism of the page itself (C08). R0 holds the answers of three fresh servers taken BEFORE any
// other request was served in this process (later fresh servers would share leaked process state):
// a response whose token bag is in R0 is fine; if the pristine answers themselves disagree the page is
// incomparable; otherwise the difference is a verdict.
func c10WebStable(c *Ctx, R0 map[string]bool, got c10Resp, name string) bool {
	if R0[got.bag()] {
		c.Res.Hit("C08-run-to-run-order-only-difference:web-" + name)
		return false
	}
	if len(R0) > 1 {
		c.Res.Hit("C08-run-to-run-nondeterministic-output:web-" + name)
		return false
	}
	return true
}

func c10Endpoint(path string) string {
	switch path {
	case "/":
		return "dot"
	case "/top", "/disasm", "/source", "/peek", "/flamegraph":
		return path[1:]
	}
	return ""
}

// c10WebCase runs in a process of its own (see c10WebChild): the FIRST thing the process does with
// the driver is to serve r alone on a fresh server — the reference.
func c10WebCase(c *Ctx, cs *c10Case) {
	b, err := hex.DecodeString(cs.Profile)
	if err != nil {
		c.Res.HarnessError = err.Error()
		return
	}
	parse := func() *profile.Profile {
		p, err := profile.ParseUncompressed(b)
		if err != nil {
			panic(err)
		}
		return p
	}
	if os.Getenv("XDG_CONFIG_HOME") == "" {
		d, _ := os.MkdirTemp("", "c10cfg-")
		os.Setenv("XDG_CONFIG_HOME", d)
		defer os.RemoveAll(d)
	}
	// process options that have no URL parameter are given as command-line flags (the same for every
	// server of the case); @TREES@ is the scratch directory holding the case's source trees
	trees, _ := os.MkdirTemp("", "c10trees-")
	defer os.RemoveAll(trees)
	for name, text := range c10SourceTrees(parse()) {
		f := filepath.Join(trees, name)
		os.MkdirAll(filepath.Dir(f), 0o755)
		os.WriteFile(f, []byte(text), 0o644)
	}
	flags := map[string]string{}
	for k, v := range cs.Flags {
		flags[k] = strings.ReplaceAll(v, "@TREES@", trees)
		c.Res.Hit("web-flag:" + k)
	}
	h0, _, err := c10Server(parse(), flags)
	if err != nil {
		c.Disagree("C10/harness/web-server", "cannot start the web UI through the plug-in API: "+err.Error(), "correspondence harness ~ web handlers", cs)
		return
	}
	ref := c10Get(h0, cs.Request)
	dl0 := c10Get(h0, "/download")
	R0 := map[string]bool{ref.bag(): true}
	for i := 0; i < 4; i++ {
		if h, _, err := c10Server(parse(), flags); err == nil {
			R0[c10Get(h, cs.Request).bag()] = true
		}
	}
	// references for the stall phase: r and up to three other view URLs, each from fresh servers taken now
	stallURLs := []string{cs.Request}
	stallRefs := map[string]map[string]bool{cs.Request: R0}
	if cs.Phase == "" || cs.Phase == "stall" {
		for _, o := range cs.Others {
			if len(stallURLs) >= 4 || stallRefs[o] != nil {
				continue
			}
			set := map[string]bool{}
			for i := 0; i < 3; i++ {
				if h, _, err := c10Server(parse(), flags); err == nil {
					set[c10Get(h, o).bag()] = true
				}
			}
			stallURLs = append(stallURLs, o)
			stallRefs[o] = set
		}
	}
	c.Res.Hit(fmt.Sprintf("web-ref-status:%d", ref.Status))
	ru, _ := url.Parse(cs.Request)
	name := "other"
	if ru != nil {
		name = c10Endpoint(ru.Path)
	}
	// model: a request whose URL parameters the option table rejects is a 400
	if ru != nil && name != "" && c.Drv != nil {
		q := ru.Query()
		var ps, vals []string
		n := 0
		for k, vs := range q {
			if len(vs) > 0 {
				ps = append(ps, hexTok([]byte(k))+" "+hexTok([]byte(vs[0])))
				vals = append(vals, vs[0])
				n++
			}
		}
		ans := c.Drv.Ask(fmt.Sprintf("web.view %s %s %d %s", c10FloatTab(vals), name, n, strings.Join(ps, " ")))
		c.Res.ModelCompared++
		switch {
		case ans == "bad" && ref.Status != http.StatusBadRequest:
			c.Disagree("C10/model/web-bad-request/"+name, fmt.Sprintf("model: applyURL rejects %s, real handler answers %d", cs.Request, ref.Status),
				"correspondence Session.applyURL ~ (*config).applyURL", cs)
		case !strings.HasPrefix(ans, "ok") && ans != "bad":
			c.Disagree("C10/model/web-no-answer", "model driver: "+c10Trunc(ans), "driver pvdrv-C10 web.view", cs)
		case ans == "bad":
			c.Res.Hit("web-model-bad-request")
		}
	}
	// a second server on a second decode of the same bytes: the others, then r
	h1, _, err := c10Server(parse(), flags)
	if err != nil {
		c.Disagree("C10/harness/web-server", "cannot start a second web UI: "+err.Error(), "correspondence harness ~ web handlers", cs)
		return
	}
	for _, o := range cs.Others {
		rr := c10Get(h1, o)
		c.Res.Hit(fmt.Sprintf("web-other-status:%d", rr.Status))
	}
	seq := ref
	if cs.Phase == "" || cs.Phase == "seq" {
		seq = c10Get(h1, cs.Request)
	}
	if seq != ref && c10WebStable(c, R0, seq, name) {
		c.Violation("C10/web/sequence-dependent/"+name, fmt.Sprintf("response to %s after %d other requests differs from the response of a fresh server: %s",
			cs.Request, len(cs.Others), c10RespDiff(seq, ref)), cs)
	}
	// concurrently: three copies of r in the middle of the others, twice
	for round := 0; round < 2 && (cs.Phase == "" || cs.Phase == "conc"); round++ {
		var wg sync.WaitGroup
		got := make([]c10Resp, 3)
		for i := range got {
			wg.Add(1)
			go func(i int) { defer wg.Done(); got[i] = c10Get(h1, cs.Request) }(i)
		}
		for _, o := range cs.Others {
			wg.Add(1)
			go func(o string) { defer wg.Done(); c10Get(h1, o) }(o)
		}
		wg.Wait()
		for _, g := range got {
			if g != ref && c10WebStable(c, R0, g, name) {
				c.Violation("C10/web/concurrency-dependent/"+name, fmt.Sprintf("response to %s served concurrently with %d other requests differs from the response of a fresh server: %s",
					cs.Request, len(cs.Others), c10RespDiff(g, ref)), cs)
				break
			}
		}
	}
	if cs.Phase == "" || cs.Phase == "stall" {
		c10WebStallPhase(c, cs, h1, stallURLs, stallRefs)
	}
	// the first server again (it has seen nothing but r): state shared between servers of one process
	again := c10Get(h0, cs.Request)
	if again != ref && c10WebStable(c, R0, again, name) {
		c.Violation("C10/web/process-state-dependent/"+name, "the same request on the first server differs after another server of the process served other requests: "+c10RespDiff(again, ref), cs)
	}
	// /download still serves the profile that was loaded
	dl1 := c10Get(h1, "/download")
	p0, e0 := profile.Parse(bytes.NewReader([]byte(dl0.Body)))
	p1, e1 := profile.Parse(bytes.NewReader([]byte(dl1.Body)))
	if e0 != nil || e1 != nil {
		c.Violation("C10/web/download-unparsable", fmt.Sprintf("/download does not parse: %v / %v", e0, e1), cs)
	} else if Canon(p0) != Canon(p1) {
		c.Violation("C10/web/download-changed", "/download after the requests differs from /download of a fresh server: the loaded profile was modified", cs)
	}
	c.Res.Hit("web-cases")
}


// ---- stall phase: responses still being WRITTEN while other requests are rendered ----

// c10StallWriter is an http.ResponseWriter of a slow client: its first Write announces itself and then
// blocks until the gate opens; only then are the bytes it was handed copied. A handler that hands out
// memory it does not own any more (a pooled buffer already returned, a shared scratch slice) shows up as
// a body that is not the page of this request.
type c10StallWriter struct {
	h       http.Header
	code    int
	body    bytes.Buffer
	entered chan struct{}
	gate    chan struct{}
	once    sync.Once
}

func (w *c10StallWriter) Header() http.Header { return w.h }
func (w *c10StallWriter) WriteHeader(code int) {
	if w.code == 0 {
		w.code = code
	}
}
func (w *c10StallWriter) Write(p []byte) (int, error) {
	w.once.Do(func() { close(w.entered) })
	select {
	case <-w.gate:
	case <-time.After(20 * time.Second):
	}
	if w.code == 0 {
		w.code = http.StatusOK
	}
	// a slow reader: the body is taken in pieces, yielding in between
	for off := 0; off < len(p); off += 16 << 10 {
		end := off + 16<<10
		if end > len(p) {
			end = len(p)
		}
		w.body.Write(p[off:end])
		runtime.Gosched()
	}
	return len(p), nil
}

func c10WebStallPhase(c *Ctx, cs *c10Case, h map[string]http.Handler, urls []string, refs map[string]map[string]bool) {
	procsList := []int{1, runtime.NumCPU()}
	for _, procs := range procsList {
		old := runtime.GOMAXPROCS(procs)
		gate := make(chan struct{})
		type inflight struct {
			url  string
			w    *c10StallWriter
			done chan struct{}
			pn   string
		}
		var fl []*inflight
		// the stalled requests: every reference URL once, r twice (different URLs overlap each other, too)
		for _, u := range append(append([]string{}, urls...), cs.Request) {
			pu, err := url.Parse(u)
			if err != nil || h[pu.Path] == nil {
				continue
			}
			f := &inflight{url: u, w: &c10StallWriter{h: http.Header{}, entered: make(chan struct{}), gate: gate}, done: make(chan struct{})}
			fl = append(fl, f)
			go func(f *inflight, hd http.Handler) {
				defer close(f.done)
				f.pn = c10Safely(func() { hd.ServeHTTP(f.w, httptest.NewRequest("GET", f.url, nil)) })
			}(f, h[pu.Path])
			// let it reach its Write (or finish) before the next one starts: the overlap is then the same
			// whatever the scheduler does
			select {
			case <-f.w.entered:
			case <-f.done:
			case <-time.After(20 * time.Second):
			}
		}
		// traffic rendered while those responses are in flight: all the others and the reference URLs,
		// one after the other and then all at once
		traffic := append(append([]string{}, cs.Others...), urls...)
		for _, o := range traffic {
			c10Get(h, o)
		}
		var wg sync.WaitGroup
		for _, o := range traffic {
			wg.Add(1)
			go func(o string) { defer wg.Done(); c10Get(h, o) }(o)
		}
		wg.Wait()
		close(gate)
		for _, f := range fl {
			select {
			case <-f.done:
			case <-time.After(30 * time.Second):
				c.Res.HarnessError = "stall phase: handler did not finish for " + f.url
				runtime.GOMAXPROCS(old)
				return
			}
		}
		runtime.GOMAXPROCS(old)
		c.Res.Hit(fmt.Sprintf("web-stalled-responses(GOMAXPROCS=%d)", procs))
		for _, f := range fl {
			got := c10Resp{Status: f.w.code, Body: f.w.body.String()}
			if f.pn != "" {
				got = c10Resp{Status: -2, Body: "panic: " + f.pn}
			}
			if len(got.Body) > 64<<10 {
				c.Res.Hit("web-stalled-body>64KiB")
			}
			set := refs[f.url]
			name := "other"
			if pu, err := url.Parse(f.url); err == nil {
				name = c10Endpoint(pu.Path)
			}
			if set[got.bag()] {
				continue
			}
			if len(set) > 1 {
				c.Res.Hit("C08-run-to-run-nondeterministic-output:web-" + name)
				continue
			}
			c.Violation("C10/web/overlap-dependent/"+name, fmt.Sprintf("the response to %s, still being written (slow client) while %d other requests were rendered with GOMAXPROCS=%d, is not that URL's fresh-server response (%d bytes received; first 120: %q)",
				f.url, 2*len(traffic), procs, len(got.Body), c10Trunc(got.Body[:min(len(got.Body), 120)])), cs)
		}
	}
}
