//go:build verif

package main

import (
	"fmt"
	"math"

	"github.com/google/pprof/profile"
)

// Generators for C03. Everything derives from the one Rng handed in.

func cloneP(p *profile.Profile) *profile.Profile {
	q, err := ParseCanon(Canon(p))
	if err != nil {
		panic("c03: ParseCanon(Canon(p)) failed: " + err.Error())
	}
	return q
}

// ---- random families: one base profile, k variants that overlap with it ----

var c03Bases = []struct {
	name string
	o    GenOpts
}{
	{"plain", GenOpts{Labels: true, MaxSamples: 10, MaxLocs: 6, MaxFuncs: 5, SmallValues: true}},
	{"inlined", GenOpts{Labels: false, MaxSamples: 12, MaxLocs: 5, MaxFuncs: 3, MaxLines: 4, SmallValues: true, Names: []string{"f", "g"}}},
	{"sparse-weird", GenOpts{Labels: true, SparseIDs: true, WeirdStrings: true, MaxSamples: 10, MaxLocs: 8, MaxFuncs: 6}},
	{"extreme", GenOpts{Labels: true, ExtremeValues: true, SparseIDs: true, MaxSampleTypes: 4, MaxSamples: 8, EmptyStacks: true, NoLineLocs: true}},
	{"dense-collide", GenOpts{Labels: false, MaxSamples: 16, MaxLocs: 3, MaxFuncs: 2, MaxMappings: 1, MaxDepth: 2, MaxLines: 2, SmallValues: true, Names: []string{"f"}}},
}

func (r *Rng) header(p *profile.Profile) {
	p.DropFrames = r.Pick([]string{"", "foo|bar", "runtime\\..*"})
	p.KeepFrames = r.Pick([]string{"", "main"})
	p.TimeNanos = []int64{0, 0, 5, 9, 1700000000000000000, -3, math.MaxInt64, math.MinInt64}[r.Intn(8)]
	p.DurationNanos = []int64{0, 1, 1000000000, -5, math.MaxInt64, math.MinInt64}[r.Intn(6)]
	p.Period = []int64{0, 0, 1, 7, 10000000, math.MaxInt64}[r.Intn(6)] // a sampling period is not negative
	p.Comments = nil
	for i, n := 0, r.Intn(4); i < n; i++ {
		p.Comments = append(p.Comments, r.Pick(c03Comments))
	}
	p.DocURL = r.Pick([]string{"", "", "http://x/y", "http://z"})
	p.DefaultSampleType = ""
	if len(p.SampleType) > 0 && r.Chance(50) {
		p.DefaultSampleType = p.SampleType[r.Intn(len(p.SampleType))].Type
	}
}

func shuffleInts(r *Rng, n int) []int {
	p := make([]int, n)
	for i := range p {
		p[i] = i
	}
	for i := n - 1; i > 0; i-- {
		j := r.Intn(i + 1)
		p[i], p[j] = p[j], p[i]
	}
	return p
}

// renumber gives every table fresh ids (dense but shuffled, or sparse), so that the same id
// names different entities in different inputs.
func renumber(r *Rng, p *profile.Profile) {
	sparse := r.Chance(30)
	mk := func(n int) []uint64 {
		ids := make([]uint64, n)
		perm := shuffleInts(r, n)
		used := map[uint64]bool{}
		for i := range ids {
			id := uint64(perm[i] + 1)
			if sparse && r.Chance(40) {
				id = []uint64{1 << 63, ^uint64(0), 1 << 32, uint64(n) + 1, uint64(n) + 7}[r.Intn(5)] - uint64(r.Intn(3))
			}
			for id == 0 || used[id] {
				id = r.U64()>>uint(r.Intn(60)) + 1
			}
			used[id] = true
			ids[i] = id
		}
		return ids
	}
	for i, id := range mk(len(p.Mapping)) {
		p.Mapping[i].ID = id
	}
	for i, id := range mk(len(p.Function)) {
		p.Function[i].ID = id
	}
	for i, id := range mk(len(p.Location)) {
		p.Location[i].ID = id
	}
}

func shuffleTables(r *Rng, p *profile.Profile) {
	for i, j := range shuffleInts(r, len(p.Mapping)) {
		if i < j {
			p.Mapping[i], p.Mapping[j] = p.Mapping[j], p.Mapping[i]
		}
	}
	for i, j := range shuffleInts(r, len(p.Function)) {
		if i < j {
			p.Function[i], p.Function[j] = p.Function[j], p.Function[i]
		}
	}
	for i, j := range shuffleInts(r, len(p.Location)) {
		if i < j {
			p.Location[i], p.Location[j] = p.Location[j], p.Location[i]
		}
	}
	for i, j := range shuffleInts(r, len(p.Sample)) {
		if i < j {
			p.Sample[i], p.Sample[j] = p.Sample[j], p.Sample[i]
		}
	}
}

// aslr maps a binary at a different address: same identity, all addresses move along.
func aslr(r *Rng, p *profile.Profile) {
	for _, m := range p.Mapping {
		if !r.Chance(60) {
			continue
		}
		d := []uint64{0x1000, 0x7f0000000000, ^uint64(0) - 0xfff, 0x10, 1 << 63}[r.Intn(5)]
		m.Start += d
		m.Limit += d
		for _, l := range p.Location {
			if l.Mapping == m {
				l.Address += d
			}
		}
	}
}

// tweakOne changes exactly one attribute of one entity (a near-duplicate of the base entity).
func tweakOne(r *Rng, p *profile.Profile) string {
	for try := 0; try < 8; try++ {
		switch r.Intn(16) {
		case 0:
			if len(p.Function) > 0 {
				p.Function[r.Intn(len(p.Function))].Name += "'"
				return "function.name"
			}
		case 1:
			if len(p.Function) > 0 {
				f := p.Function[r.Intn(len(p.Function))]
				switch r.Intn(4) { // relations between fields, not only fresh values
				case 0:
					f.SystemName = ""
					return "function.systemName=empty"
				case 1:
					f.SystemName = f.Name
					return "function.systemName=name"
				case 2:
					f.Filename = []string{"", f.Name, f.SystemName}[r.Intn(3)]
					return "function.filename=relation"
				}
				f.SystemName += "'"
				return "function.systemName"
			}
		case 2:
			if len(p.Function) > 0 {
				p.Function[r.Intn(len(p.Function))].Filename += "'"
				return "function.filename"
			}
		case 3:
			if len(p.Function) > 0 {
				p.Function[r.Intn(len(p.Function))].StartLine++
				return "function.startLine"
			}
		case 4, 5, 6:
			if len(p.Location) > 0 {
				l := p.Location[r.Intn(len(p.Location))]
				if len(l.Line) > 0 {
					i := r.Intn(len(l.Line))
					switch r.Intn(3) {
					case 0:
						l.Line[i].Line++
						return "line.line"
					case 1:
						l.Line[i].Column++
						return "line.column"
					default:
						l.Line[i].Function = p.Function[r.Intn(len(p.Function))]
						return "line.function"
					}
				}
			}
		case 7:
			if len(p.Location) > 0 {
				p.Location[r.Intn(len(p.Location))].Address++
				return "location.address"
			}
		case 8:
			if len(p.Location) > 0 {
				l := p.Location[r.Intn(len(p.Location))]
				l.IsFolded = !l.IsFolded
				return "location.isFolded"
			}
		case 9:
			if len(p.Location) > 0 && len(p.Mapping) > 0 {
				l := p.Location[r.Intn(len(p.Location))]
				if r.Bool() {
					l.Mapping = nil
				} else {
					l.Mapping = p.Mapping[r.Intn(len(p.Mapping))]
				}
				return "location.mapping"
			}
		case 10:
			if len(p.Mapping) > 0 {
				m := p.Mapping[r.Intn(len(p.Mapping))]
				switch r.Intn(6) {
				case 0:
					switch r.Intn(3) {
					case 0:
						m.BuildID = ""
						return "mapping.buildID=empty"
					case 1:
						m.BuildID = m.File
						return "mapping.buildID=file"
					}
					m.BuildID += "0"
					return "mapping.buildID"
				case 1:
					m.File += "x"
					return "mapping.file"
				case 2:
					m.Limit += 0x1000
					return "mapping.size"
				case 3:
					m.Offset += 0x1000
					return "mapping.offset"
				case 4:
					m.HasFunctions = !m.HasFunctions
					m.HasInlineFrames = !m.HasInlineFrames
					return "mapping.flags"
				default:
					m.Limit--
					return "mapping.limit-1"
				}
			}
		case 11, 12, 13:
			if len(p.Sample) > 0 {
				s := p.Sample[r.Intn(len(p.Sample))]
				switch r.Intn(6) {
				case 0:
					if s.Label == nil {
						s.Label = map[string][]string{}
					}
					s.Label["k"] = append(s.Label["k"], "v")
					return "label.multiplicity"
				case 1:
					if s.NumLabel == nil {
						s.NumLabel = map[string][]int64{}
					}
					s.NumLabel["n"] = append(s.NumLabel["n"], 1)
					return "numLabel.multiplicity"
				case 2:
					for k, v := range s.NumLabel {
						if len(v) > 0 {
							if s.NumUnit == nil {
								s.NumUnit = map[string][]string{}
							}
							u := make([]string, len(v))
							copy(u, s.NumUnit[k])
							u[0] += "u"
							s.NumUnit[k] = u
							return "numLabel.unit"
						}
					}
				case 3:
					for k := range s.Label {
						delete(s.Label, k)
						return "label.removed"
					}
				case 4:
					if len(s.Location) > 1 {
						s.Location = s.Location[:len(s.Location)-1]
						return "stack.depth"
					}
				default:
					if len(s.Location) > 1 {
						s.Location[0], s.Location[1] = s.Location[1], s.Location[0]
						return "stack.order"
					}
				}
			}
		}
	}
	return "none"
}

func revalue(r *Rng, p *profile.Profile, o *GenOpts) string {
	switch r.Intn(6) {
	case 0: // exact negation: everything shared with the base cancels
		for _, s := range p.Sample {
			for i := range s.Value {
				s.Value[i] = -s.Value[i] // MinInt64 negates to itself: cancels only mod 2^64
			}
		}
		return "negated"
	case 1:
		for _, s := range p.Sample {
			if r.Chance(50) {
				for i := range s.Value {
					s.Value[i] = -s.Value[i]
				}
			}
		}
		return "half-negated"
	case 2:
		for _, s := range p.Sample {
			if r.Chance(30) {
				for i := range s.Value {
					s.Value[i] = 0
				}
			}
		}
		return "some-zero"
	case 3:
		for _, s := range p.Sample {
			for i := range s.Value {
				s.Value[i] = r.value(o)
			}
		}
		return "fresh"
	case 4:
		for _, s := range p.Sample {
			i := r.Intn(len(s.Value))
			s.Value[i] = -s.Value[i]
		}
		return "one-column-negated"
	}
	return "same"
}

// genFamily: k profiles over one universe of entities.
func genFamily(r *Rng, bi int) (ps []*profile.Profile, note string) {
	b := c03Bases[bi%len(c03Bases)]
	o := b.o
	base := GenProfile(r, &o)
	if base.PeriodType == nil {
		base.PeriodType = &profile.ValueType{Type: "cpu", Unit: "nanoseconds"}
	}
	r.header(base)
	k := 1 + r.Intn(4)
	note = b.name
	ps = append(ps, base)
	for i := 1; i < k; i++ {
		var v *profile.Profile
		switch r.Intn(8) {
		case 0: // unrelated profile of the same type
			v = GenProfile(r, &o)
			v.SampleType = nil
			for _, st := range base.SampleType {
				v.SampleType = append(v.SampleType, &profile.ValueType{Type: st.Type, Unit: st.Unit})
			}
			for _, s := range v.Sample {
				for len(s.Value) < len(base.SampleType) {
					s.Value = append(s.Value, r.value(&o))
				}
				s.Value = s.Value[:len(base.SampleType)]
			}
			if len(base.SampleType) == 0 {
				v.Sample = nil
			}
			note += "+unrelated"
		default:
			v = cloneP(ps[r.Intn(len(ps))])
			if r.Chance(70) {
				renumber(r, v)
				note += "+renum"
			}
			if r.Chance(40) {
				aslr(r, v)
				note += "+aslr"
			}
			if r.Chance(60) {
				note += "+" + revalue(r, v, &o)
			}
			for t, n := 0, r.Intn(3); t < n; t++ {
				note += "+" + tweakOne(r, v)
			}
			if r.Chance(50) {
				shuffleTables(r, v)
			}
			if r.Chance(20) && len(v.Sample) > 0 {
				v.Sample = v.Sample[:r.Intn(len(v.Sample))]
			}
		}
		v.PeriodType = &profile.ValueType{Type: base.PeriodType.Type, Unit: base.PeriodType.Unit}
		r.header(v)
		ps = append(ps, v)
	}
	if r.Chance(30) { // the base itself may have near-duplicates inside
		note += "+self:" + selfDuplicate(r, ps[0])
	}
	return ps, note
}

// selfDuplicate appends to p a copy of one of its samples whose entities are fresh copies
// (new ids) with at most one attribute changed — duplicates and near-duplicates inside one input.
func selfDuplicate(r *Rng, p *profile.Profile) string {
	if len(p.Sample) == 0 {
		return "none"
	}
	q := cloneP(p)
	attr := "exact"
	if r.Chance(70) {
		attr = tweakOne(r, q)
	}
	unionInto(p, q, 0)
	return attr
}

// unionInto appends all entities of q to p under fresh ids (q is consumed).
func unionInto(p, q *profile.Profile, _ int) {
	var mx uint64
	usedM, usedF, usedL := map[uint64]bool{}, map[uint64]bool{}, map[uint64]bool{}
	for _, m := range p.Mapping {
		usedM[m.ID] = true
	}
	for _, f := range p.Function {
		usedF[f.ID] = true
	}
	for _, l := range p.Location {
		usedL[l.ID] = true
	}
	fresh := func(used map[uint64]bool) uint64 {
		for {
			mx++
			if !used[mx] {
				used[mx] = true
				return mx
			}
		}
	}
	for _, m := range q.Mapping {
		m.ID = fresh(usedM)
		p.Mapping = append(p.Mapping, m)
	}
	mx = 0
	for _, f := range q.Function {
		f.ID = fresh(usedF)
		p.Function = append(p.Function, f)
	}
	mx = 0
	for _, l := range q.Location {
		l.ID = fresh(usedL)
		p.Location = append(p.Location, l)
	}
	p.Sample = append(p.Sample, q.Sample...)
}

// ---- near-duplicate enumeration: pairs of entities differing in exactly one attribute ----

func ndBase() *profile.Profile {
	m1 := &profile.Mapping{ID: 1, Start: 0x1000, Limit: 0x3000, Offset: 0, File: "/bin/a", BuildID: "b1", HasFunctions: true}
	m2 := &profile.Mapping{ID: 2, Start: 0x10000, Limit: 0x14000, Offset: 0x2000, File: "/lib/b.so", BuildID: ""}
	f1 := &profile.Function{ID: 1, Name: "f", SystemName: "_f", Filename: "a.go", StartLine: 10}
	f2 := &profile.Function{ID: 2, Name: "g", SystemName: "_g", Filename: "b.go", StartLine: 20}
	l1 := &profile.Location{ID: 1, Mapping: m1, Address: 0x1100, Line: []profile.Line{{Function: f1, Line: 5, Column: 2}, {Function: f2, Line: 7, Column: 3}}}
	l2 := &profile.Location{ID: 2, Mapping: m2, Address: 0x10040, Line: []profile.Line{{Function: f2, Line: 9, Column: 1}}}
	s := &profile.Sample{Location: []*profile.Location{l1, l2}, Value: []int64{3, 4},
		Label: map[string][]string{"k": {"v"}}, NumLabel: map[string][]int64{"n": {7}}, NumUnit: map[string][]string{"n": {"bytes"}}}
	return &profile.Profile{
		SampleType: []*profile.ValueType{{Type: "samples", Unit: "count"}, {Type: "cpu", Unit: "ns"}},
		PeriodType: &profile.ValueType{Type: "cpu", Unit: "ns"}, Period: 1,
		Mapping: []*profile.Mapping{m1, m2}, Function: []*profile.Function{f1, f2}, Location: []*profile.Location{l1, l2},
		Sample: []*profile.Sample{s},
	}
}

type ndMut struct {
	name string
	f    func(p *profile.Profile)
}

var ndMuts = []ndMut{
	{"none", func(p *profile.Profile) {}},
	{"function.name", func(p *profile.Profile) { p.Function[0].Name = "f2" }},
	{"function.systemName", func(p *profile.Profile) { p.Function[0].SystemName = "_f2" }},
	{"function.filename", func(p *profile.Profile) { p.Function[0].Filename = "a2.go" }},
	{"function.startLine", func(p *profile.Profile) { p.Function[0].StartLine = 11 }},
	{"function(last).name", func(p *profile.Profile) { p.Function[1].Name = "g2" }},
	{"function(last).startLine", func(p *profile.Profile) { p.Function[1].StartLine = -20 }},
	{"line[0].line", func(p *profile.Profile) { p.Location[0].Line[0].Line = 6 }},
	{"line[0].column", func(p *profile.Profile) { p.Location[0].Line[0].Column = 9 }},
	{"line[last].line", func(p *profile.Profile) { p.Location[0].Line[1].Line = 8 }},
	{"line[last].column", func(p *profile.Profile) { p.Location[0].Line[1].Column = 9 }},
	{"line[0].line-negative", func(p *profile.Profile) { p.Location[0].Line[0].Line = -5 }},
	{"line[0].function", func(p *profile.Profile) { p.Location[0].Line[0].Function = p.Function[1] }},
	{"lines.truncated", func(p *profile.Profile) { p.Location[0].Line = p.Location[0].Line[:1] }},
	{"lines.swapped", func(p *profile.Profile) {
		l := p.Location[0].Line
		l[0], l[1] = l[1], l[0]
	}},
	{"lines.extra", func(p *profile.Profile) {
		p.Location[0].Line = append(p.Location[0].Line, profile.Line{Function: p.Function[0], Line: 1, Column: 1})
	}},
	{"lines.none", func(p *profile.Profile) { p.Location[0].Line = nil }},
	{"line-vs-column-swap", func(p *profile.Profile) {
		ln := &p.Location[0].Line[0]
		ln.Line, ln.Column = ln.Column, ln.Line
	}},
	{"location.address", func(p *profile.Profile) { p.Location[0].Address++ }},
	{"location.isFolded", func(p *profile.Profile) { p.Location[0].IsFolded = true }},
	{"location.mapping-nil", func(p *profile.Profile) { p.Location[0].Mapping = nil }},
	{"location.mapping-nil-reladdr", func(p *profile.Profile) { p.Location[0].Mapping = nil; p.Location[0].Address = 0x100 }},
	{"location.mapping-other", func(p *profile.Profile) { p.Location[0].Mapping = p.Mapping[1] }},
	{"mapping.buildID", func(p *profile.Profile) { p.Mapping[0].BuildID = "b2" }},
	{"mapping.file(buildID set: not identity)", func(p *profile.Profile) { p.Mapping[0].File = "/bin/other" }},
	{"mapping.file(no buildID)", func(p *profile.Profile) { p.Mapping[1].File = "/lib/c.so" }},
	{"mapping.buildID-vs-file", func(p *profile.Profile) { p.Mapping[1].BuildID = "/lib/b.so"; p.Mapping[1].File = "zzz" }},
	{"mapping.size+4K", func(p *profile.Profile) { p.Mapping[0].Limit += 0x1000 }},
	{"mapping.size+1", func(p *profile.Profile) { p.Mapping[0].Limit++ }},
	{"mapping.size-1(same 4K)", func(p *profile.Profile) { p.Mapping[0].Limit-- }},
	{"mapping.offset", func(p *profile.Profile) { p.Mapping[0].Offset = 0x1000 }},
	{"mapping.aslr(not identity)", func(p *profile.Profile) {
		p.Mapping[0].Start += 0x7000
		p.Mapping[0].Limit += 0x7000
		p.Location[0].Address += 0x7000
	}},
	{"mapping.aslr-huge(not identity)", func(p *profile.Profile) {
		d := uint64(1)<<63 + 0x5000
		p.Mapping[1].Start += d
		p.Mapping[1].Limit += d
		p.Location[1].Address += d
	}},
	{"mapping.start-only", func(p *profile.Profile) { p.Mapping[0].Start += 0x10; p.Mapping[0].Limit += 0x10 }},
	{"mapping.flags(not identity)", func(p *profile.Profile) {
		p.Mapping[0].HasFunctions = false
		p.Mapping[0].HasFilenames = true
		p.Mapping[0].HasLineNumbers = true
		p.Mapping[0].HasInlineFrames = true
	}},
	{"label.value", func(p *profile.Profile) { p.Sample[0].Label["k"] = []string{"w"} }},
	{"label.key", func(p *profile.Profile) { p.Sample[0].Label = map[string][]string{"k2": {"v"}} }},
	{"label.multiplicity", func(p *profile.Profile) { p.Sample[0].Label["k"] = []string{"v", "v"} }},
	{"label.value-order", func(p *profile.Profile) { p.Sample[0].Label["k"] = []string{"v", "w"} }},
	{"label.value-empty-list", func(p *profile.Profile) { p.Sample[0].Label["k"] = nil }},
	{"label.extra-key", func(p *profile.Profile) { p.Sample[0].Label["j"] = []string{"v"} }},
	{"label.removed", func(p *profile.Profile) { p.Sample[0].Label = nil }},
	{"label.split-kv", func(p *profile.Profile) { p.Sample[0].Label = map[string][]string{"k\x01v": {}} }},
	{"numLabel.value", func(p *profile.Profile) { p.Sample[0].NumLabel["n"] = []int64{8} }},
	{"numLabel.value-negative", func(p *profile.Profile) { p.Sample[0].NumLabel["n"] = []int64{-7} }},
	{"numLabel.multiplicity", func(p *profile.Profile) {
		p.Sample[0].NumLabel["n"] = []int64{7, 7}
		p.Sample[0].NumUnit["n"] = []string{"bytes", "bytes"}
	}},
	{"numLabel.unit", func(p *profile.Profile) { p.Sample[0].NumUnit["n"] = []string{"ms"} }},
	{"numLabel.unit-removed", func(p *profile.Profile) { p.Sample[0].NumUnit = nil }},
	{"numLabel.unit-empty-string", func(p *profile.Profile) { p.Sample[0].NumUnit["n"] = []string{""} }},
	{"numLabel.key", func(p *profile.Profile) {
		p.Sample[0].NumLabel = map[string][]int64{"m": {7}}
		p.Sample[0].NumUnit = map[string][]string{"m": {"bytes"}}
	}},
	{"numLabel.removed", func(p *profile.Profile) { p.Sample[0].NumLabel = nil; p.Sample[0].NumUnit = nil }},
	{"numUnit.orphan(not identity)", func(p *profile.Profile) { p.Sample[0].NumUnit["orphan"] = []string{"x"} }},
	{"label.string-vs-numeric", func(p *profile.Profile) {
		// base becomes Label{n:[bytes…]}? no: the twin turns the numeric label n:[7] into the string label n:["\x07"]
		p.Sample[0].Label["n"] = []string{"\x07"}
		p.Sample[0].NumLabel = nil
		p.Sample[0].NumUnit = nil
	}},
	{"stack.depth", func(p *profile.Profile) { p.Sample[0].Location = p.Sample[0].Location[:1] }},
	{"stack.order", func(p *profile.Profile) {
		l := p.Sample[0].Location
		l[0], l[1] = l[1], l[0]
	}},
	{"stack.recursion", func(p *profile.Profile) { p.Sample[0].Location = append(p.Sample[0].Location, p.Sample[0].Location[0]) }},
	{"stack.empty", func(p *profile.Profile) { p.Sample[0].Location = nil }},
}

// label pairs whose concatenated encodings coincide when section or field boundaries are not
// written: (string labels, numeric labels, units) of sample A vs sample B.
type lblSpec struct {
	L map[string][]string
	N map[string][]int64
	U map[string][]string
}

var ndLabelPairs = []struct {
	name string
	a, b lblSpec
}{
	{"str[\\x00]-vs-num[1]", lblSpec{L: map[string][]string{"k": {"\x00"}}}, lblSpec{N: map[string][]int64{"k": {1}}}},
	{"str[]-vs-num[]", lblSpec{L: map[string][]string{"k": {}}}, lblSpec{N: map[string][]int64{"k": {}}}},
	{"str[a]-vs-num[1]unit[a]", lblSpec{L: map[string][]string{"k": {"\x00", "a"}}}, lblSpec{N: map[string][]int64{"k": {1}}, U: map[string][]string{"k": {"a"}}}},
	{"two-keys-vs-one", lblSpec{L: map[string][]string{"a": {}, "b": {}}}, lblSpec{L: map[string][]string{"a": {"\x01b"}}}},
	{"num[1,0]-vs-num[1]unit", lblSpec{N: map[string][]int64{"k": {1, 0}}}, lblSpec{N: map[string][]int64{"k": {1}}, U: map[string][]string{"k": {""}}}},
	{"num[0]-vs-num[]unit[]", lblSpec{N: map[string][]int64{"k": {0}}}, lblSpec{N: map[string][]int64{"k": {}}, U: map[string][]string{"k": {""}}}},
	{"empty-key-str-vs-num", lblSpec{L: map[string][]string{"": {}}}, lblSpec{N: map[string][]int64{"": {}}}},
	{"num-keys-a,b-vs-a", lblSpec{N: map[string][]int64{"a": {}, "b": {}}}, lblSpec{N: map[string][]int64{"a": {1, 0x62, 0}}}},
	{"num-2^63", lblSpec{N: map[string][]int64{"k": {math.MinInt64}}}, lblSpec{N: map[string][]int64{"k": {math.MaxInt64}}}},
	{"str-values-vs-num-key", lblSpec{L: map[string][]string{"a": {"\x01", "k", ""}}}, lblSpec{L: map[string][]string{"a": {}}, N: map[string][]int64{"k": {}}}},
	{"num[1]-vs-unit['']", lblSpec{N: map[string][]int64{"k": {1}}}, lblSpec{N: map[string][]int64{"k": {}}, U: map[string][]string{"k": {""}}}},
	{"str-value-vs-next-key", lblSpec{L: map[string][]string{"a": {"b"}, "c": {}}}, lblSpec{L: map[string][]string{"a": {}, "b": {"c"}}}},
	{"unit-vs-next-key", lblSpec{N: map[string][]int64{"a": {1}, "c": {}}, U: map[string][]string{"a": {"b"}}}, lblSpec{N: map[string][]int64{"a": {1}, "b": {99}}, U: map[string][]string{"b": {""}}}},
	{"nul-terminated-key-vs-value", lblSpec{L: map[string][]string{"a\x00\x01b": {}}}, lblSpec{L: map[string][]string{"a": {"b"}}}},
	{"nul-in-value", lblSpec{L: map[string][]string{"a": {"b\x00", ""}}}, lblSpec{L: map[string][]string{"a": {"b", "\x00"}}}},
	{"num-128-vs-[0,1]", lblSpec{N: map[string][]int64{"k": {128}}}, lblSpec{N: map[string][]int64{"k": {0, 1}}}},
}

type c03Gen struct {
	kind     string
	tag      string // attribute varied (targeted cases) — becomes part of the signature
	profiles []*profile.Profile
}

// genNearDup enumerates (mutation × placement × sign) deterministically; i selects the case.
func ndCount() int { return len(ndMuts)*6 + len(ndLabelPairs)*4 }

func genNearDup(i int) c03Gen {
	if i < len(ndMuts)*6 {
		m := ndMuts[i/6]
		placement, neg := (i%6)/2, i%2 == 1
		a, b := ndBase(), ndBase()
		m.f(b)
		b.Sample[0].Value = []int64{10, 20}
		if neg {
			b.Sample[0].Value = []int64{-3, -4}
		}
		return placePair(a, b, placement, m.name)
	}
	i -= len(ndMuts) * 6
	lp := ndLabelPairs[i/4]
	placement, neg := (i%4)/2, i%2 == 1
	a, b := ndBase(), ndBase()
	a.Sample[0].Label, a.Sample[0].NumLabel, a.Sample[0].NumUnit = lp.a.L, lp.a.N, lp.a.U
	b.Sample[0].Label, b.Sample[0].NumLabel, b.Sample[0].NumUnit = lp.b.L, lp.b.N, lp.b.U
	b.Sample[0].Value = []int64{10, 20}
	if neg {
		b.Sample[0].Value = []int64{-3, -4}
	}
	return placePair(a, b, placement, "labels:"+lp.name)
}

// placement 0: two inputs with colliding ids; 1: one input holding both (fresh ids);
// 2: two inputs, the second with its binaries mapped elsewhere and ids renumbered.
func placePair(a, b *profile.Profile, placement int, tag string) c03Gen {
	switch placement {
	case 0:
		return c03Gen{kind: "neardup/cross-colliding-ids", tag: tag, profiles: []*profile.Profile{a, b}}
	case 1:
		unionInto(a, b, 0)
		return c03Gen{kind: "neardup/same-profile", tag: tag, profiles: []*profile.Profile{a}}
	default:
		for _, m := range b.Mapping {
			d := uint64(0x7f00_0000_0000)
			m.Start += d
			m.Limit += d
			for _, l := range b.Location {
				if l.Mapping == m {
					l.Address += d
				}
			}
			m.ID += 40
		}
		for _, l := range b.Location {
			l.ID = 3 - l.ID // swap ids 1 and 2
		}
		return c03Gen{kind: "neardup/cross-aslr", tag: tag, profiles: []*profile.Profile{a, b}}
	}
}

// ---- label soups: identical stacks, labels from tiny alphabets ----

func genLabelSoup(r *Rng) c03Gen {
	p := ndBase()
	p.Sample = nil
	strs := []string{"", "\x00", "\x01", "\x02", "k", "\x01k", "\x00\x01", "\x01\x00"}
	nums := []int64{0, 1, 2, 107}
	n := 6 + r.Intn(14)
	for i := 0; i < n; i++ {
		s := &profile.Sample{Location: []*profile.Location{p.Location[1]}, Value: []int64{int64(1 + r.Intn(9)), int64(r.Intn(3))}}
		if r.Chance(70) {
			s.Label = map[string][]string{}
			for j, m := 0, r.Intn(3); j < m; j++ {
				var vs []string
				for a, b := 0, r.Intn(4); a < b; a++ {
					vs = append(vs, r.Pick(strs))
				}
				s.Label[r.Pick(strs)] = vs
			}
		}
		if r.Chance(70) {
			s.NumLabel = map[string][]int64{}
			s.NumUnit = map[string][]string{}
			for j, m := 0, r.Intn(3); j < m; j++ {
				k := r.Pick(strs)
				var vs []int64
				for a, b := 0, r.Intn(4); a < b; a++ {
					vs = append(vs, nums[r.Intn(len(nums))])
				}
				s.NumLabel[k] = vs
				if r.Chance(50) {
					us := make([]string, len(vs))
					for a := range us {
						us[a] = r.Pick(strs)
					}
					s.NumUnit[k] = us
				}
			}
		}
		p.Sample = append(p.Sample, s)
	}
	q := cloneP(p)
	shuffleTables(r, q)
	return c03Gen{kind: "label-soup", profiles: []*profile.Profile{p, q}}
}

// ---- digit soups: inline chains whose line/column numbers share hex digits ----

func genDigitSoup(r *Rng) c03Gen {
	p := ndBase()
	p.Sample = nil
	p.Location = nil
	nums := []int64{1, 0x11, 0x111, 2, 0x12, 0x21, 0x1, 0x10, 0, -1, -0x11, 0x7c, 0x2d}
	n := 8 + r.Intn(10)
	for i := 0; i < n; i++ {
		l := &profile.Location{ID: uint64(i + 1), Mapping: p.Mapping[0], Address: 0x1100}
		for j, m := 0, 1+r.Intn(2); j < m; j++ {
			l.Line = append(l.Line, profile.Line{Function: p.Function[r.Intn(2)], Line: nums[r.Intn(len(nums))], Column: nums[r.Intn(len(nums))]})
		}
		p.Location = append(p.Location, l)
		p.Sample = append(p.Sample, &profile.Sample{Location: []*profile.Location{l}, Value: []int64{int64(1 + r.Intn(9)), int64(r.Intn(3))}})
	}
	q := cloneP(p)
	renumber(r, q)
	shuffleTables(r, q)
	return c03Gen{kind: "digit-soup", profiles: []*profile.Profile{p, q}}
}

// comments: exact duplicates next to variants of ONE text that differ only in surrounding
// whitespace, case, or an inner blank, and empty vs blank-only — de-duplication must be by exact
// byte equality, whatever normalisation a set key might apply.
var c03Comments = []string{"host: a", "host: a", "host: a\n", " host: a", "host: a ", "\thost: a", "host: a\r\n", "host:  a", "Host: a", "host: a\x00",
	"", " ", "\n", "\t", "  ", "section", "  section", "c1", "c1", "c2"}

// c03CommentPairCases: every unordered pair of distinct comment variants, within one profile
// (both orders) and across two inputs (both orders).
func c03CommentPairCases() []c03Gen {
	var uniq []string
	seen := map[string]bool{}
	for _, c := range c03Comments {
		if !seen[c] {
			seen[c] = true
			uniq = append(uniq, c)
		}
	}
	var out []c03Gen
	for i := 0; i < len(uniq); i++ {
		for j := i + 1; j < len(uniq); j++ {
			for o := 0; o < 2; o++ {
				x, y := uniq[i], uniq[j]
				if o == 1 {
					x, y = y, x
				}
				one := ndBase()
				one.Comments = []string{x, y, x}
				out = append(out, c03Gen{kind: "comments/same-profile", tag: fmt.Sprintf("%q|%q", x, y), profiles: []*profile.Profile{one}})
				a, b := ndBase(), ndBase()
				a.Comments, b.Comments = []string{x}, []string{y, x}
				b.Sample[0].Value = []int64{10, 20}
				out = append(out, c03Gen{kind: "comments/cross-inputs", tag: fmt.Sprintf("%q|%q", x, y), profiles: []*profile.Profile{a, b}})
			}
		}
	}
	return out
}

// ---- header grid ----

func genHeaderGrid(r *Rng, i int) c03Gen {
	times := [][]int64{{5, 0, 9}, {0, 0, 0}, {0, 7}, {9, 5}, {5, 9, 0}, {0, 5, 0, 3}, {-3, 0, 4}, {math.MaxInt64, 0, 1}, {4}, {0}}
	periods := [][]int64{{0, 7, 3}, {7, 0}, {3, 3}, {0, 0}, {1, math.MaxInt64, 2}, {9, 8, 7}, {5}}
	ts := times[i%len(times)]
	pds := periods[(i/len(times))%len(periods)]
	k := len(ts)
	var ps []*profile.Profile
	for j := 0; j < k; j++ {
		p := ndBase()
		p.Sample[0].Value = []int64{int64(j + 1), 1}
		p.TimeNanos = ts[j]
		p.Period = pds[j%len(pds)]
		p.DurationNanos = []int64{0, 1, 10, math.MaxInt64, -4}[r.Intn(5)]
		for a, n := 0, r.Intn(4); a < n; a++ {
			p.Comments = append(p.Comments, r.Pick(c03Comments))
		}
		p.DefaultSampleType = r.Pick([]string{"", "", "samples", "cpu"})
		p.DocURL = r.Pick([]string{"", "", "http://a", "http://b"})
		p.DropFrames = r.Pick([]string{"", "d1", "d2"})
		p.KeepFrames = r.Pick([]string{"", "k1", "k2"})
		ps = append(ps, p)
	}
	return c03Gen{kind: "header-grid", tag: fmt.Sprintf("times=%v", ts), profiles: ps}
}

// ---- incompatible inputs ----

func genIncompatible(r *Rng) c03Gen {
	a, b := ndBase(), ndBase()
	what := ""
	switch r.Intn(6) {
	case 0:
		b.SampleType[1].Unit = "ms"
		what = "sampleType.unit"
	case 1:
		b.SampleType[0].Type = "objects"
		what = "sampleType.type"
	case 2:
		b.SampleType = b.SampleType[:1]
		b.Sample[0].Value = b.Sample[0].Value[:1]
		what = "sampleType.count"
	case 3:
		b.PeriodType.Type = "wall"
		what = "periodType.type"
	case 4:
		b.PeriodType.Unit = "s"
		what = "periodType.unit"
	default:
		b.SampleType[0], b.SampleType[1] = b.SampleType[1], b.SampleType[0]
		what = "sampleType.order"
	}
	ps := []*profile.Profile{a, b}
	if r.Bool() {
		ps = []*profile.Profile{a, ndBase(), b}
	}
	return c03Gen{kind: "incompatible", tag: what, profiles: ps}
}

// ---- cancellation: re-merge path ----

func genCancel(r *Rng, bi int) c03Gen {
	o := c03Bases[bi%len(c03Bases)].o
	base := GenProfile(r, &o)
	if base.PeriodType == nil {
		base.PeriodType = &profile.ValueType{Type: "cpu", Unit: "ns"}
	}
	neg := cloneP(base)
	for _, s := range neg.Sample {
		for i := range s.Value {
			s.Value[i] = -s.Value[i]
		}
	}
	renumber(r, neg)
	shuffleTables(r, neg)
	ps := []*profile.Profile{base, neg}
	if r.Chance(50) { // a third one so that something survives
		extra := cloneP(base)
		for _, s := range extra.Sample {
			if r.Chance(50) {
				for i := range s.Value {
					s.Value[i] = 0
				}
			}
		}
		aslr(r, extra)
		ps = append(ps, extra)
	}
	if r.Chance(30) { // wrap-around cancellation: MinInt64 + MinInt64 = 0 in int64
		for _, p := range ps[:2] {
			if len(p.Sample) > 0 {
				for i := range p.Sample[0].Value {
					p.Sample[0].Value[i] = math.MinInt64
				}
			}
		}
	}
	perm := shuffleInts(r, len(ps))
	out := make([]*profile.Profile, len(ps))
	for i, j := range perm {
		out[i] = ps[j]
	}
	return c03Gen{kind: "cancel", profiles: out}
}
