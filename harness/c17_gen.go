//go:build verif

package main

import (
	"regexp"
	"strings"

	"github.com/google/pprof/profile"
)

var c17Grans = []string{"raw", "raw", "", "functions", "filefunctions", "files", "lines", "addresses"}
var c17WebGrans = []string{"", "", "functions", "filefunctions", "files", "lines", "addresses"}

// c17Gen: one generated case. Small alphabets make recursion, shared sources, equal names in
// different files and inlined/non-inlined copies of one function frequent.
func c17Gen(r *Rng, mode string, n int) c17Case {
	seq := mode == "webseq" // a sequence of requests on one server, differing in one URL parameter
	if seq {
		mode = "web"
	}
	o := &GenOpts{
		MaxSampleTypes: 3,
		MaxFuncs:       7,
		MaxMappings:    2,
		MaxLocs:        8,
		MaxLines:       1 + r.Intn(3),
		MaxSamples:     12,
		MaxDepth:       10,
		EmptyStacks:    true,
		NoLineLocs:     true,
		SmallValues:    r.Chance(50),
		Names:          []string{"f", "g", "main", "pkg.h", "a/b.c"}[:2+r.Intn(4)],
	}
	if mode == "direct" && r.Chance(20) {
		o.WeirdStrings = true // "", non-UTF-8, metacharacters: the name=="" branch and byte fidelity
	}
	wantEmpty := r.Chance(4) // no samples at all: the empty arrays must still be non-nil
	p := GenProfile(r, o)
	for try := 0; try < 8 && len(p.Sample) == 0 && !wantEmpty; try++ {
		p = GenProfile(r, o)
	}
	if wantEmpty {
		p.Sample = nil
	}
	if mode == "web" {
		// the driver regroups sample types by name when fetching: keep them distinct
		for i, st := range p.SampleType {
			st.Type = st.Type + "_" + string(rune('a'+i))
		}
	}
	adversarial := r.Chance(45)
	if adversarial {
		c17AdversarialTypes(r, p, mode == "web")
	}
	if r.Chance(15) { // DefaultSampleType: an existing name, a case variant, or nothing that exists
		switch r.Intn(3) {
		case 0:
			p.DefaultSampleType = p.SampleType[r.Intn(len(p.SampleType))].Type
		case 1:
			p.DefaultSampleType = strings.ToUpper(p.SampleType[r.Intn(len(p.SampleType))].Type)
		default:
			p.DefaultSampleType = "nosuchtype"
		}
	}
	// file-name strategies: built-in trim prefixes, equal names in different files
	files := []string{"/proc/self/cwd/x.go", "/proc/self/cwd/./y.go", "/proc/self/cwd", "a.go", "b.go", "dir/a.go", ""}
	for _, f := range p.Function {
		if r.Chance(40) {
			f.Filename = files[r.Intn(len(files))]
		}
		if mode == "direct" && r.Chance(4) {
			f.Name = ""
		}
	}
	// length / separator strategies for every string that feeds a derived or array-valued field
	// (FullName, FileName, Display alternatives, colour key): 0, 1, around 1024, 4096, 65536 bytes;
	// without separators, with separators, only separators, separators only far from the end,
	// non-UTF-8 (direct mode)
	if r.Chance(8) {
		for i, k := 0, 1+r.Intn(3); i < k; i++ {
			f := p.Function[r.Intn(len(p.Function))]
			switch r.Intn(3) {
			case 0:
				f.Name = c17LenString(r, mode)
			case 1:
				f.Filename = c17LenString(r, mode)
			default:
				f.Name, f.Filename = c17LenString(r, mode), c17LenString(r, mode)
			}
			f.SystemName = f.Name
		}
	}
	// inline-chain strategy: the same function twice in a row inside one location (a function
	// inlined into itself, recursion that was inlined) — with equal or different line numbers, so
	// that the entries become identical once a granularity drops the line numbers
	for _, l := range p.Location {
		if len(l.Line) > 0 && r.Chance(25) {
			j := r.Intn(len(l.Line))
			dup := l.Line[j]
			if r.Bool() {
				dup.Line = int64(r.Intn(200))
			}
			l.Line = append(l.Line[:j+1], append([]profile.Line{dup}, l.Line[j+1:]...)...)
			if r.Chance(30) { // three in a row
				l.Line = append(l.Line[:j+1], append([]profile.Line{dup}, l.Line[j+1:]...)...)
			}
		}
	}
	if seq {
		for len(p.SampleType) < 2 { // the selected sample type is one of the parameters that change
			p.SampleType = append(p.SampleType, &profile.ValueType{Type: "extra", Unit: "count"})
			for _, s := range p.Sample {
				s.Value = append(s.Value, int64(r.Intn(1000))-300)
			}
		}
		for _, s := range p.Sample { // labels for tagfocus/tagignore
			if s.Label == nil && r.Chance(70) {
				s.Label = map[string][]string{"k": {[]string{"v", "w"}[r.Intn(2)]}}
			}
		}
	}
	// recursion strategy: repeat a location of the stack (directly or mutually)
	for _, s := range p.Sample {
		if len(s.Location) > 0 && r.Chance(35) {
			k := 1 + r.Intn(3)
			for i := 0; i < k; i++ {
				s.Location = append(s.Location, s.Location[r.Intn(len(s.Location))])
			}
		}
	}
	// diff-base labels now and then (report total only)
	if r.Chance(10) {
		for _, s := range p.Sample {
			if r.Chance(50) {
				s.Label = map[string][]string{"pprof::base": {"true"}}
			}
		}
	}
	// the header fields below would make the driver drop frames before Stacks() sees them
	p.DropFrames, p.KeepFrames = "", ""
	// homonym strategy: functions with the same name on the same line in different files, and
	// functions with the same name AND file but different ids/start lines (one source, several ids)
	if r.Chance(30) {
		lines := []int64{10, 10, 20, 0}
		cols := []int64{0, 0, 1}
		for _, l := range p.Location {
			for i := range l.Line {
				l.Line[i].Line = lines[r.Intn(len(lines))]
				l.Line[i].Column = cols[r.Intn(len(cols))]
			}
		}
		var maxID uint64
		for _, f := range p.Function {
			if f.ID > maxID {
				maxID = f.ID
			}
		}
		for k, n := 0, 1+r.Intn(3); k < n && maxID < 1<<62; k++ {
			src := p.Function[r.Intn(len(p.Function))]
			maxID++
			twin := &profile.Function{ID: maxID, Name: src.Name, SystemName: src.SystemName, Filename: src.Filename, StartLine: src.StartLine + 1 + int64(r.Intn(5))}
			if r.Bool() { // same name, other file
				twin.Filename = []string{"pkg/a/a.go", "pkg/b/b.go", "other.go"}[r.Intn(3)]
			}
			p.Function = append(p.Function, twin)
			for _, l := range p.Location {
				for i := range l.Line {
					if l.Line[i].Function == src && r.Chance(50) {
						l.Line[i].Function = twin
					}
				}
			}
		}
	}
	// -trim_path / -source_path strategy: prefixes of some files, base names that occur elsewhere in
	// other files' paths, relative values, several ':'-separated entries, trailing slashes
	trimOpt, srcOpt := "", ""
	if r.Chance(22) {
		roots := []string{"/remote/build/proj", "/opt/vendor/proj", "/remote/build/projx", "/remote/build", "proj", "/home/u/src/proj/sub"}
		tails := []string{"util/x.go", "util/y.go", "a.go", "proj/inner.go", "main.go"}
		for _, f := range p.Function {
			if r.Chance(70) {
				f.Filename = roots[r.Intn(len(roots))] + "/" + tails[r.Intn(len(tails))]
			}
		}
		trims := []string{"", "/remote/build/proj", "/remote/build/proj/", "/remote/build", "/remote/build/proj:/opt/vendor", "proj", "/nonexistent:/opt/vendor/proj",
			"/remote", "/remote/build/pro", "util", "/", ":", "/opt/vendor/proj/util"}
		srcs := []string{"", "/my/local/proj", "/x/util:/y/proj", "proj", "/remote/build/proj", ".", "/", "/a/sub:", "/q/projx/", "util"}
		switch r.Intn(4) {
		case 0:
			trimOpt = trims[1+r.Intn(len(trims)-1)]
		case 1:
			srcOpt = srcs[1+r.Intn(len(srcs)-1)]
		default:
			trimOpt, srcOpt = trims[r.Intn(len(trims))], srcs[r.Intn(len(srcs))]
		}
	}
	// environment strategy: file names with a path component equal to the basename of the directory
	// the real code is started from; a second run from an unrelated directory must agree
	cwdBase, altBase := "", ""
	if !seq && r.Chance(12) {
		words := []string{"proj", "src", "work", "build", "pprof", "go", "a", "x.go", "my-project", "verif", "tmp", "home"}
		cwdBase = words[r.Intn(len(words))]
		altBase = "elsewhere-" + words[r.Intn(len(words))]
		pats := []string{"/build/%s/pkg/x.go", "/home/alice/%s/util/strings.go", "/home/bob/%s/util/strings.go", "/%s/main.go",
			"%s/rel.go", "/a/%s/%s/twice.go", "/proc/self/cwd/%s/in.go", "/x/%s", "/x/%s/", "/deep/er/%s/y/z.go"}
		for _, f := range p.Function {
			if r.Chance(60) {
				f.Filename = strings.ReplaceAll(pats[r.Intn(len(pats))], "%s", cwdBase)
			}
		}
	}
	cs := c17Case{Mode: mode, Profile: Canon(p), SampleIndex: r.Intn(len(p.SampleType))}
	cs.CwdBase, cs.AltCwdBase = cwdBase, altBase
	cs.TrimPath, cs.SourcePath = trimOpt, srcOpt
	var pickSel0 func(col int) (bool, string)
	pickSel := func(col int) (bool, string) {
		by, sel := pickSel0(col)
		if by && mode == "web" { // the web stream only sends selections the rules accept (a refused one is status 400)
			if _, ok := c17SelectIndex(p, sel); !ok {
				return false, ""
			}
		}
		return by, sel
	}
	pickSel0 = func(col int) (bool, string) { // how column col is asked for
		name := p.SampleType[col].Type
		switch k := r.Intn(20); {
		case k < 9:
			return false, "" // by index
		case k < 16:
			return true, name // by its name — what the web UI's sample menu generates
		case k == 16:
			return true, "inuse_" + name
		case k == 17:
			return true, "" // the default selection
		case k == 18 && mode == "direct": // a text that may name no column: case variants, padding
			return true, []string{strings.ToUpper(name), strings.ToLower(name), strings.Title(name), name + " ", " " + name, "alloc_" + name, name + "x"}[r.Intn(7)]
		}
		return false, ""
	}
	cs.BySel, cs.Sel = pickSel(cs.SampleIndex)
	if mode == "web" {
		cs.Gran = c17WebGrans[r.Intn(len(c17WebGrans))]
	} else {
		cs.Gran = c17Grans[r.Intn(len(c17Grans))]
	}
	if cs.Gran != "raw" {
		cs.NoInlines = r.Chance(20)
		cs.ShowColumns = r.Chance(30)
	}
	if seq {
		var names []string
		for _, f := range p.Function {
			if f.Name != "" && len(f.Name) < 40 {
				names = append(names, regexp.QuoteMeta(f.Name))
			}
		}
		change := func(a c17Req) c17Req { // exactly one parameter differs (or, rarely, none: a reload)
			b := a
			b.Filters = map[string]string{}
			for k, v := range a.Filters {
				b.Filters[k] = v
			}
			switch r.Intn(9) {
			case 0, 1:
				b.SampleIndex = (a.SampleIndex + 1 + r.Intn(len(p.SampleType)-1)) % len(p.SampleType)
				b.BySel, b.Sel = pickSel(b.SampleIndex)
			case 2:
				for b.Gran == a.Gran {
					b.Gran = c17WebGrans[r.Intn(len(c17WebGrans))]
				}
			case 3:
				b.NoInlines = !a.NoInlines
			case 4:
				b.ShowColumns = !a.ShowColumns
			case 5:
			default:
				k := []string{"f", "i", "h", "s", "tf", "ti"}[r.Intn(6)]
				if _, on := b.Filters[k]; on {
					delete(b.Filters, k)
				} else if k == "tf" || k == "ti" {
					b.Filters[k] = []string{"v", "w", "k=v"}[r.Intn(3)]
				} else if len(names) > 0 {
					b.Filters[k] = names[r.Intn(len(names))]
				}
			}
			if len(b.Filters) == 0 {
				b.Filters = nil
			}
			return b
		}
		last := cs.req()
		if r.Chance(30) && len(names) > 0 { // the checked request itself carries a filter
			last.Filters = map[string]string{[]string{"f", "i", "h", "s"}[r.Intn(4)]: names[r.Intn(len(names))]}
		}
		cs.SampleIndex, cs.Gran, cs.NoInlines, cs.ShowColumns, cs.Filters, cs.BySel, cs.Sel = last.SampleIndex, last.Gran, last.NoInlines, last.ShowColumns, last.Filters, last.BySel, last.Sel
		prev := last
		for i, k := 0, 1+r.Intn(2); i < k; i++ {
			prev = change(prev)
			cs.Before = append([]c17Req{prev}, cs.Before...)
		}
	}
	return cs
}

// c17Shapes: hand-built stack shapes (a = outermost). Each letter is a location; "Ab" is one
// location with two lines (b inlined into A); "-" is a location without line information.
func c17Shapes() []c17Case {
	type shape struct {
		stacks []string // caller first, space separated location names
		vals   []int64
	}
	shapes := []shape{
		{[]string{"a a a"}, []int64{7}},
		{[]string{"a b a b", "b a"}, []int64{3, -5}},
		{[]string{"a Ab b", "Ab a"}, []int64{1, 2}}, // b both inlined (in Ab) and not
		{[]string{"Aa a Aa"}, []int64{4}},           // a inlined into itself
		{[]string{}, nil},                           // no samples
		{[]string{"", ""}, []int64{5, 6}},           // only empty stacks: root terminates them
		{[]string{"- -", "a - a"}, []int64{9, 0}},   // locations without lines
		{[]string{"a b c d e f g h a b c d e f g h"}, []int64{1}},
		{[]string{"Abc Abc", "c b A"}, []int64{2, 2}},
		{[]string{"a x", "a y"}, []int64{1, 1}}, // x, y: same function name in different files
	}
	var out []c17Case
	for _, sh := range shapes {
		p := &profile.Profile{SampleType: []*profile.ValueType{{Type: "samples", Unit: "count"}, {Type: "cpu", Unit: "nanoseconds"}}}
		funcs := map[byte]*profile.Function{}
		fn := func(ch byte) *profile.Function {
			lower := ch | 0x20
			if f, ok := funcs[lower]; ok {
				return f
			}
			f := &profile.Function{ID: uint64(len(p.Function) + 1), Name: string(lower), SystemName: string(lower), Filename: string(lower) + ".go"}
			if lower == 'x' || lower == 'y' {
				f.Name, f.SystemName = "same", "same"
			}
			funcs[lower] = f
			p.Function = append(p.Function, f)
			return f
		}
		locs := map[string]*profile.Location{}
		loc := func(name string) *profile.Location {
			if l, ok := locs[name]; ok {
				return l
			}
			l := &profile.Location{ID: uint64(len(p.Location) + 1), Address: uint64(0x1000 + len(p.Location))}
			if name != "-" {
				// name is caller first ("Ab": A calls inlined b); Location.Line is callee first
				for i := len(name) - 1; i >= 0; i-- {
					l.Line = append(l.Line, profile.Line{Function: fn(name[i]), Line: int64(10 + i)})
				}
			}
			locs[name] = l
			p.Location = append(p.Location, l)
			return l
		}
		for i, st := range sh.stacks {
			s := &profile.Sample{Value: []int64{sh.vals[i], sh.vals[i] * 10}}
			var callerFirst []*profile.Location
			start := -1
			for j := 0; j <= len(st); j++ {
				if j == len(st) || st[j] == ' ' {
					if start >= 0 {
						callerFirst = append(callerFirst, loc(st[start:j]))
						start = -1
					}
				} else if start < 0 {
					start = j
				}
			}
			for j := len(callerFirst) - 1; j >= 0; j-- {
				s.Location = append(s.Location, callerFirst[j])
			}
			p.Sample = append(p.Sample, s)
		}
		canon := Canon(p)
		for _, g := range []string{"raw", "functions", "lines"} {
			out = append(out, c17Case{Mode: "direct", Profile: canon, SampleIndex: 0, Gran: g})
		}
		out = append(out, c17Case{Mode: "web", Profile: canon, SampleIndex: 1, Gran: ""})
	}
	return out
}

var c17Lens = []int{0, 1, 2, 7, 255, 1023, 1024, 1025, 1026, 2048, 4096}
var c17Seps = []string{".", "::", "/", "<", ">", "(", ")", ",", " ", "*", "&", "[", "]", "{", "}", "$", "#", ":", "-", "\\"}

// c17LenString builds a name of a boundary length in one of several separator shapes.
func c17LenString(r *Rng, mode string) string {
	n := c17Lens[r.Intn(len(c17Lens))]
	if r.Chance(2) {
		n = 65536
	} else if r.Chance(10) {
		n += r.Intn(3) - 1
		if n < 0 {
			n = 0
		}
	}
	b := make([]byte, 0, n+2)
	fill := func(k int) {
		for len(b) < k {
			b = append(b, "abcxyzABC_019"[r.Intn(13)])
		}
	}
	sep := func() string { return c17Seps[r.Intn(len(c17Seps))] }
	shape := r.Intn(7)
	if shape == 6 && mode != "direct" {
		shape = 0
	}
	switch shape {
	case 0: // no separator at all
		fill(n)
	case 1: // a handful of separators anywhere (at most 12: each one adds a Display alternative)
		fill(n)
		for i, k := 0, 1+r.Intn(12); i < k && n > 0; i++ {
			sp := sep()
			at := r.Intn(n)
			copy(b[at:], sp)
		}
	case 2: // only separators (every one adds a Display alternative: capped at 1026 bytes)
		if n > 1026 {
			n = 1026
		}
		for len(b) < n {
			b = append(b, sep()...)
		}
	case 3: // separators only in the first bytes: the tail after the last one is long
		fill(n)
		if n > 0 {
			copy(b[r.Intn(1+n/16):], sep())
		}
	case 4: // a separator right at a 1023/1024/1025 distance from the end
		fill(n)
		d := 1023 + r.Intn(3)
		if n > d {
			copy(b[n-d-1:], []string{".", "::", "/"}[r.Intn(3)])
		}
	case 5: // separator as first or last byte(s)
		fill(n)
		if n > 0 {
			if r.Bool() {
				copy(b, sep())
			} else {
				sp := sep()
				if len(sp) <= n {
					copy(b[n-len(sp):], sp)
				}
			}
		}
	case 6: // non-UTF-8 and control bytes
		for len(b) < n {
			b = append(b, byte(r.Intn(256)))
		}
	}
	if len(b) > n {
		b = b[:n]
	}
	return string(b)
}

// c17AdversarialTypes renames the sample types with names that a sloppy name→column lookup would
// confuse: equal under (ASCII or Unicode) case folding, numbers, the legacy inuse_/alloc_ prefix
// relations, names with spaces, the empty name, duplicates (not on the web path, where fetching
// regroups columns by name).
func c17AdversarialTypes(r *Rng, p *profile.Profile, web bool) {
	families := [][]string{
		{"Events", "events", "EVENTS", "eVents"},
		{"cpu", "CPU", "Cpu"},
		{"0", "1", "-1", "+1", "2", "007", "1e3", "0x1", "99999999999999999999"},
		{"space", "inuse_space", "alloc_space", "inuse_inuse_space", "Inuse_space", "INUSE_SPACE"},
		{"objects", "inuse_objects", "alloc_objects", "inuse_"},
		{"cpu time", " cpu", "cpu ", "cpu\ttime", "a b c"},
		{"k", "K", "\u212a", "s", "S", "\u017f"}, // Kelvin sign / long s: equal under Unicode simple folding
		{"straße", "STRASSE", "strasse"},
		{"", "x"},
	}
	fam := families[r.Intn(len(families))]
	perm := make([]string, len(fam))
	copy(perm, fam)
	for i := len(perm) - 1; i > 0; i-- {
		j := r.Intn(i + 1)
		perm[i], perm[j] = perm[j], perm[i]
	}
	used := map[string]bool{}
	for i, st := range p.SampleType {
		name := perm[i%len(perm)]
		if i >= len(perm) || (!web && r.Chance(12)) { // beyond the family / deliberate duplicate
			name = perm[r.Intn(len(perm))]
		}
		for web && used[name] {
			name += "'"
		}
		used[name] = true
		st.Type = name
	}
	// at least two columns make the selection observable
	for len(p.SampleType) < 2 || (len(p.SampleType) < 3 && r.Chance(40)) {
		name := perm[len(p.SampleType)%len(perm)]
		for web && used[name] {
			name += "'"
		}
		used[name] = true
		p.SampleType = append(p.SampleType, &profile.ValueType{Type: name, Unit: "count"})
		for _, s := range p.Sample {
			s.Value = append(s.Value, int64(r.Intn(2000))-500)
		}
	}
}
