//go:build verif

package main

// C16, stream "real transport": URL sources are fetched by pprof itself through the PRODUCTION
// HTTP transport (internal/transport, created with transport.New(flagset) exactly as
// driver.setDefaults wires it — in the delay-scheduled runs by leaving Options.HTTPTransport nil, in
// the gated runs wrapped by a RoundTripper that only decides WHEN a request may start) against
// servers on 127.0.0.1:
//
//	A  TLS, certificate not trusted by anybody (httptest's built-in one)
//	B  TLS, self-signed certificate generated here; trusted iff the case passes it with -tls_ca
//	H  plain http
//
// Per source the outcome is a function of that source alone (Model/Fetch.lean, SrcDesc.fetchable):
// https to an untrusted server fails, https+insecure succeeds, https to the CA-trusted server
// succeeds, http succeeds, a 404 fails.  Gated runs release the fetches one after the other in a
// PRNG-chosen permutation (plus "all https+insecure first" and "all strict https first").

import (
	"crypto/ecdsa"
	"crypto/elliptic"
	"crypto/rand"
	"crypto/tls"
	"crypto/x509"
	"crypto/x509/pkix"
	"encoding/pem"
	"fmt"
	"io"
	"log"
	"math/big"
	"net"
	"net/http"
	"net/http/httptest"
	"os"
	"path/filepath"
	"strings"
	"sync"
	"time"
)

const (
	c16TLSUntrusted  = "tls-untrusted"   // https://A            fails: unknown authority
	c16TLSInsecure   = "tls-insecure"    // https+insecure://A   succeeds
	c16TLSCA         = "tls-ca"          // https://B with -tls_ca = B's certificate: succeeds (only in UseCA cases)
	c16TLSNoCA       = "tls-noca"        // https://B without -tls_ca: fails (only in cases without UseCA)
	c16TLSCAInsecure = "tls-ca-insecure" // https+insecure://B   succeeds
	c16RealHTTP      = "real-http"       // http://H             succeeds
	c16RealHTTP404   = "real-http-404"   // http://H/nf/…        fails (404)
)

func c16IsReal(kind string) bool {
	return strings.HasPrefix(kind, "tls-") || strings.HasPrefix(kind, "real-")
}

func c16RealSucceeds(kind string) bool {
	switch kind {
	case c16TLSInsecure, c16TLSCA, c16TLSCAInsecure, c16RealHTTP:
		return true
	}
	return false
}

// c16Desc: the source in the vocabulary of the Lean trust table: scheme (0 plug-in, 1 file, 2 http,
// 3 https, 4 https+insecure), certificate trusted, valid body.
func c16Desc(kind string, useCA bool) string {
	b := func(v bool) string {
		if v {
			return "1"
		}
		return "0"
	}
	switch kind {
	case c16TLSUntrusted:
		return "3 0 1"
	case c16TLSInsecure:
		return "4 0 1"
	case c16TLSCA, c16TLSNoCA:
		return "3 " + b(useCA) + " 1"
	case c16TLSCAInsecure:
		return "4 " + b(useCA) + " 1"
	case c16RealHTTP:
		return "2 0 1"
	case c16RealHTTP404:
		return "2 0 0"
	case c16OK, c16OKEmpty:
		return "0 0 1"
	case c16Err, c16Invalid:
		return "0 0 0"
	case c16OKFile:
		return "1 0 1"
	case c16OKHTTP:
		return "2 0 1"
	case c16HTTP500, c16HTTPGarbage, c16HTTPNetErr:
		return "2 0 0"
	}
	return "1 0 0" // missing, garbage-file, invalid-file
}

// ---------------------------------------------------------------------------------------------
// servers

type c16Servers struct {
	mu     sync.Mutex
	bodies map[string][]byte
	a, b   *httptest.Server
	h      *httptest.Server
	caFile string
	err    error
}

var c16Srv *c16Servers
var c16SrvOnce sync.Once

func (s *c16Servers) handle(w http.ResponseWriter, r *http.Request) {
	m := c16TokRe.FindStringSubmatch(r.URL.Path)
	if m == nil || !strings.HasPrefix(r.URL.Path, "/p/") {
		http.NotFound(w, r)
		return
	}
	s.mu.Lock()
	b := s.bodies[m[1]]
	s.mu.Unlock()
	if b == nil {
		http.NotFound(w, r)
		return
	}
	w.Header().Set("Content-Type", "application/octet-stream")
	w.Write(b)
}

func (s *c16Servers) setBodies(b map[string][]byte) {
	s.mu.Lock()
	s.bodies = b
	s.mu.Unlock()
}

func c16SelfSigned() (tls.Certificate, []byte, error) {
	key, err := ecdsa.GenerateKey(elliptic.P256(), rand.Reader)
	if err != nil {
		return tls.Certificate{}, nil, err
	}
	tmpl := &x509.Certificate{
		SerialNumber:          big.NewInt(1600016),
		Subject:               pkix.Name{Organization: []string{"pprof verif C16"}, CommonName: "127.0.0.1"},
		NotBefore:             time.Now().Add(-time.Hour),
		NotAfter:              time.Now().Add(24 * time.Hour),
		KeyUsage:              x509.KeyUsageDigitalSignature | x509.KeyUsageCertSign,
		ExtKeyUsage:           []x509.ExtKeyUsage{x509.ExtKeyUsageServerAuth},
		BasicConstraintsValid: true,
		IsCA:                  true,
		IPAddresses:           []net.IP{net.IPv4(127, 0, 0, 1)},
		DNSNames:              []string{"localhost"},
	}
	der, err := x509.CreateCertificate(rand.Reader, tmpl, tmpl, &key.PublicKey, key)
	if err != nil {
		return tls.Certificate{}, nil, err
	}
	certPEM := pem.EncodeToMemory(&pem.Block{Type: "CERTIFICATE", Bytes: der})
	return tls.Certificate{Certificate: [][]byte{der}, PrivateKey: key}, certPEM, nil
}

// c16StartServers starts the three servers once per process (closed when the process exits).
func c16StartServers(root string) *c16Servers {
	c16SrvOnce.Do(func() {
		s := &c16Servers{bodies: map[string][]byte{}}
		c16Srv = s
		cert, certPEM, err := c16SelfSigned()
		if err != nil {
			s.err = err
			return
		}
		s.caFile = filepath.Join(root, "c16-ca.pem")
		if err := os.WriteFile(s.caFile, certPEM, 0o644); err != nil {
			s.err = err
			return
		}
		hf := http.HandlerFunc(s.handle)
		// the servers would log every failed handshake of the strict clients; keep stderr quiet
		quiet := log.New(io.Discard, "", 0)
		s.a = httptest.NewUnstartedServer(hf)
		s.a.Config.ErrorLog = quiet
		s.a.StartTLS()
		s.b = httptest.NewUnstartedServer(hf)
		s.b.Config.ErrorLog = quiet
		s.b.TLS = &tls.Config{Certificates: []tls.Certificate{cert}}
		s.b.StartTLS()
		s.h = httptest.NewUnstartedServer(hf)
		s.h.Config.ErrorLog = quiet
		s.h.Start()
	})
	return c16Srv
}

func c16HostOf(srv *httptest.Server) string {
	return strings.TrimPrefix(strings.TrimPrefix(srv.URL, "https://"), "http://")
}

func (s *c16Servers) addr(kind, tok string) string {
	switch kind {
	case c16TLSUntrusted:
		return "https://" + c16HostOf(s.a) + "/p/" + tok
	case c16TLSInsecure:
		return "https+insecure://" + c16HostOf(s.a) + "/p/" + tok
	case c16TLSCA, c16TLSNoCA:
		return "https://" + c16HostOf(s.b) + "/p/" + tok
	case c16TLSCAInsecure:
		return "https+insecure://" + c16HostOf(s.b) + "/p/" + tok
	case c16RealHTTP:
		return "http://" + c16HostOf(s.h) + "/p/" + tok
	}
	return "http://" + c16HostOf(s.h) + "/nf/" + tok
}

// ---------------------------------------------------------------------------------------------
// gate: releases the fetches one after the other in the order given by their rank

type c16Gate struct {
	mu   sync.Mutex
	cond *sync.Cond
	turn int
}

func newC16Gate() *c16Gate {
	g := &c16Gate{}
	g.cond = sync.NewCond(&g.mu)
	return g
}

// wait blocks until every fetch with a smaller rank was released (or 3 s passed: a fetch that never
// happens must not hang the run; the oracle then reports what went wrong).
func (g *c16Gate) wait(rank int) {
	deadline := time.Now().Add(3 * time.Second)
	timer := time.AfterFunc(3*time.Second, func() { g.mu.Lock(); g.cond.Broadcast(); g.mu.Unlock() })
	defer timer.Stop()
	g.mu.Lock()
	for g.turn < rank && time.Now().Before(deadline) {
		g.cond.Wait()
	}
	g.mu.Unlock()
}

func (g *c16Gate) release(rank int) {
	g.mu.Lock()
	if g.turn < rank+1 {
		g.turn = rank + 1
	}
	g.cond.Broadcast()
	g.mu.Unlock()
}

// c16GateRT wraps the production transport: it only decides when a request may start.
type c16GateRT struct {
	run   *c16Run
	inner http.RoundTripper
}

func (t *c16GateRT) RoundTrip(req *http.Request) (*http.Response, error) {
	s := t.run.slotOf(req.URL.Path)
	if s != nil && t.run.gate != nil {
		t.run.gate.wait(s.rank)
	}
	resp, err := t.inner.RoundTrip(req)
	if s != nil {
		t.run.finish(s)
		if t.run.gate != nil {
			t.run.gate.release(s.rank)
		}
	}
	return resp, err
}

// ---------------------------------------------------------------------------------------------
// generator

func c16GenReal(r *Rng, idx int) *c16Case {
	cs := &c16Case{Name: fmt.Sprintf("real-transport-%d", idx), Real: true, UseCA: idx%2 == 0}
	strict := []string{c16TLSUntrusted}
	oks := []string{c16TLSInsecure, c16TLSInsecure, c16RealHTTP, c16OK, c16OKFile}
	fails := []string{c16TLSUntrusted, c16TLSUntrusted, c16RealHTTP404, c16Err, c16Missing}
	if cs.UseCA {
		oks = append(oks, c16TLSCA, c16TLSCA, c16TLSCAInsecure)
	} else {
		fails = append(fails, c16TLSNoCA)
		oks = append(oks, c16TLSCAInsecure)
		strict = append(strict, c16TLSNoCA)
	}
	gen := func(n, failPct int) []c16Src {
		s := make([]c16Src, n)
		for i := range s {
			if r.Chance(failPct) {
				s[i] = c16Src{Kind: r.Pick(fails), Seed: r.U64() >> 16}
			} else {
				s[i] = c16Src{Kind: r.Pick(oks), Seed: r.U64() >> 16}
			}
		}
		return s
	}
	n := 2 + r.Intn(7)
	cs.Sources = gen(n, []int{30, 50, 70}[idx%3])
	// the interesting mixture: a strict https source that must fail next to an https+insecure one
	i, j := r.Intn(n), r.Intn(n)
	if i == j {
		j = (i + 1) % n
	}
	cs.Sources[i] = c16Src{Kind: r.Pick(strict), Seed: r.U64() >> 16}
	cs.Sources[j] = c16Src{Kind: c16TLSInsecure, Seed: r.U64() >> 16}
	if idx%3 != 0 {
		cs.Bases = gen(1+r.Intn(3), 40)
		cs.DiffBase = r.Bool()
		if idx%3 == 2 { // the insecure source is a base, the strict one a source
			cs.Sources[j] = c16Src{Kind: c16OK, Seed: r.U64() >> 16}
			cs.Bases[0] = c16Src{Kind: c16TLSInsecure, Seed: r.U64() >> 16}
		}
	}
	all := cs.all()
	N := len(all)
	// forced orders: a PRNG permutation, all https+insecure first, all strict https first
	cs.Orders = append(cs.Orders, c16Perm(r, N))
	for _, insecureFirst := range []bool{true, false} {
		p := c16Perm(r, N)
		rank := make([]int, N)
		lo, hi := 0, 0
		for _, s := range all {
			if (s.Kind == c16TLSInsecure || s.Kind == c16TLSCAInsecure) == insecureFirst {
				hi++
			}
		}
		// fetches of the class that goes first get the ranks 0…hi-1 (in the random order p), the others follow
		type pr struct{ i, key int }
		first, rest := []pr{}, []pr{}
		for i, s := range all {
			if (s.Kind == c16TLSInsecure || s.Kind == c16TLSCAInsecure) == insecureFirst {
				first = append(first, pr{i, p[i]})
			} else {
				rest = append(rest, pr{i, p[i]})
			}
		}
		for _, grp := range [][]pr{first, rest} {
			for len(grp) > 0 {
				best := 0
				for x := range grp {
					if grp[x].key < grp[best].key {
						best = x
					}
				}
				rank[grp[best].i] = lo
				lo++
				grp = append(grp[:best], grp[best+1:]...)
			}
		}
		_ = hi
		cs.Orders = append(cs.Orders, rank)
	}
	// and one run with plain delays through the default wiring (Options.HTTPTransport == nil)
	cs.Schedules = [][]int{c16Sched(c16Perm(r, N))}
	return cs
}
