//go:build verif

package main

// "…turned into any text report without a crash": in-process report generation that mirrors
// what internal/driver does for each command with default options, and the real CLI.

import (
	"bytes"
	"context"
	"fmt"
	"io"
	"os"
	"os/exec"
	"path/filepath"
	"regexp"
	"strings"
	"sync"
	"time"

	"github.com/google/pprof/internal/report"
	"github.com/google/pprof/profile"
)

type c02Format struct {
	name      string
	format    int
	nodeCount int  // after applyCommandOverrides
	trim      bool // false: NodeCount/NodeFraction/EdgeFraction = 0
	addresses bool // granularity "addresses" (no aggregation); else "functions"
	symbol    string
}

var c02Formats = []c02Format{
	{"text", report.Text, 0, true, false, ""},
	{"top", report.Text, 0, true, false, ""},
	{"tree", report.Tree, 80, true, false, ""},
	{"traces", report.Traces, 80, true, false, ""},
	{"raw", report.Raw, 0, false, true, ""},
	{"tags", report.Tags, 80, true, false, ""},
	{"dot", report.Dot, 80, true, false, ""},
	{"callgrind", report.Callgrind, 0, false, true, ""},
	{"topproto", report.TopProto, 0, true, false, ""},
	{"proto", report.Proto, 0, false, true, ""},
	{"peek", report.Tree, 0, false, false, "."},
}

// c02Report renders one report of the accepted profile whose serialized form is pb, the way
// driver.generateReport does with the default configuration (a fresh copy per report,
// default sample index, report.New, aggregation, report.Generate).
func c02Report(pb []byte, f c02Format, opt c02ROpt) error {
	p, err := profile.ParseUncompressed(pb)
	if err != nil {
		return fmt.Errorf("re-parse: %v", err)
	}
	p.RemoveUninteresting() // fetchProfiles, error ignored there too
	if err := p.CheckValid(); err != nil {
		return err
	}
	if len(p.SampleType) == 0 {
		return fmt.Errorf("profile has no samples") // what driver.sampleFormat answers
	}
	// driver.reportOptions / sampleFormat
	idx, err := p.SampleIndexByName(c02ResolveIndex(p, opt.sampleIndex))
	if err != nil {
		return err
	}
	divideBy := opt.divideBy
	if divideBy == 0 {
		divideBy = 1 // the default; an explicit 0 is refused by the driver ("zero divisor specified")
	}
	unit := opt.unit
	if unit == "" {
		unit = "minimum"
	}
	stype := p.SampleType[idx].Type
	numLabelUnits, _ := p.NumLabelUnits()
	o := &report.Options{
		OutputFormat:  f.format,
		DropNegative:  opt.dropNegative,
		Ratio:         1 / divideBy,
		NodeCount:     f.nodeCount,
		NodeFraction:  0.005,
		EdgeFraction:  0.001,
		NumLabelUnits: numLabelUnits,
		SampleValue:   func(v []int64) int64 { return v[idx] },
		SampleType:    stype,
		SampleUnit:    p.SampleType[idx].Unit,
		OutputUnit:    unit,
	}
	if opt.mean {
		o.SampleMeanDivisor = func(v []int64) int64 { return v[0] }
		o.SampleType = "mean_" + stype
	}
	if !f.trim {
		o.NodeCount, o.NodeFraction, o.EdgeFraction = 0, 0, 0
	}
	if f.symbol != "" {
		o.Symbol = regexp.MustCompile(f.symbol)
	}
	if len(p.Mapping) > 0 && p.Mapping[0].File != "" {
		o.Title = filepath.Base(p.Mapping[0].File)
	}
	rpt := report.New(p, o)
	if !f.addresses {
		if err := p.Aggregate(true, true, false, false, false, false); err != nil {
			return err
		}
	}
	return report.Generate(io.Discard, rpt, nil)
}

var c02CLICommands = []string{"-top", "-tree", "-traces", "-raw", "-tags", "-dot", "-callgrind", "-topproto", "-proto", "-peek=."}

type c02CLIResult struct {
	cmd     string
	crashed bool
	timeout bool
	where   string // first pprof frame of the panic trace
	stderr  string
}

var c02PanicFrameRE = regexp.MustCompile(`(?m)^github\.com/google/pprof/([^\s(]+(?:\([^)]*\))?[^\s(]*)\(`)

// c02PanicWhere extracts the first frame inside the pprof module from a Go panic trace.
func c02PanicWhere(trace string) string {
	for _, m := range c02PanicFrameRE.FindAllStringSubmatch(trace, -1) {
		fn := m[1]
		if strings.Contains(fn, "zzverif") {
			continue
		}
		if i := strings.LastIndex(fn, "/"); i >= 0 {
			fn = fn[i+1:]
		}
		for strings.HasSuffix(fn, ".func1") || strings.HasSuffix(fn, ".func2") {
			fn = fn[:len(fn)-6]
		}
		return fn
	}
	return "unknown"
}

// c02RunCLI runs the real pprof binary on the input file once per command (in parallel).
func c02RunCLI(c *Ctx, input []byte, cmds []string, limit time.Duration) []c02CLIResult {
	if c.Pprof == "" {
		return nil
	}
	dir, err := os.MkdirTemp("", "c02cli")
	if err != nil {
		return nil
	}
	defer os.RemoveAll(dir)
	file := filepath.Join(dir, "in.prof")
	if os.WriteFile(file, input, 0o644) != nil {
		return nil
	}
	res := make([]c02CLIResult, len(cmds))
	var wg sync.WaitGroup
	sem := make(chan struct{}, 16)
	for i, cmd := range cmds {
		wg.Add(1)
		go func(i int, cmd string) {
			defer wg.Done()
			sem <- struct{}{}
			defer func() { <-sem }()
			ctx, cancel := context.WithTimeout(context.Background(), limit)
			defer cancel()
			args := []string{"-symbolize=none"}
			for _, a := range strings.Split(cmd, "\x1f") { // unit separator between flags
				args = append(args, strings.ReplaceAll(a, "{file}", file))
			}
			ex := exec.CommandContext(ctx, c.Pprof, append(args, file)...)
			ex.Env = append(os.Environ(), "HOME="+dir, "PPROF_TMPDIR="+dir, "PPROF_BINARY_PATH="+filepath.Join(dir, "bin"), "GOTRACEBACK=single")
			ex.Dir = dir
			var stderr bytes.Buffer
			ex.Stdout = io.Discard
			ex.Stderr = &stderr
			err := ex.Run()
			r := c02CLIResult{cmd: cmd, stderr: c02Trunc(stderr.String())}
			if ctx.Err() != nil {
				r.timeout = true
			} else if err != nil {
				s := stderr.String()
				if strings.Contains(s, "panic:") || strings.Contains(s, "fatal error:") || strings.Contains(s, "goroutine 1 [") {
					r.crashed = true
					r.where = c02PanicWhere(s)
				}
			}
			res[i] = r
		}(i, cmd)
	}
	wg.Wait()
	return res
}
