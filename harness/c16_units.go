//go:build verif

package main

// C16, stream "units": the sources report the same two sample types in different but compatible
// units (cpu in ns/us/ms/s, space in bytes/kB/MB).  combineProfiles brings them to the finest unit
// present among the profiles it is handed (ScaleProfiles) before merging — per chunk, per group,
// and again for sources − bases.  Oracle: the merged sample-type units are the finest units among
// the SUCCESSFUL sources and bases, and every stack's value is the sum of each successful
// source's value converted to that unit — whatever the command-line position of the sources,
// whichever neighbours fail and in whatever order the fetches complete.  All conversion factors
// are integers and all products stay below 2^53, so the float arithmetic of the code is exact.

import "fmt"

var c16UnitFactor = map[string]int64{
	"nanoseconds": 1, "microseconds": 1000, "milliseconds": 1000000, "seconds": 1000000000,
	"bytes": 1, "kilobytes": 1 << 10, "megabytes": 1 << 20,
}
var c16TimeUnits = []string{"nanoseconds", "microseconds", "milliseconds", "seconds"}
var c16MemUnits = []string{"bytes", "kilobytes", "megabytes"}

// c16Finest: the finest unit among the successful sources and bases, per sample type ("" when the
// case has no units or nothing succeeded).
func c16Finest(cs *c16Case, kinds []string) [2]string {
	var f [2]string
	for i, s := range cs.all() {
		if !c16Succeeds(kinds[i]) || s.Unit0 == "" {
			continue
		}
		for k, u := range []string{s.Unit0, s.Unit1} {
			if f[k] == "" || c16UnitFactor[u] < c16UnitFactor[f[k]] {
				f[k] = u
			}
		}
	}
	return f
}

// c16UnitRatio: integer factor that converts a value of source s into the finest units.
func c16UnitRatio(s c16Src, finest [2]string) [2]int64 {
	r := [2]int64{1, 1}
	if s.Unit0 == "" || finest[0] == "" {
		return r
	}
	r[0] = c16UnitFactor[s.Unit0] / c16UnitFactor[finest[0]]
	r[1] = c16UnitFactor[s.Unit1] / c16UnitFactor[finest[1]]
	return r
}

func c16GenUnits(r *Rng, idx int) *c16Case {
	cs := &c16Case{Name: fmt.Sprintf("units-%d", idx), Units: true}
	oks := []string{c16OK, c16OK, c16OKFile, c16OKHTTP}
	gen := func(n, failPct int) []c16Src {
		s := make([]c16Src, n)
		for i := range s {
			k := r.Pick(oks)
			if r.Chance(failPct) {
				k = r.Pick(c16FailKinds)
			}
			s[i] = c16Src{Kind: k, Seed: r.U64() >> 16, Unit0: r.Pick(c16TimeUnits), Unit1: r.Pick(c16MemUnits)}
		}
		return s
	}
	n := 2 + r.Intn(6)
	cs.Sources = gen(n, []int{0, 30, 50}[idx%3])
	// the interesting shapes: a coarse-unit source followed (possibly behind a failing one) by a
	// source that already is in the finest unit, and the reverse
	if n >= 3 && idx%2 == 0 {
		cs.Sources[0] = c16Src{Kind: c16OK, Seed: r.U64() >> 16, Unit0: "milliseconds", Unit1: "kilobytes"}
		cs.Sources[1] = c16Src{Kind: r.Pick(c16FailKinds), Seed: r.U64() >> 16, Unit0: "seconds", Unit1: "megabytes"}
		cs.Sources[2] = c16Src{Kind: c16OK, Seed: r.U64() >> 16, Unit0: "nanoseconds", Unit1: "bytes"}
	}
	if idx%3 == 1 {
		cs.Bases = gen(1+r.Intn(3), 30)
		cs.DiffBase = r.Bool()
	}
	cs.Schedules = c16Schedules(r, cs, 3)
	c16Alt(r, cs)
	return cs
}
