//go:build verif

// C20: the operation mixes that go through internal/driver and internal/binutils.
package main

import (
	"bytes"
	"encoding/json"
	"fmt"
	"net"
	"net/http"
	"net/http/httptest"
	"os"
	"path/filepath"
	"reflect"
	"regexp"
	"sort"
	"strings"
	"sync"
	"time"

	"github.com/google/pprof/internal/binutils"
	"github.com/google/pprof/internal/driver"
	"github.com/google/pprof/internal/plugin"
	"github.com/google/pprof/profile"
)

// ---------------------------------------------------------------------------------------------
// mix: any combination of web requests against one server

var c20URLs = []string{
	"/top", "/top?si=cpu", "/top?f=F2", "/top?n=2", "/top?s=F3&si=cpu", "/top?tf=req:a",
	"/peek?f=F%5B12%5D", "/peek?f=F4&h=F5",
	"/flamegraph", "/flamegraph?si=cpu&i=F4", "/flamegraph2?f=F1",
	"/source?f=F%5B12%5D", "/source?f=F5&si=cpu", "/disasm?f=F3",
	"/download", "/top?sort=cum&rel=true&f=F3",
}

func c20MixWeb(cs *c20Case, obs *c20Obs) {
	r := NewRng(cs.Seed)
	src := c20WriteSource(os.Getenv("C20_TMP"))
	web, err := c20StartWeb(c20WebProfile(src), c20ObjTool{src})
	if err != nil {
		obs.Error = err.Error()
		return
	}
	// the very FIRST requests of the process arrive together (lazily initialised state such as the
	// HTML templates is set up by whichever gets there first); they are compared below with the
	// answers the same requests get alone
	firstURLs := []string{"/top", "/flamegraph", "/peek?f=F%5B12%5D", "/source?f=F%5B12%5D", "/top?si=cpu", "/disasm?f=F3"}
	firstResp := make([]c20Resp, len(firstURLs))
	firstPanic := make([]string, len(firstURLs))
	c20Together(len(firstURLs), func(id int) {
		c20Fl.do(func() { firstPanic[id] = c20Safely(func() { firstResp[id] = web.get(firstURLs[id]) }) })
		obs.hit("first-requests-together")
	})
	// every request alone, twice: the baseline, and whether the page is deterministic at all
	base := map[string]c20Resp{}
	var urls []string
	for _, u := range c20URLs {
		a, b := web.get(u), web.get(u)
		if !a.same(b) {
			obs.hit("not-deterministic-alone:" + u)
			continue
		}
		if a.status >= 500 || a.status < 0 {
			obs.hit(fmt.Sprintf("status-%d-alone:%s", a.status, u))
			continue
		}
		base[u] = a
		urls = append(urls, u)
	}
	if len(urls) < len(c20URLs)/2 {
		obs.Error = fmt.Sprintf("only %d of %d web requests are usable as baseline", len(urls), len(c20URLs))
		return
	}
	for i, u := range firstURLs {
		if b, ok := base[u]; ok && (firstPanic[i] != "" || !firstResp[i].same(b)) {
			obs.fail("C20/web/first-requests-differ", "the response to %s, sent together with the other first requests of the process, differs from the response to the same request alone (status %d vs %d, panic %q): %s", u, firstResp[i].status, b.status, firstPanic[i], c20FirstDiff(firstResp[i].body, b.body))
		}
	}
	for round := 0; round < cs.Rounds && !c20Enough(obs); round++ {
		plans := make([][]string, cs.Goroutines)
		for i := range plans {
			for j := 0; j < cs.Ops; j++ {
				plans[i] = append(plans[i], urls[r.Intn(len(urls))])
			}
		}
		c20Together(cs.Goroutines, func(id int) {
			for _, u := range plans[id] {
				var got c20Resp
				pn := ""
				c20Fl.do(func() { pn = c20Safely(func() { got = web.get(u) }) })
				path := u
				if i := strings.IndexByte(u, '?'); i >= 0 {
					path = u[:i]
				}
				obs.hit(path)
				if pn != "" {
					obs.fail("C20/web"+path+"/panic", "handler for %s panicked under concurrent requests: %s", u, pn)
				} else if !got.same(base[u]) {
					obs.fail("C20/web"+path+"/response-differs", "response to %s under concurrent requests differs from the response to the same request alone (status %d vs %d, %d vs %d bytes): %s", u, got.status, base[u].status, len(got.body), len(base[u].body), c20FirstDiff(got.body, base[u].body))
				}
			}
		})
	}
	c20SettingsPhase(cs, obs, web, r, urls)
	if err := web.close(); err != nil {
		obs.fail("C20/web/serve-error", "serving the web UI returned %v", err)
	}
}

// c20SettingsPhase: /saveconfig and /deleteconfig from several goroutines (every goroutine works on
// its own configuration names, so the final contents do not depend on the order), mixed with page
// requests that read the settings for their menu.  Afterwards settings.json must hold exactly
// what the same requests leave when issued one after the other.
func c20SettingsPhase(cs *c20Case, obs *c20Obs, web *c20Web, r *Rng, urls []string) {
	file := filepath.Join(os.Getenv("XDG_CONFIG_HOME"), "pprof", "settings.json")
	// every save is an fsync + rename: keep this phase small
	rounds, ops := 1+cs.Rounds/8, cs.Ops
	if ops > 5 {
		ops = 5
	}
	for round := 0; round < rounds && !c20Enough(obs); round++ {
		plans := make([][]string, cs.Goroutines)
		for g := range plans {
			live := []string{}
			for j := 0; j < ops; j++ {
				switch {
				case len(live) > 0 && r.Chance(25):
					k := r.Intn(len(live))
					plans[g] = append(plans[g], "/deleteconfig?config="+live[k])
					live = append(live[:k], live[k+1:]...)
				case len(live) > 0 && r.Chance(25):
					plans[g] = append(plans[g], fmt.Sprintf("/saveconfig?config=%s&f=F%d&n=%d", live[r.Intn(len(live))], 1+r.Intn(5), r.Intn(9)))
				default:
					name := fmt.Sprintf("g%dc%d", g, j)
					live = append(live, name)
					plans[g] = append(plans[g], fmt.Sprintf("/saveconfig?config=%s&f=F%d&h=F%d", name, 1+r.Intn(5), 1+r.Intn(5)))
				}
			}
		}
		read := func() (map[string]string, error) {
			b, err := os.ReadFile(file)
			if os.IsNotExist(err) {
				return map[string]string{}, nil
			}
			if err != nil {
				return nil, err
			}
			var doc struct {
				Configs []map[string]any `json:"configs"`
			}
			if err := json.Unmarshal(b, &doc); err != nil {
				return nil, fmt.Errorf("settings.json does not parse: %v", err)
			}
			out := map[string]string{}
			for _, c := range doc.Configs {
				name, _ := c["name"].(string)
				if _, dup := out[name]; dup {
					return nil, fmt.Errorf("configuration %q saved twice", name)
				}
				cb, _ := json.Marshal(c)
				out[name] = string(cb)
			}
			return out, nil
		}
		// alone: one goroutine's requests after the other
		os.Remove(file)
		for _, pl := range plans {
			for _, u := range pl {
				if rp := web.get(u); rp.status != 200 {
					obs.Error = fmt.Sprintf("%s alone: status %d %s", u, rp.status, rp.body)
					return
				}
			}
		}
		want, err := read()
		if err != nil {
			obs.Error = "settings after the sequential run: " + err.Error()
			return
		}
		os.Remove(file)
		// overlapped, together with page requests
		pages := cs.Goroutines / 2
		c20Together(cs.Goroutines+pages, func(id int) {
			if id >= cs.Goroutines {
				for j := 0; j < ops; j++ {
					u := urls[(id*5+j)%len(urls)]
					var rp c20Resp
					c20Fl.do(func() { rp = web.get(u) })
					obs.hit("page-during-settings-update")
					if rp.status >= 400 {
						obs.fail("C20/settings/page-fails", "%s answered %d while configurations were being saved", u, rp.status)
					}
				}
				return
			}
			for _, u := range plans[id] {
				var rp c20Resp
				c20Fl.do(func() { rp = web.get(u) })
				obs.hit(strings.SplitN(u, "?", 2)[0])
				if rp.status != 200 {
					obs.fail("C20/settings"+strings.SplitN(u, "?", 2)[0]+"/fails", "%s answered %d %q under concurrent settings updates; alone it succeeds", u, rp.status, rp.body)
				}
			}
		})
		got, err := read()
		if err != nil {
			obs.fail("C20/settings/file-corrupt", "after concurrent /saveconfig and /deleteconfig: %v", err)
			continue
		}
		if !reflect.DeepEqual(got, want) {
			var missing, extra []string
			for k := range want {
				if got[k] != want[k] {
					missing = append(missing, k)
				}
			}
			for k := range got {
				if _, ok := want[k]; !ok {
					extra = append(extra, k)
				}
			}
			sort.Strings(missing)
			sort.Strings(extra)
			obs.fail("C20/settings/lost-update", "after concurrent /saveconfig and /deleteconfig on disjoint names settings.json differs from the sequential result: missing or different %v, unexpected %v", missing, extra)
		}
		tmps, _ := filepath.Glob(file + ".tmp*")
		if len(tmps) > 0 {
			obs.fail("C20/settings/temp-left-behind", "temporary settings files left behind: %v", tmps)
		}
	}
}

func c20FirstDiff(a, b []byte) string {
	n := len(a)
	if len(b) < n {
		n = len(b)
	}
	i := 0
	for i < n && a[i] == b[i] {
		i++
	}
	lo := i - 40
	if lo < 0 {
		lo = 0
	}
	hi := func(x []byte) int {
		if i+60 < len(x) {
			return i + 60
		}
		return len(x)
	}
	return fmt.Sprintf("first difference at byte %d: %q vs %q", i, a[lo:hi(a)], b[lo:hi(b)])
}

// ---------------------------------------------------------------------------------------------
// mix: options are assigned while reports are generated

func c20MixOptions(cs *c20Case, obs *c20Obs) {
	src := c20WriteSource(os.Getenv("C20_TMP"))
	prof, obj := c20WebProfile(src), c20ObjTool{src}
	// start-up is sequential: every PProf call is past its initialisation before the next starts
	web, err := c20StartWeb(prof, obj)
	if err != nil {
		obs.Error = err.Error()
		return
	}
	writer := c20StartInteractive(prof, obj)
	var readers []*c20Session
	for i := 0; i < cs.Goroutines; i++ {
		readers = append(readers, c20StartInteractive(prof, obj))
	}
	nodecounts := []string{"-1", "2", "4"}
	focuses := []string{"", "F2", "F4|F5|F4|F5|F4|F5|F4|F5"}
	sessionQ := []string{"top", "peek F1", "tree"}
	webQ := []string{"/top", "/peek?f=F1", "/flamegraph", "/top?si=cpu"}
	// acceptance sets: the answer to each query in every state the assignments can produce
	okSess := map[string]map[string]bool{}
	okWeb := map[string]map[string]bool{}
	n := 0
	ask := func(s *c20Session, q string) string {
		n++
		name := fmt.Sprintf("out%d", n)
		s.ui.run(q + " >" + name)
		b, ok := s.w.get(name)
		if !ok {
			return "<no output: " + strings.Join(s.ui.messages(), "; ") + ">"
		}
		return string(b)
	}
	for _, nc := range nodecounts {
		for _, f := range focuses {
			writer.ui.run("nodecount=" + nc)
			writer.ui.run("focus=" + f)
			for _, q := range sessionQ {
				if okSess[q] == nil {
					okSess[q] = map[string]bool{}
				}
				okSess[q][ask(readers[0], q)] = true
			}
			for _, u := range webQ {
				if okWeb[u] == nil {
					okWeb[u] = map[string]bool{}
				}
				rp := web.get(u)
				okWeb[u][fmt.Sprint(rp.status, "\n", string(rp.body))] = true
			}
		}
	}
	for q, s := range okSess {
		obs.hit(fmt.Sprintf("distinct-answers:%s=%d", q, len(s)))
	}
	writer.ui.run("nodecount=-1")
	writer.ui.run("focus=")
	first := ask(readers[0], "top")
	// overlapped: the writer assigns, readers and web requests report
	r := NewRng(cs.Seed)
	for round := 0; round < cs.Rounds && !c20Enough(obs); round++ {
		var script []string
		for i := 0; i < cs.Ops*2; i++ {
			if r.Bool() {
				script = append(script, "nodecount="+nodecounts[r.Intn(3)])
			} else {
				script = append(script, "focus="+focuses[r.Intn(3)])
			}
		}
		script = append(script, "nodecount=-1", "focus=")
		rq := make([][]string, len(readers))
		for i := range rq {
			for j := 0; j < cs.Ops; j++ {
				rq[i] = append(rq[i], sessionQ[r.Intn(len(sessionQ))])
			}
		}
		wq := make([][]string, 3)
		for i := range wq {
			for j := 0; j < cs.Ops; j++ {
				wq[i] = append(wq[i], webQ[r.Intn(len(webQ))])
			}
		}
		var mu sync.Mutex // `ask` numbers outputs
		c20Together(1+len(readers)+len(wq), func(id int) {
			switch {
			case id == 0:
				for _, l := range script {
					c20Fl.do(func() { writer.ui.run(l) })
					obs.hit("assign")
				}
			case id <= len(readers):
				s := readers[id-1]
				for _, q := range rq[id-1] {
					mu.Lock()
					n++
					name := fmt.Sprintf("out%d", n)
					mu.Unlock()
					c20Fl.do(func() { s.ui.run(q + " >" + name) })
					obs.hit("session-report")
					b, ok := s.w.get(name)
					if !ok || !okSess[q][string(b)] {
						obs.fail("C20/options/session-report-not-sequential/"+c20FirstWord(q), "the report of %q generated while options were being assigned equals none of the reports of any option state reachable sequentially (%d bytes; messages %v)", q, len(b), s.ui.messages())
					}
				}
			default:
				for _, u := range wq[id-1-len(readers)] {
					var rp c20Resp
					c20Fl.do(func() { rp = web.get(u) })
					obs.hit("web-report")
					if !okWeb[u][fmt.Sprint(rp.status, "\n", string(rp.body))] {
						obs.fail("C20/options/web-report-not-sequential"+strings.SplitN(u, "?", 2)[0], "the response to %s served while options were being assigned equals none of the responses of any option state reachable sequentially (status %d, %d bytes)", u, rp.status, len(rp.body))
					}
				}
			}
		})
		if got := ask(readers[0], "top"); got != first {
			obs.fail("C20/options/final-state", "after the assignments ended with nodecount=-1 focus= the report differs from the one of that state")
		}
	}
	c20AssignPhase(cs, obs, readers[0], r)
	for _, s := range append(readers, writer) {
		if err := s.close(); err != nil {
			obs.fail("C20/options/session-error", "interactive session returned %v", err)
		}
	}
	web.close()
}

// ---------------------------------------------------------------------------------------------
// mix: temp files — exclusive create in the working directory, registry of files to delete

var c20GenRE = regexp.MustCompile(`Generating report in (\S*profile(\d+)\.pb\.gz)`)

func c20TempNames(s *c20Session, from int) (idx []int, files []string) {
	for _, m := range s.ui.messages()[from:] {
		if g := c20GenRE.FindStringSubmatch(m); g != nil {
			var i int
			fmt.Sscanf(g[2], "%d", &i)
			idx = append(idx, i)
			files = append(files, g[1])
		}
	}
	return
}

func c20MixTempfile(cs *c20Case, obs *c20Obs) {
	src := c20WriteSource(os.Getenv("C20_TMP"))
	prof, obj := c20WebProfile(src), c20ObjTool{src}
	sentinel := func(i int) []byte { return []byte(fmt.Sprintf("existing file %d - must never be overwritten", i)) }
	for _, i := range cs.Existing {
		os.WriteFile(fmt.Sprintf("profile%03d.pb.gz", i), sentinel(i), 0o644)
	}
	// (1) alone: k creations one after the other; the names are compared with the Lean model
	s0 := c20StartInteractive(prof, obj)
	k := cs.Goroutines
	for i := 0; i < k; i++ {
		s0.ui.run("proto")
	}
	seq, seqFiles := c20TempNames(s0, 0)
	if len(seq) != k {
		obs.Error = fmt.Sprintf("expected %d temp files from %d proto commands, got %v; messages: %v", k, k, seq, s0.ui.messages())
		return
	}
	obs.SeqNames, obs.SeqExist = seq, cs.Existing
	want := ""
	if b, err := os.ReadFile(seqFiles[0]); err == nil {
		if p, err := profile.ParseData(b); err == nil {
			want = Canon(p)
		}
	}
	if want == "" {
		obs.Error = "cannot parse the temp file written alone: " + seqFiles[0]
		return
	}
	for _, f := range seqFiles {
		os.Remove(f)
	}
	s0.close()
	// (2) overlapped
	for round := 0; round < cs.Rounds && !c20Enough(obs); round++ {
		var ss []*c20Session
		for i := 0; i < cs.Goroutines; i++ {
			ss = append(ss, c20StartInteractive(prof, obj))
		}
		names := make([][]string, len(ss))
		idxs := make([][]int, len(ss))
		c20Together(len(ss), func(id int) {
			for j := 0; j < cs.Ops; j++ {
				c20Fl.do(func() { ss[id].ui.run("proto") })
				obs.hit("newTempFile(cwd)")
				c20Fl.do(func() { ss[id].ui.run("kcachegrind") })
				obs.hit("newTempFile(tmp)+deferDelete")
			}
			idxs[id], names[id] = c20TempNames(ss[id], 0)
			// sessions end at different times: cleanupTempFiles overlaps the others' registrations
			c20Fl.do(func() { ss[id].close() })
			obs.hit("cleanupTempFiles")
		})
		seen := map[int]int{}
		total := 0
		for id := range ss {
			if len(idxs[id]) != cs.Ops {
				obs.fail("C20/tempfile/create-failed", "session %d created %d temp files with %d proto commands: %v", id, len(idxs[id]), cs.Ops, ss[id].ui.messages())
			}
			for j, ix := range idxs[id] {
				total++
				if other, dup := seen[ix]; dup {
					obs.fail("C20/tempfile/same-name-twice", "concurrent newTempFile calls of sessions %d and %d both returned %s", other, id, names[id][j])
				}
				seen[ix] = id
				for _, e := range cs.Existing {
					if e == ix {
						obs.fail("C20/tempfile/existing-name-returned", "newTempFile returned %s, which existed before", names[id][j])
					}
				}
				b, err := os.ReadFile(names[id][j])
				if err != nil {
					obs.fail("C20/tempfile/missing", "temp file %s reported to the user does not exist: %v", names[id][j], err)
					continue
				}
				if p, err := profile.ParseData(b); err != nil || Canon(p) != want {
					obs.fail("C20/tempfile/torn-content", "temp file %s written under concurrency is not the profile written alone (parse error %v)", names[id][j], err)
				}
				os.Remove(names[id][j])
			}
		}
		for _, i := range cs.Existing {
			if b, err := os.ReadFile(fmt.Sprintf("profile%03d.pb.gz", i)); err != nil || !bytes.Equal(b, sentinel(i)) {
				obs.fail("C20/tempfile/existing-overwritten", "profile%03d.pb.gz existed before and was overwritten or removed (err=%v)", i, err)
			}
		}
		// the k smallest free indices are used, whatever the schedule
		var got []int
		for ix := range seen {
			got = append(got, ix)
		}
		sort.Ints(got)
		var wantIdx []int
		for i := 1; len(wantIdx) < total; i++ {
			free := true
			for _, e := range cs.Existing {
				if e == i {
					free = false
				}
			}
			if free {
				wantIdx = append(wantIdx, i)
			}
		}
		if len(got) == total && !reflect.DeepEqual(got, wantIdx) {
			obs.fail("C20/tempfile/unexpected-names", "concurrent creations used indices %v, expected the smallest free ones %v", got, wantIdx)
		}
		// registry: every file registered for deletion is gone once all sessions returned
		left, _ := filepath.Glob(filepath.Join(os.Getenv("TMPDIR"), "pprof*.grind"))
		if len(left) > 0 {
			obs.fail("C20/tempfile/registry-lost-entry", "%d temp files registered with deferDeleteTempFile survived cleanupTempFiles of every session: %v", len(left), left)
			for _, f := range left {
				os.Remove(f)
			}
		}
	}
}

// ---------------------------------------------------------------------------------------------
// mix: parallel fetch of many sources and bases

func c20FetchProfile(r *Rng) *profile.Profile {
	p := GenProfile(r, &GenOpts{MaxSampleTypes: 2, MaxFuncs: 8, MaxLocs: 10, MaxSamples: 8, MaxDepth: 5, Labels: true, SmallValues: true})
	p.SampleType = []*profile.ValueType{{Type: "samples", Unit: "count"}, {Type: "cpu", Unit: "nanoseconds"}}
	for _, s := range p.Sample {
		for len(s.Value) < 2 {
			s.Value = append(s.Value, 1)
		}
		s.Value = s.Value[:2]
	}
	p.PeriodType = &profile.ValueType{Type: "cpu", Unit: "nanoseconds"}
	p.Period = 1
	return p
}

func c20MixFetch(cs *c20Case, obs *c20Obs) {
	r := NewRng(cs.Seed)
	total := cs.Sources + cs.Bases
	var canon []string
	for i := 0; i < total; i++ {
		canon = append(canon, Canon(c20FetchProfile(r)))
	}
	var args, bases []string
	for i := 0; i < cs.Sources; i++ {
		args = append(args, fmt.Sprintf("s%d", i))
	}
	for i := 0; i < cs.Bases; i++ {
		bases = append(bases, fmt.Sprintf("s%d", cs.Sources+i))
	}
	// every invocation tags its profile with its own comment, so that a saved file can be told
	// from every other one; all saved files of this process are checked again at the end
	type savedFile struct{ path, tag string }
	var savedMu sync.Mutex
	var allSaved []savedFile
	ntag := 0
	savedRE := regexp.MustCompile(`Saved profile in (\S+)`)
	run := func(f *c20Fetcher) (string, []string, error) {
		savedMu.Lock()
		ntag++
		tag := fmt.Sprintf("c20-invocation-%d", ntag)
		savedMu.Unlock()
		w, ui := newC20Writer(), newC20UI()
		o := &plugin.Options{
			Flagset: c20Flags{args: args, lists: map[string][]string{"base": bases},
				bools: map[string]bool{"proto": true}, strings: map[string]string{"output": "out", "symbolize": "none", "add_comment": tag}},
			Fetch: f, Sym: c20NoSym{}, Obj: c20NoObj{}, UI: ui, Writer: w,
		}
		if err := driver.PProf(o); err != nil {
			return "", ui.messages(), err
		}
		for _, m := range ui.messages() {
			if g := savedRE.FindStringSubmatch(m); g != nil {
				savedMu.Lock()
				allSaved = append(allSaved, savedFile{g[1], tag})
				savedMu.Unlock()
			}
		}
		b, ok := w.get("out")
		if !ok {
			return "", ui.messages(), fmt.Errorf("no output written")
		}
		p, err := profile.ParseData(b)
		if err != nil {
			return "", ui.messages(), err
		}
		p.Comments = nil
		return Canon(p), ui.messages(), nil
	}
	// reference: the sources are fetched one at a time (local and "remote" sources give different
	// mapping tables by design: a mapping without file/build id is named after its source URL)
	refs := map[bool]string{}
	for _, remote := range []bool{false, true} {
		ref, _, err := run(&c20Fetcher{canon: canon, remote: remote, serial: &sync.Mutex{}})
		if err != nil {
			obs.Error = "reference fetch failed: " + err.Error()
			return
		}
		refs[remote] = ref
	}
	for round := 0; round < cs.Rounds && !c20Enough(obs); round++ {
		jit := make([]time.Duration, 7)
		for i := range jit {
			jit[i] = time.Duration(r.Intn(2000)) * time.Microsecond
		}
		remote := round%2 == 1
		inv := 1 + r.Intn(3) // PProf invocations at once (identical flags apart from the comment)
		c20Together(inv, func(id int) {
			var got string
			var msgs []string
			var err error
			c20Fl.do(func() { got, msgs, err = run(&c20Fetcher{canon: canon, remote: remote, jitter: jit}) })
			obs.hit(fmt.Sprintf("fetch-%d-sources", cs.Sources))
			if err != nil {
				obs.fail("C20/fetch/error", "parallel fetch of %d sources failed although every source can be fetched: %v", cs.Sources, err)
				return
			}
			if ref := refs[remote]; got != ref {
				obs.fail("C20/fetch/result-differs", "the profile merged from %d sources (+%d bases) fetched in parallel differs from the one obtained when the sources are fetched one at a time", cs.Sources, cs.Bases)
			}
			saved := false
			for _, m := range msgs {
				if savedRE.MatchString(m) {
					saved = true
				}
			}
			if remote && !saved {
				obs.fail("C20/fetch/not-saved", "a profile fetched from a remote source was not saved: %v", msgs)
			}
		})
	}
	// every save — one after the other or at the same time — got a name of its own and the file
	// still holds what that invocation saved
	seen := map[string]string{}
	for _, sf := range allSaved {
		obs.hit("saved-remote-profile")
		if other, dup := seen[sf.path]; dup {
			obs.fail("C20/tempfile/saved-name-reused", "two invocations (%s, %s) were told their profile was saved in the same file %s: the later save replaced the earlier one", other, sf.tag, sf.path)
			continue
		}
		seen[sf.path] = sf.tag
		b, err := os.ReadFile(sf.path)
		if err != nil {
			obs.fail("C20/tempfile/missing", "saved profile %s does not exist: %v", sf.path, err)
			continue
		}
		p, err := profile.ParseData(b)
		if err != nil {
			obs.fail("C20/tempfile/torn-content", "saved profile %s does not parse: %v", sf.path, err)
			continue
		}
		own := false
		for _, c := range p.Comments {
			if c == sf.tag {
				own = true
			}
		}
		if !own {
			obs.fail("C20/tempfile/saved-file-overwritten", "%s was reported to %s as its saved profile but now holds another invocation's profile (comments %v)", sf.path, sf.tag, p.Comments)
		}
	}
	if len(allSaved) < 2 {
		obs.hit("fewer-than-two-saves")
	}
}

// ---------------------------------------------------------------------------------------------
// mix: binutils — tool configuration, once-only base, serialised tool pipes

func c20MixBinutils(cs *c20Case, obs *c20Obs) {
	exe := filepath.Join(os.Getenv("VERIF_REPO"), "internal", "binutils", "testdata", "exe_linux_64")
	if _, err := os.Stat(exe); err != nil {
		obs.Error = "test binary not found: " + err.Error()
		return
	}
	const start, limit = 0x400000, 0x4006fc
	r := NewRng(cs.Seed)
	// tool directory without llvm-symbolizer, to reach the addr2line pipe as well
	fullPath := os.Getenv("PATH")
	noLLVM := filepath.Join(os.Getenv("C20_TMP"), "bin")
	os.MkdirAll(noLLVM, 0o755)
	have := map[string]bool{}
	for _, t := range []string{"addr2line", "nm", "objdump", "llvm-symbolizer"} {
		for _, d := range filepath.SplitList(fullPath) {
			if _, err := os.Stat(filepath.Join(d, t)); err == nil {
				have[t] = true
				if t != "llvm-symbolizer" {
					os.Symlink(filepath.Join(d, t), filepath.Join(noLLVM, t))
				}
				break
			}
		}
	}
	if !have["nm"] {
		obs.hit("skipped:no-nm")
		return
	}
	if have["objdump"] {
		c20FirstUseVsSetter(cs, obs, fullPath)
		os.Setenv("PATH", fullPath)
	}
	// addresses: starts of the text symbols
	bu0 := &binutils.Binutils{}
	f0, err := bu0.Open(exe, start, limit, 0, "")
	if err != nil {
		obs.Error = "Open: " + err.Error()
		return
	}
	syms, err := f0.Symbols(nil, 0)
	if err != nil {
		obs.Error = "Symbols: " + err.Error()
		return
	}
	var addrs []uint64
	for _, s := range syms {
		if s.Start >= start && s.Start < limit && len(addrs) < 12 {
			addrs = append(addrs, s.Start)
		}
	}
	f0.Close()
	if len(addrs) == 0 {
		obs.Error = "no symbol addresses"
		return
	}
	type answer struct {
		obj    uint64
		oerr   bool
		frames []plugin.Frame
		ferr   bool
	}
	variants := []struct {
		name, path string
		fast       bool
		need       string
	}{
		{"llvm-symbolizer-pipe", fullPath, false, "llvm-symbolizer"},
		{"addr2line-pipe", noLLVM, false, "addr2line"},
		{"nm-fast", fullPath, true, "nm"},
	}
	for _, v := range variants {
		if cs.Variant != "" && cs.Variant != v.name {
			continue
		}
		if !have[v.need] {
			obs.hit("skipped:" + v.name)
			continue
		}
		os.Setenv("PATH", v.path)
		newBU := func() *binutils.Binutils {
			bu := &binutils.Binutils{}
			if v.fast {
				bu.SetFastSymbolization(true)
			}
			return bu
		}
		// alone
		base := map[uint64]answer{}
		bu := newBU()
		desc := bu.String()
		fa, err := bu.Open(exe, start, limit, 0, "")
		if err != nil {
			obs.Error = "Open: " + err.Error()
			return
		}
		for _, a := range addrs {
			var an answer
			var e1, e2 error
			an.obj, e1 = fa.ObjAddr(a)
			an.frames, e2 = fa.SourceLine(a)
			an.oerr, an.ferr = e1 != nil, e2 != nil
			base[a] = an
		}
		fa.Close()
		for round := 0; round < cs.Rounds && !c20Enough(obs); round++ {
			// (a) tool configuration: get (Open, String) against update (SetTools, SetFast…)
			shared := newBU()
			plans := make([][]int, cs.Goroutines)
			for i := range plans {
				for j := 0; j < cs.Ops; j++ {
					plans[i] = append(plans[i], r.Intn(4))
				}
			}
			c20Together(cs.Goroutines, func(id int) {
				for j, op := range plans[id] {
					switch op {
					case 0:
						c20Fl.do(func() { shared.SetTools("") })
						obs.hit(v.name + "/SetTools")
					case 1:
						c20Fl.do(func() { shared.SetFastSymbolization(v.fast) })
						obs.hit(v.name + "/SetFastSymbolization")
					case 2:
						var s string
						c20Fl.do(func() { s = shared.String() })
						obs.hit(v.name + "/String")
						if s != desc {
							obs.fail("C20/binutils/config-torn", "Binutils.String() under concurrent SetTools/SetFastSymbolization (which do not change the configuration) is %q, alone %q", s, desc)
						}
					case 3:
						a := addrs[(id+j)%len(addrs)]
						var got uint64
						var err error
						c20Fl.do(func() {
							var f plugin.ObjFile
							if f, err = shared.Open(exe, start, limit, 0, ""); err == nil {
								got, err = f.ObjAddr(a)
								f.Close()
							}
						})
						obs.hit(v.name + "/Open+ObjAddr")
						if (err != nil) != base[a].oerr || got != base[a].obj {
							obs.fail("C20/binutils/ObjAddr-differs", "Open+ObjAddr(%#x) under concurrent configuration updates gave %#x, %v; alone %#x", a, got, err, base[a].obj)
						}
					}
				}
			})
			// (b) one shared object file: once-only base, tool pipe
			f, err := shared.Open(exe, start, limit, 0, "")
			if err != nil {
				obs.fail("C20/binutils/Open-fails", "Open fails after concurrent configuration updates: %v", err)
				continue
			}
			c20Together(cs.Goroutines, func(id int) {
				for j := 0; j < cs.Ops; j++ {
					a := addrs[(id*7+j)%len(addrs)]
					if (id+j)%3 == 0 {
						var got uint64
						var err error
						c20Fl.do(func() { got, err = f.ObjAddr(a) })
						obs.hit(v.name + "/ObjAddr(shared file)")
						if (err != nil) != base[a].oerr || got != base[a].obj {
							obs.fail("C20/binutils/ObjAddr-differs", "ObjAddr(%#x) on a shared file gave %#x, %v; alone %#x", a, got, err, base[a].obj)
						}
					} else {
						var got []plugin.Frame
						var err error
						c20Fl.do(func() { got, err = f.SourceLine(a) })
						obs.hit(v.name + "/SourceLine(shared file)")
						if (err != nil) != base[a].ferr || !reflect.DeepEqual(got, base[a].frames) {
							obs.fail("C20/binutils/SourceLine-differs/"+v.name, "SourceLine(%#x) on a shared file gave %v, %v; alone %v", a, got, err, base[a].frames)
						}
					}
				}
			})
			f.Close()
		}
	}
	os.Setenv("PATH", fullPath)
}

// ---------------------------------------------------------------------------------------------
// mix: the HTTP transport shared by the concurrent fetches of one invocation

// c20MixTransport: pprof's own fetcher and transport (no Fetcher plug-in).  Two TLS servers with
// self-signed certificates serve the same profile.  Alone, an https+insecure:// source is fetched
// and an https:// source is refused (certificate signed by unknown authority).  Fetched together,
// in one invocation and therefore through ONE shared transport, each source must get the outcome
// it gets alone: the result is the profile of the insecure sources only.
func c20MixTransport(cs *c20Case, obs *c20Obs) {
	var body bytes.Buffer
	if err := c20WebProfile("c20source.src").Write(&body); err != nil {
		obs.Error = err.Error()
		return
	}
	h := http.HandlerFunc(func(w http.ResponseWriter, r *http.Request) { w.Write(body.Bytes()) })
	srvA, srvB := httptest.NewTLSServer(h), httptest.NewTLSServer(h)
	defer srvA.Close()
	defer srvB.Close()
	srvA.Config.ErrorLog, srvB.Config.ErrorLog = nil, nil
	insecure := "https+insecure://" + strings.TrimPrefix(srvA.URL, "https://") + "/p"
	secure := srvB.URL + "/p"
	run := func(sources []string) (string, []string, error) {
		w, ui := newC20Writer(), newC20UI()
		o := &plugin.Options{
			Flagset: c20Flags{args: sources, bools: map[string]bool{"proto": true},
				strings: map[string]string{"output": "out", "symbolize": "none"}, ints: map[string]int{"timeout": 20}},
			Sym: c20NoSym{}, Obj: c20NoObj{}, UI: ui, Writer: w,
		}
		if err := driver.PProf(o); err != nil {
			return "", ui.messages(), err
		}
		b, ok := w.get("out")
		if !ok {
			return "", ui.messages(), fmt.Errorf("no output written")
		}
		p, err := profile.ParseData(b)
		if err != nil {
			return "", ui.messages(), err
		}
		return Canon(p), ui.messages(), nil
	}
	// alone
	if _, msgs, err := run([]string{insecure}); err != nil {
		obs.Error = fmt.Sprintf("https+insecure source alone: %v %v", err, msgs)
		return
	}
	if _, _, err := run([]string{secure}); err == nil {
		obs.hit("skipped:self-signed-certificate-accepted-alone")
		return
	}
	r := NewRng(cs.Seed)
	c20BulkFailures(cs, obs, r, body.Bytes())
	for round := 0; round < cs.Rounds && !c20Enough(obs); round++ {
		nIns, nSec := 1+r.Intn(3), 1+r.Intn(4)
		var ins, mixed []string
		for i := 0; i < nIns; i++ {
			ins = append(ins, insecure)
		}
		mixed = append(mixed, ins...)
		for i := 0; i < nSec; i++ {
			k := r.Intn(len(mixed) + 1)
			mixed = append(mixed[:k], append([]string{secure}, mixed[k:]...)...)
		}
		want, _, err := run(ins)
		if err != nil {
			obs.Error = "insecure sources alone: " + err.Error()
			return
		}
		var got string
		var msgs []string
		c20Fl.do(func() { got, msgs, err = run(mixed) })
		c20Fl.overlapped.Add(1) // the sources of one invocation are fetched concurrently by pprof itself
		obs.hit(fmt.Sprintf("fetch-%d-insecure+%d-verified", nIns, nSec))
		switch {
		case err != nil:
			obs.fail("C20/transport/error", "fetching %d https+insecure and %d https sources together failed (%v); the insecure ones alone succeed", nIns, nSec, err)
		case got != want:
			obs.fail("C20/transport/outcome-depends-on-concurrent-fetch", "an https:// source whose certificate does not verify is refused when fetched alone, but %d such sources fetched together with %d https+insecure:// sources changed the result (shared transport state): %s; messages %v", nSec, nIns, c20FirstDiff([]byte(got), []byte(want)), msgs)
		}
	}
}

// c20AssignPhase: every goroutine owns one option and assigns it through the exported
// driver.SetVariableDefault, all at the same time.  Assignments to DIFFERENT options commute, so
// whatever the order, afterwards every option must hold the last value its owner assigned (a
// read-modify-write of the whole option set that is not one critical section loses some).
func c20AssignPhase(cs *c20Case, obs *c20Obs, reader *c20Session, r *Rng) {
	owned := []string{"focus", "ignore", "hide", "show", "show_from", "prune_from", "tagfocus", "tagignore", "nodecount", "unit"}
	rounds := 3 * cs.Rounds
	for round := 0; round < rounds && !c20Enough(obs); round++ {
		last := make([]string, len(owned))
		val := func(g, j int) string {
			switch owned[g] {
			case "nodecount":
				return fmt.Sprint(10 + (round*7+j)%50)
			case "unit":
				return []string{"ms", "us", "ns", "s"}[(round+j)%4]
			case "tagfocus", "tagignore":
				return fmt.Sprintf("k%d:v%d", round, j)
			}
			return fmt.Sprintf("X%dr%dj%d", g, round, j)
		}
		c20Together(len(owned), func(g int) {
			for j := 0; j < 1+cs.Ops/3; j++ {
				v := val(g, j)
				c20Fl.do(func() { driver.SetVariableDefault(owned[g], v) })
				last[g] = v
			}
		})
		obs.hit("concurrent-assignments-round")
		before := len(reader.ui.messages())
		reader.ui.run("o")
		state := map[string]string{}
		for _, m := range reader.ui.messages()[before:] {
			for _, ln := range strings.Split(m, "\n") {
				if kv := strings.SplitN(ln, "=", 2); len(kv) == 2 {
					v := strings.TrimSpace(kv[1])
					if i := strings.Index(v, "//:"); i >= 0 {
						v = strings.TrimSpace(v[:i])
					}
					state[strings.TrimSpace(kv[0])] = v
				}
			}
		}
		var lost []string
		for g, name := range owned {
			if state[name] != last[g] {
				lost = append(lost, fmt.Sprintf("%s=%q (assigned %q)", name, state[name], last[g]))
			}
		}
		if len(lost) > 0 {
			obs.fail("C20/options/lost-assignment", "after %d goroutines each assigned its own option at the same time, %d options do not hold the value assigned last by their owner — no one-at-a-time order of the assignments gives this state: %v", len(owned), len(lost), lost)
		}
	}
	for _, name := range owned {
		v := ""
		switch name {
		case "nodecount":
			v = "-1"
		case "unit":
			v = "minimum"
		}
		driver.SetVariableDefault(name, v)
	}
}

// c20BulkFailures: ONE invocation fetches many URL sources at once through pprof's own fetcher —
// a few good ones next to every failure kind in bulk (404, 500, pprof-style text error, garbage
// body, truncated body, connection closed by the server, connection refused, slow body).  pprof
// must report the failures and merge what it fetched: the result is the profile of the good
// sources alone, and the invocation must END (a fetch that never returns — e.g. because failed
// fetches leak the slots of a limiter — is a hang).
func c20BulkFailures(cs *c20Case, obs *c20Obs, r *Rng, prof []byte) {
	mux := http.NewServeMux()
	mux.HandleFunc("/good", func(w http.ResponseWriter, _ *http.Request) { w.Write(prof) })
	mux.HandleFunc("/slow", func(w http.ResponseWriter, _ *http.Request) {
		for i := 0; i < len(prof); i += 1 + len(prof)/6 {
			j := i + 1 + len(prof)/6
			if j > len(prof) {
				j = len(prof)
			}
			w.Write(prof[i:j])
			if f, ok := w.(http.Flusher); ok {
				f.Flush()
			}
			time.Sleep(15 * time.Millisecond)
		}
	})
	mux.HandleFunc("/404", func(w http.ResponseWriter, _ *http.Request) { http.NotFound(w, nil) })
	mux.HandleFunc("/500", func(w http.ResponseWriter, _ *http.Request) { http.Error(w, "boom", http.StatusInternalServerError) })
	mux.HandleFunc("/pproferr", func(w http.ResponseWriter, _ *http.Request) {
		w.Header().Set("X-Go-Pprof", "1")
		w.Header().Set("Content-Type", "text/plain; charset=utf-8")
		w.WriteHeader(http.StatusInternalServerError)
		w.Write([]byte("profiling already in use"))
	})
	mux.HandleFunc("/garbage", func(w http.ResponseWriter, _ *http.Request) {
		w.Write([]byte("this is not a profile at all \x00\x01\x02"))
	})
	mux.HandleFunc("/truncated", func(w http.ResponseWriter, _ *http.Request) { w.Write(prof[:len(prof)/2]) })
	mux.HandleFunc("/closed", func(w http.ResponseWriter, _ *http.Request) {
		if hj, ok := w.(http.Hijacker); ok {
			if c, _, err := hj.Hijack(); err == nil {
				c.Close()
			}
		}
	})
	srv := httptest.NewServer(mux)
	defer srv.Close()
	// a port nobody listens on: connection refused
	refused := "http://127.0.0.1:1/x"
	if l, err := net.Listen("tcp", "127.0.0.1:0"); err == nil {
		refused = "http://" + l.Addr().String() + "/x"
		l.Close()
	}
	run := func(sources []string) (string, []string, error) {
		w, ui := newC20Writer(), newC20UI()
		o := &plugin.Options{
			Flagset: c20Flags{args: sources, bools: map[string]bool{"proto": true},
				strings: map[string]string{"output": "out", "symbolize": "none"}, ints: map[string]int{"timeout": 10}},
			Sym: c20NoSym{}, Obj: c20NoObj{}, UI: ui, Writer: w,
		}
		if err := driver.PProf(o); err != nil {
			return "", ui.messages(), err
		}
		b, ok := w.get("out")
		if !ok {
			return "", ui.messages(), fmt.Errorf("no output written")
		}
		p, err := profile.ParseData(b)
		if err != nil {
			return "", ui.messages(), err
		}
		return Canon(p), ui.messages(), nil
	}
	bad := []string{"/404", "/500", "/pproferr", "/garbage", "/truncated", "/closed"}
	rounds := 1 + cs.Rounds/4
	for round := 0; round < rounds && !c20Enough(obs); round++ {
		nGood := 2 + r.Intn(3)
		var good, all []string
		for i := 0; i < nGood; i++ {
			g := srv.URL + "/good"
			if i%2 == 1 {
				g = srv.URL + "/slow"
			}
			good = append(good, g)
		}
		all = append(all, good...)
		// every failure kind at least 18 times (more than any plausible per-process limit of 16)
		for _, b := range bad {
			for i := 0; i < 18+r.Intn(4); i++ {
				all = append(all, srv.URL+b)
			}
		}
		for i := 0; i < 18; i++ {
			all = append(all, refused)
		}
		for i := len(all) - 1; i > 0; i-- { // shuffle
			j := r.Intn(i + 1)
			all[i], all[j] = all[j], all[i]
		}
		want, _, err := run(good)
		if err != nil {
			obs.Error = "good URL sources alone: " + err.Error()
			return
		}
		type res struct {
			got  string
			msgs []string
			err  error
		}
		done := make(chan res, 1)
		go func() {
			var x res
			x.got, x.msgs, x.err = run(all)
			done <- x
		}()
		c20Fl.total.Add(1)
		c20Fl.overlapped.Add(1)
		obs.hit(fmt.Sprintf("bulk-%d-sources-%d-good", len(all), nGood))
		select {
		case x := <-done:
			c20Fl.progress.Add(1)
			switch {
			case x.err != nil:
				obs.fail("C20/fetch/bulk-error", "fetching %d URL sources (%d good, the rest failing in every way) failed as a whole: %v", len(all), nGood, x.err)
			case x.got != want:
				obs.fail("C20/fetch/bulk-result-differs", "fetching %d good URL sources together with %d failing ones gives a profile different from the good ones alone", nGood, len(all)-nGood)
			}
		case <-time.After(45 * time.Second):
			c20Fl.progress.Add(1)
			obs.fail("C20/fetch/hang", "one invocation fetching %d URL sources (%d good; 404, 500, text error, garbage, truncated, closed connection and refused connection ≥18 times each) did not finish within 45 s; every single fetch ends within a second when made alone", len(all), nGood)
			return
		}
	}
}

// c20FirstUseVsSetter: a Binutils whose tools are not resolved yet.  Goroutine A makes the first
// use (String → get → tool discovery, made slow by an objdump wrapper that sleeps first on PATH);
// goroutine B calls a setter meanwhile.  Whatever the order, the setter's effect must be there
// afterwards: "A then B" and "B then A" both end in the configuration the setter alone produces.
func c20FirstUseVsSetter(cs *c20Case, obs *c20Obs, fullPath string) {
	slow := filepath.Join(os.Getenv("C20_TMP"), "slowbin")
	os.MkdirAll(slow, 0o755)
	for _, t := range []string{"objdump", "llvm-objdump"} {
		real := ""
		for _, d := range filepath.SplitList(fullPath) {
			if _, err := os.Stat(filepath.Join(d, t)); err == nil {
				real = filepath.Join(d, t)
				break
			}
		}
		if real == "" {
			continue
		}
		os.WriteFile(filepath.Join(slow, t), []byte("#!/bin/sh\nsleep 0.4\nexec "+real+" \"$@\"\n"), 0o755)
	}
	os.Setenv("PATH", slow+string(os.PathListSeparator)+fullPath)
	setters := []struct {
		name string
		set  func(bu *binutils.Binutils)
	}{
		{"SetFastSymbolization(true)", func(bu *binutils.Binutils) { bu.SetFastSymbolization(true) }},
		{"SetTools(addr2line:/nonexistent-c20)", func(bu *binutils.Binutils) { bu.SetTools("addr2line:/nonexistent-c20") }},
	}
	trials := 1 + cs.Rounds/3
	for trial := 0; trial < trials && !c20Enough(obs); trial++ {
		st := setters[trial%len(setters)]
		// the setter alone on a fresh object (equals both sequential orders: a later first use
		// finds the configuration resolved and changes nothing)
		alone := &binutils.Binutils{}
		st.set(alone)
		want := alone.String()
		bu := &binutils.Binutils{}
		var wg sync.WaitGroup
		wg.Add(2)
		go func() {
			defer wg.Done()
			c20Fl.do(func() { _ = bu.String() })
		}()
		go func() {
			defer wg.Done()
			time.Sleep(120 * time.Millisecond) // A is inside the tool discovery by now
			c20Fl.do(func() { st.set(bu) })
		}()
		wg.Wait()
		obs.hit("first-use-vs-" + strings.SplitN(st.name, "(", 2)[0])
		if got := bu.String(); got != want {
			obs.fail("C20/binutils/setter-lost", "%s called while the first use of a Binutils was still resolving its tools is lost: configuration afterwards %q, in either sequential order %q", st.name, got, want)
		}
	}
}
