//go:build verif

package main

import (
	"bytes"
	"context"
	"fmt"
	"math/big"
	"os"
	"os/exec"
	"path/filepath"
	"sort"
	"strconv"
	"strings"
	"sync"
	"time"

	"github.com/google/pprof/profile"
)

// C01 at the driver level (anchor internal/driver/driver.go; observe_at "pprof -proto output
// re-read"): the REAL pprof binary built from the same tree, one process per case, reads a
// generated valid profile from a file and writes it back as a profile
//
//	flag mode         pprof [flags] -proto -output=out in
//	interactive mode  pprof [flags] in   <  "top / sample_index=… / proto >out1 / tags / proto >out2 / quit"
//	                  (every interactive command starts from the driver's profile copier:
//	                  decode(encode(profile)) — makeProfileCopier/newCopy)
//
// and the re-read output must be the profile that went in, up to the normalisation proto3 forces
// (Lean `Codec.Profile.normalize`, asked through the model driver): sample types, every sample's
// values, string/numeric labels with units and resolved stack (mapping, address, inline lines,
// functions — by VALUE), and every header field, bit-exact.
//
// What the unchanged driver does to ONE input profile between the file and the output was read off
// internal/driver/{fetch,driver}.go and confirmed by experiment (the measured distribution records
// `cli-full-canon-identical`: on the pinned tree the output is normalize(p) including ids, unused
// entities and table order — a single profile is not passed through Merge):
//   parse+CheckValid, locateBinaries, CompatibilizeSampleTypes, ScaleProfiles, symbolize+demangle,
//   RemoveUninteresting (drop_frames), unsourceMappings, report options, filters, aggregate, -proto.
// The generated profiles are moved (c01CLISanitize) into the family where every stage but the
// encode/decode steps is documented to be the identity:
//   - sample type names pairwise distinct (CompatibilizeSampleTypes keeps the types whose NAME occurs
//     once per profile) and at least one sample type (otherwise pprof refuses: "no samples");
//   - drop_frames empty or a regexp that matches no generated function name (pruning is C11's subject);
//   - either `-symbolize=none` (mappings/functions untouched), or the default symbolization with
//     HasFunctions set on every mapping (nothing is symbolized) and function names the demangler
//     leaves alone (non-empty name different from the system name, or a plain identifier);
//   - PPROF_BINARY_PATH/HOME/PPROF_TMPDIR point into the (empty) case directory.
// What the comparison ERASES, and nothing else:
//   - ids of mappings/locations/functions, unused table entries and table order (stacks are compared
//     by value; a driver that renumbers or compacts the tables is not losing information);
//   - the order of samples (compared as a multiset);
//   - mappings, when the input has none: the driver attaches a fake mapping to every location
//     (locateBinaries, documented there).
// Period, duration and time are compared exactly: for a single input measurement.ScaleProfiles has no
// common unit to convert to (CommonValueType of one type is nil) and leaves period and values alone.
// Options that are documented not to change a saved profile (-sample_index, -unit, -divide_by=1,
// -nodecount/-nodefraction: trimming is off for -proto, -sort, -mean) must leave the output
// unchanged; with -divide_by=d (d>1) every value must be v/d ("ratio to divide all samples"),
// accepted with the rounding slack of one float64 operation (|out·d − v| ≤ d + |v|·2^-50), everything
// else unchanged.

type c01CLISpec struct {
	Mode   string   `json:"mode"`             // "flag" | "interactive"
	Kind   string   `json:"kind"`             // variant name (distribution only)
	Args   []string `json:"args,omitempty"`   // flags in front of -proto / the input file
	Script []string `json:"script,omitempty"` // interactive: the lines; every `proto >outK` is an observed output
	Plain  bool     `json:"plain,omitempty"`  // input file written uncompressed
	Divide int64    `json:"divide,omitempty"` // divide_by=d with d>1: values are expected scaled
}

type c01CLIRun struct {
	outs   [][]byte // one per expected output file (nil = not written)
	stderr string
	exit   int // -1: the process could not be run at all
	runErr string
}

var c01PlainName = func(s string) bool {
	if s == "" || !(s[0] >= 'a' && s[0] <= 'z') {
		return false
	}
	for i := 0; i < len(s); i++ {
		c := s[i]
		if !(c >= 'a' && c <= 'z' || c >= '0' && c <= '9' || c == '_' || c == '.') {
			return false
		}
	}
	return true
}

var c01NoMatchDrop = []string{"", "", "zz_nomatch_fn", "zz_.*\\.none|zz_other"}

// c01CLISanitize moves a generated profile into the family described above (in place).
// symbolizeNone says whether the case runs with -symbolize=none.
func c01CLISanitize(r *Rng, p *profile.Profile, symbolizeNone bool) {
	p.DropFrames = c01NoMatchDrop[r.Intn(len(c01NoMatchDrop))]
	seen := map[string]bool{}
	for i, st := range p.SampleType {
		if seen[st.Type] {
			st.Type = fmt.Sprintf("%s_%d", st.Type, i)
		}
		seen[st.Type] = true
	}
	if symbolizeNone {
		return
	}
	for _, m := range p.Mapping {
		m.HasFunctions = true
	}
	for _, f := range p.Function {
		if f.Name == "" {
			f.Name = "anon"
		}
		if f.Name == f.SystemName && !c01PlainName(f.Name) {
			f.SystemName = f.Name + "@sys"
		}
	}
}

// ---- by-value form ----

type c01BVSample struct{ stack, values, labels string }

type c01BV struct {
	sampleTypes string
	header      [][2]string // name, token text
	samples     []c01BVSample
}

func c01BVOf(p *profile.Profile, eraseMappings bool) c01BV {
	var bv c01BV
	var w tw
	w.n(len(p.SampleType))
	for _, st := range p.SampleType {
		w.valueType(st)
	}
	bv.sampleTypes = w.String()
	h := func(name string, f func(w *tw)) {
		var w tw
		f(&w)
		bv.header = append(bv.header, [2]string{name, w.String()})
	}
	h("default_sample_type", func(w *tw) { w.str(p.DefaultSampleType) })
	h("comments", func(w *tw) {
		w.n(len(p.Comments))
		for _, c := range p.Comments {
			w.str(c)
		}
	})
	h("doc_url", func(w *tw) { w.str(p.DocURL) })
	h("drop_frames", func(w *tw) { w.str(p.DropFrames) })
	h("keep_frames", func(w *tw) { w.str(p.KeepFrames) })
	h("time_nanos", func(w *tw) { w.int(p.TimeNanos) })
	h("duration_nanos", func(w *tw) { w.int(p.DurationNanos) })
	h("period_type", func(w *tw) {
		if p.PeriodType == nil {
			w.n(0)
		} else {
			w.n(1)
			w.valueType(p.PeriodType)
		}
	})
	h("period", func(w *tw) { w.int(p.Period) })
	for _, s := range p.Sample {
		var ws, wv, wl tw
		ws.n(len(s.Location))
		for _, l := range s.Location {
			if l == nil {
				ws.tok("nil")
				continue
			}
			if l.Mapping == nil || eraseMappings {
				ws.tok("-")
			} else {
				m := l.Mapping
				ws.nat(m.Start)
				ws.nat(m.Limit)
				ws.nat(m.Offset)
				ws.str(m.File)
				ws.str(m.BuildID)
				ws.bool(m.HasFunctions)
				ws.bool(m.HasFilenames)
				ws.bool(m.HasLineNumbers)
				ws.bool(m.HasInlineFrames)
			}
			ws.nat(l.Address)
			ws.n(len(l.Line))
			for _, ln := range l.Line {
				if f := ln.Function; f == nil {
					ws.tok("-")
				} else {
					ws.str(f.Name)
					ws.str(f.SystemName)
					ws.str(f.Filename)
					ws.int(f.StartLine)
				}
				ws.int(ln.Line)
				ws.int(ln.Column)
			}
			ws.bool(l.IsFolded)
		}
		wv.n(len(s.Value))
		for _, v := range s.Value {
			wv.int(v)
		}
		t := &profile.Sample{Label: s.Label, NumLabel: s.NumLabel, NumUnit: s.NumUnit}
		wl.sample(t)
		bv.samples = append(bv.samples, c01BVSample{ws.String(), wv.String(), wl.String()})
	}
	return bv
}

func c01Multiset(ss []c01BVSample, f func(c01BVSample) string) string {
	ks := make([]string, len(ss))
	for i, s := range ss {
		ks[i] = f(s)
	}
	sort.Strings(ks)
	return strings.Join(ks, "\n")
}

// c01BVDiff names the first part in which two by-value forms differ ("" = equal).
// ignoreValues: the values are judged separately (divide_by).
func c01BVDiff(got, want c01BV, ignoreValues bool) string {
	if got.sampleTypes != want.sampleTypes {
		return "sampleType"
	}
	if len(got.samples) != len(want.samples) {
		return "sample-count"
	}
	full := func(s c01BVSample) string { return s.stack + "|" + s.values + "|" + s.labels }
	noVal := func(s c01BVSample) string { return s.stack + "|" + s.labels }
	if ignoreValues {
		full = noVal
	}
	if c01Multiset(got.samples, full) != c01Multiset(want.samples, full) {
		switch {
		case c01Multiset(got.samples, noVal) == c01Multiset(want.samples, noVal):
			return "values"
		case c01Multiset(got.samples, func(s c01BVSample) string { return s.stack + "|" + s.values }) == c01Multiset(want.samples, func(s c01BVSample) string { return s.stack + "|" + s.values }):
			return "labels"
		case c01Multiset(got.samples, func(s c01BVSample) string { return s.values + "|" + s.labels }) == c01Multiset(want.samples, func(s c01BVSample) string { return s.values + "|" + s.labels }):
			return "stacks"
		}
		return "samples"
	}
	for i := range want.header {
		if i >= len(got.header) || got.header[i] != want.header[i] {
			return "header-" + want.header[i][0]
		}
	}
	return ""
}

// c01DivideOK: out is v/d up to the slack of one float64 operation and truncation to an integer.
func c01DivideOK(v, out, d int64) bool {
	x := new(big.Int).Mul(big.NewInt(out), big.NewInt(d))
	x.Sub(x, big.NewInt(v)).Abs(x)
	slack := new(big.Int).Abs(big.NewInt(v))
	slack.Rsh(slack, 50).Add(slack, big.NewInt(d))
	return x.Cmp(slack) <= 0
}

// ---- running one case ----

func c01CLIOutputs(spec c01CLISpec) []string {
	if spec.Mode != "interactive" {
		return []string{"out.pb.gz"}
	}
	var outs []string
	for _, l := range spec.Script {
		if strings.HasPrefix(l, "proto >") {
			outs = append(outs, strings.TrimPrefix(l, "proto >"))
		}
	}
	return outs
}

func c01CLIExec(c *Ctx, canon string, spec c01CLISpec, slot int) c01CLIRun {
	run := c01CLIRun{exit: -1}
	if c.Pprof == "" {
		run.runErr = "no pprof binary"
		return run
	}
	p, err := ParseCanon(canon)
	if err != nil {
		run.runErr = "ParseCanon: " + err.Error()
		return run
	}
	dir, err := os.MkdirTemp(c.Dir, fmt.Sprintf("c01cli%04d-", slot))
	if err != nil {
		run.runErr = err.Error()
		return run
	}
	defer os.RemoveAll(dir)
	empty := filepath.Join(dir, "empty")
	os.MkdirAll(empty, 0o755)
	var b bytes.Buffer
	in := "in.pb.gz"
	if spec.Plain {
		in = "in.pb"
		err = p.WriteUncompressed(&b)
	} else {
		err = p.Write(&b)
	}
	if err != nil {
		run.runErr = "Write: " + err.Error()
		return run
	}
	if err := os.WriteFile(filepath.Join(dir, in), b.Bytes(), 0o644); err != nil {
		run.runErr = err.Error()
		return run
	}
	args := append([]string{}, spec.Args...)
	var stdin string
	if spec.Mode == "interactive" {
		args = append(args, in)
		stdin = strings.Join(spec.Script, "\n") + "\nquit\n"
	} else {
		args = append(args, "-proto", "-output=out.pb.gz", in)
	}
	ctx, cancel := context.WithTimeout(context.Background(), 60*time.Second)
	defer cancel()
	cmd := exec.CommandContext(ctx, c.Pprof, args...)
	cmd.Dir = dir
	cmd.Env = []string{"PATH=" + empty, "HOME=" + empty, "XDG_CONFIG_HOME=" + empty, "TMPDIR=" + empty,
		"PPROF_TMPDIR=" + empty, "PPROF_BINARY_PATH=" + empty, "TZ=UTC", "TERM=dumb"}
	cmd.Stdin = strings.NewReader(stdin)
	var se bytes.Buffer
	cmd.Stdout, cmd.Stderr = nil, &se
	err = cmd.Run()
	run.stderr = se.String()
	if len(run.stderr) > 4000 {
		run.stderr = run.stderr[len(run.stderr)-4000:]
	}
	if ctx.Err() != nil {
		// overloaded machine or a hang (C09's subject): not a verdict about the round trip
		run.runErr = "timeout after 60s"
		return run
	}
	if err == nil {
		run.exit = 0
	} else if ee, ok := err.(*exec.ExitError); ok {
		run.exit = ee.ExitCode()
		if run.exit < 0 {
			run.exit = 255
		}
	} else {
		run.runErr = err.Error()
		return run
	}
	for _, o := range c01CLIOutputs(spec) {
		ob, err := os.ReadFile(filepath.Join(dir, o))
		if err != nil {
			ob = nil
		}
		run.outs = append(run.outs, ob)
	}
	return run
}

func c01LastLine(s string) string {
	l := strings.Split(strings.TrimSpace(s), "\n")
	return trunc(l[len(l)-1])
}

// c01CLIEval: the direct oracle on the outputs of one pprof run. Returns whether the case was
// non-trivial (an output was re-read and has a sample with a location with a line).
func c01CLIEval(c *Ctx, canon string, spec c01CLISpec, run c01CLIRun) bool {
	cs := c01Case{Profile: canon, CLI: &spec}
	pre := "C01/cli-proto/"
	how := "pprof " + strings.Join(append(append([]string{}, spec.Args...), "-proto", "-output=out", "in"), " ")
	if spec.Mode == "interactive" {
		pre = "C01/cli-interactive/"
		how = "interactive pprof session (" + strings.Join(spec.Script, "; ") + ")"
	}
	if run.exit < 0 {
		c.Res.Notes = append(c.Res.Notes, "C01 cli: cannot run pprof: "+run.runErr)
		c.Res.Hit("cli-not-run")
		return false
	}
	p, err := ParseCanon(canon)
	if err != nil {
		c.Res.HarnessError = "ParseCanon: " + err.Error()
		return false
	}
	// expected: the Lean model's normalize(p); without a model driver, Go's own in-process round trip
	var exp *profile.Profile
	if e, err := ParseCanon(c.Drv.Ask("codec.normalize " + canon)); err == nil {
		exp = e
	} else if q, err := profile.ParseUncompressed(func() []byte { b, _ := writeU(p); return b }()); err == nil {
		exp = q
		c.Res.Hit("cli-expected-from-go-roundtrip")
	} else {
		return false // reported by the in-process stream
	}
	if run.exit != 0 || strings.Contains(run.stderr, "panic:") {
		if strings.Contains(run.stderr, "panic:") || strings.Contains(run.stderr, "goroutine ") {
			c.Violation(pre+"panic", how+" on a valid profile crashed: "+c01LastLine(run.stderr), cs)
		} else {
			c.Violation(pre+"exit", fmt.Sprintf("%s on a valid profile exits %d: %s", how, run.exit, c01LastLine(run.stderr)), cs)
		}
		return false
	}
	eraseMappings := len(p.Mapping) == 0
	want := c01BVOf(exp, eraseMappings)
	nontrivial := false
	for k, ob := range run.outs {
		tag := ""
		if len(run.outs) > 1 {
			tag = fmt.Sprintf(" (output %d of %d)", k+1, len(run.outs))
		}
		if ob == nil {
			c.Violation(pre+"no-output", how+" exits 0 but wrote no profile"+tag+": "+c01LastLine(run.stderr), cs)
			continue
		}
		out, err := profile.ParseData(ob)
		if err != nil {
			c.Violation(pre+"unparseable-output", how+": the written profile does not parse"+tag+": "+err.Error(), cs)
			continue
		}
		c.Res.Hit("cli-outputs-compared")
		for _, s := range out.Sample {
			for _, l := range s.Location {
				if l != nil && len(l.Line) > 0 {
					nontrivial = true
				}
			}
		}
		got := c01BVOf(out, eraseMappings)
		if spec.Divide > 1 {
			if d := c01BVDiff(got, want, true); d != "" {
				c.Violation(pre+"divide-by/"+d, how+": the written profile differs from the input in more than the scaled values"+tag, cs)
				continue
			}
			paired := true
			for i := range got.samples {
				if got.samples[i].stack != want.samples[i].stack || got.samples[i].labels != want.samples[i].labels {
					paired = false
				}
			}
			if !paired {
				c.Res.Hit("cli-divide-unpairable")
				continue
			}
			for i, s := range out.Sample {
				for j, v := range s.Value {
					if in := exp.Sample[i].Value[j]; !c01DivideOK(in, v, spec.Divide) {
						c.Violation(pre+"divide-by/values", fmt.Sprintf("%s: value %d written as %d, documented: divided by %d%s", how, in, v, spec.Divide, tag), cs)
					}
				}
			}
			continue
		}
		if d := c01BVDiff(got, want, false); d != "" {
			what := how + ": the re-read output differs from normalize(input) in " + d + tag
			if d == "values" {
				what += c01FirstValueDiff(out, exp)
			}
			c.Violation(pre+d, what, cs)
			continue
		}
		if eraseMappings {
			continue
		}
		if Canon(out) == Canon(exp) {
			c.Res.Hit("cli-full-canon-identical")
		} else {
			c.Res.Hit("cli-tables-or-ids-differ-only")
		}
	}
	return nontrivial
}

func c01FirstValueDiff(out, exp *profile.Profile) string {
	for i, s := range out.Sample {
		if i >= len(exp.Sample) {
			break
		}
		for j, v := range s.Value {
			if j < len(exp.Sample[i].Value) && exp.Sample[i].Value[j] != v {
				return fmt.Sprintf(" (e.g. sample %d value %d: %d written as %d)", i, j, exp.Sample[i].Value[j], v)
			}
		}
	}
	return ""
}

// ---- generation ----

// c01CLIFlagSets: option combinations that must not change a saved profile.
func c01CLIFlags(r *Rng, p *profile.Profile) []string {
	var a []string
	for k, n := 0, 1+r.Intn(3); k < n; k++ {
		switch r.Intn(8) {
		case 0:
			a = append(a, "-sample_index="+strconv.Itoa(r.Intn(len(p.SampleType))))
		case 1:
			a = append(a, "-unit="+r.Pick([]string{"ms", "minimum", "kb", "auto", "seconds"}))
		case 2:
			a = append(a, "-divide_by=1")
		case 3:
			a = append(a, "-nodecount="+strconv.Itoa(r.Intn(4)))
		case 4:
			a = append(a, "-nodefraction=0.5")
		case 5:
			a = append(a, "-cum")
		case 6:
			a = append(a, "-mean")
		case 7:
			a = append(a, "-edgefraction=0.9")
		}
	}
	return a
}

func c01CLIScript(r *Rng, p *profile.Profile) []string {
	cmds := []string{"top", "top3", "traces", "tags", "raw", "text", "tree", "peek .", "top -cum", "dot"}
	var s []string
	nout := 0
	for k, n := 0, 2+r.Intn(5); k < n; k++ {
		switch r.Intn(7) {
		case 0:
			s = append(s, "sample_index="+strconv.Itoa(r.Intn(len(p.SampleType))))
		case 1:
			s = append(s, "unit="+r.Pick([]string{"ms", "minimum", "kb", "auto"}))
		case 2:
			s = append(s, r.Pick([]string{"nodecount=2", "sort=cum", "divide_by=1", "compact_labels=false", "mean=true"}))
		case 3:
			nout++
			s = append(s, fmt.Sprintf("proto >out%d.pb.gz", nout))
		default:
			s = append(s, r.Pick(cmds))
		}
	}
	nout++
	s = append(s, fmt.Sprintf("proto >out%d.pb.gz", nout))
	return s
}

type c01CLICase struct {
	canon string
	spec  c01CLISpec
	strat string
}

func c01CLIGen(c *Ctx, r *Rng, i int) (c01CLICase, bool) {
	st := c01Strategies[i%len(c01Strategies)]
	p := GenProfile(r, &st.o)
	var spec c01CLISpec
	switch v := (i / len(c01Strategies)) % 10; {
	case v < 4:
		spec = c01CLISpec{Mode: "flag", Kind: "plain"}
	case v < 6:
		spec = c01CLISpec{Mode: "flag", Kind: "options"}
	case v < 7:
		spec = c01CLISpec{Mode: "flag", Kind: "divide"}
	default:
		spec = c01CLISpec{Mode: "interactive", Kind: "interactive"}
	}
	symNone := r.Bool()
	spec.Plain = r.Chance(30)
	c01CLISanitize(r, p, symNone)
	if len(p.SampleType) == 0 {
		c.Res.Hit("cli-skip:no-sample-types")
		return c01CLICase{}, false
	}
	if err := p.CheckValid(); err != nil {
		c.Res.Hit("cli-skip:invalid")
		return c01CLICase{}, false
	}
	if symNone {
		spec.Args = append(spec.Args, "-symbolize=none")
	}
	switch spec.Kind {
	case "options":
		spec.Args = append(spec.Args, c01CLIFlags(r, p)...)
	case "divide":
		spec.Divide = []int64{2, 4, 10, 1000, 3}[r.Intn(5)]
		spec.Args = append(spec.Args, "-divide_by="+strconv.FormatInt(spec.Divide, 10))
	case "interactive":
		spec.Script = c01CLIScript(r, p)
	}
	return c01CLICase{Canon(p), spec, st.name}, true
}

// c01CLIStream: n cases; generation and judgement are sequential (one PRNG, one model driver),
// the pprof processes run in parallel.
func c01CLIStream(c *Ctx, r *Rng, n int) {
	if c.Pprof == "" {
		c.Res.Notes = append(c.Res.Notes, "C01 cli: no pprof binary, CLI stream skipped")
		return
	}
	var cases []c01CLICase
	for i := 0; i < n; i++ {
		if cs, ok := c01CLIGen(c, r, i); ok {
			cases = append(cases, cs)
		}
	}
	runs := make([]c01CLIRun, len(cases))
	var wg sync.WaitGroup
	sem := make(chan struct{}, 16)
	for i := range cases {
		wg.Add(1)
		sem <- struct{}{}
		go func(i int) {
			defer wg.Done()
			defer func() { <-sem }()
			runs[i] = c01CLIExec(c, cases[i].canon, cases[i].spec, i)
		}(i)
	}
	wg.Wait()
	for i, cs := range cases {
		nt := c01CLIEval(c, cs.canon, cs.spec, runs[i])
		c.Res.Count("cli|"+cs.spec.Mode+"|"+strings.Join(cs.spec.Args, " ")+"|"+strings.Join(cs.spec.Script, ";")+"|"+cs.canon, nt)
		c.Res.Hit("cli-kind:" + cs.spec.Kind)
		c.Res.Hit("cli-strategy:" + cs.strat)
		if i < 2 {
			c.Res.Sample(map[string]any{"stream": "cli", "kind": cs.spec.Kind, "args": cs.spec.Args, "script": cs.spec.Script, "profile": trunc(cs.canon)})
		}
	}
}
