//go:build verif && linux

package main

import (
	"os"
	"syscall"
)

// c16SmallPipe shrinks the pipe to one page (F_SETPIPE_SZ); failure is harmless.
func c16SmallPipe(w *os.File) {
	const fSetPipeSz = 1031
	syscall.Syscall(syscall.SYS_FCNTL, w.Fd(), fSetPipeSz, 4096)
}
