//go:build verif

// C20: plug-ins handed to driver.PProf (flag set, UI, writer, fetcher, symbolizer, object tool)
// and the fixed profile the web / options / tempfile mixes serve.  All of them are safe for
// concurrent use themselves, so that every race report points into pprof.
package main

import (
	"bytes"
	"fmt"
	"io"
	"net/http"
	"os"
	"path/filepath"
	"regexp"
	"strings"
	"sync"
	"time"

	"github.com/google/pprof/internal/driver"
	"github.com/google/pprof/internal/plugin"
	"github.com/google/pprof/profile"
)

// ---- flag set ----

type c20Flags struct {
	bools   map[string]bool
	ints    map[string]int
	floats  map[string]float64
	strings map[string]string
	lists   map[string][]string
	args    []string
}

func (c20Flags) ExtraUsage() string      { return "" }
func (c20Flags) AddExtraUsage(string)    {}
func (f c20Flags) Parse(func()) []string { return f.args }
func (f c20Flags) Bool(s string, d bool, _ string) *bool {
	if b, ok := f.bools[s]; ok {
		return &b
	}
	return &d
}
func (f c20Flags) Int(s string, d int, _ string) *int {
	if i, ok := f.ints[s]; ok {
		return &i
	}
	return &d
}
func (f c20Flags) Float64(s string, d float64, _ string) *float64 {
	if g, ok := f.floats[s]; ok {
		return &g
	}
	return &d
}
func (f c20Flags) String(s, d, _ string) *string {
	if t, ok := f.strings[s]; ok {
		return &t
	}
	return &d
}
func (f c20Flags) StringList(s, d, _ string) *[]*string {
	out := []*string{}
	for _, v := range f.lists[s] {
		v := v
		out = append(out, &v)
	}
	return &out
}

// ---- UI: scripted interactive session ----

type c20UI struct {
	mu     sync.Mutex
	msgs   []string
	lines  chan string   // commands for ReadLine; closing it ends the session
	prompt chan struct{} // one token per ReadLine call (the previous command is finished)
}

func newC20UI() *c20UI {
	return &c20UI{lines: make(chan string), prompt: make(chan struct{}, 1<<16)}
}

func (u *c20UI) ReadLine(string) (string, error) {
	u.prompt <- struct{}{}
	l, ok := <-u.lines
	if !ok {
		return "", io.EOF
	}
	return l, nil
}
func (u *c20UI) add(args []interface{}) {
	u.mu.Lock()
	u.msgs = append(u.msgs, fmt.Sprint(args...))
	u.mu.Unlock()
}
func (u *c20UI) Print(args ...interface{})           { u.add(args) }
func (u *c20UI) PrintErr(args ...interface{})        { u.add(args) }
func (u *c20UI) IsTerminal() bool                    { return false }
func (u *c20UI) WantBrowser() bool                   { return false }
func (u *c20UI) SetAutoComplete(func(string) string) {}
func (u *c20UI) messages() []string {
	u.mu.Lock()
	defer u.mu.Unlock()
	return append([]string(nil), u.msgs...)
}

// run sends one command and waits until the session asks for the next one.
func (u *c20UI) run(line string) {
	u.lines <- line
	<-u.prompt
}

// ---- writer ----

type c20Writer struct {
	mu    sync.Mutex
	files map[string][]byte
}

type c20File struct {
	w    *c20Writer
	name string
	bytes.Buffer
}

func (f *c20File) Close() error {
	f.w.mu.Lock()
	f.w.files[f.name] = append([]byte(nil), f.Bytes()...)
	f.w.mu.Unlock()
	return nil
}
func newC20Writer() *c20Writer { return &c20Writer{files: map[string][]byte{}} }
func (w *c20Writer) Open(name string) (io.WriteCloser, error) {
	return &c20File{w: w, name: name}, nil
}
func (w *c20Writer) get(name string) ([]byte, bool) {
	w.mu.Lock()
	defer w.mu.Unlock()
	b, ok := w.files[name]
	return b, ok
}

// ---- symbolizer and object tool ----

type c20NoSym struct{}

func (c20NoSym) Symbolize(string, plugin.MappingSources, *profile.Profile) error { return nil }

const c20AddrBase = 0x1000

type c20Obj struct{ src string }

func (c20Obj) Close() error                        { return nil }
func (c20Obj) Name() string                        { return "testbin" }
func (c20Obj) ObjAddr(addr uint64) (uint64, error) { return addr, nil }
func (c20Obj) BuildID() string                     { return "" }
func (c20Obj) SourceLine(uint64) ([]plugin.Frame, error) {
	return nil, fmt.Errorf("SourceLine unimplemented")
}
func (o c20Obj) Symbols(*regexp.Regexp, uint64) ([]*plugin.Sym, error) {
	var out []*plugin.Sym
	for i := 0; i < 5; i++ {
		out = append(out, &plugin.Sym{Name: []string{fmt.Sprintf("F%d", i+1)}, File: o.src,
			Start: c20AddrBase + uint64(i)*10, End: c20AddrBase + uint64(i)*10 + 10})
	}
	return out, nil
}

type c20ObjTool struct{ src string }

func (t c20ObjTool) Open(string, uint64, uint64, uint64, string) (plugin.ObjFile, error) {
	return c20Obj{t.src}, nil
}
func (c20ObjTool) Disasm(string, uint64, uint64, bool) ([]plugin.Inst, error) {
	var out []plugin.Inst
	for i := 0; i < 5; i++ {
		out = append(out, plugin.Inst{Addr: c20AddrBase + uint64(i+1)*10, Text: fmt.Sprintf("f%d:asm", i+1), Function: fmt.Sprintf("F%d", i+1), Line: 3 + 8*i})
	}
	return out, nil
}

// c20NoObj opens nothing (so that the first source on the command line is not taken for the
// name of an executable, as it would be with an object tool that opens everything).
type c20NoObj struct{}

func (c20NoObj) Open(string, uint64, uint64, uint64, string) (plugin.ObjFile, error) {
	return nil, fmt.Errorf("c20NoObj: no object files")
}
func (c20NoObj) Disasm(string, uint64, uint64, bool) ([]plugin.Inst, error) {
	return nil, fmt.Errorf("c20NoObj: no object files")
}

// c20WebProfile: five functions in one fake source file, six stacks, two sample types.
func c20WebProfile(src string) *profile.Profile {
	var funcs []*profile.Function
	var locs []*profile.Location
	m := &profile.Mapping{ID: 1, Start: c20AddrBase, Limit: c20AddrBase + 1000, File: "testbin", HasFunctions: true, HasFilenames: true, HasLineNumbers: true}
	for i := 0; i < 5; i++ {
		f := &profile.Function{ID: uint64(i + 1), Name: fmt.Sprintf("F%d", i+1), SystemName: fmt.Sprintf("F%d", i+1), Filename: src, StartLine: int64(3 + 8*i)}
		funcs = append(funcs, f)
		locs = append(locs, &profile.Location{ID: uint64(i + 1), Address: c20AddrBase + uint64(i+1)*10, Mapping: m, Line: []profile.Line{{Function: f, Line: int64(5 + 8*i)}}})
	}
	st := func(ix ...int) []*profile.Location {
		var o []*profile.Location
		for _, i := range ix {
			o = append(o, locs[i])
		}
		return o
	}
	return &profile.Profile{
		PeriodType: &profile.ValueType{Type: "cpu", Unit: "milliseconds"}, Period: 1, DurationNanos: 10e9,
		SampleType: []*profile.ValueType{{Type: "samples", Unit: "count"}, {Type: "cpu", Unit: "milliseconds"}},
		Sample: []*profile.Sample{
			{Location: st(2, 1, 0), Value: []int64{10, 100}, Label: map[string][]string{"req": {"a"}}},
			{Location: st(1, 0), Value: []int64{20, 200}, Label: map[string][]string{"req": {"b"}}},
			{Location: st(3, 1, 0), Value: []int64{5, 70}, NumLabel: map[string][]int64{"bytes": {64}}, NumUnit: map[string][]string{"bytes": {"bytes"}}},
			{Location: st(4, 3, 0), Value: []int64{7, 30}},
			{Location: st(4, 0), Value: []int64{1, 15}},
			{Location: st(2, 4, 1, 0), Value: []int64{3, 45}},
		},
		Location: locs, Function: funcs, Mapping: []*profile.Mapping{m},
		Comments: []string{"c20 fixture"},
	}
}

func c20WriteSource(dir string) string {
	var sb strings.Builder
	for i := 1; i <= 60; i++ {
		fmt.Fprintf(&sb, "line %d of the fake source\n", i)
	}
	p := filepath.Join(dir, "c20source.src")
	os.WriteFile(p, []byte(sb.String()), 0o644)
	return p
}

// ---- fetcher ----

// c20Fetcher returns, for source "s<i>", a fresh copy of profile i (never a shared object).
type c20Fetcher struct {
	canon  []string // canonical text of the profiles
	remote bool     // report a source URL, so that pprof saves the merged profile
	jitter []time.Duration
	serial *sync.Mutex // non-nil: fetches run one at a time (the sequential reference)
}

func (f *c20Fetcher) Fetch(src string, _, _ time.Duration) (*profile.Profile, string, error) {
	var i int
	if _, err := fmt.Sscanf(src, "s%d", &i); err != nil || i < 0 || i >= len(f.canon) {
		return nil, "", fmt.Errorf("unknown source %q", src)
	}
	if f.serial != nil {
		f.serial.Lock()
		defer f.serial.Unlock()
	} else if len(f.jitter) > 0 {
		time.Sleep(f.jitter[i%len(f.jitter)])
	}
	p, err := ParseCanon(f.canon[i])
	if err != nil {
		return nil, "", err
	}
	url := ""
	if f.remote {
		url = "http://c20.example/" + src
	}
	return p, url, nil
}

// ---- sessions ----

// c20Session is one driver.PProf invocation running in its own goroutine.
type c20Session struct {
	ui   *c20UI
	w    *c20Writer
	done chan error
}

// c20StartInteractive starts an interactive session on the profile and returns when it is
// waiting at its first prompt (everything PProf does at start-up happened before).
func c20StartInteractive(prof *profile.Profile, obj plugin.ObjTool) *c20Session {
	s := &c20Session{ui: newC20UI(), w: newC20Writer(), done: make(chan error, 1)}
	canon := Canon(prof)
	o := &plugin.Options{
		Flagset: c20Flags{args: []string{"s0"}},
		Fetch:   &c20Fetcher{canon: []string{canon}},
		Sym:     c20NoSym{}, Obj: obj, UI: s.ui, Writer: s.w,
	}
	go func() { s.done <- driver.PProf(o) }()
	select {
	case <-s.ui.prompt:
	case err := <-s.done:
		s.done <- fmt.Errorf("session ended before its first prompt: %v", err)
	}
	return s
}

func (s *c20Session) close() error {
	close(s.ui.lines)
	return <-s.done
}

// c20Web is a web UI started through driver.PProf; handlers come from the HTTPServer hook.
type c20Web struct {
	ui       *c20UI
	handlers map[string]http.Handler
	stop     chan struct{}
	done     chan error
}

func c20StartWeb(prof *profile.Profile, obj plugin.ObjTool) (*c20Web, error) {
	w := &c20Web{ui: newC20UI(), stop: make(chan struct{}), done: make(chan error, 1)}
	got := make(chan map[string]http.Handler, 1)
	canon := Canon(prof)
	o := &plugin.Options{
		Flagset: c20Flags{args: []string{"s0"}, strings: map[string]string{"http": "localhost:4321"}, bools: map[string]bool{"no_browser": true}},
		Fetch:   &c20Fetcher{canon: []string{canon}},
		Sym:     c20NoSym{}, Obj: obj, UI: w.ui, Writer: newC20Writer(),
		HTTPServer: func(a *plugin.HTTPServerArgs) error {
			got <- a.Handlers
			<-w.stop
			return nil
		},
	}
	go func() { w.done <- driver.PProf(o) }()
	select {
	case h := <-got:
		w.handlers = h
		return w, nil
	case err := <-w.done:
		return nil, fmt.Errorf("web UI did not start: %v", err)
	}
}

func (w *c20Web) close() error {
	close(w.stop)
	return <-w.done
}

// c20Resp is what a client sees.
type c20Resp struct {
	status int
	ctype  string
	loc    string
	body   []byte
}

type c20Recorder struct {
	h      http.Header
	status int
	buf    bytes.Buffer
}

func (r *c20Recorder) Header() http.Header { return r.h }
func (r *c20Recorder) WriteHeader(s int) {
	if r.status == 0 {
		r.status = s
	}
}
func (r *c20Recorder) Write(b []byte) (int, error) {
	if r.status == 0 {
		r.status = 200
	}
	return r.buf.Write(b)
}

// get serves one request the way net/http would: one goroutine, its own request and recorder.
func (w *c20Web) get(url string) c20Resp {
	req, err := http.NewRequest("GET", "http://localhost:4321"+url, nil)
	if err != nil {
		return c20Resp{status: -1, body: []byte(err.Error())}
	}
	h := w.handlers[req.URL.Path]
	if h == nil {
		return c20Resp{status: 404}
	}
	rec := &c20Recorder{h: http.Header{}}
	h.ServeHTTP(rec, req)
	if rec.status == 0 {
		rec.status = 200
	}
	return c20Resp{rec.status, rec.h.Get("Content-Type"), rec.h.Get("Location"), rec.buf.Bytes()}
}

func (a c20Resp) same(b c20Resp) bool {
	return a.status == b.status && a.ctype == b.ctype && a.loc == b.loc && bytes.Equal(a.body, b.body)
}
