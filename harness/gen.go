//go:build verif

package main

import (
	"fmt"

	"github.com/google/pprof/profile"
)

// GenOpts steers the structured profile generator. Zero value = small ASCII profile.
type GenOpts struct {
	MaxSampleTypes int  // 1..n sample types (0 ⇒ 2)
	AllowNoTypes   bool // allow 0 sample types (then no samples)
	MaxFuncs       int
	MaxMappings    int
	MaxLocs        int
	MaxLines       int // inline depth per location
	MaxSamples     int
	MaxDepth       int
	SparseIDs      bool // sparse / huge / shuffled ids
	WeirdStrings   bool // empty, non-UTF8, metacharacters
	Labels         bool
	ExtremeValues  bool
	EmptyStacks    bool
	NoLineLocs     bool     // allow locations without line info
	Names          []string // function-name alphabet (nil ⇒ default)
	SmallValues    bool     // values in [-50,50]
	Header         bool     // random header fields
	AllDefault     bool     // over-represent all-default (empty/zero) elements: ValueType{"",""}, empty comments, zero ints
}

func dflt(v, d int) int {
	if v == 0 {
		return d
	}
	return v
}

var defaultNames = []string{"main", "foo", "bar", "baz", "runtime.mallocgc", "runtime.goexit", "a.b.c", "f(int)", "qux", "std::vector<int>::push_back", "x", "y"}
var defaultFiles = []string{"main.go", "a/b.go", "/usr/lib/x.c", "foo.cc", ""}
var weird = []string{"", "\xff\xfe", "a\"b", "back\\slash", "new\nline", "<tag>&amp;", "sp ace", "μs", "\x00", "{}|[];", "日本語", "a", "A"}

func (r *Rng) Str(o *GenOpts, pool []string) string {
	if o.WeirdStrings && r.Chance(35) {
		return weird[r.Intn(len(weird))]
	}
	return pool[r.Intn(len(pool))]
}

func (r *Rng) id(o *GenOpts, used map[uint64]bool, next *uint64) uint64 {
	for {
		var id uint64
		if o.SparseIDs {
			switch r.Intn(6) {
			case 0:
				id = r.U64()
			case 1:
				id = 1<<63 + uint64(r.Intn(4))
			case 2:
				id = ^uint64(0) - uint64(r.Intn(3))
			case 3:
				id = uint64(r.Intn(12)) + 1
			default:
				*next++
				id = *next
			}
		} else {
			*next++
			id = *next
		}
		if id != 0 && !used[id] {
			used[id] = true
			return id
		}
	}
}

func (r *Rng) value(o *GenOpts) int64 {
	if o.SmallValues {
		return int64(r.Intn(101)) - 50
	}
	if o.ExtremeValues {
		return r.Int64()
	}
	if r.Chance(10) {
		return 0
	}
	if r.Chance(15) {
		return -int64(r.Intn(100000))
	}
	return int64(r.Intn(100000))
}

// GenProfile builds a valid in-memory profile (passes CheckValid; every reference in a table).
func GenProfile(r *Rng, o *GenOpts) *profile.Profile {
	p := &profile.Profile{}
	nst := 1 + r.Intn(dflt(o.MaxSampleTypes, 2))
	if o.AllowNoTypes && r.Chance(5) {
		nst = 0
	}
	types := []string{"samples", "cpu", "alloc_space", "inuse_objects", "contentions", "delay"}
	units := []string{"count", "nanoseconds", "bytes", "ms", "kb", ""}
	for i := 0; i < nst; i++ {
		st := &profile.ValueType{Type: r.Str(o, types), Unit: r.Str(o, units)}
		if o.AllDefault && r.Chance(40) {
			st = &profile.ValueType{}
		}
		p.SampleType = append(p.SampleType, st)
	}
	names := o.Names
	if names == nil {
		names = defaultNames
	}
	used := map[uint64]bool{}
	var next uint64
	nm := r.Intn(dflt(o.MaxMappings, 3) + 1)
	for i := 0; i < nm; i++ {
		start := uint64(0x400000 + i*0x100000)
		m := &profile.Mapping{ID: r.id(o, used, &next), Start: start, Limit: start + 0x80000, Offset: uint64(r.Intn(3)) * 0x1000,
			File: r.Str(o, []string{"/bin/prog", "/lib/libc.so.6", "[vdso]", "", "/a/b/c.so"}), BuildID: r.Str(o, []string{"", "abc123", "ff00"}),
			HasFunctions: r.Bool(), HasFilenames: r.Bool(), HasLineNumbers: r.Bool(), HasInlineFrames: r.Bool()}
		if o.ExtremeValues && r.Chance(10) {
			m.Start, m.Limit, m.Offset = r.U64(), r.U64(), r.U64()
		}
		p.Mapping = append(p.Mapping, m)
	}
	used = map[uint64]bool{}
	next = 0
	nf := 1 + r.Intn(dflt(o.MaxFuncs, 6))
	for i := 0; i < nf; i++ {
		n := r.Str(o, names)
		f := &profile.Function{ID: r.id(o, used, &next), Name: n, SystemName: n, Filename: r.Str(o, defaultFiles), StartLine: int64(r.Intn(50))}
		if r.Chance(20) {
			f.SystemName = "_Z" + n
		}
		if o.ExtremeValues && r.Chance(10) {
			f.StartLine = r.Int64()
		}
		p.Function = append(p.Function, f)
	}
	used = map[uint64]bool{}
	next = 0
	nl := 1 + r.Intn(dflt(o.MaxLocs, 8))
	for i := 0; i < nl; i++ {
		l := &profile.Location{ID: r.id(o, used, &next), IsFolded: r.Chance(10)}
		if len(p.Mapping) > 0 && r.Chance(85) {
			l.Mapping = p.Mapping[r.Intn(len(p.Mapping))]
			l.Address = l.Mapping.Start + uint64(r.Intn(0x1000))
		} else {
			l.Address = uint64(r.Intn(0x10000))
		}
		if o.ExtremeValues && r.Chance(10) {
			l.Address = r.U64()
		}
		nln := 1 + r.Intn(dflt(o.MaxLines, 3))
		if o.NoLineLocs && r.Chance(20) {
			nln = 0
		}
		for j := 0; j < nln; j++ {
			ln := profile.Line{Function: p.Function[r.Intn(len(p.Function))], Line: int64(r.Intn(200)), Column: int64(r.Intn(4))}
			if o.ExtremeValues && r.Chance(10) {
				ln.Line, ln.Column = r.Int64(), r.Int64()
			}
			l.Line = append(l.Line, ln)
		}
		p.Location = append(p.Location, l)
	}
	if nst > 0 {
		ns := r.Intn(dflt(o.MaxSamples, 8) + 1)
		for i := 0; i < ns; i++ {
			s := &profile.Sample{}
			d := 1 + r.Intn(dflt(o.MaxDepth, 5))
			if o.EmptyStacks && r.Chance(10) {
				d = 0
			}
			for j := 0; j < d; j++ {
				s.Location = append(s.Location, p.Location[r.Intn(len(p.Location))])
			}
			for j := 0; j < nst; j++ {
				s.Value = append(s.Value, r.value(o))
			}
			if o.Labels {
				r.genLabels(o, s)
			}
			p.Sample = append(p.Sample, s)
		}
	}
	if o.Header {
		p.DropFrames = r.Str(o, []string{"", "foo|bar", "runtime\\..*"})
		p.KeepFrames = r.Str(o, []string{"", "main"})
		p.TimeNanos = r.value(o)
		p.DurationNanos = r.value(o)
		p.Period = r.value(o)
		if r.Chance(70) {
			p.PeriodType = &profile.ValueType{Type: r.Str(o, types), Unit: r.Str(o, units)}
		}
		for i, n := 0, r.Intn(4); i < n; i++ {
			p.Comments = append(p.Comments, r.Str(o, []string{"c1", "c2", "hello world"}))
		}
		p.DocURL = r.Str(o, []string{"", "http://x/y"})
		if o.AllDefault {
			if r.Chance(50) {
				p.PeriodType = &profile.ValueType{}
			}
			p.Comments = append(p.Comments, "")
			if r.Chance(50) {
				p.Comments = append(p.Comments, "", "")
			}
		}
		if len(p.SampleType) > 0 && r.Chance(50) {
			p.DefaultSampleType = p.SampleType[r.Intn(len(p.SampleType))].Type
		}
	}
	return p
}

func (r *Rng) genLabels(o *GenOpts, s *profile.Sample) {
	keys := []string{"k", "key2", "bytes", "request", "thread", ""}
	vals := []string{"v", "w", "true", "", "a b"}
	if r.Chance(50) {
		s.Label = map[string][]string{}
		for i, n := 0, r.Intn(3); i < n; i++ {
			k := r.Str(o, keys)
			var vs []string
			for j, m := 0, r.Intn(3); j < m; j++ {
				vs = append(vs, r.Str(o, vals))
			}
			s.Label[k] = vs
		}
	}
	if r.Chance(50) {
		s.NumLabel = map[string][]int64{}
		s.NumUnit = map[string][]string{}
		for i, n := 0, r.Intn(3); i < n; i++ {
			k := r.Str(o, keys)
			var vs []int64
			for j, m := 0, r.Intn(4); j < m; j++ {
				if r.Chance(25) {
					vs = append(vs, 0)
				} else {
					vs = append(vs, r.Int64())
				}
			}
			s.NumLabel[k] = vs
			switch r.Intn(3) {
			case 0: // no units (the key may have been drawn before: keep the documented alignment)
				delete(s.NumUnit, k)
			case 1: // all units
				us := make([]string, len(vs))
				for j := range us {
					us[j] = r.Str(o, []string{"bytes", "ms", "", "kb"})
				}
				s.NumUnit[k] = us
			case 2:
				s.NumUnit[k] = make([]string, len(vs))
			}
		}
		if r.Chance(10) {
			s.NumUnit["orphan"] = nil
		}
	}
}

func describe(p *profile.Profile) string {
	return fmt.Sprintf("st=%d s=%d m=%d l=%d f=%d", len(p.SampleType), len(p.Sample), len(p.Mapping), len(p.Location), len(p.Function))
}
