//go:build verif

package main

// C18 — generators: metacharacter alphabets placed in every string position of a profile /
// of a graph handed to ComposeDot.

import (
	"fmt"
	"strings"
)

// fragments: metacharacters of DOT, callgrind and HTML, escape look-alikes, non-ASCII, non-UTF-8
var c18Frags = []string{
	`"`, `"`, `\`, `\`, "\n", "\n", "<", ">", "&", "{", "}", "[", "]", "|", ";", "(", ")",
	"é", "日本", "\xff", "\xc3", `\"`, `\\`, `\n`, `\l`, "::", ".", "[...]", `"]`, "\" ]\n}", `"><b>`,
	"(1)", "(12) x", "fn=", "calls=1 2", "+3", "*", "0x10", "#", ":", "=", "->", "%s", "%d", "\t", "\r",
	"'", " ", "/", `\"]`, "<script>", "</script>", "&amp;", "{{.}}", ",", "`",
}

var c18FuncBases = []string{"main", "pkg.Func", "ns::Class::method", "runtime.mallocgc", "f", "std::vector<int>::push_back", "a.b[...].c", "op new"}
var c18FileBases = []string{"main.go", "src/a/b.cc", "/usr/lib/x.c", "f.go", "dir.with.dots/file"}
var c18ObjBases = []string{"/bin/prog", "/usr/lib/libc.so.6", "prog", "a/b/bin"}
var c18KeyBases = []string{"key", "request", "k1", "bytes"}
var c18ValBases = []string{"val", "GET /index", "v1", "user"}
var c18UnitBases = []string{"bytes", "count", "nanoseconds", "ms", "widgets", "kb"}
var c18TypeBases = []string{"cpu", "samples", "alloc_space", "inuse_objects"}

// whole-string adversarial values (end in a backslash, are only a quote, look like directives…)
var c18Whole = []string{`\`, `"`, `a\`, `a"`, `"a`, "\n", "a\nb", `a\"`, `\\`, `x" URL="javascript:z()`, `a" ]` + "\nN9 -> N1 [label=\"",
	"(1)", "(2) other", "fn=(1)", "\nfn=(9)", " ", "  lead", "trail\\", `"\`, `\"\`, "a\n\nb", "*", "+1", "0x0"}

// format look-alikes: strings that are THEMSELVES syntax of a target format, short (1-4 bytes
// mostly) so that "is the reference shorter than the name" style decisions flip, and drawn from
// a small pool so that the same one occurs in several nodes (back-references, repeated ids).
var c18Look = []string{
	// callgrind: name compression, subpositions, position/call lines, comments, blanks
	"(1)", "(2)", "(3)", "(9)", "(12)", "(12) foo", "(1) x", "( 1)", "(1", "1)", "()", "+3", "-3", "*", "0", "7", "0x10",
	"fn=x", "cfn=(1)", "fl=", "ob=(2)", "calls=1 2", "calls=", "# c", "#", " (1)", "(1) ", " x", "x ", "events:", "a=b",
	// DOT: identifiers pprof itself uses, statements, brackets, escape sequences
	"N1", "N2", "N1_0", "NN1_0", "N1 -> N2", "->", "]", "[", "}", "{", `[label="x"]`, `\l`, `\n`, `\"`, `\`, `"`, `""`, ";", "=", "node", "edge", "digraph",
	// HTML / template / JS
	"</script>", "<b>", "{{.}}", "{{", "&#x27;", "&lt;", "<!--", "-->", "'", "`", "</pre>",
}

// c18LookPct is the per-string probability (percent) of a look-alike; set by the runner for each
// case before its input is generated (generation is single-threaded and seeded).
var c18LookPct int

// c18Str builds a string for one position: hot positions get metacharacters and the marker.
func c18Str(r *Rng, bases []string, hot bool, marker string) c18s {
	if c18LookPct > 0 && r.Chance(c18LookPct) {
		// every string position, hot or not, and WITHOUT the marker: the marker would make the
		// string long and unlike the format
		return c18s(c18Look[r.Intn(len(c18Look))])
	}
	base := bases[r.Intn(len(bases))]
	if c18WhitePct > 0 && r.Chance(c18WhitePct) {
		return c18s(c18White(r, base))
	}
	if !hot {
		if r.Chance(12) {
			// a little noise everywhere: positions interact (e.g. file + function in one label)
			return c18s(c18Insert(r, base, 1))
		}
		return c18s(base)
	}
	switch r.Intn(10) {
	case 0:
		return c18s(marker + c18Whole[r.Intn(len(c18Whole))])
	case 1:
		return c18s(c18Whole[r.Intn(len(c18Whole))] + marker)
	case 2:
		w := c18Whole[r.Intn(len(c18Whole))]
		return c18s(w + marker + w)
	}
	return c18s(c18Insert(r, base+marker, 1+r.Intn(4)))
}

func c18Insert(r *Rng, s string, k int) string {
	for i := 0; i < k; i++ {
		f := c18Frags[r.Intn(len(c18Frags))]
		var at int
		switch r.Intn(4) {
		case 0:
			at = 0
		case 1:
			at = len(s)
		default:
			at = r.Intn(len(s) + 1)
		}
		s = s[:at] + f + s[at:]
	}
	return s
}

// string positions of a profile
var c18Positions = []string{"func", "sysname", "file", "mapfile", "buildid", "comment", "labelkey", "labelval",
	"numkey", "numunit", "stype", "sunit", "all"}

var c18Addrs = []uint64{0x1000, 0x1100, 0x1200, 0x1300, 0x1308, 0x2000, 0x400000, 0x400010, 0x7f0000001000,
	0xffffffff81000000, 0xffffffff81000040, 0x10, 0x1, 0xfffffffffffffff0}

// c18GenProf builds a profile description whose position `hot` ("all" = every position) carries
// metacharacters.
// clean = one mapping and pairwise distinct (function, file) names: callgrind then needs no
// "name [i/n]" disambiguation (main stream of the callgrind cases).
func c18GenProf(r *Rng, hot, marker string, tags, clean bool) *c18Prof {
	is := func(pos string) bool { return hot == pos || hot == "all" }
	d := &c18Prof{}
	nt := 1 + r.Intn(2)
	for i := 0; i < nt; i++ {
		t := [2]c18s{c18Str(r, c18TypeBases, is("stype") && i == nt-1, marker), c18Str(r, c18UnitBases, is("sunit") && i == nt-1, marker)}
		if i > 0 && t[0] == d.Types[0][0] {
			t[0] += "2" // sample type names are distinct (pprof rejects duplicates when combining)
		}
		d.Types = append(d.Types, t)
	}
	d.Period = [2]c18s{"cpu", "nanoseconds"}
	if r.Chance(50) {
		d.Duration = int64(1+r.Intn(50)) * 1e8
	}
	nf := 3 + r.Intn(4)
	for i := 0; i < nf; i++ {
		f := c18Func{Name: c18Str(r, c18FuncBases, is("func") && (i < 2 || r.Chance(40)), marker),
			File: c18Str(r, c18FileBases, is("file") && (i < 2 || r.Chance(40)), marker), Start: int64(r.Intn(50))}
		if r.Chance(40) {
			f.SysName = c18Str(r, c18FuncBases, is("sysname"), marker)
		}
		if r.Chance(8) && hot != "func" && !clean {
			f.Name = "" // unnamed: the node is named after the object file
		}
		if r.Chance(10) && hot != "file" && !clean {
			f.File = ""
		}
		// duplicate names in different files make callgrind disambiguation suffixes appear
		if i > 0 && r.Chance(15) {
			f.Name = d.Funcs[r.Intn(i)].Name
		}
		if clean {
			// granularities drop the file or the function name: each must be unique alone
			// (look-alikes are redrawn rather than suffixed, to stay look-alikes)
			taken := func(name bool, v c18s) bool {
				for _, g := range d.Funcs {
					if name && g.Name == v || !name && g.File == v {
						return true
					}
				}
				return false
			}
			for k := 0; taken(true, f.Name); k++ {
				if c18LookPct > 0 && k < 8 {
					f.Name = c18s(c18Look[r.Intn(len(c18Look))])
				} else {
					f.Name += c18s(fmt.Sprintf("_%d", i))
				}
			}
			for k := 0; taken(false, f.File); k++ {
				if c18LookPct > 0 && k < 8 {
					f.File = c18s(c18Look[r.Intn(len(c18Look))])
				} else {
					f.File += c18s(fmt.Sprintf("_%d", i))
				}
			}
		}
		d.Funcs = append(d.Funcs, f)
	}
	nm := 1 + r.Intn(2)
	if clean {
		nm = 1
	}
	for i := 0; i < nm; i++ {
		m := c18Map{Start: uint64(i) * 0x100000000, Limit: uint64(i+1) * 0x100000000,
			File:    c18Str(r, c18ObjBases, is("mapfile") && i == 0, marker),
			BuildID: c18Str(r, []string{"abc123", "deadbeef", ""}, is("buildid") && i == 0, marker)}
		if i == nm-1 {
			m.Limit = ^uint64(0)
		}
		if len(m.BuildID) == 1 {
			m.BuildID += "0" // build ids shorter than 2 bytes crash locateBinaries (C09 finding, not this property)
		}
		d.Maps = append(d.Maps, m)
	}
	// locations: one per function, some with an inlined second line, one without line info
	aoff := r.Intn(len(c18Addrs))
	for i := 0; i < nf; i++ {
		l := c18Loc{Addr: c18Addrs[(aoff+i*(1+r.Intn(2)))%len(c18Addrs)], Mapping: 1 + r.Intn(nm),
			Lines: []c18Line{{Func: i, Line: int64(1 + r.Intn(200))}}}
		if r.Chance(25) {
			l.Lines = append(l.Lines, c18Line{Func: r.Intn(nf), Line: int64(1 + r.Intn(200))})
		}
		d.Locs = append(d.Locs, l)
	}
	if r.Chance(40) {
		d.Locs = append(d.Locs, c18Loc{Addr: c18Addrs[r.Intn(len(c18Addrs))], Mapping: 1})
	}
	ns := 3 + r.Intn(6)
	for i := 0; i < ns; i++ {
		s := c18Sample{}
		depth := 1 + r.Intn(4)
		for j := 0; j < depth; j++ {
			s.Stack = append(s.Stack, r.Intn(len(d.Locs)))
		}
		for j := 0; j < nt; j++ {
			s.Values = append(s.Values, c18Value(r))
		}
		if tags && r.Chance(70) {
			nl := 1 + r.Intn(2)
			for j := 0; j < nl; j++ {
				kv := c18KV{K: c18Str(r, c18KeyBases, is("labelkey") && j == 0, marker)}
				kv.V = append(kv.V, c18Str(r, c18ValBases, is("labelval") && j == 0, marker))
				s.Labels = append(s.Labels, kv)
			}
			if r.Chance(60) {
				n := c18Num{K: c18Str(r, c18KeyBases, is("numkey"), marker), V: []int64{int64(1 << uint(r.Intn(20)))}}
				if r.Chance(60) {
					n.U = []c18s{c18Str(r, c18UnitBases, is("numunit"), marker)}
				}
				s.Nums = append(s.Nums, n)
			}
		}
		d.Samples = append(d.Samples, s)
		if c18ValMode == "cancel" && r.Chance(60) {
			// a twin on the same stack with the opposite weight: the entries of the stack (or some
			// of them) end up with flat = cum = 0, as in a diff of two equal profiles
			t := s
			t.Values = nil
			for _, v := range s.Values {
				t.Values = append(t.Values, -v)
			}
			d.Samples = append(d.Samples, t)
		}
	}
	if is("comment") || r.Chance(30) {
		d.Comments = append(d.Comments, c18Str(r, []string{"a comment", "built with -O2"}, is("comment"), marker))
	}
	return d
}

var c18Grans = []string{"", "functions", "lines", "files", "addresses", "filefunctions"}

func c18GenOpts(r *Rng, d *c18Prof, hot string) c18Opts {
	o := c18Opts{Gran: c18Grans[r.Intn(len(c18Grans))], CallTree: r.Chance(35), KeepAll: r.Chance(70), Compact: r.Chance(20)}
	switch hot {
	case "file":
		o.Gran = []string{"lines", "files", "filefunctions", "addresses"}[r.Intn(4)]
	case "mapfile":
		if r.Chance(50) {
			o.Gran = "addresses"
		}
	}
	if r.Chance(25) {
		o.NodeCount = 1 + r.Intn(6)
	}
	if len(d.Types) > 1 && r.Chance(60) {
		o.SampleIndex = len(d.Types) - 1
	}
	if r.Chance(50) {
		o.Unit = c18OutUnits[r.Intn(len(c18OutUnits))]
	}
	o.DropNeg = r.Chance(15)
	return o
}

func (o c18Opts) args() []string {
	var a []string
	if o.CallTree {
		a = append(a, "-call_tree")
	}
	if o.Gran != "" {
		a = append(a, "-"+o.Gran)
	}
	if o.TagShow != "" {
		a = append(a, "-tagshow="+o.TagShow)
	}
	if o.TagHide != "" {
		a = append(a, "-taghide="+o.TagHide)
	}
	if o.TagLeaf != "" {
		a = append(a, "-tagleaf="+o.TagLeaf)
	}
	if o.TagRoot != "" {
		a = append(a, "-tagroot="+o.TagRoot)
	}
	if o.NodeCount > 0 {
		a = append(a, fmt.Sprintf("-nodecount=%d", o.NodeCount))
	}
	if o.KeepAll {
		a = append(a, "-nodefraction=0", "-edgefraction=0")
	}
	if o.Compact {
		a = append(a, "-compact_labels")
	}
	if o.Unit != "" {
		a = append(a, "-unit="+o.Unit)
	}
	if o.DropNeg {
		a = append(a, "-drop_negative")
	}
	a = append(a, fmt.Sprintf("-sample_index=%d", o.SampleIndex))
	return a
}

// c18GenGraph builds a graph for graph.ComposeDot with metacharacters in position hot
// (name, file, objfile, tag, numtag, unit, title, legend, all).
var c18GraphPositions = []string{"name", "file", "objfile", "tag", "numtag", "unit", "title", "legend", "all"}

func c18GenGraph(r *Rng, hot, marker string) *c18Graph {
	is := func(pos string) bool { return hot == pos || hot == "all" }
	g := &c18Graph{Total: int64(100 + r.Intn(900))}
	if r.Chance(85) || is("title") {
		g.Title = c18Str(r, c18ObjBases, is("title"), marker)
	}
	nl := r.Intn(4)
	if is("legend") && nl == 0 {
		nl = 1
	}
	for i := 0; i < nl; i++ {
		g.Labels = append(g.Labels, c18Str(r, []string{"File: prog", "Type: cpu", "Showing nodes accounting for 10s"}, is("legend"), marker))
	}
	if is("unit") || r.Chance(30) {
		g.Unit = c18Str(r, c18UnitBases, is("unit"), marker)
	}
	nn := 1 + r.Intn(5)
	for i := 0; i < nn; i++ {
		n := c18Node{Flat: int64(r.Intn(100)) - 10, Cum: int64(r.Intn(200))}
		switch r.Intn(5) {
		case 0: // address-only node named after its object
			n.Objfile = c18Str(r, c18ObjBases, is("objfile"), marker)
			n.Addr = c18Addrs[r.Intn(len(c18Addrs))]
		case 1: // file-only
			n.File = c18Str(r, c18FileBases, is("file"), marker)
		case 2: // function + file:line
			n.Name = c18Str(r, c18FuncBases, is("name"), marker)
			n.File = c18Str(r, c18FileBases, is("file"), marker)
			n.Line = 1 + r.Intn(100)
			if r.Chance(30) {
				n.Col = 1 + r.Intn(80)
			}
		case 3:
			n.Name = c18Str(r, c18FuncBases, is("name"), marker)
			n.Objfile = c18Str(r, c18ObjBases, is("objfile"), marker)
		default:
			n.Name = c18Str(r, c18FuncBases, is("name"), marker)
		}
		if is("tag") || is("numtag") || r.Chance(30) {
			nt := 1 + r.Intn(3)
			for j := 0; j < nt; j++ {
				name := string(c18Str(r, c18ValBases, is("tag"), marker))
				if r.Chance(40) {
					name = "k:" + name + `\n` + "k2:" + string(c18Str(r, c18ValBases, is("tag"), marker))
				}
				n.Tags = append(n.Tags, c18Tag{Name: c18s(name), Flat: int64(r.Intn(50)), Cum: int64(1 + r.Intn(50))})
			}
			for j := 0; j < 1+r.Intn(2); j++ {
				nt := c18NumTags{}
				if j == 1 {
					nt.Key = n.Tags[0].Name
				}
				for k := 0; k < 1+r.Intn(6); k++ {
					u := string(c18Str(r, c18UnitBases, is("numtag"), marker))
					v := int64(1 << uint(r.Intn(24)))
					nt.Tags = append(nt.Tags, c18Tag{Name: c18s(fmt.Sprintf("%d%s", v, u)), Unit: c18s(u), Value: v, Flat: int64(r.Intn(30)), Cum: int64(1 + r.Intn(30))})
				}
				n.Nums = append(n.Nums, nt)
			}
		}
		g.Nodes = append(g.Nodes, n)
	}
	if r.Chance(15) {
		// nodes that edges point at but that are not listed in the graph
		g.Unlisted = 1 + r.Intn(2)
		for i := 0; i < g.Unlisted; i++ {
			g.Nodes = append(g.Nodes, c18Node{Name: c18Str(r, c18FuncBases, is("name"), marker)})
		}
		nn += g.Unlisted
	}
	ne := r.Intn(2 * nn)
	seen := map[[2]int]bool{}
	for i := 0; i < ne; i++ {
		e := c18Edge{Src: r.Intn(nn), Dst: r.Intn(nn), Weight: int64(r.Intn(150)) - 10, Residual: r.Chance(20), Inline: r.Chance(20)}
		if seen[[2]int{e.Src, e.Dst}] {
			continue
		}
		seen[[2]int{e.Src, e.Dst}] = true
		g.Edges = append(g.Edges, e)
	}
	return g
}

// c18ValMode selects how sample values are drawn (set by the runner per case, like c18LookPct):
//
//	pos     1..1000
//	small   0..3 with many zeros, and now and then a large value: nodes whose cost is zero or
//	        truncates to zero in a coarse output unit
//	signed  -1000..1000 incl. zero (diff-like profiles)
//	cancel  positive, with exactly cancelling twins on the same stack
var c18ValMode = "pos"

func c18Value(r *Rng) int64 {
	switch c18ValMode {
	case "small":
		if r.Chance(15) {
			return int64(1+r.Intn(5)) << uint(10+r.Intn(25))
		}
		return int64(r.Intn(4))
	case "signed":
		if r.Chance(15) {
			return 0
		}
		return int64(r.Intn(2001)) - 1000
	}
	return int64(1 + r.Intn(1000))
}

// c18SetVals draws the value mode; callgrind costs must be non-negative (Number is unsigned).
func c18SetVals(r *Rng, callgrind bool) string {
	modes := []string{"pos", "pos", "small", "signed", "cancel"}
	if callgrind {
		modes = []string{"pos", "small", "small"}
	}
	c18ValMode = modes[r.Intn(len(modes))]
	return c18ValMode
}

var c18OutUnits = []string{"", "", "minimum", "MB", "GB", "kB", "bytes", "hours", "seconds", "ms", "ns", "count", "auto", "widgets"}

// c18SetLook draws the look-alike mode of a case: none, sprinkled, or heavy.
func c18SetLook(r *Rng) int {
	c18LookPct, c18WhitePct = 0, 0
	switch r.Intn(6) {
	case 0:
		c18LookPct = 15
	case 1, 2:
		c18LookPct = 60
	case 3:
		c18WhitePct = 35
		return -c18WhitePct // recorded as a negative look-alike percentage: white-space mode
	}
	return c18LookPct
}

// white space of every kind a reader, a trimmer or a line splitter may treat specially
var c18WhiteAtoms = []string{" ", "\t", "\n", "\r", "\r\n", "\v", "\f", "\u00a0", "\u2028"}

// c18WhiteAll is the full cross product of the atoms for lengths 1..3 (819 strings).
var c18WhiteAll = func() []string {
	var out []string
	level := []string{""}
	for n := 1; n <= 3; n++ {
		var next []string
		for _, p := range level {
			for _, a := range c18WhiteAtoms {
				next = append(next, p+a)
			}
		}
		out = append(out, next...)
		level = next
	}
	return out
}()

// c18WhitePct: per-string probability (percent) of a white-space string — white space only, or
// white space around a normal name (set per case like c18LookPct).
var c18WhitePct int

func c18White(r *Rng, base string) string {
	w := func() string { return c18WhiteAll[r.Intn(len(c18WhiteAll))] }
	switch r.Intn(5) {
	case 0:
		return w() + base
	case 1:
		return base + w()
	case 2:
		return w() + base + w()
	}
	return w()
}

// HTML payloads: active if they reach the page unescaped.
var c18HTMLPayloads = []string{`<script>MARK()</script>`, `"><img src=x onerror=MARK()>`, `</script><script>MARK()</script>`,
	`";MARK();"`, `</pre><b onmouseover=MARK()>`, `<svg/onload=MARK()>`, `{{MARK}}`, `</title><script>MARK()</script>`}

// raw forms that must never occur in an HTML response
func c18HTMLForbidden(marker string) []string {
	var out []string
	for _, p := range c18HTMLPayloads {
		if strings.Contains(p, "{{") {
			continue
		}
		out = append(out, strings.ReplaceAll(p, "MARK", marker))
	}
	return out
}

func c18GenHTMLProf(r *Rng, hot, marker string) *c18Prof {
	d := c18GenProf(r, "", marker, true, false)
	pay := func() c18s {
		return c18s("x" + strings.ReplaceAll(c18HTMLPayloads[r.Intn(len(c18HTMLPayloads))], "MARK", marker))
	}
	is := func(pos string) bool { return hot == pos || hot == "all" }
	for i := range d.Funcs {
		if is("func") {
			d.Funcs[i].Name = pay()
		}
		if is("sysname") {
			d.Funcs[i].SysName = pay()
		}
		if is("file") {
			d.Funcs[i].File = pay()
		}
	}
	if is("mapfile") {
		d.Maps[0].File = "/bin/" + pay()
	}
	if is("buildid") {
		d.Maps[0].BuildID = pay()
	}
	if is("comment") {
		d.Comments = append(d.Comments, pay())
	}
	if is("stype") {
		d.Types[len(d.Types)-1][0] = pay()
	}
	if is("sunit") {
		d.Types[len(d.Types)-1][1] = pay()
	}
	for i := range d.Samples {
		if is("labelkey") || is("labelval") {
			kv := c18KV{K: "key", V: []c18s{"v"}}
			if is("labelkey") {
				kv.K = pay()
			}
			if is("labelval") {
				kv.V = []c18s{pay()}
			}
			d.Samples[i].Labels = append(d.Samples[i].Labels, kv)
		}
		if is("numkey") || is("numunit") {
			n := c18Num{K: "bytes", V: []int64{64}, U: []c18s{"bytes"}}
			if is("numkey") {
				n.K = pay()
			}
			if is("numunit") {
				n.U = []c18s{pay()}
			}
			d.Samples[i].Nums = append(d.Samples[i].Nums, n)
		}
	}
	return d
}
