//go:build verif

package main

// The "usable" part of the C02 oracle: every method the driver applies to a freshly parsed
// profile before and while it makes a report (internal/driver/fetch.go fetchProfiles:
// SetLabel/Normalize/Scale(-1)/Merge for bases, RemoveUninteresting, CheckValid;
// driver.go: NumLabelUnits, SampleIndexByName, applyFocus = FilterSamplesByName / ShowFrom /
// FilterSamplesByTag / FilterTagsByName with nil matchers, aggregate = Aggregate at every
// granularity) is run under recover on a fresh copy of every accepted profile. An error
// return is an answer; a panic, or a valid profile turned invalid, is a violation.

import (
	"fmt"
	"regexp"
	"runtime/debug"

	"github.com/google/pprof/profile"
)

type c02Step struct {
	name string
	run  func(p *profile.Profile) (valid bool) // valid: the result must still pass CheckValid
}

var c02Dot = regexp.MustCompile(".")

// Aggregate(inlineFrame, function, filename, linenumber, columnnumber, address) as
// driver.aggregate calls it for each granularity, with and without noinlines / showColumns.
var c02Granularities = []struct {
	name string
	a    [6]bool
}{
	{"functions", [6]bool{true, true, false, false, false, false}},
	{"functions-noinlines", [6]bool{false, true, false, false, false, false}},
	{"filefunctions", [6]bool{true, true, true, false, false, false}},
	{"files", [6]bool{true, false, true, false, false, false}},
	{"lines", [6]bool{true, true, true, true, false, false}},
	{"lines-columns", [6]bool{true, true, true, true, true, false}},
	{"addresses-noinlines", [6]bool{false, true, true, true, false, true}},
	{"nothing", [6]bool{false, false, false, false, false, false}},
}

func c02PipelineSteps() []c02Step {
	steps := []c02Step{
		{"RemoveUninteresting", func(p *profile.Profile) bool { p.RemoveUninteresting(); return true }},
		{"NumLabelUnits", func(p *profile.Profile) bool { p.NumLabelUnits(); return false }},
		{"SampleIndexByName", func(p *profile.Profile) bool {
			p.SampleIndexByName("")
			p.SampleIndexByName(p.DefaultSampleType)
			p.SampleIndexByName("0")
			p.SampleIndexByName("nosuchtype")
			return false
		}},
		{"HasFunctions+HasFileLines", func(p *profile.Profile) bool {
			p.HasFunctions()
			p.HasFileLines()
			for _, m := range p.Mapping {
				m.Unsymbolizable()
			}
			return false
		}},
		{"applyFocus-nil", func(p *profile.Profile) bool {
			p.RemoveUninteresting()
			p.FilterSamplesByName(nil, nil, nil, nil)
			p.ShowFrom(nil)
			p.FilterSamplesByTag(nil, nil)
			p.FilterTagsByName(nil, nil)
			return true
		}},
		{"applyFocus-dot", func(p *profile.Profile) bool {
			p.FilterSamplesByName(c02Dot, nil, nil, c02Dot)
			p.ShowFrom(c02Dot)
			p.FilterTagsByName(c02Dot, nil)
			p.PruneFrom(c02Dot)
			return true
		}},
		{"Scale", func(p *profile.Profile) bool {
			p.Scale(-1)
			p.Scale(0.5)
			ratios := make([]float64, len(p.SampleType))
			for i := range ratios {
				ratios[i] = float64(i + 1)
			}
			p.ScaleN(ratios)
			return true
		}},
		{"diff-base", func(p *profile.Profile) bool { // fetchProfiles with -diff_base / -normalize of the profile itself
			pbase := p.Copy()
			pbase.SetLabel("pprof::base", []string{"true"})
			p.Normalize(pbase)
			pbase.Scale(-1)
			if m, err := profile.Merge([]*profile.Profile{p, pbase}); err == nil {
				if e := m.CheckValid(); e != nil {
					panic("merge of the profile with its negated copy is not valid: " + e.Error())
				}
			}
			return true
		}},
		{"labels", func(p *profile.Profile) bool {
			p.SetLabel("k", []string{"v"})
			p.SetNumLabel("n", []int64{1}, []string{"bytes"})
			p.RemoveLabel("k")
			p.RemoveNumLabel("n")
			return true
		}},
	}
	for _, g := range c02Granularities {
		g := g
		steps = append(steps, c02Step{"Aggregate-" + g.name, func(p *profile.Profile) bool {
			p.RemoveUninteresting()
			if err := p.Aggregate(g.a[0], g.a[1], g.a[2], g.a[3], g.a[4], g.a[5]); err != nil {
				panic("Aggregate of a valid profile returns an error: " + err.Error())
			}
			return true
		}})
	}
	return steps
}

var c02Steps = c02PipelineSteps()

// c02Pipeline runs every step on a fresh parse of pb (the written form of the accepted
// profile). Returns the first failure as (signature suffix, description), or "".
func c02Pipeline(pb []byte) (sig, what string) {
	for _, st := range c02Steps {
		p, err := profile.ParseUncompressed(pb)
		if err != nil {
			return "reparse", "written form does not re-parse: " + err.Error()
		}
		var stack string
		mustValid := false
		pn := func() (pn string) {
			defer func() {
				if e := recover(); e != nil {
					pn, stack = fmt.Sprint(e), string(debug.Stack())
				}
			}()
			mustValid = st.run(p)
			return ""
		}()
		if pn != "" {
			return st.name + "/panic/" + c02PanicWhere(stack), st.name + " on a freshly parsed accepted profile panics: " + pn
		}
		if mustValid {
			if e := p.CheckValid(); e != nil {
				return st.name + "/invalid", "an accepted profile no longer passes CheckValid after " + st.name + ": " + e.Error()
			}
		}
	}
	return "", ""
}

// ---- header-field grid: valid profiles with every combination of the header fields ----

var c02HdrRegexps = []string{"", "foo|bar|main", "(", ".*"}  // empty, valid, invalid, matching everything
var c02HdrDefaults = []string{"", "\x01known", "nosuchtype"} // \x01known: replaced by an existing sample type
var c02HdrDocURLs = []string{"", "http://example.com/doc", "not a url \xff"}

const c02HdrCombos = 4 * 4 * 3 * 3 * 2 * 2

// c02HeaderProfile builds a valid profile with ≥1 sample over symbolized locations whose header
// fields follow combination k of the grid drop_frames × keep_frames × default_sample_type ×
// doc_url × period_type present × comments present.
func c02HeaderProfile(r *Rng, k int) (*profile.Profile, string) {
	o := GenOpts{Labels: true, MaxSamples: 6, MaxSampleTypes: 3}
	var p *profile.Profile
	for {
		p = GenProfile(r, &o)
		if len(p.Sample) > 0 && len(p.SampleType) > 0 {
			break
		}
	}
	drop, keep := c02HdrRegexps[k%4], c02HdrRegexps[k/4%4]
	dst := c02HdrDefaults[k/16%3]
	doc := c02HdrDocURLs[k/48%3]
	withPT, withComments := k/144%2 == 0, k/288%2 == 1
	if dst == "\x01known" {
		dst = p.SampleType[r.Intn(len(p.SampleType))].Type
	}
	p.DropFrames, p.KeepFrames, p.DefaultSampleType, p.DocURL = drop, keep, dst, doc
	p.PeriodType, p.Period = nil, 0
	if withPT {
		p.PeriodType, p.Period = &profile.ValueType{Type: "cpu", Unit: "nanoseconds"}, 10
	}
	p.Comments = nil
	if withComments {
		p.Comments = []string{"c1", "", "multi\nline \xff"}
	}
	p.TimeNanos, p.DurationNanos = int64(r.Intn(3)), int64(r.Intn(3))
	return p, fmt.Sprintf("drop=%q keep=%q dst=%q doc=%q pt=%v comments=%v", drop, keep, c02HdrDefaults[k/16%3], doc, withPT, withComments)
}
